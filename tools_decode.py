#!/usr/bin/env python3
"""debug helper: print a world request file with names instead of numbers (documents of `load` requests decoded)"""
import json, sys
side = json.load(open('/verif/lean/AutosarVerif/Gen/side.json'))
def tx(h):
    try: return bytes.fromhex(h).decode()
    except Exception: return h
for x in open(sys.argv[1]):
    w = x.split()
    if not w: continue
    if w[0] == 'load':
        print('load', w[1], tx(w[2]), w[3]); print(tx(w[4]))
        continue
    out = []
    for i, t in enumerate(w):
        if w[0] in ('create', 'named', 'range') and i == 2: t = side['elem_idents'][int(t)]
        elif w[0] in ('named',) and i == 3: t = tx(t)
        elif w[0] in ('mkfile', 'rename', 'lookup', 'refs') and i == 2: t = tx(t)
        elif w[0] in ('attr', 'attrs', 'rmattr') and i == 2: t = side['attr_idents'][int(t)]
        elif t.startswith('S:'): t = 'S:' + tx(t[2:])
        out.append(t)
    print(' '.join(out))
