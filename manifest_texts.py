"""Texts for MANIFEST.json per claimed property."""
NOT_APPLICABLE_REASON = {}
TEXTS = {
    "C18": {
        "design_ref": "DESIGN.md §8 C18, §3.1",
        "technique": "Lean 4 theorems over tables regenerated from the Rust source (decide +kernel on chunks, lifted by generic lemmas); "
                     "differential run of model driver vs library",
        "level_text": "Unbounded theorems, checked by the Lean kernel, about the three perfect-hash name tables, the version tables and the "
                      "specification lookups: item->text->item for every item, injectivity, rejection of EVERY byte string that is not exactly "
                      "an item's text, discriminants = 0..N-1, version value<->bit<->file name bijection, listed=>found for sub-elements and "
                      "attributes of every element type and version, DEST acceptance. The tables are re-read from /repo on every run, so a "
                      "changed cell re-opens a proof obligation; the hand-modelled algorithms are tied by a 1.5M-request correspondence run.",
        "level_note": "Trusted: Lean kernel; axioms propext, Classical.choice, Quot.sound; translator/gen.py (self-validating reader of the "
                      "generated Rust tables); the harness/driver comparison for the algorithms (hashfunc, from_bytes, find_sub_element, ...) "
                      "which are modelled by hand. The spec-lookup theorems are proved for an arbitrary Spec and instantiated with realSpec.",
    },
}
