"""Texts for MANIFEST.json per claimed property."""
NOT_APPLICABLE_REASON = {}
TEXTS = {
    "C18": {
        "design_ref": "DESIGN.md §8 C18, §3.1",
        "technique": "Lean 4 theorems over tables regenerated from the Rust source (decide +kernel on chunks, lifted by generic lemmas); "
                     "differential run of model driver vs library",
        "level_text": "Unbounded theorems, checked by the Lean kernel, about the three perfect-hash name tables, the version tables and the "
                      "specification lookups: item->text->item for every item, injectivity, rejection of EVERY byte string that is not exactly "
                      "an item's text, discriminants = 0..N-1, version value<->bit<->file name bijection, listed=>found for sub-elements and "
                      "attributes of every element type and version, DEST acceptance. The tables are re-read from /repo on every run, so a "
                      "changed cell re-opens a proof obligation; the hand-modelled algorithms are tied by a 1.5M-request correspondence run.",
        "level_note": "Trusted: Lean kernel; axioms propext, Classical.choice, Quot.sound; translator/gen.py (self-validating reader of the "
                      "generated Rust tables); the harness/driver comparison for the algorithms (hashfunc, from_bytes, find_sub_element, ...) "
                      "which are modelled by hand. The spec-lookup theorems are proved for an arbitrary Spec and instantiated with realSpec.",
    },
    "C19": {
        "design_ref": "DESIGN.md §8 C19",
        "technique": "Lean 4: Brzozowski-derivative bisimulation certificate per regenerated DFA table (decide +kernel) + generic soundness "
                     "theorem; reference matcher proved equal to the inductive regex semantics; conformance run for hand-written validators",
        "level_text": "For every table-driven validator found in regex.rs the theorem `validate_k s <-> s matches the published regex` is proved "
                      "for ALL byte strings (certificate check in the kernel over the regenerated table, lifted by checkDfa_sound). A changed "
                      "table cell or accepting set re-opens the obligation and the Lean side computes the shortest distinguishing string, which "
                      "is replayed on the real validator. For the 15 hand-written validators the claim is partial: the reference semantics "
                      "(matchD = Matches, proved) is compared with the real functions on W-method style conformance tests.",
        "level_note": "Trusted: Lean kernel; axioms propext, Classical.choice, Quot.sound; translator (tables, accepting sets, loop-shape check); "
                      "Rx.parseRegex as the definition of the regex dialect. Three tables (12, 18, 26) are known findings: pinned by content "
                      "hash, negation witnesses proved in Lean and replayed on the implementation on every run. Hand-written validators: "
                      "differential only (not a theorem about the Rust code).",
    },
    "C20": {
        "design_ref": "DESIGN.md §8 C20",
        "technique": "Lean 4 theorems about an executable model of chardata.rs and the std conversions it uses; differential run of "
                     "the model against the library over the lexical forms, all integer widths and all f64 bit classes",
        "level_text": "Proved for all inputs: unescape(escape s) = s for every byte string; parse(to_string n) = n for the whole u64 range; "
                      "for every text of the AUTOSAR integer lexical forms (defined independently of the parser) and every signedness/width, "
                      "parse_integer returns the denoted number iff it fits and never another number; parse_bool accepts exactly the four "
                      "texts; the rounding core (nearest, ties to even). Float parsing/printing is partial: modelled with exact rational "
                      "arithmetic and compared with the library (0 disagreements on 2.5M requests), not proved about std.",
        "level_note": "Trusted: Lean kernel; axioms propext, Classical.choice, Quot.sound; the hand model is tied to chardata.rs only by the "
                      "correspondence run. Known finding: parse_float returns None for radix-form texts above u64::MAX (negation witness "
                      "proved, replayed on every run).",
    },
    "C02": {
        "design_ref": "DESIGN.md §8 C02",
        "technique": 'Lean 4 theorems about executable models of the tokenizer and of the whole parser (progress measure, budget sufficiency, line-counter invariant); differential run of both models against the real loader on every input (error kind and line, warnings) + panic/hang/line-range oracle over exhaustive short strings and mutations',
        "level_text": 'Proved for all byte strings: every call of the tokenizer returns, tokenising terminates within 2*len+4 calls, every reported tokenizer line lies in [1, 1 + newlines]; and for the model of parser.rs (parse_arxml .. parse_character_data): in both modes the run ends with a document or a genuine tokenizer / parser error - its step budget is never what ends it. Both models answer every `load` request of the run and are compared with the library on error kind, error line and the list of warnings (2.3 million requests in the quick tier). Never-panic of the real code and the header check are decided by the run (catch_unwind, watchdog, child process for deep nesting): partial.',
        "level_note": "Trusted: Lean kernel; axioms propext, Classical.choice, Quot.sound; the lexer model is tied to lexer.rs only by the "
                      "correspondence run. Known finding: stack overflow on documents nested tens of thousands of elements deep (child "
                      "process replay on every run). Stack depth, allocator and timing are outside the model.",
    },
    "C03": {
        "design_ref": "DESIGN.md §8 C03, §4.2",
        "technique": "Lean 4 theorems about an executable model of the element tree / path index / reverse reference map and its editing "
                     "operations; differential run of the model against the library on operation histories with full state dumps; direct "
                     "property oracle on the library",
        "level_text": 'Proved, invariant by induction over operations: in EVERY state reachable from the empty world by ANY history of the core operations (new model, create_file, create / create_named with position, remove, set / remove character data, set / set-string / remove attribute, comment, insert / remove text item, add_to_file, remove_from_file, remove_file, set_version) the parent fields agree with the tree structure in every model; the driver answers these requests with the very step function the theorem is about. Navigation from the root sees exactly the structural ancestors. Rename, move, copy, sort, references and loading are compared with the library after every request (dumps include every parent field); iterators and stale handles are decided by the oracle on the library: partial. ADDED: the same invariant over the larger alphabet (core operations + set_item_name + set_reference_target + sort; C03_every_reachable_state_is_a_tree_larger_alphabet); the explicit-stack machines of ElementsDfsIterator / the file-scoped iterator / sub_elements (Model/Iter.lean, answered by the driver for dfs / dfsf / subs requests and compared with the library) enumerate exactly the recursive preorder with depth limit, resp. the view of the file, with loop fuel never exhausted and the position stack never indexed out of range (C03_dfs_iterator_is_preorder, C03_file_iterator_lists_the_view, C03_sub_elements_iterator).',
        "level_note": "Trusted: Lean kernel; axioms propext, Classical.choice, Quot.sound; the hand model is tied to the Rust code by the "
                      "correspondence run only (244 of 300 quick histories are compared to the end, the others up to the first file-set "
                      "operation / move between models). " + 'Partial: World.wf preservation is a theorem for 3 operations only.',
    },
    "C04": {
        "design_ref": "DESIGN.md §8 C04, §4.2",
        "technique": "Lean 4 theorems about an executable model of the element tree / path index / reverse reference map and its editing "
                     "operations; differential run of the model against the library on operation histories with full state dumps; direct "
                     "property oracle on the library",
        "level_text": 'Proved, as an invariant by induction over operations with no bound on the history (C04_index_exact_reachable): in every state reachable by any history of the 17 core operations of the step function the driver runs (new model, create_file, create / create_named (with position), remove, set_character_data incl. renaming through the SHORT-NAME text, remove_character_data, the attribute calls, comment, text items, add_to_file, remove_from_file, remove_file, set_version), in every model, a lookup answers element i for path q exactly when navigation finds i, i has an item name and Element::path computes q; paths are pairwise different; ids are unique. Two explicit guards (no element CALLED SHORT-NAME created through create_sub_element; file versions within vOk) exclude exactly the two points where the statement is false of model and library; each has a Lean negation witness and a replayed known finding. The facts needed from the specification are checked on the regenerated tables by kernel evaluation (all versions except 4.0.1). Also proved: fix_identifiables as a whole is the key rewriting (/pkg1 vs /pkg10), remove_internal removes exactly the entries of the subtree, finite-map laws. ADDED: the index-exactness invariant over ALL histories of the larger alphabet (C04_index_exact_reachable_larger_alphabet: + set_item_name, set_reference_target, sort).',
        "level_note": "Trusted: Lean kernel; axioms propext, Classical.choice, Quot.sound; the hand model (the step function applyOp) is tied to the Rust code by the "
                      "correspondence run only (the driver answers the requests with applyOp; every dump holds the whole index). "
                      + 'Partial: set_item_name, move, copy, sort, set_reference_target and loading are outside the proved alphabet (compared with the library after every request + direct oracle). Hypothesis IdxHyp.noSlash (an accepted SHORT-NAME value contains no "/") is a statement about validate_regex_8, which C19 ties to its regex. Known findings c04:* (four) are replayed on every run.',
    },
    "C05": {
        "design_ref": "DESIGN.md §8 C05, §4.2",
        "technique": "Lean 4 theorems about an executable model of the element tree / path index / reverse reference map and its editing "
                     "operations; differential run of the model against the library on operation histories with full state dumps; direct "
                     "property oracle on the library",
        "level_text": 'Proved, as an invariant by induction over operations with no bound on the history (C05_referrers_exact_reachable): in every state reachable by any guarded history (the guards of C04) of the 17 core operations of the step function the driver runs — incl. set_character_data / remove_character_data on reference elements, removal of subtrees that hold references, remove_from_file / remove_file — in every model, an element is listed as referrer of a path exactly once if it is a reference element of the tree whose text is that path and not at all otherwise; no empty list, keys pairwise different. Two auxiliary invariants forced by the proof are proved alongside (a reference element has no child elements; the root keeps the root type). The facts needed about reference types are checked on the regenerated tables by kernel evaluation (C05_real_tables, 1145 reference types). Also proved for all map contents: the map as a multiset under add / remove / fix, and the rewriting loop of set_item_name on the whole map (moved lists are merged onto existing keys, nothing dropped). ADDED: referrer-list exactness over all histories of the larger alphabet; the SECOND sentence of the property as theorems over all such histories: check_references lists exactly the reference elements whose get_reference_target fails, each once (C05_report_is_exact, C05_absent_from_report_iff_resolves, C05_report_in_words), get_reference_target is sound (C05_resolve_is_sound), ids of different models are disjoint; after a successful set_reference_target the reference resolves to the target (C05_set_reference_target_resolves).',
        "level_note": "Trusted: Lean kernel; axioms propext, Classical.choice, Quot.sound; the hand model (the step function applyOp) is tied to the Rust code by the "
                      "correspondence run only (the driver answers the requests with applyOp; every dump holds every key of the reverse map via hook H1). "
                      + 'Partial: set_item_name, move, copy, set_reference_target and loading are outside the proved alphabet; the invalid-reference report / resolve equivalence is decided by correspondence + oracle, not by a theorem.',
    },
    "C06": {
        "design_ref": "DESIGN.md §8 C06, §4.2",
        "technique": "Lean 4 theorems about an executable model of the element tree / path index / reverse reference map and its editing "
                     "operations; differential run of the model against the library on operation histories with full state dumps; direct "
                     "property oracle on the library",
        "level_text": "Proved: the test that decides which references a rename/move rewrites selects exactly the element's own path and real descendants (`old` or `old/...`), never a sibling sharing a textual prefix, and keeps the suffix. That rewritten references resolve to the same element object is checked on every rename/move of the run by the dump comparison and by the oracle on the real library. NOW PROVED for set_item_name over all histories of the larger alphabet (C06_rename_follows_in_every_reachable_state): every reference of the model keeps designating the same element object (index re-keyed one-to-one, reference texts re-keyed alike), all other references keep their text; false without exact referrer lists (negation witness). Moves remain correspondence + oracle.",
        "level_note": "Trusted: Lean kernel; axioms propext, Classical.choice, Quot.sound; the hand model is tied to the Rust code by the "
                      "correspondence run only (244 of 300 quick histories are compared to the end, the others up to the first file-set "
                      "operation / move between models). " + 'Partial: for moves the end-to-end target identity is correspondence + oracle; for renames it is a theorem over all histories.',
    },
    "C11": {
        "design_ref": "DESIGN.md §8 C11, §4.2",
        "technique": "Lean 4 theorems about an executable model of the element tree / path index / reverse reference map and its editing "
                     "operations; differential run of the model against the library on operation histories with full state dumps; direct "
                     "property oracle on the library",
        "level_text": 'Proved for all worlds and arguments: the whole step function (C11_every_core_operation): whichever of the 17 core operations the driver is asked to perform, a refusal returns the identical world and is printed as err; individually, an error answer of create, named create, remove, rename, set/remove character data, set attribute (both forms), insert/remove text item, deep copy, add_to_file, remove_from_file, set_version and a rejected first load returns the identical world. set_reference_target and move_element_here mutate before their last fallible step in the code and in the model (no theorem; searched by the oracle). Loads: merge scenario on the real library. ADDED: the error frame for the larger step function incl. set_reference_target (holds since fix 9fe96d3, a defect found by this proof obligation).',
        "level_note": "Trusted: Lean kernel; axioms propext, Classical.choice, Quot.sound; the hand model is tied to the Rust code by the "
                      "correspondence run only (244 of 300 quick histories are compared to the end, the others up to the first file-set "
                      "operation / move between models). " + 'Partial: the frame theorems cover the 17 operations of the step function plus rename and deep copy; move, sort, merging loads and the two late-failure sites (set_reference_target, move_element_here) are documented, not proved.',
    },
    "C01": {
        "design_ref": 'DESIGN.md §8 C01',
        "technique": 'Lean 4 theorems about the value layer and the tokenizer; executable models of the whole parser and of the serializer, run against the library on every document of the run (load: tree, index, references, warnings; serialize: the text byte for byte); oracle on the real loader/serializer (independent XML reader, fixpoint)',
        "level_text": "Proved for all inputs: every string / u64 / enumeration item survives write+read; the escaped form of any string contains no '<' so the tokenizer reads it back as one character run; all-blank runs produce no event; a comment event carries exactly the bytes between the delimiters; both modes agree on values. The element-level statement (model equality after load-serialize-load in all versions and modes) is checked on the real library with an independent XML reader as oracle: partial. ADDED (token level, all sizes and depths): for every lexically well-formed tree the tokenizer model reads the xml declaration + the text the serializer model writes for a file back as exactly the expected event sequence (header, comments, start tags with attribute text, character runs, end tags incl. the deferred end of <X/>, eof), no lexer error (C01_tokenizer_inverts_serializer); over the regenerated name tables the hypotheses reduce to 'names are discriminants, comments contain no -->', and every text set_comment can store satisfies it (since fix e219cf2, a defect this theorem's hypothesis exposed).",
        "level_note": 'Trusted: Lean kernel; axioms propext, Classical.choice, Quot.sound. The identity parse(serialize(t)) = t at element level is decided by the correspondence run and the oracle, not by a theorem; f64::to_string is outside the serializer model; known findings c01:* are replayed on every run.',
    },
    "C08": {
        "design_ref": 'DESIGN.md §8 C08, Appendix D.4',
        "technique": "Lean 4 theorems about an executable model of the whole parser written in the parser's own error discipline (optional_error as the only reader of `strict`); differential run of that model against the library on documents (tree, index, warnings and errors with kind and line, both modes); oracle on the library for the list of documented constraints",
        "level_text": "Proved: lock-step of the two modes is closed under sequencing and holds of the three primitives; the WHOLE parser model (file header, parse_element with sub-element lookup, version / choice / multiplicity / SHORT-NAME checks, parse_attribute_text, parse_character_data for all five value kinds, unescape_string) is lock-step, hence for every buffer: a lenient run without warnings is identical to the strict run, and if the lenient run has warnings the strict run fails with exactly the first. The model answers the `load` requests of the document scenario and is compared with the library. 'No holes' (documented constraint violations never accepted by strict loading) is decided by the oracle on the library: partial.",
        "level_note": 'Trusted: Lean kernel; axioms propext, Classical.choice, Quot.sound. String::from_utf8_lossy on invalid UTF-8 is outside the parser model; known finding c08:empty-short-name-accepted.',
    },
    "C09": {
        "design_ref": 'DESIGN.md §8 C09',
        "technique": 'Lean 4 theorems about the specification of merging (union of projections, attribution, order independence) and about an executable model of the merge algorithm (merge_element .. import_new_items) that, with the parser model, answers every load of every load order and is compared with the library; oracle on the real loader over random masters, all splits at splittable points and all load orders',
        "level_text": 'Proved: for every master, split and file order the union of the per-file views is exactly the master, independent of the order, with exact attribution (specification level); for the model of the merge algorithm: no element of the model is lost by a merge, successful or not. The merge model is compared with the library after every load of every load order (tree, local file sets, index, reference map, sorted result). That the merged model equals the union and does not depend on the order is decided by the oracle: partial.',
        "level_note": 'Trusted: Lean kernel; axioms propext, Classical.choice, Quot.sound. Four known findings c09:* (the merge model reproduces them).',
    },
    "C10": {
        "design_ref": 'DESIGN.md §8 C10',
        "technique": 'Lean 4 theorems about an executable model of the element tree / file sets / copy / sort and its operations; differential run of the model against the library on operation histories with full state dumps; direct property oracle on the library',
        "level_text": 'Proved, invariant by induction over operations: in EVERY state reachable by ANY history of the core operations (create_file, add_to_file with the upward walk of add_to_file_restricted, remove_from_file, remove_file, element creation and removal, value / attribute / comment / text edits, set_version) every local file set lies within the effective set of the parent; inheritance of the effective set; every element of a model whose root is in a file is in some file. The models of these operations answer the requests of the run and are compared with the library on full dumps. Self-contained file texts and the exactness of remove_file are decided by the oracle (files histories incl. load, merge scenario): partial. ADDED: the text the serializer model writes for a file is the text of exactly the view of the file defined by effective file sets (C10_file_text_is_text_of_view, literal equation under ShapeOk with a negation witness: the hollow element); view membership = file_membership(); every element of every reachable model is in the view of some file; the invariant over the larger alphabet.',
        "level_note": 'Trusted: Lean kernel; axioms propext, Classical.choice, Quot.sound. Not preserved by the library (known findings): move keeps the file sets of descendants, add_to_file accepts a removed file, SHORT-NAME with a set of its own.',
    },
    "C12": {
        "design_ref": 'DESIGN.md §8 C12',
        "technique": 'Lean 4 theorems about an executable model of the element tree / file sets / copy / sort and its operations; differential run of the model against the library on operation histories with full state dumps; direct property oracle on the library',
        "level_text": 'Proved: the specification tables the lookups index into are in range and of bounded nesting (regenerated obligations); tokenising is total; every modelled operation is a total function, on error with the world unchanged; a lock program that passes runsAlone never blocks a single thread. `Never panics / blocks` of the real code is an oracle matter (catch_unwind and watchdog around every request of every history): partial.',
        "level_note": "Trusted: Lean kernel; axioms propext, Classical.choice, Quot.sound. " + 'Known finding c12:move-to-ancestor-parent-locked. Stack depth outside the model.',
    },
    "C07": {
        "design_ref": 'DESIGN.md §8 C07',
        "technique": 'Lean 4 theorems about an executable model of calc_element_insert_range and element creation; differential run of the model against the library (range / valid / create-at requests); direct property oracle on the library (scenario edits)',
        "level_text": 'Proved for all specifications and contents: creation at a position succeeds exactly when the position lies in the reported range; for a parent whose children and the new element lie in one SEQUENCE group the range is exactly the set of positions that keep the children in specification order, and without repetition the request is refused exactly when the element is present; BAG/MIXED parents accept every position, CHARACTERS parents none. CHOICE and nested groups, value spaces and the lenient reload are decided by correspondence and by the oracle on the library: partial.',
        "level_note": "Trusted: Lean kernel; axioms propext, Classical.choice, Quot.sound. " + 'Ten families of genuine violations found by the oracle are listed as known findings (copy/move keep the source type, cross-version copies, move inside one parent, sort order per version, set_character_data on named mixed content).',
    },
    "C17": {
        "design_ref": 'DESIGN.md §8 C17',
        "technique": 'Lean 4 theorems about an executable model of check_version_compatibility / set_version; differential run of the model against the library (compat / setver requests with full error lists and masks); direct property oracle on the library (scenario edits: strict reload of the relabelled text)',
        "level_text": 'Proved for all trees, specifications and target versions: the exact meaning of "lists nothing" as a recursive condition on version masks; the mask contains the target version if nothing is listed, every listed entry either excludes the target by its own mask (and then clears it in the result) or is a wrong-kind value; set_version is refused exactly when something is listed, a refusal changes nothing, success changes only the version of that file. Equivalence with strict validation of the relabelled text is decided on the library by the oracle: partial.',
        "level_note": "Trusted: Lean kernel; axioms propext, Classical.choice, Quot.sound. " + 'Three families of genuine violations (attribute / SHORT-NAME / pattern differences between versions not reported) are known findings.',
    },
    "C13": {
        "design_ref": 'DESIGN.md §8 C13',
        "technique": 'Lean 4 theorems about an executable model of the element tree / file sets / copy / sort and its operations; differential run of the model against the library on operation histories with full state dumps; direct property oracle on the library',
        "level_text": 'Proved for all inputs: the copy of a node gets a fresh identity and the destination as parent, keeps name, type and comment and has no local file set; non-enumeration values are never dropped by the version filter; a refused copy changes nothing. Whole-subtree equality, registration and independence are checked by the copy histories (model comparison for same-model copies; oracle on the real library incl. duplicate()): partial. ADDED (whole subtree, all sizes): ids of a copy are fresh and in document order, parent fields consistent, no file sets; a same-version copy of content permitted in the version equals the source up to identities; a cross-version copy equals the specification-level filter (omits exactly what is not permitted) and fails exactly when the filter fails; the fuel of the model never truncates; the source subtree is still in its tree; under CopyPathsOk (true for same-version copies of named elements) every copied identifiable / reference is findable and the new index is exactly the old one followed by the entries of the copy; negation witness for the collision finding.',
        "level_note": "Trusted: Lean kernel; axioms propext, Classical.choice, Quot.sound. " + 'Copies between models and duplicate() are oracle-only.',
    },
    "C14": {
        "design_ref": 'DESIGN.md §8 C14',
        "technique": 'Lean 4 theorems about an executable model of the element tree / file sets / copy / sort and its operations; differential run of the model against the library on operation histories with full state dumps; direct property oracle on the library',
        "level_text": 'Proved for an arbitrary comparison: sorting is a permutation (nothing lost or duplicated); with a total preorder it is idempotent and leaves sorted lists alone; if different siblings never tie the result is independent of the previous order; the index-path key is a total order. `sort` requests are answered by the Lean model of ElementRaw::sort / Ord for Element and compared with the library. ADDED (on trees; sortNode/opSort are what the driver runs): every header and (without stray text) every value is kept, only permitted reorderings, never fails, tree stays well-formed; in worlds with exact index / referrer lists whose children are known to their parents\' types (an invariant of all histories) lookups answer as before and stay exact - a SHORT-NAME stays first (negation witness without the hypothesis); sorting a subtree twice = once for a comparison that is a total preorder on the elements that occur; the float comparison of the repaired library (total_cmp, fix e83012f) is a linear order, the old one was not transitive (2 <= NaN <= 1), which is how that defect was found.',
        "level_note": "Trusted: Lean kernel; axioms propext, Classical.choice, Quot.sound. " + 'Assumes Element ordering is a total preorder (it was cyclic before the repair of finding #6).',
    },
    "C15": {
        "design_ref": "DESIGN.md §8 C15, §7 (hook H2)",
        "technique": "Lean 4 theorems about a model of reader/writer locks, lock programs and their interleavings; deterministic schedule exploration of "
                     "operation pairs on the real library through a lock shim (hook H2), real-thread confirmation",
        "level_text": 'Proved for any number of threads and programs of any length: if every program takes its blocking locks in increasing order of a fixed order on locks and releases what it takes, no reachable state is a deadlock (invariant + progress); the exhaustive interleaving search used for concrete programs is part of the model. The crate does not follow the discipline: 37 operation pairs deadlock under the scheduler (five lock-cycle families), 35 of them also on real threads; they are known findings replayed on every run. Partial by nature (OS scheduling outside the model).',
        "level_note": "Trusted: Lean kernel; axioms propext, Classical.choice, Quot.sound; hook H2 and the scheduler in it. " + "The theorem's hypothesis does not hold of the recorded programs of the real code; what is decided per run is the oracle (no new deadlocking pair).",
    },
    "C16": {
        "design_ref": "DESIGN.md §8 C16, §7 (hook H2)",
        "technique": "Lean 4 theorems about a model of reader/writer locks, lock programs and their interleavings; deterministic schedule exploration of "
                     "operation pairs on the real library through a lock shim (hook H2), real-thread confirmation",
        "level_text": 'Proved: granting a write lock means nobody holds the lock (basis of atomic critical sections); negation witness of the full statement for two loads into an empty model in an abstract check-then-act model (both files registered, one content lost, neither serial order). Serializability of the real operation pairs is explored on the real library under the deterministic scheduler and compared with both serial orders: partial.',
        "level_note": "Trusted: Lean kernel; axioms propext, Classical.choice, Quot.sound; hook H2 and the scheduler in it. " + '38 non-serializable pairs are known findings replayed on every run.',
    },
}
