#!/usr/bin/env python3
"""Translator: reads the *generated* Rust tables of /repo's current working tree and rewrites
/verif/lean/AutosarVerif/Gen/*.lean.  It validates its own reading (declared array lengths,
index ranges, uniqueness) and fails loudly (exit 2 + a JSON report) when it cannot read a
file: that is reported by ./check as "correspondence broken: translator cannot read <file>".

A file is rewritten only when its content changes, so lake's cache stays warm.
Usage: gen.py [--repo /repo] [--out lean/AutosarVerif/Gen] [--report file.json] [parts...]
parts: names versions hash spec dfa regex (default: all)
"""
import hashlib
import json
import os
import re
import sys

REPO = "/repo"
OUT = os.path.join(os.path.dirname(os.path.abspath(__file__)), "..", "lean", "AutosarVerif", "Gen")
SPECSRC = "autosar-data-specification/src"
CHUNK = 256


class ReadError(Exception):
    pass


def src(path):
    with open(os.path.join(REPO, path), "r", encoding="utf-8") as f:
        return f.read()


def sha(path):
    with open(os.path.join(REPO, path), "rb") as f:
        return hashlib.sha256(f.read()).hexdigest()


def write_if_changed(name, text):
    path = os.path.join(OUT, name)
    os.makedirs(OUT, exist_ok=True)
    try:
        with open(path, "r", encoding="utf-8") as f:
            if f.read() == text:
                return False
    except FileNotFoundError:
        pass
    with open(path + ".tmp", "w", encoding="utf-8") as f:
        f.write(text)
    os.replace(path + ".tmp", path)
    return True


def pack(b: bytes) -> int:
    return int.from_bytes(b + b"\x01", "little")


def need(cond, msg):
    if not cond:
        raise ReadError(msg)


# ----------------------------------------------------------------------------------------------
# name tables (elementname.rs / attributename.rs / enumitem.rs)
# ----------------------------------------------------------------------------------------------

def rust_str_items(body, fname):
    """items of a Rust array of plain string literals (no escapes expected except \\\" and \\\\)"""
    items = []
    pos = 0
    n = len(body)
    while pos < n:
        c = body[pos]
        if c in " \t\r\n,":
            pos += 1
            continue
        need(c == '"', f"{fname}: unexpected character {c!r} in string table")
        pos += 1
        out = []
        while True:
            need(pos < n, f"{fname}: unterminated string literal")
            c = body[pos]
            if c == "\\":
                need(pos + 1 < n, f"{fname}: bad escape")
                e = body[pos + 1]
                need(e in '"\\', f"{fname}: unsupported escape \\{e}")
                out.append(e)
                pos += 2
            elif c == '"':
                pos += 1
                break
            else:
                out.append(c)
                pos += 1
        items.append("".join(out))
    return items


def read_name_table(fname, enum):
    text = src(f"{SPECSRC}/{fname}")
    m = re.search(r"const STRING_TABLE: \[&'static str; (\d+)\] = \[(.*?)\];", text, re.S)
    need(m, f"{fname}: STRING_TABLE not found")
    n_names = int(m.group(1))
    names = rust_str_items(m.group(2), fname)
    need(len(names) == n_names, f"{fname}: STRING_TABLE declares {n_names} items, read {len(names)}")
    m = re.search(r"static DISPLACEMENTS: \[\(u16, u16\); (\d+)\] = \[(.*?)\];", text, re.S)
    need(m, f"{fname}: DISPLACEMENTS not found")
    n_disp = int(m.group(1))
    disp = [(int(a), int(b)) for a, b in re.findall(r"\((\d+),\s*(\d+)\)", m.group(2))]
    need(len(disp) == n_disp, f"{fname}: DISPLACEMENTS declares {n_disp} items, read {len(disp)}")
    need(all(a < 65536 and b < 65536 for a, b in disp), f"{fname}: displacement out of u16 range")
    # the shape of from_bytes (everything but the two moduli is fixed text)
    m = re.search(r"pub fn from_bytes\(input: &\[u8\]\) -> Result<Self, \w+> \{(.*?)\n    \}\n", text, re.S)
    need(m, f"{fname}: from_bytes not found")
    body = re.sub(r"static DISPLACEMENTS: .*?\];", "", m.group(1), flags=re.S)
    body = re.sub(r"#\[rustfmt::skip\]", "", body)
    norm = re.sub(r"\s+", " ", body).strip()
    shape = (
        r"let \(g, f1, f2\) = hashfunc\(input\); "
        r"let \(d1, d2\) = DISPLACEMENTS\[\(g % (\d+)\) as usize\]; "
        r"let item_idx = u32::from\(d2\) \.wrapping_add\(f1\.wrapping_mul\(u32::from\(d1\)\)\) "
        r"\.wrapping_add\(f2\) as usize % (\d+); "
        r"if " + enum + r"::STRING_TABLE\[item_idx\]\.as_bytes\(\) != input \{ return Err\(\w+\); \} "
        r"Ok\(unsafe \{ core::mem::transmute::<u16, Self>\(item_idx as u16\) \}\)"
    )
    ms = re.fullmatch(shape, norm)
    shape_ok = bool(ms)
    if ms:
        need(int(ms.group(1)) == n_disp, f"{fname}: first modulus {ms.group(1)} != DISPLACEMENTS.len() {n_disp}")
        need(int(ms.group(2)) == n_names, f"{fname}: second modulus {ms.group(2)} != STRING_TABLE.len() {n_names}")
    # to_str shape
    mt = re.search(r"pub fn to_str\(&self\) -> &'static str \{\s*" + enum + r"::STRING_TABLE\[\*self as usize\]\s*\}", text)
    shape_ok = shape_ok and bool(mt)
    # enum discriminants, in declaration order, with the doc comment above each item
    m = re.search(r"pub enum " + enum + r" \{(.*?)\n\}", text, re.S)
    need(m, f"{fname}: enum {enum} not found")
    discr = []
    docs = []
    last_doc = None
    for line in m.group(1).splitlines():
        line = line.strip()
        if line.startswith("///"):
            last_doc = line[3:].strip()
            continue
        mm = re.fullmatch(r"(\w+)\s*=\s*(\d+),", line)
        if mm:
            discr.append((mm.group(1), int(mm.group(2))))
            docs.append(last_doc)
            last_doc = None
        else:
            need(line == "" or line.startswith("#["), f"{fname}: unexpected enum line {line!r}")
    need(len(discr) > 0, f"{fname}: no enum items read")
    return {
        "file": fname, "enum": enum, "names": names, "disp": disp, "discr": discr, "docs": docs,
        "shape_ok": shape_ok, "norm_body": norm,
    }


def hexlist(nums, per_line=4, indent="  "):
    lines = []
    for i in range(0, len(nums), per_line):
        lines.append(indent + ", ".join(hex(x) for x in nums[i:i + per_line]))
    return ",\n".join(lines)


def emit_name_table(tab, short, nproof_files):
    names = tab["names"]
    packed = [pack(s.encode("utf-8")) for s in names]
    chunks = [packed[i:i + CHUNK] for i in range(0, len(packed), CHUNK)]
    disp = 0
    for k, (d1, d2) in enumerate(tab["disp"]):
        disp |= ((d1 << 16) | d2) << (32 * k)
    out = []
    out.append(f"-- GENERATED by translator/gen.py from {SPECSRC}/{tab['file']} -- do not edit")
    out.append("import AutosarVerif.Model.Hash")
    out.append(f"namespace AV.Gen.{short}")
    for i, ch in enumerate(chunks):
        out.append(f"def chunk{i} : List Nat := [\n{hexlist(ch)}]")
    out.append("def chunks : List (List Nat) := [" + ", ".join(f"chunk{i}" for i in range(len(chunks))) + "]")
    out.append(f"def dispPacked : Nat := {hex(disp)}")
    out.append("def table : Hash.NameTable :=")
    out.append(f"  {{ names := chunks.flatten, nNames := {len(names)}, disp := dispPacked, nDisp := {len(tab['disp'])} }}")
    out.append("/-- enum discriminants in declaration order -/")
    dl = [d for _, d in tab["discr"]]
    dchunks = [dl[i:i + CHUNK] for i in range(0, len(dl), CHUNK)]
    for k, dc in enumerate(dchunks):
        out.append(f"def dchunk{k} : List Nat := [\n" + ",\n".join(
            "  " + ", ".join(str(x) for x in dc[i:i + 32]) for i in range(0, len(dc), 32)) + "]")
    out.append("def discriminants : List (List Nat) := [" + ", ".join(f"dchunk{k}" for k in range(len(dchunks))) + "]")
    out.append(f"end AV.Gen.{short}")
    changed = write_if_changed(f"Names{short}.lean", "\n".join(out) + "\n")
    # proof obligations: one theorem per chunk, distributed over nproof_files modules
    per = (len(chunks) + nproof_files - 1) // nproof_files
    mods = []
    for f in range(nproof_files):
        idxs = list(range(f * per, min(len(chunks), (f + 1) * per)))
        if not idxs:
            continue
        o = [f"-- GENERATED by translator/gen.py -- regenerated proof obligations for {tab['file']}",
             f"import AutosarVerif.Gen.Names{short}", "import AutosarVerif.Gen.HashParams",
             f"namespace AV.Gen.{short}"]
        for i in idxs:
            o.append(f"theorem chunk{i}_ok : Hash.walkN AV.Gen.hashParams table chunk{i} {i * CHUNK} = some {i * CHUNK + len(chunks[i])} := by decide +kernel")
        o.append(f"end AV.Gen.{short}")
        write_if_changed(f"Names{short}Proof{f}.lean", "\n".join(o) + "\n")
        mods.append(f"Names{short}Proof{f}")
    # chaining theorem
    o = [f"-- GENERATED by translator/gen.py -- chains the chunk obligations of {tab['file']}",
         "import AutosarVerif.Lemmas.Hash"]
    o += [f"import AutosarVerif.Gen.{m}" for m in mods]
    o.append(f"namespace AV.Gen.{short}")
    o.append(f"theorem all_ok : Hash.walkAll AV.Gen.hashParams table chunks 0 = some {len(names)} := by")
    term = f"Hash.walkAll_nil _ _ {len(names)}"
    for i in reversed(range(len(chunks))):
        term = f"Hash.walkAll_cons_of chunk{i}_ok\n    ({term})"
    o.append("  exact " + term)
    o.append(f"theorem nNames_eq : table.nNames = {len(names)} := rfl")
    o.append("theorem discriminants_perm : Hash.isRange discriminants table.nNames = true := by decide +kernel")
    o.append(f"end AV.Gen.{short}")
    write_if_changed(f"Names{short}All.lean", "\n".join(o) + "\n")
    return changed


def gen_names(report):
    specs = [("elementname.rs", "ElementName", "Elem", 4), ("attributename.rs", "AttributeName", "Attr", 1),
             ("enumitem.rs", "EnumItem", "Enum", 2)]
    for fname, enum, short, nfiles in specs:
        tab = read_name_table(fname, enum)
        # self-validation beyond lengths: doc comment above each item equals its text (reported, not fatal)
        names = tab["names"]
        bad_docs = []
        for (ident, d), doc in zip(tab["discr"], tab["docs"]):
            if d < len(names) and doc is not None and doc != names[d]:
                bad_docs.append({"item": ident, "discriminant": d, "doc": doc, "text": names[d]})
        emit_name_table(tab, short, nfiles)
        report["names"][short] = {
            "file": fname, "sha256": sha(f"{SPECSRC}/{fname}"), "n_names": len(names),
            "n_disp": len(tab["disp"]), "n_items": len(tab["discr"]), "from_bytes_shape_ok": tab["shape_ok"],
            "doc_text_mismatches": bad_docs[:20], "n_doc_text_mismatches": len(bad_docs),
        }
        # identifier list for the harness / driver (id -> text is the table itself)


# ----------------------------------------------------------------------------------------------
# hashfunc constants
# ----------------------------------------------------------------------------------------------

def gen_hash(report):
    text = src(f"{SPECSRC}/lib.rs")
    m = re.search(r"pub\(crate\) fn hashfunc\(mut data: &\[u8\]\) -> \(u32, u32, u32\) \{(.*?)\n\}\n", text, re.S)
    need(m, "lib.rs: hashfunc not found")
    body = re.sub(r"//[^\n]*", "", m.group(1))
    norm = re.sub(r"\s+", " ", body).strip()
    shape = (
        r"const HASHCONST1: u32 = (0x[0-9A-Fa-f_]+); const HASHCONST2: u32 = (0x[0-9A-Fa-f_]+); "
        r"let mut f1 = (0x[0-9A-Fa-f_]+)_u32; let mut f2 = (0x[0-9A-Fa-f_]+)_u32; "
        r"while data\.len\(\) >= 4 \{ let val = u32::from_ne_bytes\(data\[\.\.4\]\.try_into\(\)\.unwrap\(\)\); "
        r"f1 = f1\.rotate_left\(5\)\.bitxor\(val\)\.wrapping_mul\(HASHCONST1\); "
        r"f2 = f2\.rotate_left\(6\)\.bitxor\(val\)\.wrapping_mul\(HASHCONST2\); data = &data\[4\.\.\]; \} "
        r"if data\.len\(\) >= 2 \{ let val = u32::from\(u16::from_ne_bytes\(data\[\.\.2\]\.try_into\(\)\.unwrap\(\)\)\); "
        r"f1 = f1\.rotate_left\(5\)\.bitxor\(val\)\.wrapping_mul\(HASHCONST1\); "
        r"f2 = f2\.rotate_left\(6\)\.bitxor\(val\)\.wrapping_mul\(HASHCONST2\); data = &data\[2\.\.\]; \} "
        r"if !data\.is_empty\(\) \{ f1 = f1\.rotate_left\(5\)\.bitxor\(u32::from\(data\[0\]\)\)\.wrapping_mul\(HASHCONST1\); "
        r"f2 = f2\.rotate_left\(6\)\.bitxor\(u32::from\(data\[0\]\)\)\.wrapping_mul\(HASHCONST2\); \} "
        r"let g = f1\.bitxor\(f2\); \(g, f1, f2\)"
    )
    ms = re.fullmatch(shape, norm)
    if ms:
        c1, c2, i1, i2 = (int(x.replace("_", ""), 16) for x in ms.groups())
        shape_ok = True
    else:
        # constants by name; the algorithm shape is then tied only by the correspondence run
        shape_ok = False
        def grab(pat):
            mm = re.search(pat, norm)
            need(mm, f"lib.rs: hashfunc constant {pat} not found")
            return int(mm.group(1).replace("_", ""), 16)
        c1 = grab(r"HASHCONST1: u32 = (0x[0-9A-Fa-f_]+)")
        c2 = grab(r"HASHCONST2: u32 = (0x[0-9A-Fa-f_]+)")
        i1 = grab(r"let mut f1 = (0x[0-9A-Fa-f_]+)_u32")
        i2 = grab(r"let mut f2 = (0x[0-9A-Fa-f_]+)_u32")
    out = ["-- GENERATED by translator/gen.py from autosar-data-specification/src/lib.rs::hashfunc",
           "import AutosarVerif.Model.Hash", "namespace AV.Gen",
           f"def hashParams : Hash.Params := {{ c1 := {hex(c1)}, c2 := {hex(c2)}, init1 := {hex(i1)}, init2 := {hex(i2)} }}",
           "end AV.Gen"]
    write_if_changed("HashParams.lean", "\n".join(out) + "\n")
    report["hash"] = {"shape_ok": shape_ok, "c1": c1, "c2": c2, "init1": i1, "init2": i2}


# ----------------------------------------------------------------------------------------------

PARTS = {}


def main():
    global REPO, OUT
    args = sys.argv[1:]
    report_path = None
    parts = []
    i = 0
    while i < len(args):
        if args[i] == "--repo":
            REPO = args[i + 1]; i += 2
        elif args[i] == "--out":
            OUT = args[i + 1]; i += 2
        elif args[i] == "--report":
            report_path = args[i + 1]; i += 2
        else:
            parts.append(args[i]); i += 1
    if not parts:
        parts = list(PARTS.keys())
    report = {"ok": True, "errors": [], "names": {}}
    for p in parts:
        try:
            PARTS[p](report)
        except ReadError as e:
            report["ok"] = False
            report["errors"].append({"part": p, "error": str(e)})
        except Exception as e:  # a crash of the reader is a failed reading, not a pass
            report["ok"] = False
            report["errors"].append({"part": p, "error": f"translator crashed: {type(e).__name__}: {e}"})
    if report_path:
        with open(report_path, "w") as f:
            json.dump(report, f, indent=1)
    else:
        json.dump({k: v for k, v in report.items()}, sys.stdout, indent=1)
        print()
    sys.exit(0 if report["ok"] else 2)


PARTS["hash"] = gen_hash
PARTS["names"] = gen_names

if __name__ == "__main__":
    main()
