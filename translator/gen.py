#!/usr/bin/env python3
"""Translator: reads the *generated* Rust tables of /repo's current working tree and rewrites
/verif/lean/AutosarVerif/Gen/*.lean.  It validates its own reading (declared array lengths,
index ranges, uniqueness) and fails loudly (exit 2 + a JSON report) when it cannot read a
file: that is reported by ./check as "correspondence broken: translator cannot read <file>".

A file is rewritten only when its content changes, so lake's cache stays warm.
Usage: gen.py [--repo /repo] [--out lean/AutosarVerif/Gen] [--report file.json] [parts...]
parts: names versions hash spec dfa regex (default: all)
"""
import hashlib
import json
import os
import re
import sys

REPO = "/repo"
OUT = os.path.join(os.path.dirname(os.path.abspath(__file__)), "..", "lean", "AutosarVerif", "Gen")
SPECSRC = "autosar-data-specification/src"
CHUNK = 256


class ReadError(Exception):
    pass


def src(path):
    with open(os.path.join(REPO, path), "r", encoding="utf-8") as f:
        return f.read()


def sha(path):
    with open(os.path.join(REPO, path), "rb") as f:
        return hashlib.sha256(f.read()).hexdigest()


def write_if_changed(name, text):
    path = os.path.join(OUT, name)
    os.makedirs(OUT, exist_ok=True)
    try:
        with open(path, "r", encoding="utf-8") as f:
            if f.read() == text:
                return False
    except FileNotFoundError:
        pass
    with open(path + ".tmp", "w", encoding="utf-8") as f:
        f.write(text)
    os.replace(path + ".tmp", path)
    return True


def pack(b: bytes) -> int:
    return int.from_bytes(b + b"\x01", "little")


def need(cond, msg):
    if not cond:
        raise ReadError(msg)


# ----------------------------------------------------------------------------------------------
# name tables (elementname.rs / attributename.rs / enumitem.rs)
# ----------------------------------------------------------------------------------------------

def rust_str_items(body, fname):
    """items of a Rust array of plain string literals (no escapes expected except \\\" and \\\\)"""
    items = []
    pos = 0
    n = len(body)
    while pos < n:
        c = body[pos]
        if c in " \t\r\n,":
            pos += 1
            continue
        need(c == '"', f"{fname}: unexpected character {c!r} in string table")
        pos += 1
        out = []
        while True:
            need(pos < n, f"{fname}: unterminated string literal")
            c = body[pos]
            if c == "\\":
                need(pos + 1 < n, f"{fname}: bad escape")
                e = body[pos + 1]
                need(e in '"\\', f"{fname}: unsupported escape \\{e}")
                out.append(e)
                pos += 2
            elif c == '"':
                pos += 1
                break
            else:
                out.append(c)
                pos += 1
        items.append("".join(out))
    return items


def read_name_table(fname, enum):
    text = src(f"{SPECSRC}/{fname}")
    m = re.search(r"const STRING_TABLE: \[&'static str; (\d+)\] = \[(.*?)\];", text, re.S)
    need(m, f"{fname}: STRING_TABLE not found")
    n_names = int(m.group(1))
    names = rust_str_items(m.group(2), fname)
    need(len(names) == n_names, f"{fname}: STRING_TABLE declares {n_names} items, read {len(names)}")
    m = re.search(r"static DISPLACEMENTS: \[\(u16, u16\); (\d+)\] = \[(.*?)\];", text, re.S)
    need(m, f"{fname}: DISPLACEMENTS not found")
    n_disp = int(m.group(1))
    disp = [(int(a), int(b)) for a, b in re.findall(r"\((\d+),\s*(\d+)\)", m.group(2))]
    need(len(disp) == n_disp, f"{fname}: DISPLACEMENTS declares {n_disp} items, read {len(disp)}")
    need(all(a < 65536 and b < 65536 for a, b in disp), f"{fname}: displacement out of u16 range")
    # the shape of from_bytes (everything but the two moduli is fixed text)
    m = re.search(r"pub fn from_bytes\(input: &\[u8\]\) -> Result<Self, \w+> \{(.*?)\n    \}\n", text, re.S)
    need(m, f"{fname}: from_bytes not found")
    body = re.sub(r"static DISPLACEMENTS: .*?\];", "", m.group(1), flags=re.S)
    body = re.sub(r"#\[rustfmt::skip\]", "", body)
    norm = re.sub(r"\s+", " ", body).strip()
    shape = (
        r"let \(g, f1, f2\) = hashfunc\(input\); "
        r"let \(d1, d2\) = DISPLACEMENTS\[\(g % (\d+)\) as usize\]; "
        r"let item_idx = u32::from\(d2\) \.wrapping_add\(f1\.wrapping_mul\(u32::from\(d1\)\)\) "
        r"\.wrapping_add\(f2\) as usize % (\d+); "
        r"if " + enum + r"::STRING_TABLE\[item_idx\]\.as_bytes\(\) != input \{ return Err\(\w+\); \} "
        r"Ok\(unsafe \{ core::mem::transmute::<u16, Self>\(item_idx as u16\) \}\)"
    )
    ms = re.fullmatch(shape, norm)
    shape_ok = bool(ms)
    if ms:
        need(int(ms.group(1)) == n_disp, f"{fname}: first modulus {ms.group(1)} != DISPLACEMENTS.len() {n_disp}")
        need(int(ms.group(2)) == n_names, f"{fname}: second modulus {ms.group(2)} != STRING_TABLE.len() {n_names}")
    # to_str shape
    mt = re.search(r"pub fn to_str\(&self\) -> &'static str \{\s*" + enum + r"::STRING_TABLE\[\*self as usize\]\s*\}", text)
    shape_ok = shape_ok and bool(mt)
    # enum discriminants, in declaration order, with the doc comment above each item
    m = re.search(r"pub enum " + enum + r" \{(.*?)\n\}", text, re.S)
    need(m, f"{fname}: enum {enum} not found")
    discr = []
    docs = []
    last_doc = None
    for line in m.group(1).splitlines():
        line = line.strip()
        if line.startswith("///"):
            last_doc = line[3:].strip()
            continue
        mm = re.fullmatch(r"(\w+)\s*=\s*(\d+),", line)
        if mm:
            discr.append((mm.group(1), int(mm.group(2))))
            docs.append(last_doc)
            last_doc = None
        else:
            need(line == "" or line.startswith("#["), f"{fname}: unexpected enum line {line!r}")
    need(len(discr) > 0, f"{fname}: no enum items read")
    return {
        "file": fname, "enum": enum, "names": names, "disp": disp, "discr": discr, "docs": docs,
        "shape_ok": shape_ok, "norm_body": norm,
    }


def hexlist(nums, per_line=4, indent="  "):
    lines = []
    for i in range(0, len(nums), per_line):
        lines.append(indent + ", ".join(hex(x) for x in nums[i:i + per_line]))
    return ",\n".join(lines)


def emit_name_table(tab, short, nproof_files):
    names = tab["names"]
    packed = [pack(s.encode("utf-8")) for s in names]
    chunks = [packed[i:i + CHUNK] for i in range(0, len(packed), CHUNK)]
    disp = 0
    for k, (d1, d2) in enumerate(tab["disp"]):
        disp |= ((d1 << 16) | d2) << (32 * k)
    out = []
    out.append(f"-- GENERATED by translator/gen.py from {SPECSRC}/{tab['file']} -- do not edit")
    out.append("import AutosarVerif.Model.Hash")
    out.append(f"namespace AV.Gen.{short}")
    for i, ch in enumerate(chunks):
        out.append(f"def chunk{i} : List Nat := [\n{hexlist(ch)}]")
    out.append("def chunks : List (List Nat) := [" + ", ".join(f"chunk{i}" for i in range(len(chunks))) + "]")
    out.append(f"def dispPacked : Nat := {hex(disp)}")
    out.append("def table : Hash.NameTable :=")
    out.append(f"  {{ names := chunks.flatten, nNames := {len(names)}, disp := dispPacked, nDisp := {len(tab['disp'])} }}")
    out.append("/-- enum discriminants in declaration order -/")
    dl = [d for _, d in tab["discr"]]
    dchunks = [dl[i:i + CHUNK] for i in range(0, len(dl), CHUNK)]
    for k, dc in enumerate(dchunks):
        out.append(f"def dchunk{k} : List Nat := [\n" + ",\n".join(
            "  " + ", ".join(str(x) for x in dc[i:i + 32]) for i in range(0, len(dc), 32)) + "]")
    out.append("def discriminants : List (List Nat) := [" + ", ".join(f"dchunk{k}" for k in range(len(dchunks))) + "]")
    out.append(f"end AV.Gen.{short}")
    changed = write_if_changed(f"Names{short}.lean", "\n".join(out) + "\n")
    # proof obligations: one theorem per chunk, distributed over nproof_files modules
    per = (len(chunks) + nproof_files - 1) // nproof_files
    mods = []
    for f in range(nproof_files):
        idxs = list(range(f * per, min(len(chunks), (f + 1) * per)))
        if not idxs:
            continue
        o = [f"-- GENERATED by translator/gen.py -- regenerated proof obligations for {tab['file']}",
             f"import AutosarVerif.Gen.Names{short}", "import AutosarVerif.Gen.HashParams",
             f"namespace AV.Gen.{short}"]
        for i in idxs:
            o.append(f"theorem chunk{i}_ok : Hash.walkN AV.Gen.hashParams table chunk{i} {i * CHUNK} = some {i * CHUNK + len(chunks[i])} := by decide +kernel")
        o.append(f"end AV.Gen.{short}")
        write_if_changed(f"Names{short}Proof{f}.lean", "\n".join(o) + "\n")
        mods.append(f"Names{short}Proof{f}")
    # chaining theorem
    o = [f"-- GENERATED by translator/gen.py -- chains the chunk obligations of {tab['file']}",
         "import AutosarVerif.Lemmas.Hash"]
    o += [f"import AutosarVerif.Gen.{m}" for m in mods]
    o.append(f"namespace AV.Gen.{short}")
    o.append(f"theorem all_ok : Hash.walkAll AV.Gen.hashParams table chunks 0 = some {len(names)} := by")
    term = f"Hash.walkAll_nil _ _ {len(names)}"
    for i in reversed(range(len(chunks))):
        term = f"Hash.walkAll_cons_of chunk{i}_ok\n    ({term})"
    o.append("  exact " + term)
    o.append(f"theorem nNames_eq : table.nNames = {len(names)} := rfl")
    o.append("theorem discriminants_perm : Hash.isRange discriminants table.nNames = true := by decide +kernel")
    o.append(f"end AV.Gen.{short}")
    write_if_changed(f"Names{short}All.lean", "\n".join(o) + "\n")
    return changed


def gen_names(report):
    specs = [("elementname.rs", "ElementName", "Elem", 4), ("attributename.rs", "AttributeName", "Attr", 1),
             ("enumitem.rs", "EnumItem", "Enum", 2)]
    for fname, enum, short, nfiles in specs:
        tab = read_name_table(fname, enum)
        # self-validation beyond lengths: doc comment above each item equals its text (reported, not fatal)
        names = tab["names"]
        bad_docs = []
        for (ident, d), doc in zip(tab["discr"], tab["docs"]):
            if d < len(names) and doc is not None and doc != names[d]:
                bad_docs.append({"item": ident, "discriminant": d, "doc": doc, "text": names[d]})
        emit_name_table(tab, short, nfiles)
        report["names"][short] = {
            "file": fname, "sha256": sha(f"{SPECSRC}/{fname}"), "n_names": len(names),
            "n_disp": len(tab["disp"]), "n_items": len(tab["discr"]), "from_bytes_shape_ok": tab["shape_ok"],
            "doc_text_mismatches": bad_docs[:20], "n_doc_text_mismatches": len(bad_docs),
        }
        # identifier list for the harness / driver (id -> text is the table itself)


# ----------------------------------------------------------------------------------------------
# hashfunc constants
# ----------------------------------------------------------------------------------------------

def gen_hash(report):
    text = src(f"{SPECSRC}/lib.rs")
    m = re.search(r"pub\(crate\) fn hashfunc\(mut data: &\[u8\]\) -> \(u32, u32, u32\) \{(.*?)\n\}\n", text, re.S)
    need(m, "lib.rs: hashfunc not found")
    body = re.sub(r"//[^\n]*", "", m.group(1))
    norm = re.sub(r"\s+", " ", body).strip()
    shape = (
        r"const HASHCONST1: u32 = (0x[0-9A-Fa-f_]+); const HASHCONST2: u32 = (0x[0-9A-Fa-f_]+); "
        r"let mut f1 = (0x[0-9A-Fa-f_]+)_u32; let mut f2 = (0x[0-9A-Fa-f_]+)_u32; "
        r"while data\.len\(\) >= 4 \{ let val = u32::from_ne_bytes\(data\[\.\.4\]\.try_into\(\)\.unwrap\(\)\); "
        r"f1 = f1\.rotate_left\(5\)\.bitxor\(val\)\.wrapping_mul\(HASHCONST1\); "
        r"f2 = f2\.rotate_left\(6\)\.bitxor\(val\)\.wrapping_mul\(HASHCONST2\); data = &data\[4\.\.\]; \} "
        r"if data\.len\(\) >= 2 \{ let val = u32::from\(u16::from_ne_bytes\(data\[\.\.2\]\.try_into\(\)\.unwrap\(\)\)\); "
        r"f1 = f1\.rotate_left\(5\)\.bitxor\(val\)\.wrapping_mul\(HASHCONST1\); "
        r"f2 = f2\.rotate_left\(6\)\.bitxor\(val\)\.wrapping_mul\(HASHCONST2\); data = &data\[2\.\.\]; \} "
        r"if !data\.is_empty\(\) \{ f1 = f1\.rotate_left\(5\)\.bitxor\(u32::from\(data\[0\]\)\)\.wrapping_mul\(HASHCONST1\); "
        r"f2 = f2\.rotate_left\(6\)\.bitxor\(u32::from\(data\[0\]\)\)\.wrapping_mul\(HASHCONST2\); \} "
        r"let g = f1\.bitxor\(f2\); \(g, f1, f2\)"
    )
    ms = re.fullmatch(shape, norm)
    if ms:
        c1, c2, i1, i2 = (int(x.replace("_", ""), 16) for x in ms.groups())
        shape_ok = True
    else:
        # constants by name; the algorithm shape is then tied only by the correspondence run
        shape_ok = False
        def grab(pat):
            mm = re.search(pat, norm)
            need(mm, f"lib.rs: hashfunc constant {pat} not found")
            return int(mm.group(1).replace("_", ""), 16)
        c1 = grab(r"HASHCONST1: u32 = (0x[0-9A-Fa-f_]+)")
        c2 = grab(r"HASHCONST2: u32 = (0x[0-9A-Fa-f_]+)")
        i1 = grab(r"let mut f1 = (0x[0-9A-Fa-f_]+)_u32")
        i2 = grab(r"let mut f2 = (0x[0-9A-Fa-f_]+)_u32")
    out = ["-- GENERATED by translator/gen.py from autosar-data-specification/src/lib.rs::hashfunc",
           "import AutosarVerif.Model.Hash", "namespace AV.Gen",
           f"def hashParams : Hash.Params := {{ c1 := {hex(c1)}, c2 := {hex(c2)}, init1 := {hex(i1)}, init2 := {hex(i2)} }}",
           "end AV.Gen"]
    write_if_changed("HashParams.lean", "\n".join(out) + "\n")
    report["hash"] = {"shape_ok": shape_ok, "c1": c1, "c2": c2, "init1": i1, "init2": i2}


# ----------------------------------------------------------------------------------------------
# versions (autosarversion.rs)
# ----------------------------------------------------------------------------------------------

def bytes_list(s):
    return "[" + ", ".join(str(b) for b in s.encode("utf-8")) + "]"


def read_versions():
    text = src(f"{SPECSRC}/autosarversion.rs")
    m = re.search(r"pub enum AutosarVersion \{(.*?)\n\}", text, re.S)
    need(m, "autosarversion.rs: enum not found")
    enum = []
    for line in m.group(1).splitlines():
        line = line.strip()
        if not line or line.startswith("///") or line.startswith("#["):
            continue
        mm = re.fullmatch(r"(\w+)\s*=\s*(0x[0-9a-fA-F]+|\d+),", line)
        need(mm, f"autosarversion.rs: unexpected enum line {line!r}")
        enum.append((mm.group(1), int(mm.group(2), 0)))
    need(len(enum) > 0, "autosarversion.rs: no versions")
    val = dict(enum)
    need(len(val) == len(enum), "autosarversion.rs: duplicate version identifier")

    def arms(fn_pat, arm_pat, what):
        mf = re.search(fn_pat, text, re.S)
        need(mf, f"autosarversion.rs: {what} not found")
        return re.findall(arm_pat, mf.group(1)), mf.group(1)

    fn_arms, _ = arms(r"pub fn filename\(&self\) -> &'static str \{\s*match self \{(.*?)\n        \}", r'Self::(\w+) => "([^"]*)",', "filename()")
    need(len(fn_arms) == len(enum), f"autosarversion.rs: filename() has {len(fn_arms)} arms for {len(enum)} versions")
    fs_arms, fs_body = arms(r"fn from_str\(input: &str\) -> Result<Self, Self::Err> \{\s*match input \{(.*?)\n        \}", r'"([^"]*)" => Ok\(Self::(\w+)\),', "from_str()")
    need(re.search(r"_ => Err\(ParseAutosarVersionError\)", fs_body), "autosarversion.rs: from_str default arm missing")
    fu_arms, fu_body = arms(r"fn from_u64\(n: u64\) -> Option<Self> \{\s*match n \{(.*?)\n        \}", r"(0x[0-9a-fA-F]+|\d+) => Some\(Self::(\w+)\),", "from_u64()")
    need(re.search(r"_ => None", fu_body), "autosarversion.rs: from_u64 default arm missing")
    ml = re.search(r"pub const LATEST: AutosarVersion = AutosarVersion::(\w+);", text)
    need(ml, "autosarversion.rs: LATEST not found")
    for ident, _ in fn_arms:
        need(ident in val, f"autosarversion.rs: filename() arm for unknown {ident}")
    for _, ident in fs_arms + fu_arms:
        need(ident in val, f"autosarversion.rs: arm returns unknown {ident}")
    return {"enum": enum, "filename": [(val[i], s) for i, s in fn_arms], "from_str": [(s, val[i]) for s, i in fs_arms],
            "from_u64": [(int(n, 0), val[i]) for n, i in fu_arms], "latest": val[ml.group(1)], "idents": [i for i, _ in enum]}


def gen_versions(report):
    v = read_versions()
    o = ["-- GENERATED by translator/gen.py from autosar-data-specification/src/autosarversion.rs",
         "import AutosarVerif.Model.Versions", "namespace AV.Gen",
         "def versionTable : VersionTable := {",
         "  values := [" + ", ".join(hex(x) for _, x in v["enum"]) + "],",
         "  filename := [" + ",\n    ".join(f"({hex(x)}, {bytes_list(s)})" for x, s in v["filename"]) + "],",
         "  fromStr := [" + ",\n    ".join(f"({bytes_list(s)}, {hex(x)})" for s, x in v["from_str"]) + "],",
         "  fromU64 := [" + ", ".join(f"({hex(n)}, {hex(x)})" for n, x in v["from_u64"]) + "],",
         f"  latest := {hex(v['latest'])} }}",
         "theorem versionTable_ok : versionTable.check = true := by decide +kernel",
         "end AV.Gen"]
    write_if_changed("Versions.lean", "\n".join(o) + "\n")
    report["versions"] = {"n": len(v["enum"]), "sha256": sha(f"{SPECSRC}/autosarversion.rs"),
                          "idents": v["idents"], "values": [x for _, x in v["enum"]]}


# ----------------------------------------------------------------------------------------------
# specification arrays (specification.rs)
# ----------------------------------------------------------------------------------------------

MODES = {"Sequence": 0, "Choice": 1, "Bag": 2, "Characters": 3, "Mixed": 4}
MULTS = {"ZeroOrOne": 0, "One": 1, "Any": 2}
RESTR = {"NotRestricted": 0, "ClassicPlatform": 1, "AdaptivePlatform": 2}


def array_body(text, name, fname="specification.rs"):
    m = re.search(r"pub\(crate\) static " + name + r": \[([^;\]]+(?:\([^)]*\))?[^;\]]*); (\d+)\] = \[\n(.*?)\n\];\n", text, re.S)
    need(m, f"{fname}: array {name} not found")
    return int(m.group(2)), m.group(3)


def packrec(records, width):
    n = 0
    for i, r in enumerate(records):
        need(0 <= r < (1 << width), f"record {i} does not fit {width} bits")
        n |= r << (width * i)
    return n


def read_spec(names):
    text = src(f"{SPECSRC}/specification.rs")
    elem_id = {ident: d for ident, d in names["Elem"]["discr"]}
    attr_id = {ident: d for ident, d in names["Attr"]["discr"]}
    enum_id = {ident: d for ident, d in names["Enum"]["discr"]}
    spec = {}
    # DATATYPES
    n, body = array_body(text, "DATATYPES")
    rows = re.findall(r"ElementSpec \{sub_elements: \((\d+), (\d+)\), sub_element_ver: (\d+), attributes: \((\d+), (\d+)\), "
                      r"attributes_ver: (\d+), character_data: (None|Some\((\d+)\)), mode: ContentMode::(\w+), ref_info: \((\d+), (\d+)\)\}", body)
    need(len(rows) == n, f"specification.rs: DATATYPES declares {n}, read {len(rows)}")
    dts = []
    for r in rows:
        ss, se, sv, as_, ae, av, cd, cdn, mode, rs, re_ = r
        need(mode in MODES, f"specification.rs: unknown ContentMode {mode}")
        dts.append(dict(ss=int(ss), se=int(se), sv=int(sv), as_=int(as_), ae=int(ae), av=int(av),
                        cd=(None if cd == "None" else int(cdn)), mode=MODES[mode], rs=int(rs), re=int(re_)))
    spec["datatypes"] = dts
    # ELEMENTS
    n, body = array_body(text, "ELEMENTS")
    rows = re.findall(r"element!\((\w+), (\d+), (\w+), (true|false), (0x[0-9A-Fa-f]+|\d+), (\w+), (?:None|Some\(\d+\))\)", body)
    need(len(rows) == n, f"specification.rs: ELEMENTS declares {n}, read {len(rows)}")
    els = []
    for nm, et, mult, ordered, split, restr in rows:
        need(nm in elem_id, f"specification.rs: ELEMENTS uses unknown ElementName::{nm}")
        need(mult in MULTS and restr in RESTR, "specification.rs: unknown multiplicity / restriction")
        els.append(dict(name=elem_id[nm], et=int(et), mult=MULTS[mult], ordered=(ordered == "true"),
                        split=int(split, 0), restr=RESTR[restr]))
    spec["elements"] = els
    # SUBELEMENTS
    n, body = array_body(text, "SUBELEMENTS")
    rows = re.findall(r"\b([eg])!\((\d+)\)", body)
    need(len(rows) == n, f"specification.rs: SUBELEMENTS declares {n}, read {len(rows)}")
    spec["subelements"] = [(k == "g", int(i)) for k, i in rows]
    # ATTRIBUTES
    n, body = array_body(text, "ATTRIBUTES")
    rows = re.findall(r"\(AttributeName::(\w+), (\d+), (true|false)\)", body)
    need(len(rows) == n, f"specification.rs: ATTRIBUTES declares {n}, read {len(rows)}")
    for nm, _, _ in rows:
        need(nm in attr_id, f"specification.rs: ATTRIBUTES uses unknown AttributeName::{nm}")
    spec["attributes"] = [(attr_id[nm], int(cd), rq == "true") for nm, cd, rq in rows]
    # VERSION_INFO
    n, body = array_body(text, "VERSION_INFO")
    rows = re.findall(r"0x[0-9a-fA-F]+|\b\d+\b", body)
    need(len(rows) == n, f"specification.rs: VERSION_INFO declares {n}, read {len(rows)}")
    spec["verinfo"] = [int(x, 0) for x in rows]
    # REF_ITEMS
    n, body = array_body(text, "REF_ITEMS")
    rows = re.findall(r"EnumItem::(\w+)", body)
    need(len(rows) == n, f"specification.rs: REF_ITEMS declares {n}, read {len(rows)}")
    for nm in rows:
        need(nm in enum_id, f"specification.rs: REF_ITEMS uses unknown EnumItem::{nm}")
    spec["refitems"] = [enum_id[nm] for nm in rows]
    # CHARACTER_DATA
    n, body = array_body(text, "CHARACTER_DATA")
    cds = []
    regexes = {}
    for line in body.splitlines():
        line = line.strip().rstrip(",")
        if not line:
            continue
        need(line.startswith("CharacterDataSpec::"), f"specification.rs: unexpected CHARACTER_DATA line {line[:60]!r}")
        rest = line[len("CharacterDataSpec::"):]
        if rest.startswith("Enum"):
            items = re.findall(r"\(EnumItem::(\w+), (0x[0-9a-fA-F]+|\d+)\)", rest)
            need(re.fullmatch(r"Enum\{items: &\[(\(EnumItem::\w+, (0x[0-9a-fA-F]+|\d+)\)(, )?)*\]\}", rest), "specification.rs: bad Enum spec")
            for nm, _ in items:
                need(nm in enum_id, f"specification.rs: CHARACTER_DATA uses unknown EnumItem::{nm}")
            cds.append(("enum", [(enum_id[nm], int(mk, 0)) for nm, mk in items]))
        elif rest.startswith("Pattern"):
            mm = re.fullmatch(r'Pattern\{check_fn: validate_regex_(\d+), regex: r(#?)"(.*)"\2, max_length: (None|Some\((\d+)\))\}', rest)
            need(mm, f"specification.rs: bad Pattern spec {rest[:80]!r}")
            k = int(mm.group(1))
            rx = mm.group(3)
            ml = None if mm.group(4) == "None" else int(mm.group(5))
            if k in regexes:
                need(regexes[k] == rx, f"specification.rs: validate_regex_{k} is used with two different regex strings")
            regexes[k] = rx
            cds.append(("pattern", k, ml))
        elif rest.startswith("String"):
            mm = re.fullmatch(r"String\{preserve_whitespace: (true|false), max_length: (None|Some\((\d+)\))\}", rest)
            need(mm, "specification.rs: bad String spec")
            cds.append(("string", mm.group(1) == "true", None if mm.group(2) == "None" else int(mm.group(3))))
        elif rest == "UnsignedInteger":
            cds.append(("uint",))
        elif rest in ("Float", "Double"):
            cds.append(("float",))
        else:
            need(False, f"specification.rs: unknown CharacterDataSpec {rest[:40]!r}")
    need(len(cds) == n, f"specification.rs: CHARACTER_DATA declares {n}, read {len(cds)}")
    spec["cdata"] = cds
    spec["regexes"] = regexes
    m = re.search(r"pub\(crate\) static REFERENCE_TYPE_IDX: u16 = (\d+);", text)
    need(m, "specification.rs: REFERENCE_TYPE_IDX not found")
    spec["ref_type_idx"] = int(m.group(1))
    m = re.search(r"pub\(crate\) static AUTOSAR_ELEMENT: u16 = (\d+);", text)
    need(m, "specification.rs: AUTOSAR_ELEMENT not found")
    spec["root"] = int(m.group(1))
    # range validation of the reading (the Lean side re-checks the same facts as `realSpec_wf`)
    nd, ns, na, nv, nc, nr, ne = len(dts), len(spec["subelements"]), len(spec["attributes"]), len(spec["verinfo"]), len(cds), len(spec["refitems"]), len(els)
    for i, d in enumerate(dts):
        need(d["ss"] <= d["se"] <= ns and d["as_"] <= d["ae"] <= na and d["rs"] <= d["re"] <= nr, f"specification.rs: DATATYPES[{i}] range out of bounds")
        need(d["cd"] is None or d["cd"] < nc, f"specification.rs: DATATYPES[{i}] character_data out of range")
    for i, (g, idx) in enumerate(spec["subelements"]):
        need(idx < (nd if g else ne), f"specification.rs: SUBELEMENTS[{i}] index out of range")
    for i, e in enumerate(els):
        need(e["et"] < nd, f"specification.rs: ELEMENTS[{i}] elemtype out of range")
    need(spec["ref_type_idx"] < nc and spec["root"] < ne, "specification.rs: REFERENCE_TYPE_IDX / AUTOSAR_ELEMENT out of range")
    return spec


def group_depth(spec):
    """maximal nesting of groups (python side only chooses the fuel; Lean checks it: depthOk)"""
    import functools
    dts, subs = spec["datatypes"], spec["subelements"]

    @functools.lru_cache(maxsize=None)
    def depth(t, guard=0):
        d = 0
        for (g, idx) in subs[dts[t]["ss"]:dts[t]["se"]]:
            if g:
                d = max(d, 1 + depth(idx))
        return d
    sys.setrecursionlimit(10000)
    try:
        return max(depth(t) for t in range(len(dts)))
    except RecursionError:
        raise ReadError("specification.rs: groups are nested cyclically")


def lean_cspec(c):
    if c[0] == "enum":
        return ".enum [" + ", ".join(f"({i}, {hex(m)})" for i, m in c[1]) + "]"
    if c[0] == "pattern":
        return f".pattern {c[1]} " + ("none" if c[2] is None else f"(some {c[2]})")
    if c[0] == "string":
        return f".string {'true' if c[1] else 'false'} " + ("none" if c[2] is None else f"(some {c[2]})")
    return "." + c[0]


def gen_spec(report):
    names = {}
    for fname, enum, short in [("elementname.rs", "ElementName", "Elem"), ("attributename.rs", "AttributeName", "Attr"), ("enumitem.rs", "EnumItem", "Enum")]:
        names[short] = read_name_table(fname, enum)
    spec = read_spec(names)
    dts = spec["datatypes"]
    dt_recs = [d["ss"] | d["se"] << 16 | d["sv"] << 32 | d["as_"] << 48 | d["ae"] << 64 | d["av"] << 80
               | (0 if d["cd"] is None else d["cd"] + 1) << 96 | d["mode"] << 128 | d["rs"] << 144 | d["re"] << 160 for d in dts]
    el_recs = [e["name"] | e["et"] << 16 | e["mult"] << 32 | (1 if e["ordered"] else 0) << 34 | e["restr"] << 35 | e["split"] << 40
               for e in spec["elements"]]
    sub_recs = [idx * 2 + (1 if g else 0) for g, idx in spec["subelements"]]
    at_recs = [nm | cd << 16 | (1 if rq else 0) << 32 for nm, cd, rq in spec["attributes"]]
    depth = group_depth(spec)
    ident = {i: d for i, d in names["Elem"]["discr"]}
    aident = {i: d for i, d in names["Attr"]["discr"]}
    need("ShortName" in ident and "Dest" in aident, "ElementName::ShortName / AttributeName::Dest not found")
    o = ["-- GENERATED by translator/gen.py from autosar-data-specification/src/specification.rs -- do not edit",
         "import AutosarVerif.Model.SpecPacked", "set_option maxRecDepth 1000000", "namespace AV.Gen.SpecData",
         f"def datatypes : Nat := {hex(packrec(dt_recs, 176))}",
         f"def elements : Nat := {hex(packrec(el_recs, 80))}",
         f"def subelements : Nat := {hex(packrec(sub_recs, 32))}",
         f"def attributes : Nat := {hex(packrec(at_recs, 40))}",
         f"def verinfo : Nat := {hex(packrec(spec['verinfo'], 32))}",
         f"def refitems : Nat := {hex(packrec(spec['refitems'], 16))}"]
    cds = spec["cdata"]
    CC = 64
    nch = (len(cds) + CC - 1) // CC
    for k in range(nch):
        o.append(f"def cspecChunk{k} : List CSpec := [\n  " + ",\n  ".join(lean_cspec(c) for c in cds[k * CC:(k + 1) * CC]) + "]")
    o.append("def cspecs : List (List CSpec) := [" + ", ".join(f"cspecChunk{k}" for k in range(nch)) + "]")
    o.append("def packed : PackedSpec := {")
    o.append(f"  nTypes := {len(dts)}, nDefs := {len(spec['elements'])}, nSubs := {len(sub_recs)}, nAttrs := {len(at_recs)},")
    o.append(f"  nVer := {len(spec['verinfo'])}, nCData := {len(cds)}, nRefItems := {len(spec['refitems'])},")
    o.append("  datatypes := datatypes, elements := elements, subelements := subelements, attributes := attributes,")
    o.append(f"  verinfo := verinfo, refitems := refitems, cspecs := cspecs, cspecChunk := {CC},")
    o.append(f"  refTypeIdx := {spec['ref_type_idx']}, rootDef := {spec['root']}, depth := {depth},")
    o.append(f"  nmShortName := {ident['ShortName']}, atDest := {aident['Dest']} }}")
    o.append("end AV.Gen.SpecData")
    o.append("namespace AV.Gen")
    o.append("/-- the specification of the current working tree -/")
    o.append("def realSpec : Spec := SpecData.packed.toSpec")
    o.append("end AV.Gen")
    write_if_changed("SpecData.lean", "\n".join(o) + "\n")
    o = ["-- GENERATED by translator/gen.py -- regenerated well-formedness obligations for the specification tables",
         "import AutosarVerif.Gen.SpecData", "namespace AV.Gen",
         "theorem realSpec_rangesOk : SpecData.packed.rangesOk = true := by decide +kernel",
         "theorem realSpec_depthOk : SpecData.packed.allDepthOk = true := by decide +kernel",
         "end AV.Gen"]
    write_if_changed("SpecWf.lean", "\n".join(o) + "\n")
    # regex strings (C19) — the text is parsed in Lean
    rx = spec["regexes"]
    o = ["-- GENERATED by translator/gen.py -- regex strings published in specification.rs (Pattern{regex: r\"...\"})",
         "namespace AV.Gen", "/-- (k, bytes of the regex text of validate_regex_k, max_length of its first use) -/",
         "def regexStrings : List (Nat × List Nat) := ["]
    o.append(",\n".join(f"  ({k}, {bytes_list(rx[k])})  -- {rx[k]}" if False else f"  ({k}, {bytes_list(rx[k])})" for k in sorted(rx)))
    o.append("]")
    o.append("end AV.Gen")
    write_if_changed("RegexStrings.lean", "\n".join(o) + "\n")
    # side table for the harness and the checker: identifiers
    side = {"elem_idents": [i for i, _ in sorted(names["Elem"]["discr"], key=lambda x: x[1])],
            "attr_idents": [i for i, _ in sorted(names["Attr"]["discr"], key=lambda x: x[1])],
            "enum_idents": [i for i, _ in sorted(names["Enum"]["discr"], key=lambda x: x[1])],
            "regexes": {str(k): rx[k] for k in sorted(rx)}, "depth": depth}
    with open(os.path.join(OUT, "side.json"), "w") as f:
        json.dump(side, f)
    report["spec"] = {"sha256": sha(f"{SPECSRC}/specification.rs"), "datatypes": len(dts), "elements": len(spec["elements"]),
                      "subelements": len(sub_recs), "attributes": len(at_recs), "verinfo": len(spec["verinfo"]),
                      "cdata": len(cds), "refitems": len(spec["refitems"]), "group_depth": depth, "regexes": len(rx)}


# ----------------------------------------------------------------------------------------------
# regex.rs: table-driven validators (tables, accepting sets, loop shape)
# ----------------------------------------------------------------------------------------------

def parse_accept(pat, fname):
    acc = []
    for part in pat.split("|"):
        part = part.strip()
        m = re.fullmatch(r"(\d+)\.\.=(\d+)", part)
        if m:
            acc.extend(range(int(m.group(1)), int(m.group(2)) + 1))
            continue
        m = re.fullmatch(r"(\d+)", part)
        need(m, f"{fname}: unsupported accepting pattern {part!r}")
        acc.append(int(part))
    return acc


def gen_dfa(report):
    text = src(f"{SPECSRC}/regex.rs")
    spec_text = src(f"{SPECSRC}/specification.rs")
    regexes = {}
    for m in re.finditer(r'Pattern\{check_fn: validate_regex_(\d+), regex: r(#?)"(.*?)"\2, max_length', spec_text):
        regexes[int(m.group(1))] = m.group(3)
    fns = {}
    for m in re.finditer(r"pub\(crate\) fn validate_regex_(\d+)\(s: &\[u8\]\) -> bool \{\n(.*?)\n\}\n", text, re.S):
        fns[int(m.group(1))] = m.group(2)
    need(len(fns) > 0, "regex.rs: no validate_regex_k found")
    for k in regexes:
        need(k in fns, f"regex.rs: validate_regex_{k} named in CHARACTER_DATA does not exist")
    tables = {}
    for m in re.finditer(r"static REGEX_(\d+)_TABLE: \[\[u8; 256\]; (\d+)usize\] = \[\n(.*?)\n\];\n", text, re.S):
        k, n = int(m.group(1)), int(m.group(2))
        rows = re.findall(r"\[([^\[\]]*)\]", m.group(3))
        need(len(rows) == n, f"regex.rs: REGEX_{k}_TABLE declares {n} rows, read {len(rows)}")
        parsed = []
        for r in rows:
            cells = [int(x) for x in re.findall(r"\d+", r)]
            need(len(cells) == 256, f"regex.rs: a row of REGEX_{k}_TABLE has {len(cells)} cells")
            need(all(0 <= c < 256 for c in cells), f"regex.rs: REGEX_{k}_TABLE cell out of u8 range")
            parsed.append(cells)
        tables[k] = parsed
    shape_ok = {}
    table_driven = []
    hand = []
    for k in sorted(fns):
        body = re.sub(r"\s+", " ", fns[k]).strip()
        m = re.fullmatch(r"let mut state = 0; for c in s \{ state = REGEX_(\d+)_TABLE\[state as usize\]\[\*c as usize\]; "
                         r"if state == 255 \{ return false; \} \} matches!\(state, ([0-9.=| ]+)\)", body)
        if m and int(m.group(1)) == k and k in tables:
            acc = parse_accept(m.group(2), "regex.rs")
            nrows = len(tables[k])
            need(all(a < nrows for a in acc), f"regex.rs: validate_regex_{k} accepts a state beyond its table")
            for row in tables[k]:
                need(all(c == 255 or c < nrows for c in row), f"regex.rs: REGEX_{k}_TABLE points to a state beyond the table")
            table_driven.append((k, tables[k], acc))
            shape_ok[str(k)] = True
        else:
            if "REGEX_" in body and "_TABLE" in body:
                shape_ok[str(k)] = False    # uses a table but not in the modelled loop shape
            hand.append(k)
    mods = []
    datamods = []
    # known findings (KNOWN_FINDINGS.txt): a table that is KNOWN not to implement its regex is pinned by the hash of its
    # rows + accepting set; for it the negation witness is proved instead of the certificate.  Any other table content
    # (including a further change of a known-bad table) gets the ordinary certificate obligation.
    known = {}
    kf_path = os.path.join(os.path.dirname(os.path.abspath(__file__)), "..", "KNOWN_FINDINGS.txt")
    if os.path.exists(kf_path):
        for line in open(kf_path):
            mk = re.match(r"known: property=C19 sig=regex(\d+):table=([0-9a-f]+):witness=([0-9a-f]+|-) ", line)
            if mk:
                known[(int(mk.group(1)), mk.group(2))] = mk.group(3)
    known_bad = []
    table_hash = {}
    for k, rows, acc in table_driven:
        need(k in regexes, f"specification.rs: validate_regex_{k} has no published regex")
        packed = [sum(c << (8 * b) for b, c in enumerate(row)) for row in rows]
        th = hashlib.sha256(json.dumps([rows, acc]).encode()).hexdigest()[:16]
        table_hash[str(k)] = th
        if (k, th) in known:
            w = known[(k, th)]
            wb = [] if w == "-" else list(bytes.fromhex(w))
            o = [f"-- GENERATED by translator/gen.py from regex.rs (REGEX_{k}_TABLE, validate_regex_{k}) and specification.rs (its regex string)",
                 "import AutosarVerif.Model.Regex", "set_option maxRecDepth 100000", "namespace AV.Gen",
                 f"def dfa_{k} : Rx.Dfa where\n  rows := [\n" + ",\n".join("    " + hex(x) for x in packed) + "]\n  acc := [" + ", ".join(str(a) for a in acc) + "]",
                 f"def regexText_{k} : List Nat := {bytes_list(regexes[k])}",
                 "end AV.Gen"]
            write_if_changed(f"Dfa_{k}.lean", "\n".join(o) + "\n")
            o = [f"-- GENERATED by translator/gen.py -- KNOWN FINDING (KNOWN_FINDINGS.txt): REGEX_{k}_TABLE does not implement its regex;",
                 "-- the negation witness is proved here instead of a certificate.",
                 f"import AutosarVerif.Gen.Dfa_{k}", "set_option maxRecDepth 100000", "namespace AV.Gen",
                 f"def witness_{k} : List Nat := [" + ", ".join(str(b) for b in wb) + "]",
                 f"/-- the table accepts `witness_{k}`, the published regex does not match it -/",
                 f"theorem known_bad_{k} : dfa_{k}.run witness_{k} = true ∧ (Rx.parseRegex regexText_{k}).map (Rx.matchD · witness_{k}) = some false := by decide +kernel",
                 "end AV.Gen"]
            write_if_changed(f"DfaCert_{k}.lean", "\n".join(o) + "\n")
            mods.append(f"DfaCert_{k}")
            datamods.append(f"Dfa_{k}")
            known_bad.append(k)
            continue
        o = [f"-- GENERATED by translator/gen.py from regex.rs (REGEX_{k}_TABLE, validate_regex_{k}) and specification.rs (its regex string)",
             "import AutosarVerif.Model.Regex", "set_option maxRecDepth 100000", "namespace AV.Gen",
             f"def dfa_{k} : Rx.Dfa where\n  rows := [\n" + ",\n".join("    " + hex(x) for x in packed) + "]\n  acc := [" + ", ".join(str(a) for a in acc) + "]",
             f"def regexText_{k} : List Nat := {bytes_list(regexes[k])}",
             "end AV.Gen"]
        write_if_changed(f"Dfa_{k}.lean", "\n".join(o) + "\n")
        o = [f"-- GENERATED by translator/gen.py -- regenerated obligation: REGEX_{k}_TABLE accepts exactly the language of its regex",
             f"import AutosarVerif.Gen.Dfa_{k}", "set_option maxRecDepth 100000", "namespace AV.Gen",
             f"theorem cert_{k} : (Rx.parseRegex regexText_{k}).map (Rx.checkDfa dfa_{k}) = some true := by decide +kernel",
             "end AV.Gen"]
        write_if_changed(f"DfaCert_{k}.lean", "\n".join(o) + "\n")
        mods.append(f"DfaCert_{k}")
        datamods.append(f"Dfa_{k}")
    ks = [k for k, _, _ in table_driven if k not in known_bad]
    o = ["-- GENERATED by translator/gen.py -- the table-driven validators found in regex.rs and their certificates",
         "import AutosarVerif.Model.Regex"] + [f"import AutosarVerif.Gen.{m}" for m in mods] + ["namespace AV.Gen",
         "/-- (k, table of validate_regex_k, published regex text) -/",
         "def tableDriven : List (Nat × Rx.Dfa × List Nat) := [" + ", ".join(f"({k}, dfa_{k}, regexText_{k})" for k in ks) + "]",
         "theorem tableDriven_ok : ∀ e ∈ tableDriven, (Rx.parseRegex e.2.2).map (Rx.checkDfa e.2.1) = some true := by",
         "  intro e he",
         "  simp only [tableDriven, List.mem_cons, List.not_mem_nil, or_false] at he",
         "  rcases he with " + " | ".join("rfl" for _ in ks),
         ] + [f"  · exact cert_{k}" for k in ks] + [
         "/-- table-driven validators with a recorded known finding (negation witness proved instead of a certificate) -/",
         "def knownBad : List (Nat × Rx.Dfa × List Nat × List Nat) := [" + ", ".join(f"({k}, dfa_{k}, regexText_{k}, witness_{k})" for k in known_bad) + "]",
         "theorem knownBad_ok : ∀ e ∈ knownBad, e.2.1.run e.2.2.2 = true ∧ (Rx.parseRegex e.2.2.1).map (Rx.matchD · e.2.2.2) = some false := by",
         "  intro e he",
         "  simp only [knownBad, List.mem_cons, List.not_mem_nil, or_false] at he",
         ] + (["  rcases he with " + " | ".join("rfl" for _ in known_bad)] + [f"  · exact known_bad_{k}" for k in known_bad] if known_bad else ["  exact absurd he (by simp [knownBad])" if False else "  cases he"]) + [
         "/-- validators that are NOT table-driven (hand-written Rust expressions) -/",
         "def handWritten : List Nat := [" + ", ".join(str(k) for k in hand) + "]",
         "end AV.Gen"]
    write_if_changed("DfaAll.lean", "\n".join(o) + "\n")
    # driver-side lookup table (no proofs; same data)
    allk = [k for k, _, _ in table_driven]
    o = ["-- GENERATED by translator/gen.py -- all transition tables of regex.rs, data only (imported by the driver)",
         "import AutosarVerif.Model.Regex"] + [f"import AutosarVerif.Gen.{m}" for m in datamods] + ["namespace AV.Gen",
         "def allDfas : List (Nat × Rx.Dfa) := [" + ", ".join(f"({k}, dfa_{k})" for k in allk) + "]",
         "end AV.Gen"]
    write_if_changed("DfaData.lean", "\n".join(o) + "\n")
    # remove stale generated files of validators that are no longer table-driven
    for fn in os.listdir(OUT):
        mm = re.fullmatch(r"Dfa(?:Cert)?_(\d+)\.lean", fn)
        if mm and int(mm.group(1)) not in allk:
            os.remove(os.path.join(OUT, fn))
    with open(os.path.join(OUT, "side_dfa.txt"), "w") as f:
        # line format for the harness:  table <k> | known <k> <witness-hex> | hand <k>
        for k in allk:
            f.write(f"table {k}\n")
        for (kk, th), w in known.items():
            if kk in known_bad:
                f.write(f"known {kk} {w}\n")
        for k in hand:
            f.write(f"hand {k}\n")
    report["dfa"] = {"sha256": sha(f"{SPECSRC}/regex.rs"), "table_driven": [k for k, _, _ in table_driven], "hand_written": hand, "shape_ok": shape_ok, "known_bad": known_bad, "table_hash": table_hash,
                     "states": {str(k): len(rows) for k, rows, _ in table_driven}}


# ----------------------------------------------------------------------------------------------

PARTS = {}


def main():
    global REPO, OUT
    args = sys.argv[1:]
    report_path = None
    parts = []
    i = 0
    while i < len(args):
        if args[i] == "--repo":
            REPO = args[i + 1]; i += 2
        elif args[i] == "--out":
            OUT = args[i + 1]; i += 2
        elif args[i] == "--report":
            report_path = args[i + 1]; i += 2
        else:
            parts.append(args[i]); i += 1
    if not parts:
        parts = list(PARTS.keys())
    report = {"ok": True, "errors": [], "names": {}}
    for p in parts:
        try:
            PARTS[p](report)
        except ReadError as e:
            report["ok"] = False
            report["errors"].append({"part": p, "error": str(e)})
        except Exception as e:  # a crash of the reader is a failed reading, not a pass
            report["ok"] = False
            report["errors"].append({"part": p, "error": f"translator crashed: {type(e).__name__}: {e}"})
    if report_path:
        with open(report_path, "w") as f:
            json.dump(report, f, indent=1)
    else:
        json.dump({k: v for k, v in report.items()}, sys.stdout, indent=1)
        print()
    sys.exit(0 if report["ok"] else 2)


PARTS["hash"] = gen_hash
PARTS["names"] = gen_names
PARTS["versions"] = gen_versions
PARTS["spec"] = gen_spec
PARTS["dfa"] = gen_dfa

if __name__ == "__main__":
    main()
