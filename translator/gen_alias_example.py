import re,sys
ROOT=sys.argv[1]; WHICH=sys.argv[2]
def sig_of(path,name):
    s=open(path).read()
    m=re.search(r'^(?:private |protected )?theorem '+re.escape(name)+r"(?![A-Za-z0-9_'])",s,flags=re.M)
    assert m,(path,name)
    i=m.start(); j=s.find(':=',i)
    return ' '.join(s[i:j].split())
DU={
 'C13':[('Dup','AV.W.opDup_frame','C13_duplicate_leaves_every_existing_model_unchanged','**`duplicate()` (Model/Dup.lean `opDup`, what the driver runs for `dup`) is independent of the original**: every model that existed before - in particular the original - and the list of removed elements are unchanged, whatever the answer; needs that the next element id is not in use (an invariant of all histories, `fresh_of_winv`; FALSE otherwise: `C13_witness_duplicate_needs_fresh_ids`)'),
        ('Dup','AV.W.fresh_of_winv','C13_next_id_is_fresh_in_reachable_states',''),
        ('Dup','AV.W.assignFiles_noFiles','C13_file_set_transfer_is_a_pure_relabelling','the positional transfer of file sets changes nothing but `files` fields (shape, texts, ids, names, types, attributes, parents, comments kept)'),
        ('Dup','AV.W.assignFiles_getElem?','C13_file_set_transfer_is_positional','the i-th element in document order gets the i-th set of the list, elements beyond the list keep theirs'),
        ('Dup','AV.W.opDup_in_step','C13_duplicate_faithful_when_iterations_run_in_step','**faithfulness (partial)**: when the tree of the new model has the shape of the original (what same-version copies give, `Lemmas/DeepCopy.lean`), the duplicate equals the original up to identities, every element carrying the image of the file set of ITS source; the derivation of the shape hypothesis from "all files have one version" is not done'),
        ('DupWitness','AV.W.dup_versions_finding','C13_witness_duplicate_of_mixed_version_model','**negation witness = known finding c13:duplicate-of-model-with-files-of-different-versions** on a toy specification: a reachable world with files of versions 1 and 2; `dup` answers ok, the copy has 4 elements instead of 5 (the version-2-only element is dropped) and the copy of e4 carries the image of the file set of e3'),
        ('DupWitness','AV.W.opDup_frame_needs_fresh','C13_witness_duplicate_needs_fresh_ids','')],
 'C11':[('Dup','AV.W.opDup_err_frame','C11_duplicate','`duplicate()`: any answer other than ok returns the world unchanged, unconditionally')],
}
LM={
 'C03':[('LoadMerge','AV.W.mergeElement_wf','C03_merge_keeps_the_forest_well_formed','**merging loads**: the content `merge_element` returns - also when it stops with an error - is a well-formed forest below the model\'s element'),
        ('LoadMerge','AV.W.renumItems_nodup','C03_renumbering_keeps_ids_unique',''),
        ('LoadMerge','AV.W.opLoad_merge_inv','C03_merging_load_keeps_tree_and_file_sets','an accepted load into a model that already has files keeps `Inv` (tree well-formed, ids unique, file-set invariant)'),
        ('StepLM','AV.W.reachLM_inv','C03_invariant_with_merging_loads','**fifth alphabet** `ReachLM` (`Lemmas/StepLM.lean`): histories of `ReachL` (core operations, rename, sort, set_reference_target, move, copy, first loads) continued by core operations, rename, sort, set_reference_target and MERGING loads: the tree is well-formed, ids unique, file sets consistent in every reachable state')],
 'C09':[('LoadMerge','AV.W.mergeElement_ids_sub','C09_merge_invents_nothing','every element of the merged content comes from the model or from the new file (unconditional, error path included); with `C09_merge_loses_nothing` the model\'s elements are all kept')],
 'C10':[('StepLM','AV.W.LoadMergeWitness.wPost_filesOk','C10_regression_merging_load_after_root_removed','regression statement for the repaired defect 28fbcc4: the history new, load, create_file, remove_from_file(root, f1), create, load ends in a state with consistent file sets (the pre-repair model gave the negation)'),
        ('LoadMerge','AV.W.mergeElement_filesOk','C10_merge_keeps_file_sets_consistent','an accepted merge keeps "local file set ⊆ effective set of the parent" at every depth'),
        ('LoadMerge','AV.W.opLoad_merge_inv','C10_merging_load_keeps_file_sets_consistent','at the level of `load_buffer`; the proof of this statement needed, for the pre-repair model, a hypothesis that a reachable state refutes: the defect repaired by 28fbcc4 (KNOWN_FINDINGS.txt)')],
}
DU2={
 'C13':[('DupFaithful','AV.W.opDup_faithful','C13_duplicate_is_faithful_and_keeps_the_invariants','**`duplicate()` is faithful** (closes the shape hypothesis of `C13_duplicate_faithful_when_iterations_run_in_step`): in a world with the full invariant, if every sub-element of the root passes the version filter of the LOWEST version of the files unchanged (`AllCompat`; with files of one version: content permitted in that version), the root carries no comment / changed attributes and its sub-elements are in an order in which each copy is appended (`AppendOk`, decidable), then a successful `dup` yields a world with the full invariant `GInv` in which the new model equals the original up to identities, every element carrying the image of the file set of ITS source; no renaming happens (follows from the exact index of the original)'),
        ('DupFaithful','AV.W.dupVer_one','C13_duplicate_version_with_files_of_one_version',''),
        ('DupFaithful','AV.W.dupCopies_inv','C13_duplicate_copy_phase_normal_form',''),
        ('DupFaithfulWitness','AV.W.dupW1_faithful','C13_duplicate_faithful_nonvacuous','non-vacuity: a reachable world (two files of one version, packages in different files, references, index) meets every hypothesis; the conclusion is also checked by evaluation (`dupW1_copy`)'),
        ('DupFaithfulWitness','AV.W.dup_root_comment_not_copied','C13_witness_duplicate_drops_root_comment','the hypothesis on the root element is necessary = known finding c13:duplicate-drops-root-attributes-and-comment as a negation on a reachable world')],
}
LM3={
 'C09':[('MergeKeeps','AV.W.mergeElement_keeps_proj','C09_merge_keeps_every_element_of_the_model_as_it_was','**"keeps each file\'s content"**: every element of the model\'s content is still there after `merge_element` - also on its error path - with the same name, type, attributes, comment, parent and the same text items directly below it; only `files` fields change and elements of the new file are added'),
        ('MergeKeeps','AV.W.mergeElement_restrict','C09_merge_result_without_the_new_elements_is_the_model','erasing the elements of the new file from the result gives back the model\'s content, file sets aside'),
        ('MergeKeeps','AV.W.mergeElement_emb','C09_merge_embeds_the_model','')],
 'C03':[('MergeKeepsWitness','AV.W.LM3.Twin.shared','C03_witness_merge_into_twin_siblings','**negation witness = known finding c03:merge-into-twin-siblings-shares-subtree**: two siblings of one name and item name in the model, the new file holds the partner at another position: `merge_element` answers without error and the id of the partner\'s child occurs twice in the result')],
 'C07':[('MergeKeeps','AV.W.opCreate_ok_permitted','C07_created_element_is_permitted_in_the_lowest_version','a successful `create_sub_element` made an element the parent\'s type permits in the version `min_version` returns, at a position of the reported range'),
        ('MergeKeeps','AV.W.opNamed_ok_permitted','C07_created_named_element_is_permitted_in_the_lowest_version',''),
        ('MergeKeepsWitness','AV.W.LM3.MixedVer.mixed_version_finding','C07_witness_content_checked_against_lowest_version_only','**negation witness = known finding c07:content-below-mixed-version-file-set-checked-against-lowest-version-only**: a reachable world with files of versions 1 and 2; the create succeeds; the new element is in the view of both files and is not permitted in version 2')],
 'C13':[('MergeKeeps','AV.W.opDup_sep\'','C13_duplicate_keeps_ids_of_models_apart','whatever `duplicate()` answers, the element ids of different models stay disjoint')],
}
MP={
 'C12':[('MergeNoPanic','AV.W.walk_no_panic','C12_merge_walk_cannot_panic','**the `unwrap()` of `merge_element`** (`find_sub_element(name, u32::MAX)` for the names of two differing sub-elements): unreachable when the sub-elements of both sides are known to the parent type (an invariant of all histories for the model side, what the parser guarantees for the new file)'),
        ('MergeNoPanic','AV.W.mergeElement_no_panic','C12_merge_cannot_panic','at every depth, with the fuel `load_buffer` passes (`kb.size < fuel`), given unique / disjoint ids and that paired elements have the same type (`TyBy`: the type is a function of parent type and name)'),
        ('MergeNoPanic','AV.W.mergeRes_no_panic','C12_merging_load_cannot_panic',''),
        ('MergeNoPanic','AV.W.tyGap_panics','C12_witness_merge_panics_when_paired_types_differ','the typing hypothesis is necessary on a toy specification: a name whose type differs between two versions, with a child known to one of the two types only, makes the merge of files of those versions panic. In the real tables 281 (type, name) pairs have version-dependent types, and for every one of them the two types know the same sub-element names (scan of the library tables by a probe, not a Lean theorem), so the panic is not reachable there')],
}
ALIASES={'DU':DU,'LM':LM,'DU2':DU2,'LM3':LM3,'MP':MP}[WHICH]
for c,als in ALIASES.items():
    p=f'{ROOT}/AutosarVerif/Properties/{c}.lean'
    s=open(p).read()
    mods=[]
    for mod,*_ in als:
        if mod not in mods: mods.append(mod)
    imps=''.join(f'import AutosarVerif.Lemmas.{m}\n' for m in mods if f'import AutosarVerif.Lemmas.{m}\n' not in s)
    last=[m for m in re.finditer(r'^import .*\n',s,flags=re.M)][-1]
    s=s[:last.end()]+imps+s[last.end():]
    block=f'\n/-! ### added at the end of the third session (proof pack {WHICH}): restated by name\n(`type_of%` keeps the statement identical to the lemma; the signature is quoted in the comment) -/\n\n'
    for mod,lem,name,doc in als:
        sig=sig_of(f'{ROOT}/AutosarVerif/Lemmas/{mod}.lean',lem.split('.')[-1])
        d=(doc+'\n' if doc else '')+'`'+sig.replace('-/','- /')+'`'
        block+=f'/-- {d} -/\ntheorem {name} : type_of% @{lem} := @{lem}\n\n'
    i=s.rindex(f'end AV.{c}')
    s=s[:i]+block+s[i:]
    open(p,'w').write(s)
print('done')
