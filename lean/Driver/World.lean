/- World requests of PROTOCOL.md answered by the model (`AutosarVerif/Model/World*.lean`). -/
import AutosarVerif.Model.WorldQuery
import AutosarVerif.Model.Sort
import AutosarVerif.Model.Compat
import AutosarVerif.Model.FileOps
import AutosarVerif.Model.Load
import AutosarVerif.Model.Serialize
import AutosarVerif.Model.Step
import AutosarVerif.Model.Iter
import AutosarVerif.Model.Dup
import Driver.Proto

namespace AV.WDriver
open AV AV.W AV.Proto

def parseHandle (pfx : Char) (s : String) : Option Nat :=
  match s.toList with
  | c :: r => if c == pfx then (String.ofList r).toNat? else none
  | [] => none

def parseVal (s : String) : Option CDv :=
  match s.splitOn ":" with
  | ["S", h] => (bytesOfHex h).map .str
  | ["E", n] => n.toNat?.map .enum
  | ["U", n] => n.toNat?.map .uint
  | ["F", "nan"] => some (.float 0x7FF8000000000000)
  | ["F", h] => ((bytesOfHex h).map fun b => b.foldl (fun a x => a * 256 + x.toNat) 0).map .float
  | _ => none

def sh (r : World × Ans) : World × String := (r.1, r.2.show)

def step (S : Spec) (V : Env) (validVer : Nat → Bool) (rootAttrs : List (Nat × CDv)) (w : World) (ws : List String) : Option (World × String) :=
  let E := parseHandle 'e'
  let M := parseHandle 'm'
  match ws with
  | ["reset"] => some (emptyWorld, "ok")
  | ["newmodel"] => some (applyOp S V rootAttrs w .newModel)
  | ["mkfile", m, n, v] =>
    match M m, bytesOfHex n, v.toNat? with
    | some k, some nm, some ver => some (applyOp S V rootAttrs w (.mkFile k nm ver (validVer ver)))
    | _, _, _ => some (w, "bad-op")
  | ["create", p, n] => match E p, n.toNat? with
    | some p, some n => some (applyOp S V rootAttrs w (.create p n none)) | _, _ => some (w, "bad-op")
  | ["create", p, n, q] => match E p, n.toNat?, q.toNat? with
    | some p, some n, some q => some (applyOp S V rootAttrs w (.create p n (some q))) | _, _, _ => some (w, "bad-op")
  | ["named", p, n, nm] => match E p, n.toNat?, bytesOfHex nm with
    | some p, some n, some nm => some (applyOp S V rootAttrs w (.named p n nm none)) | _, _, _ => some (w, "bad-op")
  | ["named", p, n, nm, q] => match E p, n.toNat?, bytesOfHex nm, q.toNat? with
    | some p, some n, some nm, some q => some (applyOp S V rootAttrs w (.named p n nm (some q))) | _, _, _, _ => some (w, "bad-op")
  | ["remove", p, c] => match E p, E c with
    | some p, some c => some (applyOp S V rootAttrs w (.remove p c)) | _, _ => some (w, "bad-op")
  | ["rename", x, nm] => match E x, bytesOfHex nm with
    | some x, some nm => some (applyOpX S V rootAttrs w (.rename x nm)) | _, _ => some (w, "bad-op")
  | ["cdata", x, v] => match E x, parseVal v with
    | some x, some v => some (applyOp S V rootAttrs w (.cdata x v)) | _, _ => some (w, "bad-op")
  | ["rmcdata", x] => match E x with
    | some x => some (applyOp S V rootAttrs w (.rmcdata x)) | none => some (w, "bad-op")
  | ["instext", x, q, h] => match E x, q.toNat?, bytesOfHex h with
    | some x, some q, some b => some (applyOp S V rootAttrs w (.instext x q b)) | _, _, _ => some (w, "bad-op")
  | ["rmtext", x, q] => match E x, q.toNat? with
    | some x, some q => some (applyOp S V rootAttrs w (.rmtext x q)) | _, _ => some (w, "bad-op")
  | ["setref", x, t] => match E x, E t with
    | some x, some t => some (applyOpX S V rootAttrs w (.setref x t)) | _, _ => some (w, "bad-op")
  | ["attr", x, a, v] => match E x, a.toNat?, parseVal v with
    | some x, some a, some v => some (applyOp S V rootAttrs w (.attr x a v)) | _, _, _ => some (w, "bad-op")
  | ["attrs", x, a, h] => match E x, a.toNat?, bytesOfHex h with
    | some x, some a, some b => some (applyOp S V rootAttrs w (.attrs x a b)) | _, _, _ => some (w, "bad-op")
  | ["rmattr", x, a] => match E x, a.toNat? with
    | some x, some a => some (applyOp S V rootAttrs w (.rmattr x a)) | _, _ => some (w, "bad-op")
  | ["move", p, x] => match E p, E x with
    | some p, some x => some (sh (opMoveAny S V w p x none)) | _, _ => some (w, "bad-op")
  | ["move", p, x, q] => match E p, E x, q.toNat? with
    | some p, some x, some q => some (sh (opMoveAny S V w p x (some q))) | _, _, _ => some (w, "bad-op")
  | ["copy", p, x] => match E p, E x with
    | some p, some x => some (sh (opCopy S V w p x none)) | _, _ => some (w, "bad-op")
  | ["copy", p, x, q] => match E p, E x, q.toNat? with
    | some p, some x, some q => some (sh (opCopy S V w p x (some q))) | _, _, _ => some (w, "bad-op")
  | ["dup", m] => match M m with
    | some k => if k < w.models.length then some (sh (opDup S V rootAttrs w k)) else some (w, "bad-op")
    | none => some (w, "bad-op")
  | ["sort", x] => match E x with
    | some x => some (applyOpX S V rootAttrs w (.sort x)) | none => some (w, "bad-op")
  | ["sortm", m] => match M m with
    | some k => match w.models[k]? with
      | some mm => some (applyOpX S V rootAttrs w (.sort mm.rootHdr.id))
      | none => some (w, "bad-op")
    | none => some (w, "bad-op")
  | ["comment", x, h] => match E x with
    | some x => some (applyOp S V rootAttrs w (.comment x (if h == "-" then none else bytesOfHex h))) | none => some (w, "bad-op")
  | ["path", x] => (E x).map fun x => (w, qPath S w x)
  | ["parent", x] => (E x).map fun x => (w, qParent w x)
  | ["pos", x] => (E x).map fun x => (w, qPos w x)
  | ["target", x] => (E x).map fun x => (w, qTarget S V w x)
  | ["lookup", m, p] => match M m, bytesOfHex p with
    | some k, some p => match w.models[k]? with
      | some mm => some (w, match mm.lookup p with | some i => s!"ok e{i}" | none => "none")
      | none => some (w, "bad-op")
    | _, _ => some (w, "bad-op")
  | ["refs", m, p] => match M m, bytesOfHex p with
    | some k, some p => match w.models[k]? with
      | some mm => some (w, showIds (refsGet mm.refs p))
      | none => some (w, "bad-op")
    | _, _ => some (w, "bad-op")
  | ["checkrefs", m] => (M m).map fun k => (w, qCheckRefs S V w k)
  | ["range", p, n] => match E p, n.toNat? with
    | some p, some n => some (w, qRange S V w p n) | _, _ => some (w, "bad-op")
  | ["valid", p] => (E p).map fun p => (w, qValid S V w p)
  | ["dfs", x, d] => match E x, d.toNat? with
    | some x, some d => some (w, qDfs w x d) | _, _ => some (w, "bad-op")
  | ["dfsf", f, d] => match parseHandle 'f' f, d.toNat? with
    | some f, some d => some (w, qDfsFile w f d) | _, _ => some (w, "bad-op")
  | ["subs", x] => match E x with
    | some x => some (w, qSubs w x) | none => some (w, "bad-op")
  | ["dump"] => some (w, dumpWorld w)
  | ["addfile", x, f] => match E x, parseHandle 'f' f with
    | some x, some f => some (applyOp S V rootAttrs w (.addfile x f)) | _, _ => some (w, "bad-op")
  | ["rmfromfile", x, f] => match E x, parseHandle 'f' f with
    | some x, some f => some (applyOp S V rootAttrs w (.rmfromfile x f)) | _, _ => some (w, "bad-op")
  | ["rmfile", m, f] => match M m, parseHandle 'f' f with
    | some k, some f => some (applyOp S V rootAttrs w (.rmfile k f)) | _, _ => some (w, "bad-op")
  | ["load", m, nm, st, doc] => match M m, bytesOfHex nm, bytesOfHex doc with
    | some k, some nm, some doc =>
      let r := opLoad S V ((V.elemOf [65, 85, 84, 79, 83, 65, 82]).getD 0) w k nm (st == "1") doc
      -- a merge that lists one element below two parents (known finding c03:merge-into-twin-siblings-shares-subtree): the tree model
      -- has no value for that state; the history is cut here
      let ids := match r.1.models[k]? with | some m' => m'.rootItems.ids | none => []
      if ids.eraseDups.length != ids.length then some (w, "unsupported") else some (r.1, r.2.show)
    | _, _, _ => some (w, "bad-op")
  | ["ser", f] => match parseHandle 'f' f with
    | some f => some (opSerialize S V w f) | none => some (w, "bad-op")
  | ["compat", f, v] => match parseHandle 'f' f, v.toNat? with
    | some f, some v => if validVer v then some (w, qCompat S w f v) else some (w, "bad-op")
    | _, _ => some (w, "bad-op")
  | ["setver", f, v] => match parseHandle 'f' f, v.toNat? with
    | some f, some v => if validVer v then some (applyOp S V rootAttrs w (.setver f v)) else some (w, "bad-op")
    | _, _ => some (w, "bad-op")
  | _ => none

end AV.WDriver
