/-
`avdriver`: one request line in, one canonical answer line out.  Every answer is computed by
the functions of `AutosarVerif/Model` applied to the tables regenerated from the Rust source
(`AutosarVerif/Gen`); only the read loop is `partial`.
-/
import AutosarVerif.Model.Hash
import AutosarVerif.Model.Spec
import AutosarVerif.Model.SpecPacked
import AutosarVerif.Model.Versions
import AutosarVerif.Model.SpecCache
import AutosarVerif.Gen.HashParams
import AutosarVerif.Gen.NamesElem
import AutosarVerif.Gen.NamesAttr
import AutosarVerif.Gen.NamesEnum
import AutosarVerif.Gen.Versions
import AutosarVerif.Gen.SpecData
import AutosarVerif.Model.Regex
import AutosarVerif.Model.CData
import AutosarVerif.Model.Lexer
import AutosarVerif.Gen.RegexStrings
import AutosarVerif.Gen.DfaData
import Driver.Proto
import Driver.World

open AV AV.Proto AV.Gen

/-- the specification the driver executes: `realSpec` tabulated (`SpecArrays.toSpec_ofSpec`) -/
def realArrays : SpecArrays := SpecArrays.ofSpec realSpec
def fastSpec : Spec := realArrays.toSpec realSpec

def elemArr : Array Nat := Elem.table.names.toArray
def attrArr : Array Nat := Attr.table.names.toArray
def enumArr : Array Nat := Enum.table.names.toArray

def tableOf (k : String) : Option (Hash.NameTable × Array Nat) :=
  match k with
  | "E" => some (Elem.table, elemArr)
  | "A" => some (Attr.table, attrArr)
  | "I" => some (Enum.table, enumArr)
  | _ => none

/-- the published regex of `validate_regex_k`, parsed once -/
def parsedRegexes : List (Nat × Option Rx.Re) := regexStrings.map fun (k, t) => (k, Rx.parseRegex t)

def regexOf (k : Nat) : Option Rx.Re :=
  match parsedRegexes.find? (·.1 == k) with
  | some (_, some r) => some r
  | _ => none

def dfaOf (k : Nat) : Option Rx.Dfa := (allDfas.find? (·.1 == k)).map (·.2)

/-- shortest string on which the table of validator `k` and its regex differ (breadth-first over
the product of DFA states and derivatives); `none` if the product closes without a difference -/
def diffSearch (d : Rx.Dfa) (r : Rx.Re) : Option (List Nat × Bool × Bool) :=
  let rec go (fuel : Nat) (work : List (Nat × Rx.Re × List Nat)) (seen : List Rx.Pair) : Option (List Nat × Bool × Bool) :=
    match fuel, work with
    | 0, _ => none
    | _, [] => none
    | fuel + 1, (q, r, acc) :: rest =>
      if q == 255 then
        -- the DFA has rejected; any accepted continuation of r is a difference
        if Rx.nullable r then some (acc.reverse, false, true)
        else
          let succs := (List.range 256).filterMap fun b =>
            let r' := Rx.deriv b r
            if r' == Rx.Re.empty || Rx.pairIn seen 255 r' then none else some (255, r', b :: acc)
          go fuel (rest ++ succs) (seen ++ succs.map fun (q, r, _) => (q, r))
      else if d.accepts q != Rx.nullable r then some (acc.reverse, d.accepts q, Rx.nullable r)
      else
        let succs := (List.range 256).foldl (fun (a : List (Nat × Rx.Re × List Nat)) b =>
          let q' := d.step q b
          let r' := Rx.deriv b r
          if (q' == 255 && r' == Rx.Re.empty) || Rx.pairIn seen q' r' || a.any (fun (x, y, _) => x == q' && y == r') then a
          else (q', r', b :: acc) :: a) []
        go fuel (rest ++ succs.reverse) (seen ++ succs.map fun (q, r, _) => (q, r))
  go 20000 [(0, r, [])] [(0, r)]

def hex16 (n : Nat) : String :=
  String.ofList ((List.range 16).reverse.map fun i => hexDigit ((n >>> (4 * i)) % 16))

def isNaNBits (b : Nat) : Bool := (b >>> 52) % 2048 == 2047 && b % (2 ^ 52) != 0

def showF64 : Option Nat → String
  | some b => if isNaNBits b then "ok nan" else s!"ok {hex16 b}"
  | none => "none"

def intTyOf (w : String) : Option CData.IntTy :=
  match w.toList with
  | 'u' :: r => (String.ofList r).toNat?.map fun b => ⟨false, b⟩
  | 's' :: r => (String.ofList r).toNat?.map fun b => ⟨true, b⟩
  | _ => none

def showOptNat : Option Nat → String
  | some n => s!"ok {n}"
  | none => "none"

def modeStr : Mode → String
  | .sequence => "Sequence" | .choice => "Choice" | .bag => "Bag" | .characters => "Characters" | .mixed => "Mixed"
def multStr : Mult → String
  | .zeroOrOne => "ZeroOrOne" | .one => "One" | .any => "Any"

def cspecStr : CSpec → String
  | .enum items => s!"enum:{items.length}:{items.foldl (fun a p => (a * 31 + p.1 * 7 + p.2) % 1000000007) 0}"
  | .pattern k ml => s!"pattern:{k}:{ml}"
  | .string p ml => s!"string:{p}:{ml}"
  | .uint => "uint"
  | .float => "float"

/-- a cheap, order-sensitive digest of a listing (so that long listings compare as one token) -/
def digest (l : List Nat) : Nat := l.foldl (fun a x => (a * 1000003 + x + 1) % 2305843009213693951) 7

def answer (S : Spec) (ws : List String) : String :=
  match ws with
  | ["from_bytes", k, h] =>
    match tableOf k, bytesOfHex h with
    | some (T, arr), some b => showOptNat (Hash.fromBytesA hashParams T arr b)
    | _, _ => "bad-op"
  | ["from_str", k, h] =>
    -- `FromStr::from_str(input)` is `Self::from_bytes(input.as_bytes())` (shape checked by the translator)
    match tableOf k, bytesOfHex h with
    | some (T, arr), some b => showOptNat (Hash.fromBytesA hashParams T arr b)
    | _, _ => "bad-op"
  | ["to_str", k, i] =>
    match tableOf k, i.toNat? with
    | some (T, arr), some i => if i < T.nNames then s!"ok {hexOrDash (Hash.unpack 256 (arr.getD i 0))}" else "bad-op"
    | _, _ => "bad-op"
  | ["validate", k, h] =>
    -- the property's ground truth: does the string match the published regex of validate_regex_k
    match k.toNat?, bytesOfHex h with
    | some k, some b =>
      match regexOf k with
      | some r => s!"ok {Rx.matchD r (b.map (·.toNat))}"
      | none => "none"
    | _, _ => "bad-op"
  | ["dfa", k, h] =>
    -- the model of the code: the table-driven loop of validate_regex_k
    match k.toNat?, bytesOfHex h with
    | some k, some b =>
      match dfaOf k with
      | some d => s!"ok {d.run (b.map (·.toNat))}"
      | none => "none"
    | _, _ => "bad-op"
  | ["diffsearch", k] =>
    match k.toNat? with
    | some k =>
      match dfaOf k, regexOf k with
      | some d, some r =>
        match diffSearch d r with
        | some (w, a, b) => s!"ok {hexOrDash (w.map UInt8.ofNat)} dfa={a} regex={b}"
        | none => "none"
      | _, _ => "none"
    | none => "bad-op"
  | ["parse_int", w, h] =>
    match intTyOf w, bytesOfHex h with
    | some T, some b => match CData.parseInteger T b with
      | some v => s!"ok {v}"
      | none => "none"
    | _, _ => "bad-op"
  | ["parse_float", h] =>
    match bytesOfHex h with
    | some b => showF64 (CData.parseFloat b)
    | none => "bad-op"
  | ["parse_bool", h] =>
    match bytesOfHex h with
    | some b => match CData.parseBool b with
      | some v => s!"ok {v}"
      | none => "none"
    | none => "bad-op"
  | ["load_float", h] =>
    -- strict load of a FLOAT-typed leaf holding this text (no white space, no entities): `str::parse::<f64>`
    match bytesOfHex h with
    | some [] => "ok other"
    | some b => match CData.parseF64 b with
      | some v => showF64 (some v)
      | none => "err"
    | none => "bad-op"
  | ["load_uint", h] =>
    match bytesOfHex h with
    | some [] => "ok other"
    | some b => match CData.parseU64 b with
      | some v => s!"ok {v}"
      | none => "err"
    | none => "bad-op"
  | ["to_dec", n] =>
    match n.toNat? with
    | some n => s!"ok {hexOrDash (CData.toDec n)}"
    | none => "bad-op"
  | ["escape", h] =>
    match bytesOfHex h with
    | some b => s!"ok {hexOrDash (CData.escape b)}"
    | none => "bad-op"
  | ["unescape", h] =>
    match bytesOfHex h with
    | some b => match CData.unescape b with
      | some u => s!"ok {hexOrDash u}"
      | none => "err"
    | none => "bad-op"
  | ["ver_parse", h] =>
    match bytesOfHex h with
    | some b => showOptNat (versionTable.parse (b.map (·.toNat)))
    | none => "bad-op"
  | ["ver_filename", v] =>
    match v.toNat? with
    | some v => match versionTable.fileNameOf v with
      | some s => s!"ok {hexOrDash (s.map UInt8.ofNat)}"
      | none => "none"
    | none => "bad-op"
  | ["ver_from", n] =>
    match n.toNat? with
    | some n => showOptNat (versionTable.ofU64 n)
    | none => "bad-op"
  | ["find_sub", t, nm, v] =>
    match t.toNat?, nm.toNat?, v.toNat? with
    | some t, some nm, some v =>
      match S.findSub t nm v with
      | some (e, idx) => s!"ok {e.defId} {e.typ} {showNatList idx}"
      | none => "none"
    | _, _, _ => "bad-op"
  | ["sub_info", t, idx] =>
    -- version mask, multiplicity and container mode of the sub-element at an index path
    match t.toNat?, natList idx with
    | some t, some idx =>
      let m := match S.subMaskAt t idx with | some m => toString m | none => "none"
      let mu := match S.subMult t idx with | some m => multStr m | none => "none"
      let cm := match S.containerMode t idx with | some m => modeStr m | none => "panic"
      s!"ok {m} {mu} {cm}"
    | _, _ => "bad-op"
  | ["common_group", t, i1, i2] =>
    match t.toNat?, natList i1, natList i2 with
    | some t, some a, some b => s!"ok {modeStr (S.mode (S.commonGroup t a b))}"
    | _, _, _ => "bad-op"
  | ["type_info", d] =>
    -- everything `ElementType::new(def)` answers without arguments
    match d.toNat? with
    | some d =>
      let t := S.defType d
      let cd := match S.chardataSpec t with | some c => cspecStr c | none => "none"
      s!"ok typ={t} named={S.isNamed t} snbits={(S.shortNameMask t).getD 0 &&& 0x1fffff} ref={S.isRef t} mode={modeStr (S.mode t)} ordered={S.defOrdered d} split={S.defSplit d} cdata={cd}"
    | none => "bad-op"
  | ["list_sub", t] =>
    match t.toNat? with
    | some t =>
      let l := S.listSub t
      s!"ok {l.length} {digest (l.flatMap fun (nm, e, m, _) => [nm, e.defId, e.typ, m])}"
    | none => "bad-op"
  | ["list_attrs", t] =>
    match t.toNat? with
    | some t =>
      let l := S.listAttrs t
      let parts := l.map fun (nm, cd, rq, _) => s!"{nm}:{cspecStr (S.cspec cd)}:{rq}"
      s!"ok {l.length} {if parts.isEmpty then "-" else ";".intercalate parts}"
    | none => "bad-op"
  | ["find_attr", t, nm] =>
    match t.toNat?, nm.toNat? with
    | some t, some nm =>
      match S.findAttr t nm with
      | some (cd, rq, m) => s!"ok {cspecStr (S.cspec cd)} {rq} {m}"
      | none => "none"
    | _, _ => "bad-op"
  | ["ref_dest", r, t] =>
    match r.toNat?, t.toNat? with
    | some r, some t => showOptNat (S.refDestValue r t)
    | _, _ => "bad-op"
  | ["verify_dest", t, d] =>
    match t.toNat?, d.toNat? with
    | some t, some d => s!"ok {S.verifyDest t d}"
    | _, _ => "bad-op"
  | _ => "bad-op"

/-- what the value layer of the world model needs: validators, enum texts, LATEST -/
def worldEnv : W.Env where
  validate k b :=
    -- a table-driven validator is its table; a hand-written one is compared with its regex (C19)
    match dfaOf k with
    | some d => d.run (b.map (·.toNat))
    | none => match regexOf k with
      | some r => Rx.matchD r (b.map (·.toNat))
      | none => false
  enumText i := Hash.unpack 256 (enumArr.getD i 0)
  enumOf b := Hash.fromBytesA hashParams Enum.table enumArr b
  elemText i := Hash.unpack 256 (elemArr.getD i 0)
  attrText i := Hash.unpack 256 (attrArr.getD i 0)
  nmIndex := (Hash.fromBytesA hashParams Elem.table elemArr [73, 78, 68, 69, 88]).getD 0
  nmDefinitionRef := (Hash.fromBytesA hashParams Elem.table elemArr [68, 69, 70, 73, 78, 73, 84, 73, 79, 78, 45, 82, 69, 70]).getD 0
  latest := versionTable.latest
  nmDest := realSpec.atDest
  elemOf b := Hash.fromBytesA hashParams Elem.table elemArr b
  attrOf b := Hash.fromBytesA hashParams Attr.table attrArr b
  verOfFile b := versionTable.parse (b.map (·.toNat))
  fileOfVer v := ((versionTable.fileNameOf v).getD []).map UInt8.ofNat
  atXmlns := (Hash.fromBytesA hashParams Attr.table attrArr "xmlns".toUTF8.toList).getD 0
  atXmlnsXsi := (Hash.fromBytesA hashParams Attr.table attrArr "xmlns:xsi".toUTF8.toList).getD 0
  atSchemaLocation := (Hash.fromBytesA hashParams Attr.table attrArr "xsi:schemaLocation".toUTF8.toList).getD 0

/-- requests that need the environment of the world model (names, validators) -/
def answer2 (S : Spec) (ws : List String) : String :=
  match ws with
  | ["load", strict, h] =>
    -- the whole parser (tokenizer + `parse_arxml`): kind and line of the error, or the warnings of a successful run
    match bytesOfHex h with
    | some b =>
      let r := PM.runParser S worldEnv (strict == "1") b 0 ((worldEnv.elemOf [65, 85, 84, 79, 83, 65, 82]).getD 0)
      match r.1 with
      | .error e => W.showErr e
      | .ok _ =>
        let ws := if r.2.warnings.isEmpty then "-" else ",".intercalate (r.2.warnings.map fun e => s!"{e.kind}@{e.line}")
        s!"ok w{r.2.warnings.length} {ws}"
    | none => "bad-op"
  | ["chk", h] =>
    -- `check_buffer`
    match bytesOfHex h with
    | some b => s!"ok {PM.checkBuffer S worldEnv b ((worldEnv.elemOf [65, 85, 84, 79, 83, 65, 82]).getD 0)}"
    | none => "bad-op"
  | _ => answer S ws

def strBytes (s : String) : Bytes := s.toUTF8.toList

/-- attributes of the root element as `AutosarModel::new` sets them -/
def rootAttrs : List (Nat × W.CDv) :=
  let a (n : String) : Nat := (Hash.fromBytesA hashParams Attr.table attrArr (strBytes n)).getD 0
  let latestFile : Bytes := ((versionTable.fileNameOf versionTable.latest).getD []).map UInt8.ofNat
  [(a "xsi:schemaLocation", .str (strBytes "http://autosar.org/schema/r4.0 " ++ latestFile)),
   (a "xmlns", .str (strBytes "http://autosar.org/schema/r4.0")),
   (a "xmlns:xsi", .str (strBytes "http://www.w3.org/2001/XMLSchema-instance"))]

partial def loop (S : Spec) (w : W.World) (h : IO.FS.Stream) (out : IO.FS.Stream) : IO Unit := do
  let line ← h.getLine
  if line.isEmpty then return ()
  let ws := (line.trimAscii.toString.splitOn " ").filter (· ≠ "")
  match WDriver.step S worldEnv (fun v => versionTable.values.contains v) rootAttrs w ws with
  | some (w', ans) =>
    out.putStrLn ans
    loop S w' h out
  | none =>
    out.putStrLn (answer2 S ws)
    loop S w h out

def main : IO Unit := do
  let out ← IO.getStdout
  loop fastSpec W.emptyWorld (← IO.getStdin) out
  out.flush
