/- Line-protocol helpers for the driver: hex coding, number parsing, output formatting. -/
import AutosarVerif.Model.Hash

namespace AV.Proto

def hexDigit (n : Nat) : Char :=
  if n < 10 then Char.ofNat (48 + n) else Char.ofNat (87 + n)

def hexOfBytes (b : Bytes) : String :=
  String.ofList (b.flatMap fun x => [hexDigit (x.toNat / 16), hexDigit (x.toNat % 16)])

def hexVal (c : Char) : Option Nat :=
  let n := c.toNat
  if 48 ≤ n ∧ n ≤ 57 then some (n - 48)
  else if 97 ≤ n ∧ n ≤ 102 then some (n - 87)
  else if 65 ≤ n ∧ n ≤ 70 then some (n - 55)
  else none

def bytesOfHexChars : List Char → Option Bytes
  | [] => some []
  | [_] => none
  | a :: b :: rest =>
    match hexVal a, hexVal b, bytesOfHexChars rest with
    | some x, some y, some r => some (UInt8.ofNat (16 * x + y) :: r)
    | _, _, _ => none

/-- "-" stands for the empty byte string -/
def bytesOfHex (s : String) : Option Bytes :=
  if s == "-" then some [] else bytesOfHexChars s.toList

def hexOrDash (b : Bytes) : String := if b.isEmpty then "-" else hexOfBytes b

def natList (s : String) : Option (List Nat) :=
  if s == "-" then some [] else (s.splitOn ",").mapM (·.toNat?)

def showNatList (l : List Nat) : String :=
  if l.isEmpty then "-" else ",".intercalate (l.map toString)

end AV.Proto
