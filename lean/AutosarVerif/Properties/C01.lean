/-
C01 — Loading is faithful; load -> serialize -> load is the identity.

Property text: "A loaded model contains exactly the elements, attributes, values and attached comments that the
document contains, in document order, with entities and character references decoded and only insignificant
whitespace removed (a lenient load may omit only what it reports in a warning). Serializing the loaded file and
loading that text again yields an identical model, and serializing once more yields byte-identical text. This
holds in strict and in lenient mode and for every supported AUTOSAR schema version."

What is proved (value and token level; models: `CData.escape/unescape` = `escape_text` / `unescape_string`,
`Lex` = `lexer.rs`, `PM.parseCharData` = `parse_character_data`):
* `C01_value_roundtrip_*`: every string, every `u64`, every enumeration item survives write + read (C20, C18);
* `C01_escaped_text_is_one_run`: the escaped form of ANY string contains no `<`, so the tokenizer reads a
  written text value back as ONE character run up to the next tag — nothing of a value can be taken for markup;
* `C01_blank_runs_dropped`: an all-blank character run (what the serializer inserts as line breaks and
  indentation between tags) produces no event — it is the insignificant white space;
* `C01_comment_text`: a well-formed comment event carries exactly the bytes between `<!--` and `-->`;
* both parsing modes agree on warning-free values (C08);
* **the tokenizer reads the serializer's output back as exactly the element structure** (`Lemmas/SerLex.lean`, by induction over
  the forest, every size and depth): `C01_tokenizer_inverts_serializer` — for every tree whose names and comments are lexically
  well-formed (`wfItems`), tokenizing the xml declaration followed by the text `ArxmlFile::serialize` writes for a file yields
  the `header` event, then EXACTLY the events `tokensOfFile` computes from the tree (comment, start tag with the attribute text,
  character run, end tag — a deferred one for `<X/>`), then end-of-file; no lexer error, within the fuel.
  `C01_tokenizer_inverts_serializer_real_tables`: over the REGENERATED name tables the hypotheses reduce to "element names are
  discriminants" and "comments contain no `-->`" (kernel scans of all 6 459 element names, the attribute names and the
  enumeration items: `Lemmas/SerLexRealScan.lean`), and `C01_every_set_comment_text_is_readable`: every text `set_comment`
  can store (`fixComment`) satisfies the comment condition — since the repair of defect c01:comment-starting-with-gt, found by
  exactly this hypothesis (`<!-->-->` was an invalid comment).  `tokensOfFile` makes the two remaining text-level effects explicit:
  a white-space-only value yields no event (known finding c01), adjacent character items of MIXED content are read as one run;
Partial: the element-level statement (tree equality after load∘serialize∘load for all documents and versions)
is not a theorem; it is checked on the real library by the document scenario: specification walk in all
versions, grammar-directed documents written by an independent writer, an independent XML reader as oracle.
Known findings `c01:*` (comments splitting text, character references for leading/trailing blanks, blank-only
preserved values) are replayed on every run.
-/
import AutosarVerif.Properties.C20
import AutosarVerif.Properties.C08
import AutosarVerif.Lemmas.Lexer
import AutosarVerif.Lemmas.SerLex
import AutosarVerif.Lemmas.SerLexReal
import AutosarVerif.Lemmas.SerParseDoc
import AutosarVerif.Lemmas.SerParseLoad
import AutosarVerif.Lemmas.SerParseEx

namespace AV.C01
open AV.CData AV.Lex

theorem C01_value_roundtrip_string (s : Bytes) : unescape (escape s) = some s := C20.C20_string_roundtrip s
theorem C01_value_roundtrip_uint (n : Nat) (h : n < 2 ^ 64) : parseU64 (toDec n) = some n := C20.C20_uint_roundtrip n h
theorem C01_value_roundtrip_enum (i : Nat) (h : i < Gen.Enum.table.nNames) :
    Hash.fromBytes Gen.hashParams Gen.Enum.table (Hash.toStr Gen.Enum.table i) = some i := C20.C20_enum_roundtrip i h

/-- the escaped text of any string has no `<`: the tokenizer's character run covers all of it -/
theorem takeWhile_no60 (l tail : Bytes) (hno : ∀ c ∈ l, c ≠ 60) : (l ++ 60 :: tail).takeWhile (· ≠ 60) = l := by
  induction l with
  | nil => simp
  | cons c cs ih =>
    have hc : c ≠ 60 := hno c (by simp)
    have : (c :: cs ++ 60 :: tail).takeWhile (· ≠ 60) = c :: (cs ++ 60 :: tail).takeWhile (· ≠ 60) := by
      simp [List.takeWhile_cons, hc]
    rw [this, ih (fun x hx => hno x (by simp [hx]))]

theorem C01_escaped_text_is_one_run (s tail : Bytes) :
    (escape s ++ 60 :: tail).takeWhile (· ≠ 60) = escape s :=
  takeWhile_no60 (escape s) tail (fun c hc => (escape_no_markup s c hc).1)

/-- an all-blank character run yields no event: the loop continues behind it -/
theorem C01_blank_runs_dropped (s : LState) (h : (s.rest.takeWhile (· ≠ 60)).all isWs = true) :
    stepChars s = .again { s with rest := s.rest.dropWhile (· ≠ 60), line := s.line + countNl (s.rest.takeWhile (· ≠ 60)) } := by
  unfold stepChars
  rw [if_pos h]

/-- a well-formed comment event carries exactly the bytes between the delimiters -/
theorem C01_comment_text (s : LState) (n l : Nat) (txt : Bytes) (s' : LState)
    (h : stepComment s n = .ev l (.comment txt) s') :
    ∃ ce, txt = ((s.rest.take ce).drop 4).dropLast.dropLast ∧ startsWith [60, 33, 45, 45] (s.rest.take ce) = true ∧
      endsWith [45, 45] (s.rest.take ce) = true := by
  unfold stepComment at h
  split at h
  · cases h
  · rename_i ce _
    split at h
    · cases h
    · rename_i hc
      cases h
      refine ⟨ce, rfl, ?_, ?_⟩
      · cases hb : startsWith [60, 33, 45, 45] (s.rest.take ce) with
        | true => rfl
        | false => exact absurd (Or.inr (Or.inl (by simp [hb]))) hc
      · cases hb : endsWith [45, 45] (s.rest.take ce) with
        | true => rfl
        | false => exact absurd (Or.inr (Or.inr (by simp [hb]))) hc

theorem C01_modes_agree_on_values (input : Bytes) (spec : CSpec) : PM.Lock (PM.parseCharData input spec) :=
  C08.C08_value_layer_lockstep input spec

/-- the tokenizer inverts the serializer (token level), for the text written for the file `ff` (`none` = everything) -/
theorem C01_tokenizer_inverts_serializer (S : Spec) (V : W.Env) (ff : Option Nat) (sa : Option Bool) (root : W.Items) (bytes : Bytes)
    (hwf : SerLex.wfItems V root = true) (hser : W.serForest S V ff 0 false root = some bytes) :
    ∃ toks, SerLex.tokensOfFile S V ff false root = some toks ∧
      (Lex.lex (SerLex.xmlDecl sa ++ bytes)).1.map (·.2) = .header sa :: toks ++ [.eof] ∧
      (Lex.lex (SerLex.xmlDecl sa ++ bytes)).2.1 = none ∧ (Lex.lex (SerLex.xmlDecl sa ++ bytes)).2.2 = true :=
  SerLex.lex_document_file S V ff sa root bytes hwf hser

theorem C01_tokenizer_inverts_serializer_real_tables (S : Spec) (V : W.Env) (hV : SerLex.Real.RealNames V) (ff : Option Nat)
    (sa : Option Bool) (root : W.Items) (bytes : Bytes) (hwf : SerLex.Real.treeOK root = true)
    (hser : W.serForest S V ff 0 false root = some bytes) :
    ∃ toks, SerLex.tokensOfFile S V ff false root = some toks ∧
      (Lex.lex (SerLex.xmlDecl sa ++ bytes)).1.map (·.2) = .header sa :: toks ++ [.eof] ∧
      (Lex.lex (SerLex.xmlDecl sa ++ bytes)).2.1 = none ∧ (Lex.lex (SerLex.xmlDecl sa ++ bytes)).2.2 = true :=
  SerLex.Real.lex_document_real S V hV ff sa root bytes hwf hser

/-- every comment text the editing API can store is read back (`set_comment` replaces `--` by `__`) -/
theorem C01_every_set_comment_text_is_readable (c : Bytes) : Lex.commentOK (W.fixComment c) = true :=
  SerLex.commentOK_fixComment c

/-! non-vacuity: "<!--a-->" is one comment event with text "a" -/
example : (lex [60, 33, 45, 45, 97, 45, 45, 62]).1 = [(1, .comment [97]), (1, .eof)] := by decide


/-! ### added in the third session: statements proved in the lemma files, restated here by name
(`type_of%` keeps the statement identical to the lemma; the signature is quoted in the comment) -/

/-- **element level**: for every VALID tree (`ValidRoot`: exactly the checks the parser makes - names known in the version with the recorded types, choice conflicts, multiplicities, attributes and values that read back, SHORT-NAME present where required; no ordering constraint, the parser has none) the parser model, run on the xml declaration followed by the text the serializer model writes, returns the same tree (ids assigned in document order from `nid`), with no warning, in strict and in lenient mode
`theorem runParser_serialized (sa : Option Bool) (h : Hdr) (k : Items) (bytes : Bytes) (nid nmAutosar ver : Nat) (strict : Bool) (hwf : wfItems V (.elem h k .nil) = true) (hser : serForest S V none 0 false (.elem h k .nil) = some bytes) (hvalid : ValidRoot S V nmAutosar ver h k) : ∃ st, runParser S V strict (xmlDecl sa ++ bytes) nid nmAutosar = (.ok ({ h with id` -/
theorem C01_parser_rebuilds_serialized_document : type_of% @AV.SerParse.runParser_serialized := @AV.SerParse.runParser_serialized

/-- the same through `load_buffer` into a model without files: tree, file entry, id counters
`theorem opLoad_serialized (S : Spec) (V : Env) (nmAutosar ver : Nat) (w : World) (kx : Nat) (m : Model) (name : Bytes) (strict : Bool) (sa : Option Bool) (h : Hdr) (k : Items) (bytes : Bytes) (hm : w.models[kx]? = some m) (hfiles : m.files = []) (hwf : wfItems V (.elem h k .nil) = true) (hser : serForest S V none 0 false (.elem h k .nil) = some bytes) (hvalid : ValidRoot S V nmAutosar ver h k) : ∃ w' ans m', opLoad S V nmAutosar w kx name strict (xmlDecl sa ++ bytes) = (w', .ok ans) ∧ w'.models[kx]? = some m' ∧ m'.rootHdr = { h with id` -/
theorem C01_load_of_serialized_file_rebuilds_the_tree : type_of% @AV.SerParse.opLoad_serialized := @AV.SerParse.opLoad_serialized

/-- the induction behind it (all five content modes)
`theorem content_ok (its : Items) : ∀ (hp : Hdr) (mixed prevText : Bool) (pi seen : List Nat) (ne : Bool) (p : Bytes) (pend : List Item) (st : LoopSt) (fuel : Nat) (b : Bool) (s : PState) (toks : List Event) (les rest : List (Nat × Event)) (sfin : LState) (lE : Nat), ValidC S V ver hp.ety.typ mixed its prevText pi seen ne → tokF S V none mixed its p = some toks → Pending S V ver hp.ety.typ prevText p pend → Run s.lx (les ++ (lE, .endElement (V.elemText hp.name)) :: rest) sfin → les.map (·.2) = toks → les.length < fuel → s.ver = ver → st.elemIdx = pi → st.comment = none → ((st.acc ++ pend).isEmpty = !ne) → (∀ nm, (st.acc ++ pend).any (isEl nm) = seen.contains nm) → V.elemOf (V.elemText hp.name) = some hp.name → (S.isNamedIn hp.ety.typ ver = true → st.snFound = true ∨ hasSN S its = true) → ∃ s', pLoop S V fuel hp st b s = (.ok (itemsOf (st.acc ++ pend ++ listOf (relabel (.elem hp.id) s.nextId its))), s') ∧ Run s'.lx rest sfin ∧ s'.nextId = s.nextId + cnt its ∧ s'.warnings = s.warnings ∧ s'.ver = s.ver ∧ s'.standalone = s.standalone` -/
theorem C01_parser_content_induction : type_of% @AV.SerParse.content_ok := @AV.SerParse.content_ok

end AV.C01
