/-
C13 — Deep copy and model duplication are faithful and independent.

Property text: "A deep copy of an element into a destination of the same version has content identical to the
source apart from a numeric suffix on its own item name when needed for uniqueness, makes every copied
identifiable element and reference findable in the destination model, and leaves the source unchanged; a copy
into an older or newer version omits exactly the parts not permitted there and still validates. …"

Model: `deepCopy` / `registerCopy` / `uniqueName` / `opCopy` (`Model/WorldOps2.lean` = `deep_copy`,
the registration loop of `create_copied_sub_element_inner`, `make_unique_item_name`).
Proved for all inputs: the copy of a node gets a FRESH identity (the requested id) and the destination as
parent, keeps element name, type and comment and has no local file set (`C13_copy_head`); values that are not
enumeration items are never dropped by the version filter (`C13_non_enum_values_kept`); a copy that is refused
leaves the world — in particular the source — unchanged (`C13_refused_copy_no_effect`).
Partial: content equality of the whole subtree, registration of nested identifiables/references and
independence after later edits are checked by the correspondence run on `copy` histories (new ids, dumps) and
by the direct oracle on the real library (serialization of copy vs source, lookups, edits of either side);
`duplicate()` by the oracle only.
-/
import AutosarVerif.Lemmas.Files
import AutosarVerif.Lemmas.WorldOps

namespace AV.C13
open AV.W

theorem C13_copy_head (S : Spec) (fuel : Nat) (h : Hdr) (kids : Items) (ver : Nat) (parent : PRef) (nid : Nat)
    (h' : Hdr) (k' : Items) (n' : Nat) (hc : deepCopy S fuel h kids ver parent nid = some (h', k', n')) :
    h'.id = nid ∧ h'.parent = parent ∧ h'.name = h.name ∧ h'.ety = h.ety ∧ h'.comment = h.comment ∧ h'.files = [] :=
  deepCopy_head S fuel h kids ver parent nid h' k' n' hc

theorem C13_non_enum_values_kept (v : CDv) (sp : CSpec) (ver : Nat) (h : ∀ items, sp ≠ .enum items) :
    valueCompat v sp ver = true := valueCompat_non_enum v sp ver h

theorem C13_refused_copy_no_effect (S : Spec) (V : Env) (w : World) (p x : Nat) (pos : Option Nat) :
    (opCopy S V w p x pos).2 = .err → (opCopy S V w p x pos).1 = w := opCopy_err_frame S V w p x pos

/-! non-vacuity: the unique-name search appends `_1`, `_2`, … -/
example : (uniqueName [([47, 97], 1), ([47, 97, 95, 49], 2)] [] [97] 5 0).1 = [97, 95, 50] := by decide   -- "a" -> "a_2"

end AV.C13
