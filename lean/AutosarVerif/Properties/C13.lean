/-
C13 — Deep copy and model duplication are faithful and independent.

Property text: "A deep copy of an element into a destination of the same version has content identical to the
source apart from a numeric suffix on its own item name when needed for uniqueness, makes every copied
identifiable element and reference findable in the destination model, and leaves the source unchanged; a copy
into an older or newer version omits exactly the parts not permitted there and still validates. …"

Model: `deepCopy` / `registerCopy` / `uniqueName` / `opCopy` (`Model/WorldOps2.lean` = `deep_copy`,
the registration loop of `create_copied_sub_element_inner`, `make_unique_item_name`).
Proved for all inputs: the copy of a node gets a FRESH identity (the requested id) and the destination as
parent, keeps element name, type and comment and has no local file set (`C13_copy_head`); values that are not
enumeration items are never dropped by the version filter (`C13_non_enum_values_kept`); a copy that is refused
leaves the world — in particular the source — unchanged (`C13_refused_copy_no_effect`).
The WHOLE SUBTREE (`Lemmas/DeepCopy.lean`), for every specification, every tree, every depth:
* `C13_copy_is_fresh_and_wellformed`: the ids of the copy are exactly `nid, nid+1, …` in document order (pairwise different,
  all new), parent fields agree with the structure, no element of the copy has a file set of its own;
* `C13_same_version_copy_is_identical` ("content identical to the source"): if everything in the source is permitted in the
  target version (`AllCompat`: every attribute known, in the version, value compatible; every text compatible; every
  sub-element found by the version's lookup — recursively), the copy succeeds and equals the source up to identities, parent
  fields and file sets (`Items.shape`);
* `C13_cross_version_copy_omits_exactly` ("omits exactly the parts not permitted there"): in general the copy equals, up to
  identities, the specification-level filter `compatFilter` — written without ids from the tables alone — and fails exactly
  when the filter fails (a required attribute is not permitted); `C13_copy_still_permitted`: everything in the copy is
  permitted in the target version (relative to the element types the copy carries — the library keeps the SOURCE's types,
  known findings c07:copy-*-keeps-element-type-*);
* `C13_fuel_is_enough`: the fuel `opCopy` passes never truncates (`depth < size`);
* `C13_source_unchanged`: after a successful copy the source element with its whole content is still in its tree, every other
  model is untouched (`opCopy_frame` in the lemma file), the tree stays well-formed (`C13_copy_keeps_tree`);
* `C13_copied_identifiables_and_references_findable`: in a world with exact index / referrer lists, after a successful copy
  whose paths are new (`CopyPathsOk`; it holds by itself for a same-version copy of a named element, `C13_same_version_copy_keeps_index_exact`)
  every named element of the copy is found under its path below the destination and every reference of the copy is listed
  under its text; the new index is EXACTLY the old one followed by the entries of the copy (`C13_copy_index_exact`).
  WITHOUT `CopyPathsOk` the statement is false (`C13_witness_unnamed_copy_collides`: copying an element without item name
  whose named children collide with existing siblings overwrites an index entry — the known finding
  c04:container-move-copy-collision, here with a Lean witness).
Partial: independence after later edits and `duplicate()` are checked by the correspondence run on `copy` histories (new
ids, dumps) and by the direct oracle on the real library.
-/
import AutosarVerif.Lemmas.Files
import AutosarVerif.Lemmas.WorldOps
import AutosarVerif.Lemmas.DeepCopy
import AutosarVerif.Lemmas.DeepCopyWitness
import AutosarVerif.Lemmas.CompatValid
import AutosarVerif.Lemmas.MoveCopyInv
import AutosarVerif.Lemmas.Dup
import AutosarVerif.Lemmas.DupWitness
import AutosarVerif.Lemmas.DupFaithful
import AutosarVerif.Lemmas.DupFaithfulWitness
import AutosarVerif.Lemmas.MergeKeeps

namespace AV.C13
open AV.W

theorem C13_copy_head (S : Spec) (fuel : Nat) (h : Hdr) (kids : Items) (ver : Nat) (parent : PRef) (nid : Nat)
    (h' : Hdr) (k' : Items) (n' : Nat) (hc : deepCopy S fuel h kids ver parent nid = some (h', k', n')) :
    h'.id = nid ∧ h'.parent = parent ∧ h'.name = h.name ∧ h'.ety = h.ety ∧ h'.comment = h.comment ∧ h'.files = [] :=
  deepCopy_head S fuel h kids ver parent nid h' k' n' hc

theorem C13_non_enum_values_kept (v : CDv) (sp : CSpec) (ver : Nat) (h : ∀ items, sp ≠ .enum items) :
    valueCompat v sp ver = true := valueCompat_non_enum v sp ver h

theorem C13_refused_copy_no_effect (S : Spec) (V : Env) (w : World) (p x : Nat) (pos : Option Nat) :
    (opCopy S V w p x pos).2 = .err → (opCopy S V w p x pos).1 = w := opCopy_err_frame S V w p x pos

theorem C13_copy_is_fresh_and_wellformed (S : Spec) (fuel : Nat) (h : Hdr) (kids : Items) (ver : Nat) (parent : PRef) (nid : Nat)
    (h' : Hdr) (k' : Items) (n' : Nat) (hc : deepCopy S fuel h kids ver parent nid = some (h', k', n')) :
    (Items.elem h' k' .nil).ids = List.range' nid (n' - nid) ∧ nid < n' ∧ (Items.elem h' k' .nil).ids.Nodup ∧
    (∀ i ∈ (Items.elem h' k' .nil).ids, nid ≤ i ∧ i < n') ∧ h'.id = nid ∧ k'.wf (.elem nid) ∧
    (Items.elem h' k' .nil).wf parent ∧ ∀ hd ∈ (Items.elem h' k' .nil).hdrs, hd.files = [] :=
  deepCopy_ids S fuel h kids ver parent nid h' k' n' hc

theorem C13_same_version_copy_is_identical (S : Spec) (h : Hdr) (kids : Items) (ver : Nat) (parent : PRef) (nid : Nat)
    (hc : AllCompat S ver h kids) :
    ∃ h' k' n', deepCopy S (kids.size + 2) h kids ver parent nid = some (h', k', n') ∧
      Items.shape (.elem h' k' .nil) = Items.shape (.elem h kids .nil) :=
  deepCopy_faithful_size S h kids ver parent nid hc

theorem C13_cross_version_copy_omits_exactly (S : Spec) (fuel : Nat) (h : Hdr) (kids : Items) (ver : Nat) (parent : PRef) (nid : Nat) :
    (∀ h' k' n', deepCopy S fuel h kids ver parent nid = some (h', k', n') →
      ∃ fh fk, compatFilter S ver fuel h kids = some (fh, fk) ∧ Items.shape (.elem h' k' .nil) = Items.shape (.elem fh fk .nil)) ∧
    (deepCopy S fuel h kids ver parent nid = none ↔ compatFilter S ver fuel h kids = none) :=
  ⟨fun h' k' n' hc => deepCopy_shape S fuel h kids ver parent nid h' k' n' hc, deepCopy_none_iff S fuel h kids ver parent nid⟩

/-- the fuelled filter is the structural one -/
theorem C13_filter_is_structural (S : Spec) (fuel : Nat) (h : Hdr) (kids : Items) (ver : Nat) (hf : kids.depth < fuel) :
    compatFilter S ver fuel h kids = compatFilterT S ver h kids := compatFilter_eq_T S fuel h kids ver hf

theorem C13_copy_still_permitted (S : Spec) (fuel : Nat) (h : Hdr) (kids : Items) (ver : Nat) (parent : PRef) (nid : Nat)
    (h' : Hdr) (k' : Items) (n' : Nat) (hf : kids.depth < fuel) (hc : deepCopy S fuel h kids ver parent nid = some (h', k', n')) :
    AllCompat S ver h' k' := deepCopy_allCompat S fuel h kids ver parent nid h' k' n' hf hc

theorem C13_fuel_is_enough (S : Spec) (fuel : Nat) (h : Hdr) (kids : Items) (ver : Nat) (parent : PRef) (nid : Nat)
    (hf : kids.size + 2 ≤ fuel) :
    deepCopy S fuel h kids ver parent nid = deepCopy S (kids.size + 2) h kids ver parent nid :=
  deepCopy_fuel_size S fuel h kids ver parent nid hf

theorem C13_source_unchanged (S : Spec) (V : Env) (w : World) (p x : Nat) (pos : Option Nat) (hok : (opCopy S V w p x pos).2 ≠ .err)
    (kx : Nat) (cx : List (Hdr × Items)) (hx : locate w x = some (kx, cx)) (hnd : ∀ m ∈ w.models, m.rootItems.ids.Nodup) :
    hdrOf w x = some (lastOf cx) ∧ Occ (lastOf cx).1 (lastOf cx).2 (w.models[kx]!).rootItems ∧
      Occ (lastOf cx).1 (lastOf cx).2 ((opCopy S V w p x pos).1.models[kx]!).rootItems :=
  opCopy_source_kept S V w p x pos hok kx cx hx hnd

theorem C13_copy_keeps_tree (S : Spec) (V : Env) (w : World) (p x : Nat) (pos : Option Nat) (hw : w.wf) :
    (opCopy S V w p x pos).1.wf := opCopy_wf S V w p x pos hw

theorem C13_copied_identifiables_and_references_findable (S : Spec) (V : Env) (vOk : Nat) (w : World) (p x : Nat) (pos : Option Nat)
    (k : Nat) (cp : List (Hdr × Items)) (ver : Nat) (xh : Hdr) (xkids : Items) (q : Nat) (nh : Hdr) (nk : Items) (n' : Nat)
    (nk1 : Items) (idx' : List (Bytes × Nat)) (rs' : List (Bytes × List Nat)) (hw : WInv S vOk w) (hr : WRInv S w)
    (hc : CopyOk S V w p x pos k cp ver xh xkids q nh nk n' nk1 idx' rs')
    (hpaths : CopyPathsOk S (w.models[k]!).index (pathOfChain S cp) nh nk) :
    (∀ e ∈ entries S (.elem nh nk1 .nil) (pathOfChain S cp), idxGet idx' e.1 = some e.2) ∧
    (∀ e ∈ refEntries S (.elem nh nk1 .nil), e.2 ∈ refsGet rs' e.1) :=
  opCopy_findable S V vOk w p x pos hw hr k cp ver xh xkids q nh nk n' nk1 idx' rs' hc hpaths

theorem C13_copy_index_exact (S : Spec) (V : Env) (vOk : Nat) (w : World) (p x : Nat) (pos : Option Nat)
    (k : Nat) (cp : List (Hdr × Items)) (ver : Nat) (xh : Hdr) (xkids : Items) (q : Nat) (nh : Hdr) (nk : Items) (n' : Nat)
    (nk1 : Items) (idx' : List (Bytes × Nat)) (rs' : List (Bytes × List Nat)) (hw : WInv S vOk w)
    (hc : CopyOk S V w p x pos k cp ver xh xkids q nh nk n' nk1 idx' rs')
    (hpaths : CopyPathsOk S (w.models[k]!).index (pathOfChain S cp) nh nk) :
    idx' = (w.models[k]!).index ++ entries S (.elem nh nk1 .nil) (pathOfChain S cp) :=
  opCopy_index S V vOk w p x pos hw k cp ver xh xkids q nh nk n' nk1 idx' rs' hc hpaths

theorem C13_same_version_copy_keeps_index_exact (S : Spec) (V : Env) (vOk : Nat) (hH : IdxHyp S V vOk) (hR : RefWF S) (w : World)
    (p x : Nat) (pos : Option Nat) (hw : WInv S vOk w) (hr : WRInv S w) (kx : Nat) (cx : List (Hdr × Items))
    (hx : locate w x = some (kx, cx)) (hnamed : itemName S (lastOf cx).1 (lastOf cx).2 ≠ none)
    (hall : ∀ k cp ver, locate w p = some (k, cp) → minVersion V (w.models[k]!) cp = some ver →
      AllCompat S ver (lastOf cx).1 (lastOf cx).2) :
    WInv S vOk (opCopy S V w p x pos).1 ∧ WRInv S (opCopy S V w p x pos).1 :=
  opCopy_inv_same_version S V vOk hH hR w p x pos hw hr kx cx hx hnamed hall

/-- negation witness (known finding c04:container-move-copy-collision): the copy of an element without item name whose named
children collide with existing siblings leaves two elements under one path; the world is built by a plain history -/
theorem C13_witness_unnamed_copy_collides (vOk : Nat) : ¬ WInv copySpec vOk (opCopy copySpec nameEnv copyW 0 1 none).1 :=
  not_winv_after_unnamed_copy vOk

/-! non-vacuity: the unique-name search appends `_1`, `_2`, … -/
example : (uniqueName [([47, 97], 1), ([47, 97, 95, 49], 2)] [] [97] 5 0).1 = [97, 95, 50] := by decide   -- "a" -> "a_2"


/-! ### added in the third session: statements proved in the lemma files, restated here by name
(`type_of%` keeps the statement identical to the lemma; the signature is quoted in the comment) -/

/-- "… and still validates": for a successful deep copy into version `ver` whose recorded element types are the types the destination computes (`TypesAgreeAll`; false for the alien-type findings, witness below) the compatibility check with target `ver` lists nothing and the copy is valid in `ver` (`NodeValid`)
`theorem deepCopy_compat_nil (hE : EnumKeysNodup S) (fuel : Nat) (h : Hdr) (kids : Items) (ver : Nat) (parent : PRef) (nid : Nat) (h' : Hdr) (k' : Items) (n' : Nat) (hf : kids.depth < fuel) (hc : deepCopy S fuel h kids ver parent nid = some (h', k', n')) (ht : TypesAgreeAll S ver h'.ety.typ k') (file : Nat) : (compatNode S file ver h' k').errs = [] ∧ (compatNode S file ver h' k').panic = false ∧ NodeValid S file ver h' k'` -/
theorem C13_copy_still_validates : type_of% @AV.W.deepCopy_compat_nil := @AV.W.deepCopy_compat_nil

/-- `theorem copy_alien_needed : allCompatB toySpec 1 alienCopy.1 alienCopy.2 = true ∧ (compatNode toySpec 0 1 alienCopy.1 alienCopy.2).errs = [.elem 1 maxMask] ∧ ¬ TypesAgreeAll toySpec 1 alienCopy.1.ety.typ alienCopy.2` -/
theorem C13_witness_alien_type_copy_not_valid : type_of% @AV.W.CompatValidWitness.copy_alien_needed := @AV.W.CompatValidWitness.copy_alien_needed

/-- a guarded copy (named source, content permitted in the destination version) keeps the full invariant of the world: in particular every copied identifiable and reference is findable, the source is untouched, ids stay unique
`theorem opCopy_ginv (hH : IdxHyp S V vOk) (hR : RefWF S) (hv32 : vOk &&& 0xFFFFFFFF = vOk) (w : World) (p x : Nat) (pos? : Option Nat) (hg : GInv S vOk w) (hgd : CopyGuard S V w p x) : GInv S vOk (opCopy S V w p x pos?).1` -/
theorem C13_guarded_copy_keeps_all_invariants : type_of% @AV.W.opCopy_ginv := @AV.W.opCopy_ginv


/-! ### added at the end of the third session (proof pack DU): restated by name
(`type_of%` keeps the statement identical to the lemma; the signature is quoted in the comment) -/

/-- **`duplicate()` (Model/Dup.lean `opDup`, what the driver runs for `dup`) is independent of the original**: every model that existed before - in particular the original - and the list of removed elements are unchanged, whatever the answer; needs that the next element id is not in use (an invariant of all histories, `fresh_of_winv`; FALSE otherwise: `C13_witness_duplicate_needs_fresh_ids`)
`theorem opDup_frame (w : World) (k : Nat) (hfresh : ∀ m ∈ w.models, w.nextId ∉ m.rootItems.ids) : (opDup S V rootAttrs w k).1.models.take w.models.length = w.models ∧ (opDup S V rootAttrs w k).1.dead = w.dead ∧ (opDup S V rootAttrs w k).1.models.length ≤ w.models.length + 1` -/
theorem C13_duplicate_leaves_every_existing_model_unchanged : type_of% @AV.W.opDup_frame := @AV.W.opDup_frame

/-- `theorem fresh_of_winv (vOk : Nat) (w : World) (hw : WInv S vOk w) (h0 : ∀ m ∈ w.models, m.rootIssued = false → m.rootHdr.id = 0) (hpos : 0 < w.nextId) : ∀ m ∈ w.models, w.nextId ∉ m.rootItems.ids` -/
theorem C13_next_id_is_fresh_in_reachable_states : type_of% @AV.W.fresh_of_winv := @AV.W.fresh_of_winv

/-- the positional transfer of file sets changes nothing but `files` fields (shape, texts, ids, names, types, attributes, parents, comments kept)
`theorem assignFiles_noFiles (its : Items) (fs : List (List Nat)) : (assignFiles its fs).1.mapHdrs Hdr.noFiles = its.mapHdrs Hdr.noFiles` -/
theorem C13_file_set_transfer_is_a_pure_relabelling : type_of% @AV.W.assignFiles_noFiles := @AV.W.assignFiles_noFiles

/-- the i-th element in document order gets the i-th set of the list, elements beyond the list keep theirs
`theorem assignFiles_getElem? (its : Items) (fs : List (List Nat)) (i : Nat) : (assignFiles its fs).1.hdrs[i]? = its.hdrs[i]?.map fun h => match fs[i]? with | some f => { h with files` -/
theorem C13_file_set_transfer_is_positional : type_of% @AV.W.assignFiles_getElem? := @AV.W.assignFiles_getElem?

/-- **faithfulness (partial)**: when the tree of the new model has the shape of the original (what same-version copies give, `Lemmas/DeepCopy.lean`), the duplicate equals the original up to identities, every element carrying the image of the file set of ITS source; the derivation of the shape hypothesis from "all files have one version" is not done
`theorem opDup_in_step (S : Spec) (V : Env) (rootAttrs : List (Nat × CDv)) (w : World) (k : Nat) (m : Model) (hm : w.models[k]? = some m) (hne : m.files.isEmpty = false) (p : String) (hok : (opDup S V rootAttrs w k).2 = .ok p) : ∃ m3, (opDup S V rootAttrs w k).1.models[w.models.length]? = some m3 ∧ (m3.rootItems.shape = m.rootItems.shape → m3.rootItems.mapHdrs Hdr.anon = m.rootItems.mapHdrs (fun h => { h.anon with files` -/
theorem C13_duplicate_faithful_when_iterations_run_in_step : type_of% @AV.W.opDup_in_step := @AV.W.opDup_in_step

/-- **negation witness = known finding c13:duplicate-of-model-with-files-of-different-versions** on a toy specification: a reachable world with files of versions 1 and 2; `dup` answers ok, the copy has 4 elements instead of 5 (the version-2-only element is dropped) and the copy of e4 carries the image of the file set of e3
`theorem dup_versions_finding : (opDup dupSpec nameEnv [] dupW 0).2.isOk = true ∧ ((opDup dupSpec nameEnv [] dupW 0).1.models.map fun m => m.rootItems.hdrs.length) = [5, 4] ∧ (dupW.models.map fun m => m.rootItems.hdrs.length) = [5] ∧ -- position 3 of the copy, position 3 and 4 of the original: (id, name, files) ((opDup dupSpec nameEnv [] dupW 0).1.models[1]?.bind fun m => m.rootItems.hdrs[3]?.map fun h => (h.id, h.name, h.files)) = some (8, 101, [2]) ∧ (dupW.models[0]?.bind fun m => m.rootItems.hdrs[3]?.map fun h => (h.id, h.name, h.files)) = some (3, 101, [0]) ∧ (dupW.models[0]?.bind fun m => m.rootItems.hdrs[4]?.map fun h => (h.id, h.name, h.files)) = some (4, 101, [1]) ∧ -- e8 is the third child of the new root, e4 the third child of the original root ((opDup dupSpec nameEnv [] dupW 0).1.models[1]?.map fun m => m.rootKids.childElems.map (·.1.id)) = some [6, 7, 8] ∧ (dupW.models[0]?.map fun m => m.rootKids.childElems.map (·.1.id)) = some [1, 3, 4]` -/
theorem C13_witness_duplicate_of_mixed_version_model : type_of% @AV.W.dup_versions_finding := @AV.W.dup_versions_finding

/-- `theorem opDup_frame_needs_fresh : (opDup dupSpec nameEnv [] badW 0).2.isOk = true ∧ (badW.models.map fun m => m.rootItems.ids) = [[0, 1]] ∧ ((opDup dupSpec nameEnv [] badW 0).1.models.map fun m => m.rootItems.ids) = [[0, 1, 1], [0]]` -/
theorem C13_witness_duplicate_needs_fresh_ids : type_of% @AV.W.opDup_frame_needs_fresh := @AV.W.opDup_frame_needs_fresh


/-! ### added at the end of the third session (proof pack DU2): restated by name
(`type_of%` keeps the statement identical to the lemma; the signature is quoted in the comment) -/

/-- **`duplicate()` is faithful** (closes the shape hypothesis of `C13_duplicate_faithful_when_iterations_run_in_step`): in a world with the full invariant, if every sub-element of the root passes the version filter of the LOWEST version of the files unchanged (`AllCompat`; with files of one version: content permitted in that version), the root carries no comment / changed attributes and its sub-elements are in an order in which each copy is appended (`AppendOk`, decidable), then a successful `dup` yields a world with the full invariant `GInv` in which the new model equals the original up to identities, every element carrying the image of the file set of ITS source; no renaming happens (follows from the exact index of the original)
`theorem opDup_faithful (rootAttrs : List (Nat × CDv)) (hH : IdxHyp S V vOk) (hR : RefWF S) (hv32 : vOk &&& 0xFFFFFFFF = vOk) (w : World) (k : Nat) (m : Model) (hg : GInv S vOk w) (hU : IdsSep w) (hfresh : ∀ m ∈ w.models, w.nextId ∉ m.rootItems.ids) (hm : w.models[k]? = some m) (hne : m.files.isEmpty = false) (hroot : m.rootHdr.name = S.defName S.rootDef ∧ m.rootHdr.attrs = rootAttrs ∧ m.rootHdr.comment = none) (hnotext : m.rootKids.length = m.rootKids.childElems.length) (hnoSn : ∀ c ∈ m.rootKids.childElems, c.1.name ≠ S.nmShortName) (hcompat : ∀ c ∈ m.rootKids.childElems, AllCompat S (dupVer V m.files) c.1 c.2) (happ : AppendOk S m.rootHdr (dupVer V m.files) [] m.rootKids.childElems) (p : String) (hok : (opDup S V rootAttrs w k).2 = .ok p) : GInv S vOk (opDup S V rootAttrs w k).1 ∧ ∃ m3, (opDup S V rootAttrs w k).1.models[w.models.length]? = some m3 ∧ m3.rootItems.shape = m.rootItems.shape ∧ m3.rootItems.mapHdrs Hdr.anon = m.rootItems.mapHdrs (fun h => { h.anon with files` -/
theorem C13_duplicate_is_faithful_and_keeps_the_invariants : type_of% @AV.W.opDup_faithful := @AV.W.opDup_faithful

/-- `theorem dupVer_one (fs : List File) (v : Nat) (hv : v ≤ V.latest) (hne : fs ≠ []) (h : ∀ f ∈ fs, f.version = v) : dupVer V fs = v` -/
theorem C13_duplicate_version_with_files_of_one_version : type_of% @AV.W.dupVer_one := @AV.W.dupVer_one

/-- `theorem dupCopies_inv (hH : IdxHyp S V vOk) (hR : RefWF S) (hv32 : vOk &&& 0xFFFFFFFF = vOk) {w : World} {k : Nat} {m : Model} (hgw : GInv S vOk w) (hm : w.models[k]? = some m) (R ver : Nat) (hfresh : ∀ m ∈ w.models, R ∉ m.rootItems.ids) (w2 : World) (cs : List (Hdr × Items)) : ∀ (done : List (Hdr × Items)) (wi : World) (mi : Model), DupSt S vOk w wi mi done → mi.rootHdr.id = R → ver = dupVer V mi.files → m.rootKids = Items.ofList (done ++ cs) → (∀ d ∈ done ++ cs, d.1.name ≠ S.nmShortName) → (∀ c ∈ cs, ∃ cx, locate w c.1.id = some (k, cx) ∧ lastOf cx = c) → (∀ c ∈ cs, AllCompat S ver c.1 c.2) → AppendOk S m.rootHdr ver done cs → dupCopies S V R (cs.map (·.1.id)) wi = .ok w2 → ∃ m2, DupSt S vOk w w2 m2 (done ++ cs) ∧ m2.rootHdr = mi.rootHdr ∧ m2.files = mi.files` -/
theorem C13_duplicate_copy_phase_normal_form : type_of% @AV.W.dupCopies_inv := @AV.W.dupCopies_inv

/-- non-vacuity: a reachable world (two files of one version, packages in different files, references, index) meets every hypothesis; the conclusion is also checked by evaluation (`dupW1_copy`)
`theorem dupW1_faithful : GInv mvSpec 6 (opDup mvSpec nameEnv [] dupW1 0).1 ∧ ∃ m3, (opDup mvSpec nameEnv [] dupW1 0).1.models[dupW1.models.length]? = some m3 ∧ m3.rootItems.shape = dupM1.rootItems.shape ∧ m3.rootItems.mapHdrs Hdr.anon = dupM1.rootItems.mapHdrs (fun h => { h.anon with files` -/
theorem C13_duplicate_faithful_nonvacuous : type_of% @AV.W.dupW1_faithful := @AV.W.dupW1_faithful

/-- the hypothesis on the root element is necessary = known finding c13:duplicate-drops-root-attributes-and-comment as a negation on a reachable world
`theorem dup_root_comment_not_copied : (opDup mvSpec nameEnv [] dupW1c 0).2.isOk = true ∧ ((opDup mvSpec nameEnv [] dupW1c 0).1.models.map fun m => m.rootHdr.comment) = [some [120], none]` -/
theorem C13_witness_duplicate_drops_root_comment : type_of% @AV.W.dup_root_comment_not_copied := @AV.W.dup_root_comment_not_copied


/-! ### added at the end of the third session (proof pack LM3): restated by name
(`type_of%` keeps the statement identical to the lemma; the signature is quoted in the comment) -/

/-- whatever `duplicate()` answers, the element ids of different models stay disjoint
`theorem opDup_sep' (w : World) (k : Nat) (hw : WInv S vOk w) (hs : SepInv w) (hpos : 0 < w.nextId) : SepInv (opDup S V rootAttrs w k).1` -/
theorem C13_duplicate_keeps_ids_of_models_apart : type_of% @AV.W.opDup_sep' := @AV.W.opDup_sep'

end AV.C13
