/-
C09 — Merging files keeps each file's content and yields their union in any load order.

Property text: "When several files that are partial views of one AUTOSAR model (split only at places the
meta-model marks as splittable) are loaded into one model, in any order, the merged model contains every
element of every file exactly once, attributes each element to exactly the files that contained it, and every
file serialized from the merged model has the content it has when loaded on its own. The merged content does
not depend on the load order."

The Lean side states the SPECIFICATION the merge is compared against, over an abstract master model (a list
of elements, each with the set of files that contain it): the projection of a master onto a file, the union
of projections, attribution.  Proved for every master, every split and every order of the files:
* `C09_union_is_master`: an element is in the union of the projections exactly if it is in the master (given
  that every element is in at least one of the files) — nothing lost, nothing invented;
* `C09_order_irrelevant`: membership in the union does not depend on the order of the files;
* `C09_attribution`: the files whose projection contains an element are exactly the element's file set.
The positional merge algorithm of `autosarmodel.rs` (`merge_element`, `calc_identifiables_merge`, `calc_element_merge`,
`import_new_items`, `merge_sub_elements`) is modelled in `Model/Merge.lean` and, together with the parser model, answers the
`load` requests of EVERY load order of the merge scenario (tree with local file sets, index, reference map after every
load, then the sorted model) — compared with the library on every run, the known findings `c09:*` included (the model
reproduces them).  Proved about that model, for all trees:
* `C09_merge_loses_nothing`: every element that is in the content of a model element before a merge is in it afterwards —
  whether the merge succeeds or stops with an error half way.
That the merged model IS the union, the attribution and the independence of the load order are decided by the oracle
of the merge scenario (random masters, all splits at splittable points, ALL load orders, per-file reload) — partial.
-/
import AutosarVerif.Lemmas.Files
import AutosarVerif.Lemmas.Merge
import AutosarVerif.Lemmas.MergeUnion
import AutosarVerif.Lemmas.MergeOrder
import AutosarVerif.Lemmas.LoadMerge
import AutosarVerif.Lemmas.MergeKeeps

namespace AV.C09

/-- an element of the master: an identity and the files that contain it -/
structure El where
  id : Nat
  files : List Nat
  deriving DecidableEq, Repr

/-- the view of file `f` -/
def project (master : List El) (f : Nat) : List El := master.filter fun e => e.files.contains f

/-- loading the views of the files in the given order and taking everything -/
def unionOf (master : List El) (order : List Nat) : List El := order.flatMap (project master)

theorem mem_unionOf (master : List El) (order : List Nat) (e : El) :
    e ∈ unionOf master order ↔ e ∈ master ∧ ∃ f, f ∈ order ∧ f ∈ e.files := by
  simp only [unionOf, project, List.mem_flatMap, List.mem_filter, List.contains_iff_mem]
  constructor
  · rintro ⟨f, hf, he, hc⟩; exact ⟨he, f, hf, hc⟩
  · rintro ⟨he, f, hf, hc⟩; exact ⟨f, hf, he, hc⟩

theorem C09_union_is_master (master : List El) (order : List Nat)
    (hcov : ∀ e, e ∈ master → ∃ f, f ∈ order ∧ f ∈ e.files) (e : El) :
    e ∈ unionOf master order ↔ e ∈ master := by
  rw [mem_unionOf]
  exact ⟨fun h => h.1, fun h => ⟨h, hcov e h⟩⟩

theorem C09_order_irrelevant (master : List El) (o1 o2 : List Nat) (hp : o1.Perm o2) (e : El) :
    e ∈ unionOf master o1 ↔ e ∈ unionOf master o2 := by
  simp only [mem_unionOf]
  constructor
  · rintro ⟨he, f, hf, hc⟩; exact ⟨he, f, hp.mem_iff.mp hf, hc⟩
  · rintro ⟨he, f, hf, hc⟩; exact ⟨he, f, hp.mem_iff.mpr hf, hc⟩

theorem C09_attribution (master : List El) (e : El) (he : e ∈ master) (f : Nat) :
    e ∈ project master f ↔ f ∈ e.files := by
  simp [project, he]

/-! non-vacuity: a master of three elements over files 1 and 2 -/
def m : List El := [⟨10, [1, 2]⟩, ⟨11, [1]⟩, ⟨12, [2]⟩]
example : project m 1 = [⟨10, [1, 2]⟩, ⟨11, [1]⟩] := by decide
example : (unionOf m [2, 1]).length = 4 ∧ ⟨11, [1]⟩ ∈ unionOf m [2, 1] := by decide

theorem C09_merge_loses_nothing (S : Spec) (V : W.Env) (fver : Nat → Option Nat) (newFile minVerB fuel : Nat)
    (ha : W.Hdr) (ka : W.Items) (files : List Nat) (kb : W.Items) (x : Nat) (hx : x ∈ ka.ids) :
    x ∈ (W.mergeElement S V fver newFile minVerB fuel ha ka files kb).1.ids :=
  W.mergeElement_keeps S V fver newFile minVerB fuel ha ka files kb x hx


/-! ### added in the third session: statements proved in the lemma files, restated here by name
(`type_of%` keeps the statement identical to the lemma; the signature is quoted in the comment) -/

/-- **the merge algorithm on keyed, rank-sorted forests** (`Lemmas/MergeUnion.lean`): an ACCEPTED merge of the content `kb` of a new file into the content `ka` of the model yields, at every depth, exactly the specification-level union `IsUnion` (written without reference to the algorithm): the children of `ka` (a paired child merged recursively and attributed to the new file too, an unpaired one restricted to the files it was in) together with the unpaired children of `kb` (attributed to the new file); text items kept. Hypotheses `Compat`: children keyed (item name / DEFINITION-REF / unique element name), both sides sorted by the rank of their element names — what excludes the four known c09 findings
`theorem mergeElement_isUnion (rk : Nat → Nat → Nat) (fver : Nat → Option Nat) (newFile minVerB : Nat) : ∀ (fuel : Nat) (ha : Hdr) (ka : Items) (files : List Nat) (kb kr : Items), Compat S V rk ha ka kb → mergeElement S V fver newFile minVerB fuel ha ka files kb = (kr, none) → IsUnion S V newFile ha.id files ka kb kr` -/
theorem C09_merge_is_the_union : type_of% @AV.W.MU.mergeElement_isUnion := @AV.W.MU.mergeElement_isUnion

/-- `theorem merge_level_once (fver : Nat → Option Nat) (newFile minVerB fuel : Nat) (files : List Nat) (rk : Nat → Nat) (ha : Hdr) (ka kb kr : Items) (hyp : LevelHyp S V ha.ety.typ rk ka.childElems kb.childElems) (h : mergeElement S V fver newFile minVerB (fuel + 1) ha ka files kb = (kr, none)) : (kr.childElems.map (·.1.id)).Perm (ka.childElems.map (·.1.id) ++ (bOnlyOf S V ka.childElems kb.childElems).map (·.1.id)) ∧ (kr.childElems.map (·.1.id)).Nodup` -/
theorem C09_merge_each_child_exactly_once : type_of% @AV.W.MU.merge_level_once := @AV.W.MU.merge_level_once

/-- `theorem opLoad_isUnion (nmAutosar : Nat) (w : World) (k : Nat) (name : Bytes) (strict : Bool) (buf : Bytes) (m : Model) (h : Hdr) (kids : Items) (hm : w.models[k]? = some m) (hne : m.files.isEmpty = false) (hp : (runParser S V strict buf w.nextId nmAutosar).1 = .ok (h, kids)) (rk : Nat → Nat → Nat) (hc : Compat S V rk m.rootHdr m.rootKids kids) (w' : World) (s : String) (hl : opLoad S V nmAutosar w k name strict buf = (w', .ok s)) : ∃ kr, IsUnion S V w.nextFile m.rootHdr.id (m.files.map (·.id)) m.rootKids kids kr ∧ ∃ m', w'.models[k]? = some m' ∧ ∃ base order, m'.rootKids = renumItems base order kr` -/
theorem C09_load_into_model_is_the_union : type_of% @AV.W.MU.opLoad_isUnion := @AV.W.MU.opLoad_isUnion


/-! ### added later in the third session (loads, cross-model moves, merge order): restated by name
(`type_of%` keeps the statement identical to the lemma; the signature is quoted in the comment) -/

/-- the specification-level union is determined up to the shape equivalence `UEquiv` (siblings permuted, identities ignored, effective file sets compared as sets)
`theorem isUnion_det (newFile pid : Nat) (files : List Nat) (ka kb kr kr' : Items) (h1 : IsUnion S V newFile pid files ka kb kr) (h2 : IsUnion S V newFile pid files ka kb kr') : UEquiv kr kr'` -/
theorem C09_union_is_determined : type_of% @AV.W.MU.isUnion_det := @AV.W.MU.isUnion_det

/-- **order independence for two files**: two accepted merges (a then b, b then a) of fresh contents that AGREE on what they share (`Agree`: texts, attributes, types of paired elements equal; the pairing test symmetric) give `UEquiv` results
`theorem mergeElement_order_indep (rk rk' : Nat → Nat → Nat) (fverA fverB : Nat → Option Nat) (fA fB minVerA minVerB : Nat) (filesA filesB : List Nat) (sA : SetEq filesA [fA]) (sB : SetEq filesB [fB]) (fuel fuel' : Nat) (hA hB : Hdr) (ka kb kr kr' : Items) (cA : Compat S V rk hA ka kb) (cB : Compat S V rk' hB kb ka) (ag : Agree S V ka kb) (frA : Fresh ka) (frB : Fresh kb) (h1 : mergeElement S V fverA fB minVerB fuel hA ka filesA kb = (kr, none)) (h2 : mergeElement S V fverB fA minVerA fuel' hB kb filesB ka = (kr', none)) : UEquiv kr kr'` -/
theorem C09_two_files_order_independent : type_of% @AV.W.MU.mergeElement_order_indep := @AV.W.MU.mergeElement_order_indep

/-- negation witness: files that disagree on a value of a shared element merge silently, the first loaded wins
`theorem not_uequiv : ¬ UEquiv res12.1 res21.1` -/
theorem C09_witness_disagreeing_values : type_of% @AV.W.MU.OrdEx1.not_uequiv := @AV.W.MU.OrdEx1.not_uequiv

/-- negation witness: a named element vs. the same element without SHORT-NAME pair in one direction only
`theorem not_uequiv : ¬ UEquiv res12.1 res21.1` -/
theorem C09_witness_pairing_test_asymmetric : type_of% @AV.W.MU.OrdEx2.not_uequiv := @AV.W.MU.OrdEx2.not_uequiv

/-- **exactly once at path level**: the identifiable paths of an accepted merge are the paths of the model plus the NEW paths of the file; paths of paired elements appear once
`theorem merge_paths_union {vOk : Nat} (hS : NameWFv S vOk) (hU : SnOnlyFirst S) (rk : Nat → Nat → Nat) (fver : Nat → Option Nat) (nf mv fuel : Nat) (ha : Hdr) (ka : Items) (files : List Nat) (kb kr : Items) (pre : Bytes) (hc : Compat S V rk ha ka kb) (hp : PathHyp S V ka kb) (h : mergeElement S V fver nf mv fuel ha ka files kb = (kr, none)) : (∀ p, p ∈ paths S kr pre ↔ p ∈ paths S ka pre ∨ p ∈ paths S kb pre) ∧ ((paths S ka pre).Nodup → (paths S kb pre).Nodup → (∀ p ∈ paths S ka pre, p ∈ paths S kb pre → p ∈ commonPaths S V kb ka.childElems pre) → (paths S kr pre).Nodup)` -/
theorem C09_paths_of_the_merge_are_the_union : type_of% @AV.W.MU.merge_paths_union := @AV.W.MU.merge_paths_union

/-- `theorem twice : resXY.2 = none ∧ paths dupSpec resXY.1 [] = [[47, 110], [47, 110]] ∧ paths dupSpec kaX [] = [[47, 110]] ∧ paths dupSpec kbY [] = [[47, 110]] ∧ commonPaths dupSpec toyEnv kbY kaX.childElems [] = []` -/
theorem C09_witness_same_path_different_kind : type_of% @AV.W.MU.OrdEx3.twice := @AV.W.MU.OrdEx3.twice


/-! ### added at the end of the third session (proof pack LM): restated by name
(`type_of%` keeps the statement identical to the lemma; the signature is quoted in the comment) -/

/-- every element of the merged content comes from the model or from the new file (unconditional, error path included); with `C09_merge_loses_nothing` the model's elements are all kept
`theorem mergeElement_ids_sub (fver : Nat → Option Nat) (newFile minVerB : Nat) (fuel : Nat) : ∀ (ha : Hdr) (ka : Items) (files : List Nat) (kb : Items) (x : Nat), x ∈ (mergeElement S V fver newFile minVerB fuel ha ka files kb).1.ids → x ∈ ka.ids ∨ x ∈ kb.ids` -/
theorem C09_merge_invents_nothing : type_of% @AV.W.mergeElement_ids_sub := @AV.W.mergeElement_ids_sub


/-! ### added at the end of the third session (proof pack LM3): restated by name
(`type_of%` keeps the statement identical to the lemma; the signature is quoted in the comment) -/

/-- **"keeps each file's content"**: every element of the model's content is still there after `merge_element` - also on its error path - with the same name, type, attributes, comment, parent and the same text items directly below it; only `files` fields change and elements of the new file are added
`theorem mergeElement_keeps_proj (fver : Nat → Option Nat) (newFile minVerB : Nat) (fuel : Nat) (ha : Hdr) (ka : Items) (files : List Nat) (kb : Items) (hdis : ∀ x ∈ ka.ids, x ∉ kb.ids) (x : Nat) (hx : x ∈ ka.ids) : ((mergeElement S V fver newFile minVerB fuel ha ka files kb).1.find x).map (fun c => (c.1.name, c.1.ety, c.1.attrs, c.1.comment, c.1.parent, c.2.textsOf)) = (ka.find x).map (fun c => (c.1.name, c.1.ety, c.1.attrs, c.1.comment, c.1.parent, c.2.textsOf))` -/
theorem C09_merge_keeps_every_element_of_the_model_as_it_was : type_of% @AV.W.mergeElement_keeps_proj := @AV.W.mergeElement_keeps_proj

/-- erasing the elements of the new file from the result gives back the model's content, file sets aside
`theorem mergeElement_restrict (fver : Nat → Option Nat) (newFile minVerB : Nat) (fuel : Nat) (ha : Hdr) (ka : Items) (files : List Nat) (kb : Items) (hdis : ∀ x ∈ ka.ids, x ∉ kb.ids) : ((mergeElement S V fver newFile minVerB fuel ha ka files kb).1.dropIds kb.ids.contains).mapHdrs Hdr.noFiles = ka.mapHdrs Hdr.noFiles` -/
theorem C09_merge_result_without_the_new_elements_is_the_model : type_of% @AV.W.mergeElement_restrict := @AV.W.mergeElement_restrict

/-- `theorem mergeElement_emb (P : Nat → Prop) (fver : Nat → Option Nat) (newFile minVerB : Nat) (fuel : Nat) : ∀ (ha : Hdr) (ka : Items) (files : List Nat) (kb : Items), (∀ y ∈ kb.ids, P y) → Emb P ka (mergeElement S V fver newFile minVerB fuel ha ka files kb).1` -/
theorem C09_merge_embeds_the_model : type_of% @AV.W.mergeElement_emb := @AV.W.mergeElement_emb

end AV.C09
