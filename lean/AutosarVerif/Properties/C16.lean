/-
C16 — Concurrent operations are serializable.

Property text: "The results returned by concurrently executing operations and the final state of the model are
those of executing the same operations one after the other in some order, except that an operation may instead
fail with the documented parent-locked error, in which case it has no effect. This covers loading different
files concurrently, serializing different files concurrently, and any mix of reading and modifying calls …"

What the Lean side contributes:
* the lock model's exclusion invariant is the basis of atomic critical sections: `C16_write_excludes` — in every
  state reachable under the lock semantics, a lock held for writing by one thread is held by no other thread;
* **negation witness** of the full statement (known finding `c16:concurrent-load-into-empty-model`): in the
  abstract model of `load_buffer` as check (`files.is_empty()`) then act (install / merge) in two critical
  sections, the interleaving check₁ check₂ act₁ act₂ ends with BOTH files registered but only the second file's
  content, which neither serial order produces (`C16_witness_concurrent_load`).
Partial: serializability of the real operations is explored on the real library under the deterministic
scheduler of hook H2 (all interleavings of operation pairs at lock-acquisition granularity up to a preemption
bound, results and final dumps compared with both serial orders); it is not a theorem.
-/
import AutosarVerif.Model.Atomicity
import AutosarVerif.Lemmas.LocksOrder
import AutosarVerif.Lemmas.Serializable
import AutosarVerif.Lemmas.SerializableLocks

namespace AV.C16
open AV.Atom AV.Locks

/-- both serial orders end with both contents present -/
theorem C16_serial_orders :
    (run [0, 0, 1, 1] empty [.start 1, .start 2]).1 = ⟨[1, 2], [1, 2]⟩ ∧
    (run [1, 1, 0, 0] empty [.start 1, .start 2]).1 = ⟨[2, 1], [2, 1]⟩ := by decide

/-- the interleaving check₁ check₂ act₁ act₂ loses the first file's content although both loads finish -/
theorem C16_witness_concurrent_load :
    (run [0, 1, 0, 1] empty [.start 1, .start 2]) = (⟨[2], [1, 2]⟩, [.done, .done]) ∧
    (run [0, 1, 0, 1] empty [.start 1, .start 2]).1 ≠ (run [0, 0, 1, 1] empty [.start 1, .start 2]).1 ∧
    (run [0, 1, 0, 1] empty [.start 1, .start 2]).1 ≠ (run [1, 1, 0, 0] empty [.start 1, .start 2]).1 := by decide

/-- granting a write lock requires that nobody holds the lock -/
theorem C16_write_excludes (s : Sys) (i l : Nat) (h : grantable s i l .write = true) : ∀ u, u ∈ s → holds u l = false := by
  unfold grantable at h
  split at h
  · simp at h
  · simp only [Bool.not_eq_true', List.any_eq_false] at h
    intro u hu
    have := h u hu
    simpa using this


/-! ### added in the third session (proof packs LK, SR): restated by name
(`type_of%` keeps the statement identical to the lemma; the signature is quoted in the comment) -/

/-- **serializability theorem**: any number of threads, each running ONE operation whose reads and writes of the shared state lie in ONE critical section under the lock (writers exclusive, readers shared; blocking or try-acquisition, a try may fail at any time), under ANY schedule that lets all finish: the final state and every result equal those of executing the operations that got the lock one after the other in the order of acquisition; an operation outside that order reported `locked` and had no effect; only try-acquisitions can be outside
`theorem serializable {σ ρ : Type} (ops : List (Op σ ρ)) (x0 : σ) (sched : List Act) (hdone : allDone (run ops sched (init ops x0)) = true) : (run ops sched (init ops x0)).st = (serial ops (run ops sched (init ops x0)).log x0).1 ∧ (∀ i, i < ops.length → (run ops sched (init ops x0)).pcs[i]? = some (PC.done (serialRes ops (run ops sched (init ops x0)).log x0 i))) ∧ (run ops sched (init ops x0)).log.Nodup ∧ (∀ i, i ∈ (run ops sched (init ops x0)).log → i < ops.length) ∧ (∀ i, i < ops.length → (i ∈ (run ops sched (init ops x0)).log ↔ serialRes ops (run ops sched (init ops x0)).log x0 i ≠ Res.locked)) ∧ (∀ i o, ops[i]? = some o → i ∉ (run ops sched (init ops x0)).log → o.tryAcq = true)` -/
theorem C16_one_section_operations_are_serializable : type_of% @AV.Serializable.serializable := @AV.Serializable.serializable

/-- `theorem serializable_results {σ ρ : Type} (ops : List (Op σ ρ)) (x0 : σ) (sched : List Act) (hdone : allDone (run ops sched (init ops x0)) = true) : (run ops sched (init ops x0)).pcs = (List.range ops.length).map fun i => PC.done (serialRes ops (run ops sched (init ops x0)).log x0 i)` -/
theorem C16_results_are_those_of_the_serial_order : type_of% @AV.Serializable.serializable_results := @AV.Serializable.serializable_results

/-- `theorem run_excludes {σ ρ : Type} (ops : List (Op σ ρ)) (x0 : σ) (sched : List Act) (i j : Nat) (p q : PC ρ) (hi : (run ops sched (init ops x0)).pcs[i]? = some p) (hj : (run ops sched (init ops x0)).pcs[j]? = some q) (hp : p.held = some Mode.write) (hq : q.held ≠ none) : i = j` -/
theorem C16_writer_excludes_in_every_reachable_state : type_of% @AV.Serializable.run_excludes := @AV.Serializable.run_excludes

/-- **the hypothesis is necessary** (= known finding c16:concurrent-load-into-empty-model): a load is TWO critical sections (check, then act); the sections are serializable, the loads are not: the interleaving check0 check1 act0 act1 ends in a state neither serial order of the two loads produces
`theorem two_sections_not_serializable : let s` -/
theorem C16_two_sections_are_not_serializable : type_of% @AV.Serializable.two_sections_not_serializable := @AV.Serializable.two_sections_not_serializable

/-- `theorem one_section_load_never_loses (sched : List Act) (hdone : allDone (run loadWholes sched (init loadWholes loadInit)) = true) : ((run loadWholes sched (init loadWholes loadInit)).st = Atom.run [0, 0, 1, 1] Atom.empty [.start 1, .start 2] ∨ (run loadWholes sched (init loadWholes loadInit)).st = Atom.run [1, 1, 0, 0] Atom.empty [.start 1, .start 2]) ∧ (run loadWholes sched (init loadWholes loadInit)).st ≠ Atom.run [0, 1, 0, 1] Atom.empty [.start 1, .start 2]` -/
theorem C16_load_as_one_section_would_be_serializable : type_of% @AV.Serializable.one_section_load_never_loses := @AV.Serializable.one_section_load_never_loses

/-- `theorem two_blocking_orders {σ ρ : Type} (o0 o1 : Op σ ρ) (x0 : σ) (sched : List Act) (h0 : o0.tryAcq = false) (h1 : o1.tryAcq = false) (hdone : allDone (run [o0, o1] sched (init [o0, o1] x0)) = true) : (run [o0, o1] sched (init [o0, o1] x0)).log = [0, 1] ∨ (run [o0, o1] sched (init [o0, o1] x0)).log = [1, 0]` -/
theorem C16_two_blocking_operations_two_orders : type_of% @AV.Serializable.two_blocking_orders := @AV.Serializable.two_blocking_orders

/-- bridge to the lock model of C15 (`Model/Locks.lean`, fair writer-preferring policy): every lock event it allows is a step of the serializability machine
`theorem locks_step_sim {σ ρ : Type} (ops : List (Op σ ρ)) (s : Sys σ ρ) (hlen : s.pcs.length = ops.length) (i : Nat) (l' : Locks.Sys) (hpc : s.pcs[i]? = some (PC.pre 0) ∨ ∃ m r, s.pcs[i]? = some (PC.eff m r)) (h : Locks.stepTh (projSys ops s.pcs) i = some l') : ∃ a s', (a = Act.go i ∨ a = Act.giveUp i) ∧ act ops s a = some s' ∧ projSys ops s'.pcs = l'` -/
theorem C16_lock_model_steps_are_machine_steps : type_of% @AV.Serializable.locks_step_sim := @AV.Serializable.locks_step_sim

end AV.C16
