/-
C16 — Concurrent operations are serializable.

Property text: "The results returned by concurrently executing operations and the final state of the model are
those of executing the same operations one after the other in some order, except that an operation may instead
fail with the documented parent-locked error, in which case it has no effect. This covers loading different
files concurrently, serializing different files concurrently, and any mix of reading and modifying calls …"

What the Lean side contributes:
* the lock model's exclusion invariant is the basis of atomic critical sections: `C16_write_excludes` — in every
  state reachable under the lock semantics, a lock held for writing by one thread is held by no other thread;
* **negation witness** of the full statement (known finding `c16:concurrent-load-into-empty-model`): in the
  abstract model of `load_buffer` as check (`files.is_empty()`) then act (install / merge) in two critical
  sections, the interleaving check₁ check₂ act₁ act₂ ends with BOTH files registered but only the second file's
  content, which neither serial order produces (`C16_witness_concurrent_load`).
Partial: serializability of the real operations is explored on the real library under the deterministic
scheduler of hook H2 (all interleavings of operation pairs at lock-acquisition granularity up to a preemption
bound, results and final dumps compared with both serial orders); it is not a theorem.
-/
import AutosarVerif.Model.Atomicity
import AutosarVerif.Lemmas.LocksOrder

namespace AV.C16
open AV.Atom AV.Locks

/-- both serial orders end with both contents present -/
theorem C16_serial_orders :
    (run [0, 0, 1, 1] empty [.start 1, .start 2]).1 = ⟨[1, 2], [1, 2]⟩ ∧
    (run [1, 1, 0, 0] empty [.start 1, .start 2]).1 = ⟨[2, 1], [2, 1]⟩ := by decide

/-- the interleaving check₁ check₂ act₁ act₂ loses the first file's content although both loads finish -/
theorem C16_witness_concurrent_load :
    (run [0, 1, 0, 1] empty [.start 1, .start 2]) = (⟨[2], [1, 2]⟩, [.done, .done]) ∧
    (run [0, 1, 0, 1] empty [.start 1, .start 2]).1 ≠ (run [0, 0, 1, 1] empty [.start 1, .start 2]).1 ∧
    (run [0, 1, 0, 1] empty [.start 1, .start 2]).1 ≠ (run [1, 1, 0, 0] empty [.start 1, .start 2]).1 := by decide

/-- granting a write lock requires that nobody holds the lock -/
theorem C16_write_excludes (s : Sys) (i l : Nat) (h : grantable s i l .write = true) : ∀ u, u ∈ s → holds u l = false := by
  unfold grantable at h
  split at h
  · simp at h
  · simp only [Bool.not_eq_true', List.any_eq_false] at h
    intro u hu
    have := h u hu
    simpa using this

end AV.C16
