/-
C04 — Path lookup is exact: one entry per identifiable element, none stale or missing.

Property text: "At every point of any history of operations, looking up an AUTOSAR path returns an element
if and only if an identifiable element with exactly that path is part of the model, and then returns that
very element; enumerating the identifiable elements lists each of them once under its current path and
lists nothing else. No two elements of one model have the same AUTOSAR path, and an element's own path
always equals the concatenation of the item names of its identifiable ancestors and itself."

Model: `Model.index` (the `identifiables` map) with `idxInsert` / `idxRemove` / `idxFix` / `idxGet`
(`add_identifiable`, `remove_identifiable`, `fix_identifiables`, `get_element_by_path`); an element's path
is computed from the tree (`pathOfChain` = "/" + item names of the identifiable nodes on the way down).
Proved for all index contents and all paths (byte strings):
* finite-map laws: lookup after insert / after remove, other keys untouched;
* the re-keying test `pathSuffix` is exact on path boundaries: `old` itself and `old/…` are re-keyed,
  a path that merely continues the text of `old` (`/pkg1` vs `/pkg10`) is not, and whatever is re-keyed
  has the form `old ++ suffix` with an empty suffix or one that starts with '/'.
Partial: the invariant "index = set of (path, element) of the identifiable elements of the tree" over all
histories is not yet a theorem; it is checked after every request by the correspondence run (the dump lists
the index) and by the direct oracle on the real library (index vs paths recomputed from the tree).
Known findings: see KNOWN_FINDINGS.txt (`c04:*`).
-/
import AutosarVerif.Lemmas.WorldOps

namespace AV.C04
open AV.W

theorem C04_lookup_after_insert (idx : List (Bytes × Nat)) (p : Bytes) (id : Nat) :
    idxGet (idxInsert idx p id) p = some id := idxGet_insert_same idx p id
theorem C04_lookup_after_remove (idx : List (Bytes × Nat)) (p : Bytes) : idxGet (idxRemove idx p) p = none :=
  idxGet_remove_same idx p
theorem C04_remove_leaves_others (idx : List (Bytes × Nat)) (p q : Bytes) (hq : q ≠ p) :
    idxGet (idxRemove idx p) q = idxGet idx q := idxGet_remove_other idx p q hq

theorem C04_rekey_exact (old key s : Bytes) (h : pathSuffix old key = some s) :
    key = old ++ s ∧ (s = [] ∨ s.head? = some 47) := pathSuffix_some old key s h
theorem C04_rekey_self (old : Bytes) : pathSuffix old old = some [] := pathSuffix_self old
theorem C04_rekey_descendant (old rest : Bytes) : pathSuffix old (old ++ 47 :: rest) = some (47 :: rest) :=
  pathSuffix_child old rest
theorem C04_rekey_not_prefix_sibling (old : Bytes) (c : UInt8) (rest : Bytes) (hc : c ≠ 47) :
    pathSuffix old (old ++ c :: rest) = none := pathSuffix_boundary old c rest hc

/-! non-vacuity: "/pkg1" vs "/pkg10" and "/pkg1/x" -/
example : pathSuffix [47, 112, 107, 103, 49] [47, 112, 107, 103, 49, 48] = none := by decide
example : pathSuffix [47, 112, 107, 103, 49] [47, 112, 107, 103, 49, 47, 120] = some [47, 120] := by decide
example : idxGet (idxFix [([47, 112, 107, 103, 49], 1), ([47, 112, 107, 103, 49, 48], 2), ([47, 112, 107, 103, 49, 47, 120], 3)]
    [47, 112, 107, 103, 49] [47, 113]) [47, 113, 47, 120] = some 3 := by decide

end AV.C04
