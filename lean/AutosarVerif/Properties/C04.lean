/-
C04 — Path lookup is exact: one entry per identifiable element, none stale or missing.

Property text: "At every point of any history of operations, looking up an AUTOSAR path returns an element
if and only if an identifiable element with exactly that path is part of the model, and then returns that
very element; enumerating the identifiable elements lists each of them once under its current path and
lists nothing else. No two elements of one model have the same AUTOSAR path, and an element's own path
always equals the concatenation of the item names of its identifiable ancestors and itself."

Model: `Model.index` (the `identifiables` map) with `idxInsert` / `idxRemove` / `idxFix` / `idxGet`
(`add_identifiable`, `remove_identifiable`, `fix_identifiables`, `get_element_by_path`); an element's path is computed by
navigation from the root (`pathOfChain` = "/" + item names of the named nodes on the way down = `path_unchecked`).

PROVED — invariant by induction over operations, no bound on the history (`C04_index_exact_reachable`): in EVERY state
reachable from the empty world by ANY history of the seventeen core operations of `Model/Step.lean` (new model,
create_file, create_sub_element[_at], create_named_sub_element[_at], remove_sub_element, set_character_data — including the
edit of a SHORT-NAME, i.e. renaming through the text —, remove_character_data, set_attribute / set_attribute_string /
remove_attribute, set_comment, insert / remove character content item, add_to_file, remove_from_file, remove_file,
set_version; the driver answers these requests with the very step function the theorem is about), in every model:
  * `lookup q = some i`  ⇔  navigation finds the element `i`, `i` has an item name, and its path is exactly `q`
    (so a lookup returns that very element, nothing stale, nothing missing);
  * no two elements have the same path; element ids are unique;
provided the history stays inside two explicit guards (`OpOk`): it does not create an element CALLED SHORT-NAME through
`create_sub_element` / `create_named_sub_element`, and files have versions within `vOk`.  The specification enters through
`IdxHyp` (facts about types that have a SHORT-NAME); for the tables regenerated from the current source they are checked by
kernel evaluation (`C04_real_tables`: all of `NameWFv realSpec 0xFFFFFFFE` and `SnOnlyFirst realSpec` — `vOk` = every
version except AUTOSAR 4.0.1).
Both guards exclude points at which the statement is FALSE — of the model and of the library (replayed on every run):
  * `C04_witness_short_name_added_later` (finding c04:short-name-added-later-not-indexed),
  * `C04_witness_content_before_short_name` (finding c04:content-before-short-name-in-mixed-named-element; on the real
    tables: `C04_real_tables_not_all_versions`, the two named types that are not SEQUENCEs, named in 4.0.1 only).
Also proved, for all index contents and all paths: finite-map laws of the index, and the re-keying test respects path
boundaries (`/pkg1` vs `/pkg10`); the re-keying of `fix_identifiables` as a whole is the key rewriting `rekey`
(`C04_fix_identifiables_is_rekey`), the index after `remove_internal` is the old one without the subtree's entries
(`C04_remove_internal_exact`).
Partial (named so): `set_item_name`, move, copy, sort, `set_reference_target` and loading are not in the core set — their
effect on the index is compared with the library after every request (the dump lists the index) and decided by the direct
oracle on the real library (index vs paths recomputed from the tree); the hypothesis `IdxHyp.noSlash` (a value accepted
for a SHORT-NAME contains no '/') is about the validator of the SHORT-NAME pattern, which C19 ties to its regex.
Known findings: see KNOWN_FINDINGS.txt (`c04:*`).
-/
import AutosarVerif.Lemmas.WorldOps
import AutosarVerif.Lemmas.IndexWitness
import AutosarVerif.Lemmas.StepX
import AutosarVerif.Lemmas.RefWfReal
import AutosarVerif.Lemmas.IndexBridge
import AutosarVerif.Lemmas.NameWfReal
import AutosarVerif.Lemmas.StepY
import AutosarVerif.Lemmas.StepYWitness
import AutosarVerif.Lemmas.StepL
import AutosarVerif.Lemmas.LoadInv
import AutosarVerif.Lemmas.StepZ

namespace AV.C04
open AV.W

theorem C04_lookup_after_insert (idx : List (Bytes × Nat)) (p : Bytes) (id : Nat) :
    idxGet (idxInsert idx p id) p = some id := idxGet_insert_same idx p id
theorem C04_lookup_after_remove (idx : List (Bytes × Nat)) (p : Bytes) : idxGet (idxRemove idx p) p = none :=
  idxGet_remove_same idx p
theorem C04_remove_leaves_others (idx : List (Bytes × Nat)) (p q : Bytes) (hq : q ≠ p) :
    idxGet (idxRemove idx p) q = idxGet idx q := idxGet_remove_other idx p q hq

theorem C04_rekey_exact (old key s : Bytes) (h : pathSuffix old key = some s) :
    key = old ++ s ∧ (s = [] ∨ s.head? = some 47) := pathSuffix_some old key s h
theorem C04_rekey_self (old : Bytes) : pathSuffix old old = some [] := pathSuffix_self old
theorem C04_rekey_descendant (old rest : Bytes) : pathSuffix old (old ++ 47 :: rest) = some (47 :: rest) :=
  pathSuffix_child old rest
theorem C04_rekey_not_prefix_sibling (old : Bytes) (c : UInt8) (rest : Bytes) (hc : c ≠ 47) :
    pathSuffix old (old ++ c :: rest) = none := pathSuffix_boundary old c rest hc

/-! non-vacuity: "/pkg1" vs "/pkg10" and "/pkg1/x" -/
example : pathSuffix [47, 112, 107, 103, 49] [47, 112, 107, 103, 49, 48] = none := by decide
example : pathSuffix [47, 112, 107, 103, 49] [47, 112, 107, 103, 49, 47, 120] = some [47, 120] := by decide
example : idxGet (idxFix [([47, 112, 107, 103, 49], 1), ([47, 112, 107, 103, 49, 48], 2), ([47, 112, 107, 103, 49, 47, 120], 3)]
    [47, 112, 107, 103, 49] [47, 113]) [47, 113, 47, 120] = some 3 := by decide

/-- `fix_identifiables(old, new)` as a whole is the key rewriting: every entry at or below `old` moves to the same place
below `new`, every other entry stays (keys pairwise different, nothing at or below `new` before) -/
theorem C04_fix_identifiables_is_rekey (idx : List (Bytes × Nat)) (old new : Bytes) (hn : keysNodupI idx)
    (hfree : ∀ e ∈ idx, pathSuffix new e.1 = none) (q' : Bytes) (i : Nat) :
    idxGet (idxFix idx old new) q' = some i ↔ ∃ q, idxGet idx q = some i ∧ rekey old new q = q' :=
  idxFix_get idx old new hn hfree q' i

/-- the index after `remove_internal` of a subtree is the old index without the entries of that subtree -/
theorem C04_remove_internal_exact (S : Spec) (fuel : Nat) (h : Hdr) (kids : Items) (path : Bytes) (idx : List (Bytes × Nat))
    (rs : List (Bytes × List Nat)) (hfuel : kids.size + 1 ≤ fuel) :
    (removeInternal S fuel h kids path idx rs).1 =
      idx.filter fun e => !(((entries S (.elem h kids .nil) path).map (·.1)).contains e.1) :=
  removeInternal_index S fuel h kids path idx rs hfuel

/-- one guarded step keeps the invariant -/
theorem C04_core_step_keeps_index_exact (S : Spec) (V : Env) (vOk : Nat) (rootAttrs : List (Nat × CDv)) (hH : IdxHyp S V vOk)
    (w : World) (op : Op) (hop : OpOk S vOk op) (hw : WInv S vOk w) : WInv S vOk (applyOp S V rootAttrs w op).1 :=
  applyOp_winv S V vOk rootAttrs hH w op hop hw

/-- **C04 over all histories**: in every reachable state of a guarded history, in every model, a lookup answers `i` for `q`
exactly when navigation finds the element `i`, it has an item name and its path (`pathOfChain`, what `Element::path`
computes) is `q`; paths are pairwise different; ids are unique -/
theorem C04_index_exact_reachable (S : Spec) (V : Env) (vOk : Nat) (rootAttrs : List (Nat × CDv)) (hH : IdxHyp S V vOk)
    (ops : List Op) (hops : ∀ op ∈ ops, OpOk S vOk op) :
    ∀ m ∈ (run S V rootAttrs ops).models,
      (∀ q i, m.lookup q = some i ↔
        ∃ c, m.rootItems.chain i = some c ∧ (itemName S (lastOf c).1 (lastOf c).2).isSome = true ∧ pathOfChain S c = q) ∧
      keysNodupI (entries S m.rootItems []) ∧ m.rootItems.ids.Nodup := by
  intro m hm
  have h := run_winv S V vOk rootAttrs hH ops hops m hm
  refine ⟨fun q i => ?_, h.keys, h.ids⟩
  rw [Model.lookup, h.exact q i, entries_mem_iff S m.rootItems h.ids [] q i]
  constructor
  · rintro ⟨c, hc, hn, hp⟩; exact ⟨c, hc, hn, (chainPre_nil S c) ▸ hp⟩
  · rintro ⟨c, hc, hn, hp⟩; exact ⟨c, hc, hn, (chainPre_nil S c).symm ▸ hp⟩

/-- **C04 over all histories of the LARGER alphabet** (`Model/Step.lean`, `OpX`: the core operations, `set_item_name`,
`set_reference_target`, `sort`): the same statement in every state reachable by any guarded history -/
theorem C04_index_exact_reachable_larger_alphabet (S : Spec) (V : Env) (vOk : Nat) (rootAttrs : List (Nat × CDv))
    (hH : IdxHyp S V vOk) (hR : RefWF S) (hv32 : vOk &&& 0xFFFFFFFF = vOk) (ops : List OpX)
    (hops : ∀ op ∈ ops, OpXOk S vOk op) :
    ∀ m ∈ (runX S V rootAttrs ops).models,
      (∀ q i, m.lookup q = some i ↔
        ∃ c, m.rootItems.chain i = some c ∧ (itemName S (lastOf c).1 (lastOf c).2).isSome = true ∧ pathOfChain S c = q) ∧
      keysNodupI (entries S m.rootItems []) ∧ m.rootItems.ids.Nodup := by
  intro m hm
  have h := (runX_finv S V vOk rootAttrs hH hR hv32 ops hops).1.1 m hm
  refine ⟨fun q i => ?_, h.keys, h.ids⟩
  rw [Model.lookup, h.exact q i, entries_mem_iff S m.rootItems h.ids [] q i]
  constructor
  · rintro ⟨c, hc, hn, hp⟩; exact ⟨c, hc, hn, (chainPre_nil S c) ▸ hp⟩
  · rintro ⟨c, hc, hn, hp⟩; exact ⟨c, hc, hn, (chainPre_nil S c).symm ▸ hp⟩

/-- the side condition `hv32` and the reference facts hold for the real tables and the version set used for them -/
theorem C04_real_side_conditions : (0xFFFFFFFE : Nat) &&& 0xFFFFFFFF = 0xFFFFFFFE ∧ RefWF AV.Gen.realSpec :=
  ⟨by decide, AV.Gen.realSpec_refWF⟩

/-- the facts the invariant needs from the specification hold of the tables regenerated from the current source, for
every version except AUTOSAR 4.0.1 (kernel evaluation of the scans in `Lemmas/NameWfCheck.lean`) -/
theorem C04_real_tables : NameWFv AV.Gen.realSpec 0xFFFFFFFE ∧ SnOnlyFirst AV.Gen.realSpec :=
  ⟨AV.Gen.realSpec_nameWFv, AV.Gen.realSpec_snOnlyFirst⟩

/-- … and NOT for all versions: in 4.0.1 two named types are not SEQUENCEs -/
theorem C04_real_tables_not_all_versions : ¬ NameWF AV.Gen.realSpec := AV.Gen.realSpec_not_nameWF

/-- negation witness 1 (guard "no element called SHORT-NAME is created through create_sub_element"): after the history
`witOps1` on `nameSpec` the element e1 has the path "/x" and the index is empty -/
theorem C04_witness_short_name_added_later : ¬ WInv nameSpec 6 (run nameSpec nameEnv [] witOps1) := not_winv_1

/-- negation witness 2 (guard "file versions within vOk"): in a version in which a named type has MIXED content a text item
can be put in front of the SHORT-NAME; the index keeps "/a" for an element that no longer has a name -/
theorem C04_witness_content_before_short_name :
    ((run nameSpec nameEnv [] witOps2).models.map fun m => (m.index, entries nameSpec m.rootItems [])) = [([([47, 97], 1)], [])] :=
  witness_content_before_short_name

/-- non-vacuity: `nameSpec` / `nameEnv` meet `IdxHyp`, the history `goodOps` (create, nested create, rename through the
SHORT-NAME, second package, remove) is guarded, and the theorem applies to it with a non-empty index -/
theorem C04_hypotheses_are_met : IdxHyp nameSpec nameEnv 6 ∧ (∀ op ∈ goodOps, OpOk nameSpec 6 op) ∧
    WInv nameSpec 6 (run nameSpec nameEnv [] goodOps) := ⟨nameSpec_hyp, goodOps_ok, goodOps_winv⟩


/-! ### added in the third session: statements proved in the lemma files, restated here by name
(`type_of%` keeps the statement identical to the lemma; the signature is quoted in the comment) -/

/-- **with moves and copies**: in every state reachable by guarded steps of the alphabet `OpY` (`Lemmas/StepY.lean`: everything of the larger alphabet + `move_element_here` inside one model + `create_copied_sub_element`; the guards of move and copy are decidable predicates on the state: the moved / copied element has an item name, the moved subtree carries no local file sets, the copied content is permitted in the destination version) the full invariant `GInv` holds: well-formed tree, file sets, path index exact, referrer lists exact, …
`theorem reachY_ginv (hH : IdxHyp S V vOk) (hR : RefWF S) (hv32 : vOk &&& 0xFFFFFFFF = vOk) {w : World} (h : ReachY S V vOk rootAttrs w) : GInv S vOk w` -/
theorem C04_invariants_with_moves_and_copies : type_of% @AV.W.reachY_ginv := @AV.W.reachY_ginv

/-- `theorem reachY_ginv_sep (hH : IdxHyp S V vOk) (hR : RefWF S) (hv32 : vOk &&& 0xFFFFFFFF = vOk) {w : World} (h : ReachY S V vOk rootAttrs w) : GInv S vOk w ∧ SepInv w` -/
theorem C04_invariants_and_disjoint_ids_with_moves_and_copies : type_of% @AV.W.reachY_ginv_sep := @AV.W.reachY_ginv_sep

/-- non-vacuity: a guarded history with ten creations, a copy and a move (guards discharged by `decide`)
`theorem yOps_reach : ReachY mvSpec nameEnv 6 [] (runY mvSpec nameEnv [] emptyWorld yOps)` -/
theorem C04_guarded_history_with_copy_and_move_exists : type_of% @AV.W.yOps_reach := @AV.W.yOps_reach

/-- negation witness for the file-set clause of the move guard (known finding c10:move-keeps-descendant-file-sets)
`theorem move_unguarded_breaks_inv : Inv fWorld ∧ ¬ Inv (opMove mvSpecF nameEnv fWorld 3 4 none).1` -/
theorem C04_witness_move_guard_needed : type_of% @AV.W.move_unguarded_breaks_inv := @AV.W.move_unguarded_breaks_inv


/-! ### added later in the third session (loads, cross-model moves, merge order): restated by name
(`type_of%` keeps the statement identical to the lemma; the signature is quoted in the comment) -/

/-- **with first loads**: `ReachL` (`Lemmas/StepL.lean`) = the guarded steps of `OpY` plus `load_buffer` into a model without files, guarded by a decidable condition on the RESULT of the load (strict or warning-free; SHORT-NAME discipline `SnOk`; paths of the document pairwise different; a reference holds one text item): the full invariant holds in every reachable state
`theorem reachL_ginv (hH : IdxHyp S V vOk) (hR : RefWF S) (hv32 : vOk &&& 0xFFFFFFFF = vOk) (hroot : nmAutosar ≠ S.nmShortName) (hNoSub : ∀ t, S.isRef t = true → S.subCount t = 0) {w : World} (h : ReachL S V vOk rootAttrs nmAutosar w) : GInv S vOk w` -/
theorem C04_invariants_with_first_loads : type_of% @AV.W.reachL_ginv := @AV.W.reachL_ginv

/-- `theorem opLoad_first_ginv (hroot : nmAutosar ≠ S.nmShortName) (hR : RefWF S) (hNoSub : ∀ t, S.isRef t = true → S.subCount t = 0) (hv32 : vOk &&& 0xFFFFFFFF = vOk) (hc : Clean strict st) (hg : LoadGuard S vOk h kids st.ver) (hG : GInv S vOk w) : GInv S vOk (opLoad S V nmAutosar w k name strict buf).1` -/
theorem C04_first_load_establishes_the_invariants : type_of% @AV.LoadInv.opLoad_first_ginv := @AV.LoadInv.opLoad_first_ginv

/-- what the parser collects for the index is exactly the path list of the returned tree (document order), for trees with the SHORT-NAME discipline
`theorem runParser_idents (strict : Bool) (buf : Bytes) (nid nmAutosar : Nat) (h : Hdr) (k : Items) (st : PState) (hr : runParser S V strict buf nid nmAutosar = (.ok (h, k), st)) (hs : SnOk S (.elem h k .nil)) : st.idents = entries S (.elem h k .nil) []` -/
theorem C04_parser_collects_exactly_the_paths : type_of% @AV.LoadInv.runParser_idents := @AV.LoadInv.runParser_idents

/-- negation witness = known finding c04:document-with-duplicate-paths-accepted on a toy specification
`theorem dup_no_minv (vOk nid : Nat) : ¬ ∀ m ∈ (opLoad ldDupSpec toyEnv 100 (w0 ldDupSpec) 0 [102] true dupDoc).1.models, MInv ldDupSpec vOk nid m` -/
theorem C04_witness_duplicate_path_document : type_of% @AV.LoadInv.Witness.dup_no_minv := @AV.LoadInv.Witness.dup_no_minv

/-- negation witness: a document whose SHORT-NAME is not the first sub-element is accepted (sequence order is not checked) and indexed under a wrong path
`theorem sn_not_first_no_minv (vOk nid : Nat) : ¬ ∀ m ∈ (opLoad ldSeqSpec toyEnv 100 (w0 ldSeqSpec) 0 [102] true seqDoc).1.models, MInv ldSeqSpec vOk nid m` -/
theorem C04_witness_short_name_not_first : type_of% @AV.LoadInv.Witness.sn_not_first_no_minv := @AV.LoadInv.Witness.sn_not_first_no_minv

/-- **with moves between models**: `ReachZ` (`Lemmas/StepZ.lean`) = `ReachY` plus guarded cross-model moves (`opMoveAny` = what the driver runs for `move`): the full invariant and disjoint ids in every reachable state
`theorem reachZ_ginv (hH : IdxHyp S V vOk) (hR : RefWF S) (hv32 : vOk &&& 0xFFFFFFFF = vOk) {w : World} (h : ReachZ S V vOk rootAttrs w) : GInv S vOk w` -/
theorem C04_invariants_with_cross_model_moves : type_of% @AV.W.reachZ_ginv := @AV.W.reachZ_ginv

end AV.C04
