/-
C06 — References keep following their target through rename and move.

Property text: "Renaming an identifiable element through the item-name API, or moving it (or a container
holding it) to another place in the same model, rewrites every reference whose path designated that
element or an identifiable element below it, so that afterwards the reference designates the same element
object; all other references keep their text. …"

Model: `opRename` (`set_item_name`: `idxFix` + `renameRefs`) and `opMove` (`move_element_local`).  Which
references are rewritten is decided by `pathSuffix oldPath refText`; the theorems below show that this
test selects exactly the renamed element's path and the paths below it — in particular NOT a sibling whose
name merely starts with the same text (`/pkg1` vs `/pkg10`) — and that the rewritten text keeps the suffix.
Partial: that every rewritten reference resolves to the same element object afterwards, over all histories,
is checked by the correspondence run (dumps) and by the direct oracle on the real library (target identity
of every reference before/after each rename/move).
-/
import AutosarVerif.Lemmas.WorldOps

namespace AV.C06
open AV.W

theorem C06_rewrites_target_itself (old : Bytes) : pathSuffix old old = some [] := pathSuffix_self old
theorem C06_rewrites_nested_targets (old rest : Bytes) : pathSuffix old (old ++ 47 :: rest) = some (47 :: rest) :=
  pathSuffix_child old rest
theorem C06_keeps_prefix_siblings (old : Bytes) (c : UInt8) (rest : Bytes) (hc : c ≠ 47) :
    pathSuffix old (old ++ c :: rest) = none := pathSuffix_boundary old c rest hc
theorem C06_only_real_descendants (old key s : Bytes) (h : pathSuffix old key = some s) :
    key = old ++ s ∧ (s = [] ∨ s.head? = some 47) := pathSuffix_some old key s h

/-! non-vacuity: the reference rewriting of a rename on a concrete reverse map:
references to "/a" and "/a/x" follow the rename to "/b", the one to "/a1" keeps its key -/
example : (renameRefs [([47, 97], [1]), ([47, 97, 47, 120], [2]), ([47, 97, 49], [3])] .nil [47, 97] [47, 98]).1
    = [([47, 97, 49], [3]), ([47, 98], [1]), ([47, 98, 47, 120], [2])] := by decide

end AV.C06
