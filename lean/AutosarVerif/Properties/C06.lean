/-
C06 — References keep following their target through rename and move.

Property text: "Renaming an identifiable element through the item-name API, or moving it (or a container
holding it) to another place in the same model, rewrites every reference whose path designated that
element or an identifiable element below it, so that afterwards the reference designates the same element
object; all other references keep their text. …"

Model: `opRename` (`set_item_name`: `idxFix` + `renameRefs`) and `opMove` (`move_element_local`).  Which
references are rewritten is decided by `pathSuffix oldPath refText`; the theorems below show that this
test selects exactly the renamed element's path and the paths below it — in particular NOT a sibling whose
name merely starts with the same text (`/pkg1` vs `/pkg10`) — and that the rewritten text keeps the suffix.
PROVED for `set_item_name` over ALL histories (`C06_rename_follows_in_every_reachable_state`): in every state reachable from the
empty world by any guarded history of the larger alphabet `OpX` (the 17 core operations, `set_item_name`, `sort`;
`Model/Step.lean`, the step function the driver runs), a rename that changes the state maps every reference element of the
model with a text `p` to the same element with a text `p'` such that (i) if `p` resolved to the element `e` in the path index
before, `p'` resolves to the SAME element `e` afterwards; (ii) if `p` did not designate the renamed element or something below
it, `p' = p` ("all other references keep their text"); (iii) otherwise `p'` is the new path followed by the old remainder.
The step statement `C06_rename_follows` holds in any world with the combined invariant `CInv` (index exact, reverse reference
map exact — C04/C05); `C06_rename_index` says the index is re-keyed one-to-one (`C06_rename_index_converse`: nothing else
appears), `C06_rename_frame` that every other model, the id counters and the files are untouched.  The same invariants hold
again after the rename (`Lemmas/StepX.lean`, `runX_finv`), so the statement composes along histories.
`C06_rename_needs_exact_referrers`: WITHOUT the exactness of the reverse map (C05) the statement is false — the loop overwrites
the first content item of whatever the map lists; a concrete world with a garbage map loses the package's SHORT-NAME.
Partial (named so): moves (`move_element_here`, same model and across models) are outside the proved alphabet; for them the
identity of every reference target before/after is checked by the correspondence run (dumps) and by the direct oracle on the
real library.
-/
import AutosarVerif.Lemmas.WorldOps
import AutosarVerif.Lemmas.RenameOpC06
import AutosarVerif.Lemmas.StepX
import AutosarVerif.Lemmas.MoveOpC06
import AutosarVerif.Lemmas.MoveOpPos
import AutosarVerif.Lemmas.MoveOpWitness
import AutosarVerif.Lemmas.StepY
import AutosarVerif.Lemmas.MoveCopyInv
import AutosarVerif.Lemmas.MoveFull
import AutosarVerif.Lemmas.StepZ

namespace AV.C06
open AV.W

theorem C06_rewrites_target_itself (old : Bytes) : pathSuffix old old = some [] := pathSuffix_self old
theorem C06_rewrites_nested_targets (old rest : Bytes) : pathSuffix old (old ++ 47 :: rest) = some (47 :: rest) :=
  pathSuffix_child old rest
theorem C06_keeps_prefix_siblings (old : Bytes) (c : UInt8) (rest : Bytes) (hc : c ≠ 47) :
    pathSuffix old (old ++ c :: rest) = none := pathSuffix_boundary old c rest hc
theorem C06_only_real_descendants (old key s : Bytes) (h : pathSuffix old key = some s) :
    key = old ++ s ∧ (s = [] ∨ s.head? = some 47) := pathSuffix_some old key s h

/-! non-vacuity: the reference rewriting of a rename on a concrete reverse map:
references to "/a" and "/a/x" follow the rename to "/b", the one to "/a1" keeps its key -/
example : (renameRefs [([47, 97], [1]), ([47, 97, 47, 120], [2]), ([47, 97, 49], [3])] .nil [47, 97] [47, 98]).1
    = [([47, 97, 49], [3]), ([47, 98], [1]), ([47, 98, 47, 120], [2])] := by decide

/-- **C06 for `set_item_name`** in any world with exact index and exact referrer lists: every reference of the model keeps
designating the same element object; the others keep their text -/
theorem C06_rename_follows (S : Spec) (V : Env) (vOk : Nat) (hH : IdxHyp S V vOk) (hR : RefWF S) (w : World)
    (hC : CInv S vOk w) (x : Nat) (nm : Bytes) (k : Nat) (c : List (Hdr × Items)) (hloc : locate w x = some (k, c))
    (hch : (opRename S V w x nm).1 ≠ w) (h : Hdr) (k0 : Items) (p : Bytes) (ho : Occ h k0 (w.models[k]!).rootItems)
    (href : S.isRef h.ety.typ = true) (hcd : charData S h k0 = some (.str p)) :
    ∃ k0' p', Occ h k0' ((opRename S V w x nm).1.models[k]!).rootItems ∧ charData S h k0' = some (.str p') ∧
      (∀ e, idxGet (w.models[k]!).index p = some e → idxGet ((opRename S V w x nm).1.models[k]!).index p' = some e) ∧
      (pathSuffix (pathOfChain S c) p = none → p' = p) ∧
      (∀ s, pathSuffix (pathOfChain S c) p = some s → p' = renNew S c nm ++ s) :=
  opRename_C06 S V vOk hH hR w hC x nm k c hloc hch h k0 p ho href hcd

/-- the index is re-keyed: every entry moves with its element -/
theorem C06_rename_index (S : Spec) (V : Env) (vOk : Nat) (hH : IdxHyp S V vOk) (hR : RefWF S) (w : World)
    (hC : CInv S vOk w) (x : Nat) (nm : Bytes) (k : Nat) (c : List (Hdr × Items)) (hloc : locate w x = some (k, c))
    (hch : (opRename S V w x nm).1 ≠ w) (q : Bytes) (i : Nat) (hq : idxGet (w.models[k]!).index q = some i) :
    idxGet ((opRename S V w x nm).1.models[k]!).index (rekey (pathOfChain S c) (renNew S c nm) q) = some i :=
  opRename_C06_index S V vOk hH hR w hC x nm k c hloc hch q i hq
theorem C06_rename_index_converse (S : Spec) (V : Env) (vOk : Nat) (hH : IdxHyp S V vOk) (hR : RefWF S) (w : World)
    (hC : CInv S vOk w) (x : Nat) (nm : Bytes) (k : Nat) (c : List (Hdr × Items)) (hloc : locate w x = some (k, c))
    (hch : (opRename S V w x nm).1 ≠ w) (q' : Bytes) (i : Nat)
    (hq : idxGet ((opRename S V w x nm).1.models[k]!).index q' = some i) :
    ∃ q, idxGet (w.models[k]!).index q = some i ∧ rekey (pathOfChain S c) (renNew S c nm) q = q' :=
  opRename_C06_index_conv S V vOk hH hR w hC x nm k c hloc hch q' i hq

/-- **over all histories**: the statement holds for a rename issued in ANY state reachable by a guarded history of the larger
alphabet (core operations, renames, sorts) -/
theorem C06_rename_follows_in_every_reachable_state (S : Spec) (V : Env) (vOk : Nat) (rootAttrs : List (Nat × CDv))
    (hH : IdxHyp S V vOk) (hR : RefWF S) (hv32 : vOk &&& 0xFFFFFFFF = vOk) (ops : List OpX)
    (hops : ∀ op ∈ ops, OpXOk S vOk op) (x : Nat) (nm : Bytes) (k : Nat) (c : List (Hdr × Items))
    (hloc : locate (runX S V rootAttrs ops) x = some (k, c))
    (hch : (opRename S V (runX S V rootAttrs ops) x nm).1 ≠ runX S V rootAttrs ops)
    (h : Hdr) (k0 : Items) (p : Bytes) (ho : Occ h k0 ((runX S V rootAttrs ops).models[k]!).rootItems)
    (href : S.isRef h.ety.typ = true) (hcd : charData S h k0 = some (.str p)) :
    ∃ k0' p', Occ h k0' ((opRename S V (runX S V rootAttrs ops) x nm).1.models[k]!).rootItems ∧
      charData S h k0' = some (.str p') ∧
      (∀ e, idxGet ((runX S V rootAttrs ops).models[k]!).index p = some e →
        idxGet ((opRename S V (runX S V rootAttrs ops) x nm).1.models[k]!).index p' = some e) ∧
      (pathSuffix (pathOfChain S c) p = none → p' = p) ∧
      (∀ s, pathSuffix (pathOfChain S c) p = some s → p' = renNew S c nm ++ s) :=
  opRename_C06 S V vOk hH hR _ (runX_finv S V vOk rootAttrs hH hR hv32 ops hops).1 x nm k c hloc hch h k0 p ho href hcd

/-- negation witness: with a reverse map that is not exact the rename destroys the index invariant (C05 is needed for C06) -/
theorem C06_rename_needs_exact_referrers :
    ∃ w : World, WInv refSpec 6 w ∧ ¬ WInv refSpec 6 (opRename refSpec nameEnv w 1 [98]).1 := opRename_winv_needs_refs

/-- non-vacuity: the hypotheses of the step statement are met by a concrete world (package "a" referenced by "/a", "/a/x";
"/a1" untouched) -/
theorem C06_hypotheses_are_met : ∃ k c, locate renWorld 1 = some (k, c) ∧
    (opRename refSpec nameEnv renWorld 1 [98]).1 ≠ renWorld ∧ CInv refSpec 6 renWorld := renWorld_hyps


/-! ### added in the third session: statements proved in the lemma files, restated here by name
(`type_of%` keeps the statement identical to the lemma; the signature is quoted in the comment) -/

/-- **`move_element_here` of an identifiable element inside one model**, in a world with the invariants of the larger alphabet: the index is re-keyed from the old path to the destination path (with the unique-name suffix), path index and referrer lists stay exact, every reference whose text RESOLVED before is re-keyed and designates the same element object afterwards, every other reference keeps its text (`mvText`)
`theorem opMove_real (hH : IdxHyp S V vOk) (hR : RefWF S) (w : World) (p x : Nat) (pos? : Option Nat) (hg : GInv S vOk w) {k : Nat} {cx cp : List (Hdr × Items)} {ver lo hi : Nat} {sph : Hdr} {spk : Items} (hr : MoveRun S V w p x pos? k cx cp ver lo hi sph spk) (hsp : sph.id ≠ p) (hany : (cp.any fun (h, _) => h.id = x) = false) (orig : Bytes) (hnamed : itemName S (lastOf cx).1 (lastOf cx).2 = some orig) (m' : Model) (hm' : m' = moveModel S (w.models[k]!) sph spk x p (pos?.getD hi) (lastOf cx).1 (lastOf cx).2 (pathOfChain S cx) (pathOfChain S cp) (subtreePaths S ((lastOf cx).2.size + 2) (lastOf cx).1 (lastOf cx).2 (namesOfChain S cx.dropLast))) : ∃ dest, dest = pathOfChain S cp ++ 47 :: (uniqueName (w.models[k]!).index (pathOfChain S cp) orig ((w.models[k]!).index.length + 2) 0).1 ∧ WInv S vOk (setModel w k m') ∧ WRInv S (setModel w k m') ∧ m'.index = idxFix (w.models[k]!).index (pathOfChain S cx) dest ∧ (refEntries S m'.rootItems).Perm ((refEntries S (w.models[k]!).rootItems).map fun e => (mvText (w.models[k]!).index (pathOfChain S cx) dest e.1, e.2)) ∧ (∀ t e, idxGet (w.models[k]!).index t = some e → idxGet m'.index (rekey (pathOfChain S cx) dest t) = some e)` -/
theorem C06_move_of_named_element_follows : type_of% @AV.W.opMove_real := @AV.W.opMove_real

/-- … unconditionally over the branches of the operation, for named elements
`theorem opMove_winv_rinv_named (hH : IdxHyp S V vOk) (hR : RefWF S) (w : World) (p x : Nat) (pos? : Option Nat) (hg : GInv S vOk w) (hnamed : ∀ k cx, locate w x = some (k, cx) → itemName S (lastOf cx).1 (lastOf cx).2 ≠ none) : WInv S vOk (opMove S V w p x pos?).1 ∧ WRInv S (opMove S V w p x pos?).1` -/
theorem C06_move_keeps_index_and_referrers_exact : type_of% @AV.W.opMove_winv_rinv_named := @AV.W.opMove_winv_rinv_named

/-- a move inside one parent (position change) keeps the full invariant
`theorem opMove_pos_ginv' (hH : IdxHyp S V vOk) (w : World) (p x : Nat) (pos? : Option Nat) (h : GInv S vOk w) (k : Nat) (cx cp : List (Hdr × Items)) (ver lo hi : Nat) (sph : Hdr) (spk : Items) (q cur : Nat) (hr : MoveRun S V w p x pos? k cx cp ver lo hi sph spk) (hq : pos? = some q) (hcur : (lastOf cp).2.childPos x 0 = some cur) (he : opMove S V w p x pos? = (setModel w k (posModel (w.models[k]!) p cur q), .ok "")) (hname : (lastOf cx).1.name ≠ S.nmShortName) : GInv S vOk (opMove S V w p x pos?).1` -/
theorem C06_position_change_keeps_invariants : type_of% @AV.W.opMove_pos_ginv' := @AV.W.opMove_pos_ginv'

/-- **over histories with moves and copies**: for a successful move of a named element to another parent, issued in ANY state reachable by guarded steps of `OpY`: index re-keyed to the destination path, index and referrer lists exact afterwards, every reference whose text resolved is re-keyed and designates the same element object, every other keeps its text
`theorem reachY_move_refs (hH : IdxHyp S V vOk) (hR : RefWF S) (hv32 : vOk &&& 0xFFFFFFFF = vOk) {w : World} (hreach : ReachY S V vOk rootAttrs w) (p x : Nat) (pos? : Option Nat) (hok : (opMove S V w p x pos?).2 = .ok "") (k : Nat) (cx : List (Hdr × Items)) (hlx : locate w x = some (k, cx)) (hpar : ∀ sph spk, cx.dropLast.getLast? = some (sph, spk) → sph.id ≠ p) (orig : Bytes) (hnamed : itemName S (lastOf cx).1 (lastOf cx).2 = some orig) : ∃ cp dest, locate w p = some (k, cp) ∧ dest = pathOfChain S cp ++ 47 :: (uniqueName (w.models[k]!).index (pathOfChain S cp) orig ((w.models[k]!).index.length + 2) 0).1 ∧ WInv S vOk (applyOpY S V rootAttrs w (.move p x pos?)).1 ∧ WRInv S (applyOpY S V rootAttrs w (.move p x pos?)).1 ∧ ((applyOpY S V rootAttrs w (.move p x pos?)).1.models[k]!).index = idxFix (w.models[k]!).index (pathOfChain S cx) dest ∧ (refEntries S ((applyOpY S V rootAttrs w (.move p x pos?)).1.models[k]!).rootItems).Perm ((refEntries S (w.models[k]!).rootItems).map fun e => (mvText (w.models[k]!).index (pathOfChain S cx) dest e.1, e.2)) ∧ (∀ t e, idxGet (w.models[k]!).index t = some e → idxGet ((applyOpY S V rootAttrs w (.move p x pos?)).1.models[k]!).index (rekey (pathOfChain S cx) dest t) = some e)` -/
theorem C06_move_follows_in_every_reachable_state : type_of% @AV.W.reachY_move_refs := @AV.W.reachY_move_refs

/-- `theorem opMove_ginv (hH : IdxHyp S V vOk) (hR : RefWF S) (hv32 : vOk &&& 0xFFFFFFFF = vOk) (w : World) (p x : Nat) (pos? : Option Nat) (hg : GInv S vOk w) (hgd : MoveGuard S w p x) : GInv S vOk (opMove S V w p x pos?).1` -/
theorem C06_guarded_move_keeps_all_invariants : type_of% @AV.W.opMove_ginv := @AV.W.opMove_ginv


/-! ### added later in the third session (loads, cross-model moves, merge order): restated by name
(`type_of%` keeps the statement identical to the lemma; the signature is quoted in the comment) -/

/-- **last sentence of the property**: after a guarded move of a named element to ANOTHER model, every reference inside the moved subtree whose text resolved (in the source index) to an element of the subtree has the re-prefixed text, is registered in the destination and resolves there to the same element
`theorem opMoveAny_c06 (hH : IdxHyp S V vOk) (hR : RefWF S) (hv32 : vOk &&& 0xFFFFFFFF = vOk) (w : World) (p x : Nat) (pos? : Option Nat) (hg : GInv S vOk w) (hs : SepInv w) (hgf : MoveFullGuard S w x) (hun : (opMove S V w p x pos?).2 = .unsupported) (hok : (opMoveAny S V w p x pos?).2 ≠ .err) : ∃ kx cx kp cp orig dest, locate w x = some (kx, cx) ∧ locate w p = some (kp, cp) ∧ kx ≠ kp ∧ itemName S (lastOf cx).1 (lastOf cx).2 = some orig ∧ dest = pathOfChain S cp ++ 47 :: (uniqueName (w.models[kp]!).index (pathOfChain S cp) orig ((w.models[kp]!).index.length + 2) 0).1 ∧ ∀ t r e, (t, r) ∈ refEntries S (.elem (lastOf cx).1 (lastOf cx).2 .nil) → idxGet (w.models[kx]!).index t = some e → e ∈ (Items.elem (lastOf cx).1 (lastOf cx).2 .nil).ids → (dest ++ t.drop (pathOfChain S cx).length, r) ∈ refEntries S ((opMoveAny S V w p x pos?).1.models[kp]!).rootItems ∧ idxGet ((opMoveAny S V w p x pos?).1.models[kp]!).index (dest ++ t.drop (pathOfChain S cx).length) = some e` -/
theorem C06_cross_model_move_inner_references_follow : type_of% @AV.W.opMoveAny_c06 := @AV.W.opMoveAny_c06

/-- `theorem reachZ_moveFull_c06 (hH : IdxHyp S V vOk) (hR : RefWF S) (hv32 : vOk &&& 0xFFFFFFFF = vOk) {w : World} (hreach : ReachZ S V vOk rootAttrs w) (p x : Nat) (pos? : Option Nat) (hgf : MoveFullGuard S w x) (hun : (opMove S V w p x pos?).2 = .unsupported) (hok : (opMoveAny S V w p x pos?).2 ≠ .err) : ∃ kx cx kp cp orig dest, locate w x = some (kx, cx) ∧ locate w p = some (kp, cp) ∧ kx ≠ kp ∧ itemName S (lastOf cx).1 (lastOf cx).2 = some orig ∧ dest = pathOfChain S cp ++ 47 :: (uniqueName (w.models[kp]!).index (pathOfChain S cp) orig ((w.models[kp]!).index.length + 2) 0).1 ∧ ∀ t r e, (t, r) ∈ refEntries S (.elem (lastOf cx).1 (lastOf cx).2 .nil) → idxGet (w.models[kx]!).index t = some e → e ∈ (Items.elem (lastOf cx).1 (lastOf cx).2 .nil).ids → (dest ++ t.drop (pathOfChain S cx).length, r) ∈ refEntries S ((opMoveAny S V w p x pos?).1.models[kp]!).rootItems ∧ idxGet ((opMoveAny S V w p x pos?).1.models[kp]!).index (dest ++ t.drop (pathOfChain S cx).length) = some e` -/
theorem C06_cross_model_move_in_every_reachable_state : type_of% @AV.W.reachZ_moveFull_c06 := @AV.W.reachZ_moveFull_c06

/-- `theorem opMoveAny_ginv_sep (hH : IdxHyp S V vOk) (hR : RefWF S) (hv32 : vOk &&& 0xFFFFFFFF = vOk) (w : World) (p x : Nat) (pos? : Option Nat) (hg : GInv S vOk w) (hs : SepInv w) (hgd : MoveGuard S w p x) (hgf : MoveFullGuard S w x) : GInv S vOk (opMoveAny S V w p x pos?).1 ∧ SepInv (opMoveAny S V w p x pos?).1` -/
theorem C06_guarded_move_any_keeps_all_invariants : type_of% @AV.W.opMoveAny_ginv_sep := @AV.W.opMoveAny_ginv_sep

end AV.C06
