/-
C02 — The loader is total: arbitrary bytes never panic, crash or hang it.

Property text: "For every byte string, loading it (strict or lenient) and probing it with the
header check terminate and return either a loaded file or an error value; they never panic, abort
the process or loop forever. Every tokenizer or parser error names a line between 1 and the number
of lines in the input, and the header check accepts every buffer that loading accepts."

What is proved here (tokenizer level, `Model/Lexer.lean` = `lexer.rs`), for ALL byte strings:
* `C02_next_returns`: a call of `next` always returns an event or an error — the loop that skips
  processing instructions and white space cannot run out of input-bounded fuel;
* `C02_tokenizing_terminates`: tokenising a buffer reaches end-of-file or an error after at most
  `2·len + 4` calls (every event other than end-of-file consumes input);
* `C02_lines_in_range`: every line number reported with an event or a tokenizer error lies between
  1 and 1 + the number of newline bytes of the buffer.
and at the parser level (`Model/Parser.lean` = `parser.rs`: `parse_arxml`, `parse_element`, `parse_attribute_text`,
`parse_character_data`, …; the driver answers `load` requests into an empty model with it, compared with the library
including the kind and line of every error and warning):
* `C02_parser_lines_in_range`: every error and every warning of a parser run (tokenizer errors included) names a line
  between 1 and 1 + the number of newline bytes of the buffer;
* `C02_parser_total`: for every buffer, in both modes, the run of the parser model ends with a document or with a
  genuine tokenizer / parser error — the step budget of its loops is never exhausted (each token strictly decreases
  the tokenizer measure; everything between two tokens leaves the tokenizer alone).
Termination of the model functions themselves is Lean's (structural recursion / fuel); the theorems say that the fuel
is never what ends a run.

* the header check: `C02_header_check_accepts_what_loading_accepts` (every buffer that `load_buffer` accepts, strict or lenient,
  is accepted by `check_buffer`), `C02_header_check_total`.
Partial: "never panic / abort" of the real code (slice indexing, `unwrap`, stack depth) rests on
the run: exhaustive short strings over the XML token alphabet, token strings in valid contexts, mutations and all
truncations of a valid document, random bytes, with `catch_unwind`, a watchdog, and a child process for pathological
nesting (known finding: stack overflow on extreme nesting depth).  `String::from_utf8_lossy` on invalid UTF-8 in string
values / comments is outside the parser model (the model answers `unsupported`).
-/
import AutosarVerif.Lemmas.Lexer
import AutosarVerif.Lemmas.ParserTotal
import AutosarVerif.Lemmas.ParserLines
import AutosarVerif.Lemmas.CheckHeader

namespace AV.C02
open AV.Lex

theorem C02_next_returns (s : LState) : (next (s.rest.length + 1) s).isSome = true :=
  next_isSome _ s (by omega)

theorem C02_tokenizing_terminates (buf : Bytes) : (lex buf).2.2 = true := lex_finishes buf

theorem C02_lines_in_range (buf : Bytes) :
    (∀ p ∈ (lex buf).1, 1 ≤ p.1 ∧ p.1 ≤ 1 + countNl buf) ∧
    (∀ le, (lex buf).2.1 = some le → 1 ≤ le.1 ∧ le.1 ≤ 1 + countNl buf) := lex_lines buf

theorem C02_parser_total (S : Spec) (V : W.Env) (strict : Bool) (buf : Bytes) (firstId nmAutosar : Nat) :
    ∀ e, (PM.runParser S V strict buf firstId nmAutosar).1 = .error e → e.kind ≠ PM.kFuel :=
  PM.runParser_total S V strict buf firstId nmAutosar

theorem C02_parser_lines_in_range (S : Spec) (V : W.Env) (strict : Bool) (buf : Bytes) (firstId nmAutosar : Nat) :
    (∀ e, (PM.runParser S V strict buf firstId nmAutosar).1 = .error e → 1 ≤ e.line ∧ e.line ≤ 1 + countNl buf) ∧
    (∀ w ∈ (PM.runParser S V strict buf firstId nmAutosar).2.warnings, 1 ≤ w.line ∧ w.line ≤ 1 + countNl buf) :=
  PM.runParser_lines S V strict buf firstId nmAutosar

/-! non-vacuity: the model tokenises, reports errors with lines, and skips what the code skips -/
-- "<a>\n<>" : begin element on line 1, then `InvalidElement` on line 2
example : (lex [60, 97, 62, 10, 60, 62]).2.1 = some (2, .invalidElement) := by decide
-- "<?>" is rejected as an invalid processing instruction (finding #1 of DESIGN.md §9, fixed)
example : (lex [60, 63, 62]).2.1 = some (1, .invalidProcessingInstruction) := by decide
-- "<a/>" yields BeginElement and the deferred EndElement, then end of file
example : (lex [60, 97, 47, 62]).1 = [(1, .beginElement [97] []), (1, .endElement [97]), (1, .eof)] := by decide

/-! ### the header check (added in the third session; `check_arxml_header` is in the model: `PM.checkHeader` / `PM.checkBuffer`, the driver
answers `chk` requests with it and the answers are compared with `check_buffer` on every input of the run) -/

/-- **the header check accepts every buffer that loading accepts**, strict or lenient -/
theorem C02_header_check_accepts_what_loading_accepts : type_of% @AV.PM.checkBuffer_of_load := @AV.PM.checkBuffer_of_load
/-- the header check never runs out of its step budget: a rejection is a genuine tokenizer / parser error -/
theorem C02_header_check_total : type_of% @AV.PM.checkBuffer_false_reason := @AV.PM.checkBuffer_false_reason
theorem C02_header_check_budget_irrelevant : type_of% @AV.PM.checkBuffer_eq_any_fuel := @AV.PM.checkBuffer_eq_any_fuel

end AV.C02
