/-
C18 — Specification tables are exact: names round-trip, lookups match the listings.

Property text (properties.jsonl): "Converting any element name, attribute name or enumeration
item to its text and back yields the same item, distinct items have distinct texts, and
converting any text that is not exactly the text of an item fails. Schema versions convert
one-to-one between their value, their bit and their schema file name. Every sub-element and
attribute that the specification lists for an element type in some version is found by name
lookup in that version with a type listed for it and a version mask containing that version,
and a DEST value proposed for a reference to a target type is accepted by that target type and
belongs to the reference's DEST enumeration."

Mapping of phrases to definitions:
* "item"            = a discriminant `i < table.nNames` (`discriminants_cover`: every such `i` is a
                      declared enum discriminant, so the `transmute` in `from_bytes` is defined, and
                      there are exactly `nNames` declared items);
* "its text"        = `Hash.toStr table i` (`STRING_TABLE[*self as usize]`);
* "and back"        = `Hash.fromBytes hashParams table` (model of `from_bytes`, byte-level hash);
* "any text"        = any `Bytes = List UInt8` — no restriction to UTF-8, length or alphabet.
The tables (`Gen.Elem.table`, …) are regenerated from the Rust source on every run; the
`*_all_ok` facts are `decide +kernel` obligations over them.
-/
import AutosarVerif.Lemmas.Hash
import AutosarVerif.Gen.NamesElemAll
import AutosarVerif.Gen.NamesAttrAll
import AutosarVerif.Gen.NamesEnumAll
import AutosarVerif.Lemmas.Versions
import AutosarVerif.Lemmas.Spec
import AutosarVerif.Gen.Versions
import AutosarVerif.Gen.SpecWf

namespace AV.C18
open AV.Hash AV.Gen

theorem elem_tableOk : TableOk hashParams Elem.table :=
  tableOk_of_walkAll _ _ Elem.chunks rfl Elem.all_ok
theorem attr_tableOk : TableOk hashParams Attr.table :=
  tableOk_of_walkAll _ _ Attr.chunks rfl Attr.all_ok
theorem enum_tableOk : TableOk hashParams Enum.table :=
  tableOk_of_walkAll _ _ Enum.chunks rfl Enum.all_ok

/-! #### item → text → item -/
theorem C18_elementName_roundtrip (i : Nat) (h : i < Elem.table.nNames) :
    fromBytes hashParams Elem.table (toStr Elem.table i) = some i := from_to elem_tableOk i h
theorem C18_attributeName_roundtrip (i : Nat) (h : i < Attr.table.nNames) :
    fromBytes hashParams Attr.table (toStr Attr.table i) = some i := from_to attr_tableOk i h
theorem C18_enumItem_roundtrip (i : Nat) (h : i < Enum.table.nNames) :
    fromBytes hashParams Enum.table (toStr Enum.table i) = some i := from_to enum_tableOk i h

/-! #### distinct items have distinct texts -/
theorem C18_elementName_injective (i j : Nat) (hi : i < Elem.table.nNames) (hj : j < Elem.table.nNames)
    (h : toStr Elem.table i = toStr Elem.table j) : i = j := toStr_inj elem_tableOk i j hi hj h
theorem C18_attributeName_injective (i j : Nat) (hi : i < Attr.table.nNames) (hj : j < Attr.table.nNames)
    (h : toStr Attr.table i = toStr Attr.table j) : i = j := toStr_inj attr_tableOk i j hi hj h
theorem C18_enumItem_injective (i j : Nat) (hi : i < Enum.table.nNames) (hj : j < Enum.table.nNames)
    (h : toStr Enum.table i = toStr Enum.table j) : i = j := toStr_inj enum_tableOk i j hi hj h

/-! #### every byte string that is not exactly the text of an item is rejected
(and whatever is accepted is the text of the returned item) -/
theorem C18_elementName_exact (s : Bytes) (i : Nat) (h : fromBytes hashParams Elem.table s = some i) :
    toStr Elem.table i = s ∧ i < Elem.table.nNames := from_only_members elem_tableOk s i h
theorem C18_attributeName_exact (s : Bytes) (i : Nat) (h : fromBytes hashParams Attr.table s = some i) :
    toStr Attr.table i = s ∧ i < Attr.table.nNames := from_only_members attr_tableOk s i h
theorem C18_enumItem_exact (s : Bytes) (i : Nat) (h : fromBytes hashParams Enum.table s = some i) :
    toStr Enum.table i = s ∧ i < Enum.table.nNames := from_only_members enum_tableOk s i h

theorem C18_elementName_nonmember (s : Bytes) (h : ∀ i, i < Elem.table.nNames → toStr Elem.table i ≠ s) :
    fromBytes hashParams Elem.table s = none := non_member_fails elem_tableOk s h
theorem C18_attributeName_nonmember (s : Bytes) (h : ∀ i, i < Attr.table.nNames → toStr Attr.table i ≠ s) :
    fromBytes hashParams Attr.table s = none := non_member_fails attr_tableOk s h
theorem C18_enumItem_nonmember (s : Bytes) (h : ∀ i, i < Enum.table.nNames → toStr Enum.table i ≠ s) :
    fromBytes hashParams Enum.table s = none := non_member_fails enum_tableOk s h

/-! #### the discriminants declared in the enum are exactly `0 .. nNames-1` -/
theorem C18_elementName_discriminants_cover :
    Elem.discriminants.flatten.length = Elem.table.nNames ∧ ∀ i, i < Elem.table.nNames → i ∈ Elem.discriminants.flatten :=
  isRange_sound _ _ Elem.discriminants_perm
theorem C18_attributeName_discriminants_cover :
    Attr.discriminants.flatten.length = Attr.table.nNames ∧ ∀ i, i < Attr.table.nNames → i ∈ Attr.discriminants.flatten :=
  isRange_sound _ _ Attr.discriminants_perm
theorem C18_enumItem_discriminants_cover :
    Enum.discriminants.flatten.length = Enum.table.nNames ∧ ∀ i, i < Enum.table.nNames → i ∈ Enum.discriminants.flatten :=
  isRange_sound _ _ Enum.discriminants_perm

/-! #### schema versions: value ↔ bit ↔ schema file name (tables regenerated from autosarversion.rs) -/
theorem C18_version_value_is_bit (v : Nat) (hv : v ∈ versionTable.values) : ∃ k, k < 32 ∧ v = 2 ^ k :=
  VersionTable.value_is_bit versionTable_ok v hv
theorem C18_version_values_distinct : versionTable.values.Nodup :=
  VersionTable.values_nodup versionTable_ok
theorem C18_version_filename_roundtrip (v : Nat) (hv : v ∈ versionTable.values) :
    ∃ s, versionTable.fileNameOf v = some s ∧ versionTable.parse s = some v :=
  VersionTable.filename_roundtrip versionTable_ok v hv
theorem C18_version_parse_exact (s : List Nat) (v : Nat) (hp : versionTable.parse s = some v) :
    v ∈ versionTable.values ∧ versionTable.fileNameOf v = some s :=
  VersionTable.parse_exact versionTable_ok s v hp
theorem C18_version_from_number_exact :
    (∀ v ∈ versionTable.values, versionTable.ofU64 v = some v) ∧
    (∀ n v, versionTable.ofU64 n = some v → n = v ∧ v ∈ versionTable.values) :=
  VersionTable.ofU64_exact versionTable_ok

/-! #### listed ⇒ found, for every element type and version (generic in the specification,
instantiated with the regenerated tables; `realSpec_rangesOk` / `realSpec_depthOk` are the
regenerated well-formedness obligations of those tables) -/
theorem C18_sub_element_listed_found (t nm : Nat) (e : ETy) (m : Nat) (idx : List Nat) (v : Nat)
    (hl : (nm, e, m, idx) ∈ realSpec.listSub t) (hv : (v &&& m) ≠ 0) :
    ∃ e' idx' m', realSpec.findSub t nm v = some (e', idx') ∧ (nm, e', m', idx') ∈ realSpec.listSub t ∧
      realSpec.subMaskAt t idx' = some m' ∧ (v &&& m') ≠ 0 :=
  Spec.listed_found realSpec t nm e m idx v hl hv
theorem C18_attribute_listed_found (t nm cd : Nat) (rq : Bool) (m : Nat)
    (hl : (nm, cd, rq, m) ∈ realSpec.listAttrs t) :
    ∃ cd' rq' m', realSpec.findAttr t nm = some (cd', rq', m') ∧ (nm, cd', rq', m') ∈ realSpec.listAttrs t :=
  Spec.attr_listed_found realSpec t nm cd rq m hl
theorem C18_dest_value_accepted (r t d : Nat) (h : realSpec.refDestValue r t = some d) :
    realSpec.verifyDest t d = true ∧
    ∃ cd rq m items, realSpec.findAttr r realSpec.atDest = some (cd, rq, m) ∧ realSpec.cspec cd = .enum items ∧
      (items.any fun it => it.1 == d) = true :=
  Spec.dest_ok realSpec r t d h
theorem C18_spec_tables_wellformed :
    SpecData.packed.rangesOk = true ∧ SpecData.packed.allDepthOk = true :=
  ⟨realSpec_rangesOk, realSpec_depthOk⟩

/-! #### non-vacuity: the tables are inhabited and the functions compute -/
example : 0 < Elem.table.nNames ∧ 0 < Attr.table.nNames ∧ 0 < Enum.table.nNames := by decide
-- "DEST" is attribute 6 (see `STRING_TABLE`), found and printed back:
example : fromBytes hashParams Attr.table [68, 69, 83, 84] = some 6 := by decide +kernel
example : fromBytes hashParams Attr.table [68, 69, 83, 85] = none := by decide +kernel

-- the version table is inhabited and 0x100000 (Autosar_00053) maps to its file name and back
example : versionTable.values.length = 21 := by decide
example : (0x100000 : Nat) ∈ versionTable.values := by decide
-- the root type lists sub-elements, so the hypotheses of `C18_sub_element_listed_found` are satisfiable
example : (realSpec.listSub (realSpec.defType realSpec.rootDef)).length > 0 := by decide +kernel

end AV.C18
