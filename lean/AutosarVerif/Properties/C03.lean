/-
C03 — The element hierarchy is always a well-formed tree that all navigation agrees on.

Property text: "In every reachable state the elements reachable from the root form a tree: each
sub-element's parent is the element that lists it, its reported position indexes it in that parent,
it belongs to the model, and the depth-first iterators … enumerate exactly this tree in document
order. Through a handle to an element that is no longer part of the tree, every request that depends
on the element's place in the model … fails with an error, and no call through such a handle can
change the live model."

Model: `Model/World.lean`. Content lists hold sub-nodes structurally (a tree by construction) and every
node carries, redundantly, the `parent` field the Rust code keeps (`ElementRaw.parent`); `Items.wf` says
the two agree everywhere.
Proved (for all trees / worlds, no size bound):
* the primitive edits keep `Items.wf`: `C03_insert_keeps_wf`, `C03_remove_keeps_wf`, `C03_modify_keeps_wf`;
* navigation from the root (`chain`, used for `parent`, `path`, `position`, `model`) sees exactly the
  structural ancestors and ends at the requested node: `C03_navigation_agrees`, `C03_chain_ends_at_target`;
* operation level: every core operation keeps `World.wf` (`Lemmas/WfOps.lean`), and therefore —
  `C03_every_reachable_state_is_a_tree` — in EVERY state reachable from the empty world by ANY history of the core operations
  (new model, create_file, create / create_named (with position), remove, set / remove character data, set / set-string /
  remove attribute, comment, insert / remove text item, add_to_file, remove_from_file, remove_file, set_version; the driver
  answers these requests with the very step function the theorem is about, `Model/Step.lean`) the parent fields agree with
  the structure in every model.
* no element occurs twice (`C03_no_element_shared_reachable`): in every state reachable by a guarded history of the core
  operations (the guards of C04, `OpOk`) the element ids of each model are pairwise different and below the next id to be
  issued — the model's form of "each sub-element has ONE parent that lists it".
Partial: rename, move, copy, sort, set_reference_target and loading are not in the core set (their effect on the tree is
compared with the library after every request: the dump includes every parent field); the iterators and the behaviour
through stale handles are decided by the direct oracle on the real library (parent / position / iterators / stale-handle
probes after every request).
-/
import AutosarVerif.Lemmas.WorldOps
import AutosarVerif.Lemmas.Reachable
import AutosarVerif.Lemmas.IndexReach
import AutosarVerif.Lemmas.StepX
import AutosarVerif.Lemmas.Iter
import AutosarVerif.Lemmas.MoveOp
import AutosarVerif.Lemmas.LoadMerge
import AutosarVerif.Lemmas.StepLM
import AutosarVerif.Lemmas.MergeKeepsWitness

namespace AV.C03
open AV.W AV.W.Items

theorem C03_insert_keeps_wf (new : Items → Items) (exp : PRef) (hnew : ∀ r, r.wf exp → (new r).wf exp)
    (its : Items) (pos : Nat) (h : its.wf exp) : (its.insertAt new pos).wf exp := insertAt_wf new exp hnew its pos h

theorem C03_remove_keeps_wf (exp : PRef) (its : Items) (pos : Nat) (h : its.wf exp) : (its.removeAt pos).wf exp :=
  removeAt_wf exp its pos h

theorem C03_modify_keeps_wf (t : Nat) (f : Hdr → Items → Hdr × Items)
    (hf : ∀ h k, h.id = t → (f h k).1.id = h.id ∧ (f h k).1.parent = h.parent ∧ (k.wf (.elem h.id) → (f h k).2.wf (.elem h.id)))
    (its : Items) (exp : PRef) (h : its.wf exp) : (its.modify t f).wf exp := modify_wf' t f hf its exp h

/-- each node on the way from the root to an element names the node before it as its parent -/
theorem C03_navigation_agrees (t : Nat) (its : Items) (exp : PRef) (h : its.wf exp) (c : List (Hdr × Items))
    (hc : its.chain t = some c) : chainOk exp c := chain_ok t its exp h c hc

theorem C03_chain_ends_at_target (t : Nat) (its : Items) (c : List (Hdr × Items)) (hc : its.chain t = some c) :
    ∃ h k, c.getLast? = some (h, k) ∧ h.id = t := chain_last t its c hc

theorem C03_op_insert_text (S : Spec) (w : World) (x pos : Nat) (s : Bytes) (hw : w.wf) : (opInsText S w x pos s).1.wf :=
  opInsText_wf S w x pos s hw
theorem C03_op_remove_text (S : Spec) (w : World) (x pos : Nat) (hw : w.wf) : (opRmText S w x pos).1.wf :=
  opRmText_wf S w x pos hw
theorem C03_op_comment (w : World) (x : Nat) (cm : Option Bytes) (hw : w.wf) : (opComment w x cm).1.wf :=
  opComment_wf w x cm hw

/-! non-vacuity: a two-level tree with correct parent fields satisfies `wf`, one with a wrong field does not -/
def hdr (id : Nat) (p : PRef) : Hdr := { id := id, name := 0, ety := ⟨0, 0⟩, parent := p, attrs := [], files := [], comment := none }
example : (Items.elem (hdr 1 (.elem 0)) (.elem (hdr 2 (.elem 1)) .nil .nil) .nil).wf (.elem 0) := by simp [Items.wf, hdr]
example : ¬ (Items.elem (hdr 1 (.elem 0)) (.elem (hdr 2 (.elem 7)) .nil .nil) .nil).wf (.elem 0) := by simp [Items.wf, hdr]

/-- invariant by induction over operations: every reachable state of the core operations is a well-formed tree -/
theorem C03_every_reachable_state_is_a_tree (S : Spec) (V : Env) (rootAttrs : List (Nat × CDv)) (ops : List Op) :
    (run S V rootAttrs ops).wf := (run_inv S V rootAttrs ops).1

theorem C03_core_step_keeps_tree (S : Spec) (V : Env) (rootAttrs : List (Nat × CDv)) (w : World) (op : Op) (h : Inv w) :
    Inv (applyOp S V rootAttrs w op).1 := applyOp_inv S V rootAttrs w op h

/-- … and for the LARGER alphabet (`OpX`: + `set_item_name`, `set_reference_target`, `sort`): every state reachable by a guarded history
is a well-formed tree; without `set_reference_target` no guard is needed -/
theorem C03_every_reachable_state_is_a_tree_larger_alphabet (S : Spec) (V : Env) (vOk : Nat) (rootAttrs : List (Nat × CDv))
    (hH : IdxHyp S V vOk) (hR : RefWF S) (hv32 : vOk &&& 0xFFFFFFFF = vOk) (ops : List OpX)
    (hops : ∀ op ∈ ops, OpXOk S vOk op) : (runX S V rootAttrs ops).wf :=
  (runX_inv S V vOk rootAttrs hH hR hv32 ops hops).1
theorem C03_every_reachable_state_is_a_tree_renames_and_sorts (S : Spec) (V : Env) (rootAttrs : List (Nat × CDv)) (ops : List OpX)
    (hops : ∀ op ∈ ops, op.noSetRef) : (runX S V rootAttrs ops).wf := (runX_inv_noSetRef S V rootAttrs ops hops).1

/-! ### the depth-first iterators enumerate exactly this tree in document order

`Model/Iter.lean` models `ElementsDfsIterator` (explicit stack of elements and of content positions, `next`, `next_sibling`),
`ArxmlFileElementsDfsIterator` and `ElementsIterator` as the state machines of `iterators.rs`; the driver answers the requests
`dfs`, `dfsf`, `subs` with them and the answers are compared with the library on every run. -/

/-- element-scoped iteration with depth limit `max` (0 = none) = the recursive preorder that descends while `max = 0 ∨ max > depth`;
the loop fuel of the model is never exhausted and the position stack is never indexed out of range -/
theorem C03_dfs_iterator_is_preorder (e : Hdr × Items) (max : Nat) : dfsAll e max = preDElem max 0 e := dfsAll_eq e max
theorem C03_dfs_iterator_lists_the_tree (h : Hdr) (k : Items) : (dfsAll (h, k) 0).map (·.2) = (Items.elem h k .nil).ids :=
  dfsAll_ids h k
theorem C03_dfs_iterator_with_limit (h : Hdr) (k : Items) (max : Nat) : dfsAll (h, k) max =
    (((Items.elem h k .nil).preorder 0).filter (fun x => decide (max = 0 ∨ x.1 ≤ max))).map (fun x => (x.1, x.2.1.id)) :=
  dfsAll_limit h k max
theorem C03_dfs_iterator_never_out_of_range {it : DfsIt} (hg : DfsGood it) : it.step ≠ .oob := hg.step_ne_oob
/-- file-scoped iteration = preorder of the view of the file (the elements whose effective file set contains the file) -/
theorem C03_file_iterator_lists_the_view (m : Model) (f max : Nat) (hf : f ∈ m.rootHdr.files) :
    dfsFileAll f (m.rootHdr, m.rootKids) max = preD max 0 (m.view f) := dfsFileAll_model_eq m f max hf
theorem C03_file_iterator_membership (m : Model) (f t : Nat) (c : List (Hdr × Items)) (hf : f ∈ m.rootHdr.files) (hm : m.filesOk)
    (hn : m.rootItems.ids.Nodup) (hc : m.rootItems.chain t = some c) :
    t ∈ (dfsFileAll f (m.rootHdr, m.rootKids) 0).map (·.2) ↔ f ∈ effective c := mem_dfsFileAll_iff m f t c hf hm hn hc
/-- `sub_elements()` lists the child elements in order (ids pairwise different, as in every reachable state) -/
theorem C03_sub_elements_iterator (kids : Items) (h : kids.ids.Nodup) : subsAll kids = kids.childElems.map (·.1.id) :=
  subsAll_eq_of_nodup kids h
/-- … and the hypothesis is needed: of two child elements with the same id the second is passed over -/
theorem C03_sub_elements_iterator_needs_distinct_ids :
    subsAll (.elem (IterEx.hdr 1 []) .nil (.text (.str []) (.elem (IterEx.hdr 1 []) .nil (.elem (IterEx.hdr 2 []) .nil .nil)))) = [1, 2] :=
  IterEx.subsAll_adjacent_dup

/-- in every reachable state of a guarded history no element is shared: ids are pairwise different in every model -/
theorem C03_no_element_shared_reachable (S : Spec) (V : Env) (vOk : Nat) (rootAttrs : List (Nat × CDv)) (hH : IdxHyp S V vOk)
    (ops : List Op) (hops : ∀ op ∈ ops, OpOk S vOk op) :
    ∀ m ∈ (run S V rootAttrs ops).models, m.rootItems.ids.Nodup ∧
      (m.rootIssued = true → ∀ i ∈ m.rootItems.ids, i < (run S V rootAttrs ops).nextId) := by
  intro m hm
  have h := run_winv S V vOk rootAttrs hH ops hops m hm
  exact ⟨h.ids, h.bound⟩


/-! ### added in the third session: statements proved in the lemma files, restated here by name
(`type_of%` keeps the statement identical to the lemma; the signature is quoted in the comment) -/

/-- `move_element_here` inside one model keeps the forest well-formed (also on its one partial-failure branch)
`theorem opMove_wf (w : World) (p x : Nat) (pos? : Option Nat) (hw : w.wf) : (opMove S V w p x pos?).1.wf` -/
theorem C03_move_keeps_tree : type_of% @AV.W.opMove_wf := @AV.W.opMove_wf


/-! ### added at the end of the third session (proof pack LM): restated by name
(`type_of%` keeps the statement identical to the lemma; the signature is quoted in the comment) -/

/-- **merging loads**: the content `merge_element` returns - also when it stops with an error - is a well-formed forest below the model's element
`theorem mergeElement_wf (fver : Nat → Option Nat) (newFile minVerB : Nat) (fuel : Nat) : ∀ (ha : Hdr) (ka : Items) (files : List Nat) (kb : Items) (expB : PRef), ka.wf (.elem ha.id) → kb.wf expB → (mergeElement S V fver newFile minVerB fuel ha ka files kb).1.wf (.elem ha.id)` -/
theorem C03_merge_keeps_the_forest_well_formed : type_of% @AV.W.mergeElement_wf := @AV.W.mergeElement_wf

/-- `theorem renumItems_nodup (hn : root1.ids.Nodup) : (renumItems base (newIds base root1) root1).ids.Nodup` -/
theorem C03_renumbering_keeps_ids_unique : type_of% @AV.W.renumItems_nodup := @AV.W.renumItems_nodup

/-- an accepted load into a model that already has files keeps `Inv` (tree well-formed, ids unique, file-set invariant)
`theorem opLoad_merge_inv (w : World) (k : Nat) (m : Model) (name : Bytes) (strict : Bool) (buf : Bytes) (hm : w.models[k]? = some m) (hne : m.files.isEmpty = false) (hn : m.rootKids.ids.Nodup) (hi : Inv w) : Inv (opLoad S V nmAutosar w k name strict buf).1` -/
theorem C03_merging_load_keeps_tree_and_file_sets : type_of% @AV.W.opLoad_merge_inv := @AV.W.opLoad_merge_inv

/-- **fifth alphabet** `ReachLM` (`Lemmas/StepLM.lean`): histories of `ReachL` (core operations, rename, sort, set_reference_target, move, copy, first loads) continued by core operations, rename, sort, set_reference_target and MERGING loads: the tree is well-formed, ids unique, file sets consistent in every reachable state
`theorem reachLM_inv (hH : IdxHyp S V vOk) (hR : RefWF S) (hv32 : vOk &&& 0xFFFFFFFF = vOk) (hroot : nmAutosar ≠ S.nmShortName) (hNoSub : ∀ t, S.isRef t = true → S.subCount t = 0) {w : World} (h : ReachLM S V vOk rootAttrs nmAutosar w) : Inv w` -/
theorem C03_invariant_with_merging_loads : type_of% @AV.W.reachLM_inv := @AV.W.reachLM_inv


/-! ### added at the end of the third session (proof pack LM3): restated by name
(`type_of%` keeps the statement identical to the lemma; the signature is quoted in the comment) -/

/-- **negation witness = known finding c03:merge-into-twin-siblings-shares-subtree**: two siblings of one name and item name in the model, the new file holds the partner at another position: `merge_element` answers without error and the id of the partner's child occurs twice in the result
`theorem shared : res.2 = none ∧ res.1.ids = [1, 2, 15, 3, 4, 15, 11, 12] ∧ ¬ res.1.ids.Nodup` -/
theorem C03_witness_merge_into_twin_siblings : type_of% @AV.W.LM3.Twin.shared := @AV.W.LM3.Twin.shared

end AV.C03
