/-
C03 — The element hierarchy is always a well-formed tree that all navigation agrees on.

Property text: "In every reachable state the elements reachable from the root form a tree: each
sub-element's parent is the element that lists it, its reported position indexes it in that parent,
it belongs to the model, and the depth-first iterators … enumerate exactly this tree in document
order. Through a handle to an element that is no longer part of the tree, every request that depends
on the element's place in the model … fails with an error, and no call through such a handle can
change the live model."

Model: `Model/World.lean`. Content lists hold sub-nodes structurally (a tree by construction) and every
node carries, redundantly, the `parent` field the Rust code keeps (`ElementRaw.parent`); `Items.wf` says
the two agree everywhere.
Proved (for all trees / worlds, no size bound):
* the primitive edits keep `Items.wf`: `C03_insert_keeps_wf`, `C03_remove_keeps_wf`, `C03_modify_keeps_wf`;
* navigation from the root (`chain`, used for `parent`, `path`, `position`, `model`) sees exactly the
  structural ancestors and ends at the requested node: `C03_navigation_agrees`, `C03_chain_ends_at_target`;
* operation level: every core operation keeps `World.wf` (`Lemmas/WfOps.lean`), and therefore —
  `C03_every_reachable_state_is_a_tree` — in EVERY state reachable from the empty world by ANY history of the core operations
  (new model, create_file, create / create_named (with position), remove, set / remove character data, set / set-string /
  remove attribute, comment, insert / remove text item, add_to_file, remove_from_file, remove_file, set_version; the driver
  answers these requests with the very step function the theorem is about, `Model/Step.lean`) the parent fields agree with
  the structure in every model.
* no element occurs twice (`C03_no_element_shared_reachable`): in every state reachable by a guarded history of the core
  operations (the guards of C04, `OpOk`) the element ids of each model are pairwise different and below the next id to be
  issued — the model's form of "each sub-element has ONE parent that lists it".
Partial: rename, move, copy, sort, set_reference_target and loading are not in the core set (their effect on the tree is
compared with the library after every request: the dump includes every parent field); the iterators and the behaviour
through stale handles are decided by the direct oracle on the real library (parent / position / iterators / stale-handle
probes after every request).
-/
import AutosarVerif.Lemmas.WorldOps
import AutosarVerif.Lemmas.Reachable
import AutosarVerif.Lemmas.IndexReach

namespace AV.C03
open AV.W AV.W.Items

theorem C03_insert_keeps_wf (new : Items → Items) (exp : PRef) (hnew : ∀ r, r.wf exp → (new r).wf exp)
    (its : Items) (pos : Nat) (h : its.wf exp) : (its.insertAt new pos).wf exp := insertAt_wf new exp hnew its pos h

theorem C03_remove_keeps_wf (exp : PRef) (its : Items) (pos : Nat) (h : its.wf exp) : (its.removeAt pos).wf exp :=
  removeAt_wf exp its pos h

theorem C03_modify_keeps_wf (t : Nat) (f : Hdr → Items → Hdr × Items)
    (hf : ∀ h k, h.id = t → (f h k).1.id = h.id ∧ (f h k).1.parent = h.parent ∧ (k.wf (.elem h.id) → (f h k).2.wf (.elem h.id)))
    (its : Items) (exp : PRef) (h : its.wf exp) : (its.modify t f).wf exp := modify_wf' t f hf its exp h

/-- each node on the way from the root to an element names the node before it as its parent -/
theorem C03_navigation_agrees (t : Nat) (its : Items) (exp : PRef) (h : its.wf exp) (c : List (Hdr × Items))
    (hc : its.chain t = some c) : chainOk exp c := chain_ok t its exp h c hc

theorem C03_chain_ends_at_target (t : Nat) (its : Items) (c : List (Hdr × Items)) (hc : its.chain t = some c) :
    ∃ h k, c.getLast? = some (h, k) ∧ h.id = t := chain_last t its c hc

theorem C03_op_insert_text (S : Spec) (w : World) (x pos : Nat) (s : Bytes) (hw : w.wf) : (opInsText S w x pos s).1.wf :=
  opInsText_wf S w x pos s hw
theorem C03_op_remove_text (S : Spec) (w : World) (x pos : Nat) (hw : w.wf) : (opRmText S w x pos).1.wf :=
  opRmText_wf S w x pos hw
theorem C03_op_comment (w : World) (x : Nat) (cm : Option Bytes) (hw : w.wf) : (opComment w x cm).1.wf :=
  opComment_wf w x cm hw

/-! non-vacuity: a two-level tree with correct parent fields satisfies `wf`, one with a wrong field does not -/
def hdr (id : Nat) (p : PRef) : Hdr := { id := id, name := 0, ety := ⟨0, 0⟩, parent := p, attrs := [], files := [], comment := none }
example : (Items.elem (hdr 1 (.elem 0)) (.elem (hdr 2 (.elem 1)) .nil .nil) .nil).wf (.elem 0) := by simp [Items.wf, hdr]
example : ¬ (Items.elem (hdr 1 (.elem 0)) (.elem (hdr 2 (.elem 7)) .nil .nil) .nil).wf (.elem 0) := by simp [Items.wf, hdr]

/-- invariant by induction over operations: every reachable state of the core operations is a well-formed tree -/
theorem C03_every_reachable_state_is_a_tree (S : Spec) (V : Env) (rootAttrs : List (Nat × CDv)) (ops : List Op) :
    (run S V rootAttrs ops).wf := (run_inv S V rootAttrs ops).1

theorem C03_core_step_keeps_tree (S : Spec) (V : Env) (rootAttrs : List (Nat × CDv)) (w : World) (op : Op) (h : Inv w) :
    Inv (applyOp S V rootAttrs w op).1 := applyOp_inv S V rootAttrs w op h

/-- in every reachable state of a guarded history no element is shared: ids are pairwise different in every model -/
theorem C03_no_element_shared_reachable (S : Spec) (V : Env) (vOk : Nat) (rootAttrs : List (Nat × CDv)) (hH : IdxHyp S V vOk)
    (ops : List Op) (hops : ∀ op ∈ ops, OpOk S vOk op) :
    ∀ m ∈ (run S V rootAttrs ops).models, m.rootItems.ids.Nodup ∧
      (m.rootIssued = true → ∀ i ∈ m.rootItems.ids, i < (run S V rootAttrs ops).nextId) := by
  intro m hm
  have h := run_winv S V vOk rootAttrs hH ops hops m hm
  exact ⟨h.ids, h.bound⟩

end AV.C03
