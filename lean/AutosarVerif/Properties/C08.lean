/-
C08 — Strict and lenient validation agree, and strict validation has no holes.

Property text: "For every input, strict loading succeeds exactly when lenient loading succeeds without
warnings, and then both produce the same model; when lenient loading returns warnings, strict loading
fails with an error equal to the first warning, and an input that lenient loading rejects is rejected by
strict loading as well. A document that violates a constraint the validator documents … is never accepted
by strict loading."

Model fact used: in `parser.rs` the flag `strict` is read at exactly one place, `optional_error`
(strict → `Err(e)`; lenient → push `e` to the warnings and continue). `Model/ParserMonad.lean` is the
computation type with exactly that primitive (`optErr`), hard errors (`hardErr`) and sequencing (`bind'`).
Proved for ALL computations built from these combinators (`Lemmas/ParserMonad.lean`):
* `C08_lockstep_compositional`: lock-step (`Lock`) is preserved by sequencing, and holds of the primitives;
  by `C08_rules` lock-step is exactly the three agreement rules of the property;
* instantiated for the value layer as it is written in `parser.rs` (`parse_character_data` for strings and
  numbers with `unescape_string`): `C08_value_layer_lockstep`, for all input byte strings and all value specs
  — e.g. an over-long value, a malformed entity, a non-number are warnings in lenient mode and THE error of
  strict mode.
* `C08_whole_parser_lockstep`: the WHOLE parser as modelled in `Model/Parser.lean` (`parse_arxml` with the file header,
  `parse_element` with the sub-element lookup, version, choice, multiplicity and SHORT-NAME checks, `parse_attribute_text`,
  `parse_character_data` for all five value kinds) is lock-step; `C08_whole_parser_rules` spells the three rules out for
  `runParser`: a lenient run without warnings is IDENTICAL to the strict run (same tree, same state), and if the lenient
  run has warnings the strict run fails with exactly the first of them.  The model is tied to `parser.rs` by the `load`
  requests of the correspondence run (tree, index, references, kind and line of every warning and error).
Partial: "an input that lenient loading rejects is rejected by strict loading" follows from the above for the model; the
"no holes" list (a document that violates a documented constraint is never accepted by strict loading) is checked on the
real library by the document scenario (valid documents with injected defects of every documented class, both modes).
-/
import AutosarVerif.Lemmas.ParserMonad
import AutosarVerif.Lemmas.Parser
import AutosarVerif.Model.ToyEnv
import AutosarVerif.Lemmas.ParseSound
import AutosarVerif.Lemmas.ParseSoundEx

namespace AV.C08
open AV.PM

theorem C08_lockstep_compositional {α β : Type} {m : P α} {k : α → P β} (hm : Lock m) (hmono : Mono m)
    (hk : ∀ a, Lock (k a)) (hkmono : ∀ a, Mono (k a)) : Lock (bind' m k) := Lock_bind hm hmono hk hkmono

theorem C08_primitives : (∀ k, Lock (optErr k)) ∧ (∀ (α : Type) (k : Nat), Lock (hardErr k : P α)) ∧
    (∀ (α : Type) (a : α), Lock (pure' a)) :=
  ⟨Lock_optErr, fun _ k => Lock_hard k, fun _ a => Lock_pure a⟩

/-- lock-step = the agreement rules: no warning ⇒ strict identical to lenient; warnings ⇒ strict fails with the first one -/
theorem C08_rules {α : Type} (m : P α) (hm : Lock m) (s : PState) (hs : s.warnings = []) :
    ((m false s).2.warnings = [] → m true s = m false s) ∧
    (∀ w ws, (m false s).2.warnings = w :: ws → (m true s).1 = .error w) := lock_rules m hm s hs

theorem C08_value_layer_lockstep (input : Bytes) (spec : CSpec) : Lock (parseCharData input spec) :=
  parseCharData_lock input spec

theorem C08_unescape_lockstep (fuel : Nat) (s : Bytes) : Lock (unescapeP fuel s) := (unescapeP_props fuel s).1

theorem C08_whole_parser_lockstep (S : Spec) (V : W.Env) (fuel nmAutosar : Nat) : Lock (parseArxml S V fuel nmAutosar) :=
  (LM_parseArxml S V fuel nmAutosar).1

/-- the agreement rules for a whole document -/
theorem C08_whole_parser_rules (S : Spec) (V : W.Env) (buf : Bytes) (firstId nmAutosar : Nat) :
    ((runParser S V false buf firstId nmAutosar).2.warnings = [] →
      runParser S V true buf firstId nmAutosar = runParser S V false buf firstId nmAutosar) ∧
    (∀ w ws, (runParser S V false buf firstId nmAutosar).2.warnings = w :: ws →
      (runParser S V true buf firstId nmAutosar).1 = .error w) :=
  lock_rules _ (LM_parseArxml S V _ nmAutosar).1 _ rfl

/-! non-vacuity: "a&bogus;" as a string value: lenient continues with one warning, strict fails with it -/
def bogus : Bytes := [97, 38, 98, 111, 103, 117, 115, 59]
example : ((parseCharData bogus (.string false none)) false { warnings := [], line := 3 }).2.warnings = [⟨kInvalidXmlEntity, 3⟩] := by decide
example : (match ((parseCharData bogus (.string false none)) true { warnings := [], line := 3 }).1 with
    | .error e => decide (e = ⟨kInvalidXmlEntity, 3⟩) | .ok _ => false) = true := by decide
example : (match ((parseCharData [49, 50] .uint) true { warnings := [], line := 1 }).1 with
    | .ok v => decide (v = .uint 12) | .error _ => false) = true := by decide

end AV.C08

namespace AV.C08
open AV.PM AV.W

/-! non-vacuity for the element level (toy specification and names, `Model/ToyEnv.lean`): the content of the root <R> of a
V2 file, in which the element <A>, its attribute T and the enumeration item "seven" exist in V1 only -/
/-- `<A T="x">seven</A><B>hi</B></R>` -/
def toyBody : Bytes := [60, 65, 32, 84, 61, 34, 120, 34, 62, 115, 101, 118, 101, 110, 60, 47, 65, 62, 60, 66, 62, 104, 105, 60, 47, 66, 62, 60, 47, 82, 62]
def rootHdr : Hdr := { id := 0, name := 100, ety := ⟨0, 0⟩, parent := .none, attrs := [], files := [], comment := none }
def st0 : PState := { warnings := [], line := 1, lx := ⟨toyBody, 1, none⟩, ver := 2, nextId := 1 }

-- lenient: three warnings (element, attribute, enumeration item not in this version), all on line 1
example : ((pLoop toySpec toyEnv 40 rootHdr {} false st0).2.warnings.map fun e => (e.kind, e.line)) =
    [(kElementVersionError, 1), (kAttributeVersionError, 1), (kEnumItemVersionError, 1)] := by decide +kernel
-- strict: fails with exactly the first of them
example : (match (pLoop toySpec toyEnv 40 rootHdr {} true st0).1 with
    | .error e => decide (e = ⟨kElementVersionError, 1⟩) | .ok _ => false) = true := by decide +kernel
-- the content built by the lenient run: A(e1) = "seven" and B(e2) = "hi"
example : (match (pLoop toySpec toyEnv 40 rootHdr {} false st0).1 with
    | .ok k => decide (k.ids = [1, 2]) | .error _ => false) = true := by decide +kernel


/-! ### added in the third session: statements proved in the lemma files, restated here by name
(`type_of%` keeps the statement identical to the lemma; the signature is quoted in the comment) -/

/-- **strict validation has no holes (model level)**: if STRICT loading accepts a buffer, the tree it returns is valid in the file's version (`TreeValid`, stated on the tree alone): every element is found by the version's lookup in its parent's type with the recorded type, no two adjacent alternatives of an exclusive choice, no repeated single-occurrence element, SHORT-NAME present where the type is named in the version, every attribute known to the type, allowed in the version, with a value the specification accepts (length, pattern, enumeration item in the version, number), required attributes present, character data accepted by the specification; and the buffer was read completely
`theorem runParser_sound (buf : Bytes) (nid nmAutosar : Nat) (h : Hdr) (k : Items) (st : PState) (hr : runParser S V true buf nid nmAutosar = (.ok (h, k), st)) : TreeValid S V nmAutosar st.ver h k ∧ st.lx.rest = [] ∧ st.lx.deferred = none` -/
theorem C08_strict_acceptance_implies_validity : type_of% @AV.ParseSound.runParser_sound := @AV.ParseSound.runParser_sound

/-- `theorem runParser_sound_lenient (buf : Bytes) (nid nmAutosar : Nat) (h : Hdr) (k : Items) (st : PState) (hr : runParser S V false buf nid nmAutosar = (.ok (h, k), st)) (hw : st.warnings = []) : TreeValid S V nmAutosar st.ver h k ∧ st.lx.rest = [] ∧ st.lx.deferred = none` -/
theorem C08_lenient_without_warnings_implies_validity : type_of% @AV.ParseSound.runParser_sound_lenient := @AV.ParseSound.runParser_sound_lenient

/-- `theorem accepted_elements_known (h' : Hdr) (k' : Items) (hn : Node (.elem h k .nil) h' k') : ∀ c ∈ childs k', ∃ idx, S.findSub h'.ety.typ c.name st.ver = some (c.ety, idx)` -/
theorem C08_accepted_elements_known_in_version : type_of% @AV.ParseSound.accepted_elements_known := @AV.ParseSound.accepted_elements_known

/-- `theorem accepted_no_choice_conflict (h' : Hdr) (k' : Items) (hn : Node (.elem h k .nil) h' k') (c1 c2 : Hdr) (ha : Adjacent k' c1 c2) : ∃ i1 i2, S.findSub h'.ety.typ c1.name st.ver = some (c1.ety, i1) ∧ S.findSub h'.ety.typ c2.name st.ver = some (c2.ety, i2) ∧ (i1 = [] ∨ i1 = i2 ∨ S.mode (S.commonGroup h'.ety.typ i1 i2) ≠ .choice)` -/
theorem C08_accepted_no_choice_conflict : type_of% @AV.ParseSound.accepted_no_choice_conflict := @AV.ParseSound.accepted_no_choice_conflict

/-- `theorem accepted_no_repeat (h' : Hdr) (k' : Items) (hn : Node (.elem h k .nil) h' k') (l1 : List Hdr) (c : Hdr) (l2 : List Hdr) (hc : childs k' = l1 ++ c :: l2) (hrep : c.name ∈ l1.map (·.name)) : ∃ idx, S.findSub h'.ety.typ c.name st.ver = some (c.ety, idx) ∧ ∀ md, S.containerMode h'.ety.typ idx = some md → (md = .sequence ∨ md = .choice) → ∀ mu, S.subMult h'.ety.typ idx = some mu → mu = .any` -/
theorem C08_accepted_no_repeated_single_occurrence : type_of% @AV.ParseSound.accepted_no_repeat := @AV.ParseSound.accepted_no_repeat

/-- `theorem accepted_short_name (h' : Hdr) (k' : Items) (hn : Node (.elem h k .nil) h' k') (hnamed : S.isNamedIn h'.ety.typ st.ver = true) : hasSN S k' = true` -/
theorem C08_accepted_short_name_present : type_of% @AV.ParseSound.accepted_short_name := @AV.ParseSound.accepted_short_name

/-- `theorem accepted_attributes (h' : Hdr) (k' : Items) (hn : Node k h' k') : AttrsValid S V st.ver h'.ety.typ h'.attrs` -/
theorem C08_accepted_attributes_valid : type_of% @AV.ParseSound.accepted_attributes := @AV.ParseSound.accepted_attributes

/-- `theorem accepted_values (h' : Hdr) (k' : Items) (hn : Node (.elem h k .nil) h' k') : ∀ c ∈ texts k', ∃ spec, S.chardataSpec h'.ety.typ = some spec ∧ checkValue V c spec st.ver = true` -/
theorem C08_accepted_values_valid : type_of% @AV.ParseSound.accepted_values := @AV.ParseSound.accepted_values

/-- `theorem accepted_no_trailing_data : st.lx.rest = [] ∧ st.lx.deferred = none` -/
theorem C08_accepted_no_data_after_root : type_of% @AV.ParseSound.accepted_no_trailing_data := @AV.ParseSound.accepted_no_trailing_data

end AV.C08
