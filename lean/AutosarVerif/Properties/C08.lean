/-
C08 — Strict and lenient validation agree, and strict validation has no holes.

Property text: "For every input, strict loading succeeds exactly when lenient loading succeeds without
warnings, and then both produce the same model; when lenient loading returns warnings, strict loading
fails with an error equal to the first warning, and an input that lenient loading rejects is rejected by
strict loading as well. A document that violates a constraint the validator documents … is never accepted
by strict loading."

Model fact used: in `parser.rs` the flag `strict` is read at exactly one place, `optional_error`
(strict → `Err(e)`; lenient → push `e` to the warnings and continue). `Model/ParserMonad.lean` is the
computation type with exactly that primitive (`optErr`), hard errors (`hardErr`) and sequencing (`bind'`).
Proved for ALL computations built from these combinators (`Lemmas/ParserMonad.lean`):
* `C08_lockstep_compositional`: lock-step (`Lock`) is preserved by sequencing, and holds of the primitives;
  by `C08_rules` lock-step is exactly the three agreement rules of the property;
* instantiated for the value layer as it is written in `parser.rs` (`parse_character_data` for strings and
  numbers with `unescape_string`): `C08_value_layer_lockstep`, for all input byte strings and all value specs
  — e.g. an over-long value, a malformed entity, a non-number are warnings in lenient mode and THE error of
  strict mode.
* `C08_whole_parser_lockstep`: the WHOLE parser as modelled in `Model/Parser.lean` (`parse_arxml` with the file header,
  `parse_element` with the sub-element lookup, version, choice, multiplicity and SHORT-NAME checks, `parse_attribute_text`,
  `parse_character_data` for all five value kinds) is lock-step; `C08_whole_parser_rules` spells the three rules out for
  `runParser`: a lenient run without warnings is IDENTICAL to the strict run (same tree, same state), and if the lenient
  run has warnings the strict run fails with exactly the first of them.  The model is tied to `parser.rs` by the `load`
  requests of the correspondence run (tree, index, references, kind and line of every warning and error).
Partial: "an input that lenient loading rejects is rejected by strict loading" follows from the above for the model; the
"no holes" list (a document that violates a documented constraint is never accepted by strict loading) is checked on the
real library by the document scenario (valid documents with injected defects of every documented class, both modes).
-/
import AutosarVerif.Lemmas.ParserMonad
import AutosarVerif.Lemmas.Parser
import AutosarVerif.Model.ToyEnv

namespace AV.C08
open AV.PM

theorem C08_lockstep_compositional {α β : Type} {m : P α} {k : α → P β} (hm : Lock m) (hmono : Mono m)
    (hk : ∀ a, Lock (k a)) (hkmono : ∀ a, Mono (k a)) : Lock (bind' m k) := Lock_bind hm hmono hk hkmono

theorem C08_primitives : (∀ k, Lock (optErr k)) ∧ (∀ (α : Type) (k : Nat), Lock (hardErr k : P α)) ∧
    (∀ (α : Type) (a : α), Lock (pure' a)) :=
  ⟨Lock_optErr, fun _ k => Lock_hard k, fun _ a => Lock_pure a⟩

/-- lock-step = the agreement rules: no warning ⇒ strict identical to lenient; warnings ⇒ strict fails with the first one -/
theorem C08_rules {α : Type} (m : P α) (hm : Lock m) (s : PState) (hs : s.warnings = []) :
    ((m false s).2.warnings = [] → m true s = m false s) ∧
    (∀ w ws, (m false s).2.warnings = w :: ws → (m true s).1 = .error w) := lock_rules m hm s hs

theorem C08_value_layer_lockstep (input : Bytes) (spec : CSpec) : Lock (parseCharData input spec) :=
  parseCharData_lock input spec

theorem C08_unescape_lockstep (fuel : Nat) (s : Bytes) : Lock (unescapeP fuel s) := (unescapeP_props fuel s).1

theorem C08_whole_parser_lockstep (S : Spec) (V : W.Env) (fuel nmAutosar : Nat) : Lock (parseArxml S V fuel nmAutosar) :=
  (LM_parseArxml S V fuel nmAutosar).1

/-- the agreement rules for a whole document -/
theorem C08_whole_parser_rules (S : Spec) (V : W.Env) (buf : Bytes) (firstId nmAutosar : Nat) :
    ((runParser S V false buf firstId nmAutosar).2.warnings = [] →
      runParser S V true buf firstId nmAutosar = runParser S V false buf firstId nmAutosar) ∧
    (∀ w ws, (runParser S V false buf firstId nmAutosar).2.warnings = w :: ws →
      (runParser S V true buf firstId nmAutosar).1 = .error w) :=
  lock_rules _ (LM_parseArxml S V _ nmAutosar).1 _ rfl

/-! non-vacuity: "a&bogus;" as a string value: lenient continues with one warning, strict fails with it -/
def bogus : Bytes := [97, 38, 98, 111, 103, 117, 115, 59]
example : ((parseCharData bogus (.string false none)) false { warnings := [], line := 3 }).2.warnings = [⟨kInvalidXmlEntity, 3⟩] := by decide
example : (match ((parseCharData bogus (.string false none)) true { warnings := [], line := 3 }).1 with
    | .error e => decide (e = ⟨kInvalidXmlEntity, 3⟩) | .ok _ => false) = true := by decide
example : (match ((parseCharData [49, 50] .uint) true { warnings := [], line := 1 }).1 with
    | .ok v => decide (v = .uint 12) | .error _ => false) = true := by decide

end AV.C08

namespace AV.C08
open AV.PM AV.W

/-! non-vacuity for the element level (toy specification and names, `Model/ToyEnv.lean`): the content of the root <R> of a
V2 file, in which the element <A>, its attribute T and the enumeration item "seven" exist in V1 only -/
/-- `<A T="x">seven</A><B>hi</B></R>` -/
def toyBody : Bytes := [60, 65, 32, 84, 61, 34, 120, 34, 62, 115, 101, 118, 101, 110, 60, 47, 65, 62, 60, 66, 62, 104, 105, 60, 47, 66, 62, 60, 47, 82, 62]
def rootHdr : Hdr := { id := 0, name := 100, ety := ⟨0, 0⟩, parent := .none, attrs := [], files := [], comment := none }
def st0 : PState := { warnings := [], line := 1, lx := ⟨toyBody, 1, none⟩, ver := 2, nextId := 1 }

-- lenient: three warnings (element, attribute, enumeration item not in this version), all on line 1
example : ((pLoop toySpec toyEnv 40 rootHdr {} false st0).2.warnings.map fun e => (e.kind, e.line)) =
    [(kElementVersionError, 1), (kAttributeVersionError, 1), (kEnumItemVersionError, 1)] := by decide +kernel
-- strict: fails with exactly the first of them
example : (match (pLoop toySpec toyEnv 40 rootHdr {} true st0).1 with
    | .error e => decide (e = ⟨kElementVersionError, 1⟩) | .ok _ => false) = true := by decide +kernel
-- the content built by the lenient run: A(e1) = "seven" and B(e2) = "hi"
example : (match (pLoop toySpec toyEnv 40 rootHdr {} false st0).1 with
    | .ok k => decide (k.ids = [1, 2]) | .error _ => false) = true := by decide +kernel

end AV.C08
