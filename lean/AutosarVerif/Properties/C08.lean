/-
C08 — Strict and lenient validation agree, and strict validation has no holes.

Property text: "For every input, strict loading succeeds exactly when lenient loading succeeds without
warnings, and then both produce the same model; when lenient loading returns warnings, strict loading
fails with an error equal to the first warning, and an input that lenient loading rejects is rejected by
strict loading as well. A document that violates a constraint the validator documents … is never accepted
by strict loading."

Model fact used: in `parser.rs` the flag `strict` is read at exactly one place, `optional_error`
(strict → `Err(e)`; lenient → push `e` to the warnings and continue). `Model/ParserMonad.lean` is the
computation type with exactly that primitive (`optErr`), hard errors (`hardErr`) and sequencing (`bind'`).
Proved for ALL computations built from these combinators (`Lemmas/ParserMonad.lean`):
* `C08_lockstep_compositional`: lock-step (`Lock`) is preserved by sequencing, and holds of the primitives;
  by `C08_rules` lock-step is exactly the three agreement rules of the property;
* instantiated for the value layer as it is written in `parser.rs` (`parse_character_data` for strings and
  numbers with `unescape_string`): `C08_value_layer_lockstep`, for all input byte strings and all value specs
  — e.g. an over-long value, a malformed entity, a non-number are warnings in lenient mode and THE error of
  strict mode.
Partial: the element-level parser (`parse_element`, multiplicity / choice / version checks) is not yet
written in this monad; its agreement and the "no holes" list are checked on the real library by the
document scenario (valid documents with injected defects of every documented class, both modes).
-/
import AutosarVerif.Lemmas.ParserMonad

namespace AV.C08
open AV.PM

theorem C08_lockstep_compositional {α β : Type} {m : P α} {k : α → P β} (hm : Lock m) (hmono : Mono m)
    (hk : ∀ a, Lock (k a)) (hkmono : ∀ a, Mono (k a)) : Lock (bind' m k) := Lock_bind hm hmono hk hkmono

theorem C08_primitives : (∀ k, Lock (optErr k)) ∧ (∀ (α : Type) (k : Nat), Lock (hardErr k : P α)) ∧
    (∀ (α : Type) (a : α), Lock (pure' a)) :=
  ⟨Lock_optErr, fun _ k => Lock_hard k, fun _ a => Lock_pure a⟩

/-- lock-step = the agreement rules: no warning ⇒ strict identical to lenient; warnings ⇒ strict fails with the first one -/
theorem C08_rules {α : Type} (m : P α) (hm : Lock m) (s : PState) (hs : s.warnings = []) :
    ((m false s).2.warnings = [] → m true s = m false s) ∧
    (∀ w ws, (m false s).2.warnings = w :: ws → (m true s).1 = .error w) := lock_rules m hm s hs

theorem C08_value_layer_lockstep (input : Bytes) (spec : CSpec) : Lock (parseCharData input spec) :=
  parseCharData_lock input spec

theorem C08_unescape_lockstep (fuel : Nat) (s : Bytes) : Lock (unescapeP fuel s) := (unescapeP_props fuel s).1

/-! non-vacuity: "a&bogus;" as a string value: lenient continues with one warning, strict fails with it -/
def bogus : Bytes := [97, 38, 98, 111, 103, 117, 115, 59]
example : ((parseCharData bogus (.string false none)) false ⟨[], 3⟩).2.warnings = [⟨kInvalidXmlEntity, 3⟩] := by decide
example : (match ((parseCharData bogus (.string false none)) true ⟨[], 3⟩).1 with
    | .error e => decide (e = ⟨kInvalidXmlEntity, 3⟩) | .ok _ => false) = true := by decide
example : (match ((parseCharData [49, 50] .uint) true ⟨[], 1⟩).1 with
    | .ok v => decide (v = .uint 12) | .error _ => false) = true := by decide

end AV.C08
