/-
C05 — Referrer lists and the invalid-reference report match the model's references.

Property text: "At every point of any history, the live entries of the list of elements referring to a
path are exactly the reference elements currently in the model whose text is that path, each once. The
invalid-reference report contains precisely the references whose target path does not resolve or whose
DEST does not fit the target's type, and a reference is absent from the report exactly when resolving it
returns its target."

Model: `Model.refs` (the `reference_origins` map) with `refsAdd` / `refsRemove` / `refsFix` / `refsGet`
(`add_reference_origin`, `remove_reference_origin`, `fix_reference_origins`, `get_references_to`);
`qCheckRefs` / `refTarget` model `check_references` / `get_reference_target`.
Proved for all map contents: registering a referrer under a path appends exactly that referrer to that
path's list and leaves every other path's list alone; a stored list is what lookup returns (distinct keys).
Partial: the history-wide invariant and the report/resolve equivalence are checked by the correspondence
run (the dump lists every key of the reverse map, hook H1) and by the direct oracle on the real library.
-/
import AutosarVerif.Lemmas.WorldOps

namespace AV.C05
open AV.W

theorem C05_add_registers (rs : List (Bytes × List Nat)) (p : Bytes) (id : Nat) (hn : keysNodup rs) :
    refsGet (refsAdd rs p id) p = refsGet rs p ++ [id] := refsAdd_get_same rs p id hn
theorem C05_add_leaves_others (rs : List (Bytes × List Nat)) (p q : Bytes) (id : Nat) (hq : q ≠ p) :
    refsGet (refsAdd rs p id) q = refsGet rs q := refsAdd_get_other rs p q id hq
theorem C05_lookup_returns_stored (rs : List (Bytes × List Nat)) (p : Bytes) (l : List Nat) (hn : keysNodup rs)
    (h : (p, l) ∈ rs) : refsGet rs p = l := refsGet_of_mem rs p l hn h

/-! non-vacuity -/
example : refsGet (refsAdd [([47, 97], [3])] [47, 97] 5) [47, 97] = [3, 5] := by decide
example : refsGet (refsRemove [([47, 97], [3, 5])] [47, 97] 3) [47, 97] = [5] := by decide
example : refsFix [([47, 97], [3])] [47, 97] [47, 98] 3 = [([47, 98], [3])] := by decide

end AV.C05
