/-
C05 — Referrer lists and the invalid-reference report match the model's references.

Property text: "At every point of any history, the live entries of the list of elements referring to a
path are exactly the reference elements currently in the model whose text is that path, each once. The
invalid-reference report contains precisely the references whose target path does not resolve or whose
DEST does not fit the target's type, and a reference is absent from the report exactly when resolving it
returns its target."

Model: `Model.refs` (the `reference_origins` map) with `refsAdd` / `refsRemove` / `refsFix` / `refsGet`
(`add_reference_origin`, `remove_reference_origin`, `fix_reference_origins`, `get_references_to`);
`qCheckRefs` / `refTarget` model `check_references` / `get_reference_target`.

PROVED — invariant by induction over operations, no bound on the history (`C05_referrers_exact_reachable`): in EVERY state
reachable from the empty world by ANY guarded history (the guards `OpOk` of C04) of the seventeen core operations of
`Model/Step.lean` (incl. set_character_data / remove_character_data on reference elements, removal of subtrees that hold
references, remove_from_file / remove_file), in every model and for every path `p` and element `id`: `id` occurs in the
referrer list of `p` EXACTLY ONCE if `id` is a reference element of the tree whose text is `p`, and NOT AT ALL otherwise; no
key is left with an empty list, keys are pairwise different.  Two auxiliary invariants were forced by the proof and are
proved alongside: a reference element never has child elements (`WRLeaf` — otherwise removing the child would turn a
non-registered element into an unregistered reference), and the root keeps the root type (`WRootTy`).  The specification
enters through `RefWF` (a reference type is plain character data of a string-like kind; SHORT-NAME and root are no
references).
`RefWF` holds of the tables regenerated from the current source (`C05_real_tables`, kernel evaluation: 1145 reference
types); `C05_hypotheses_are_met`: a six-type specification with a reference type meets all hypotheses, and a guarded
history (two references given texts, one re-targeted onto the other's path, one emptied, their container removed) passes
through the maps [] → ["/a"↦[4]] → ["/a"↦[4], "/zz"↦[5]] → ["/a"↦[4,5]] → ["/a"↦[5]] → [].
Also proved for all map contents: the map as a multiset of (path, referrer) pairs under add / remove / fix
(`C05_add_count`, `C05_remove_count`, `C05_fix_count`), and what `set_item_name`'s rewriting loop does to the map as a
whole (`C05_rename_map`: the referrers of `q` afterwards are the referrers of all old keys rewritten to `q`, lists merged —
the repaired defect §9 #5 is exactly the merge).
LARGER ALPHABET (`OpX`: + `set_item_name`, `set_reference_target`, `sort`; `Lemmas/StepX.lean`):
`C05_referrers_exact_reachable_larger_alphabet` — the same statement in every state reachable by any guarded history that also
renames, re-targets and sorts.
SECOND SENTENCE of the property, PROVED over all such histories (`Lemmas/CheckRefs.lean`, `IdsSep.lean`, `IdsSepX.lean`):
`C05_report_is_exact` — the report of `check_references` (the id list `checkRefsIds` that `qCheckRefs` prints) contains precisely
the reference elements of the model that hold a text and whose `get_reference_target` (`refTarget`) fails;
`C05_absent_from_report_iff_resolves`; `C05_report_lists_each_once`; `C05_report_in_words` (… precisely the references whose
path does not resolve to an identifiable element of the model or whose DEST does not fit the target's type);
`C05_resolve_is_sound` (what `get_reference_target` returns is an element of the same model with exactly that path and a type the
DEST fits).  They need that ids of different models are disjoint (`IdsSep`, an invariant of all histories — with the root ids
excepted: an unfiled root has id 0, `C05_unfiled_roots_share_id_0` is the counterexample to the naive statement) and two facts
about the root type, checked on the regenerated tables (`C05_real_root_facts`).
`C05_set_reference_target_resolves`: after a successful `set_reference_target` in any reachable state the reference resolves to the
target (same model; the proposed DEST is accepted by the target type — C18's statement about the tables, here a hypothesis).
Partial (named so): move, copy and loading are outside the proved alphabet; for them the report / resolve equivalence is decided
by the correspondence run (the dump lists every key of the reverse map, hook H1) and by the direct oracle on the real library.
-/
import AutosarVerif.Lemmas.WorldOps
import AutosarVerif.Lemmas.RefsBridge
import AutosarVerif.Lemmas.RenameRefsMap
import AutosarVerif.Lemmas.IndexWitness
import AutosarVerif.Lemmas.RefsWitness
import AutosarVerif.Lemmas.RefWfReal
import AutosarVerif.Lemmas.StepX
import AutosarVerif.Lemmas.IdsSepX
import AutosarVerif.Lemmas.CheckRefsWitness
import AutosarVerif.Lemmas.CheckRefsReal
import AutosarVerif.Lemmas.SetRefWitness
import AutosarVerif.Lemmas.LoadInv

namespace AV.C05
open AV.W

theorem C05_add_registers (rs : List (Bytes × List Nat)) (p : Bytes) (id : Nat) (hn : keysNodup rs) :
    refsGet (refsAdd rs p id) p = refsGet rs p ++ [id] := refsAdd_get_same rs p id hn
theorem C05_add_leaves_others (rs : List (Bytes × List Nat)) (p q : Bytes) (id : Nat) (hq : q ≠ p) :
    refsGet (refsAdd rs p id) q = refsGet rs q := refsAdd_get_other rs p q id hq
theorem C05_lookup_returns_stored (rs : List (Bytes × List Nat)) (p : Bytes) (l : List Nat) (hn : keysNodup rs)
    (h : (p, l) ∈ rs) : refsGet rs p = l := refsGet_of_mem rs p l hn h

/-- the map as a multiset: `add_reference_origin` -/
theorem C05_add_count (rs : List (Bytes × List Nat)) (p q : Bytes) (id j : Nat) (hn : keysNodup rs) :
    (refsGet (refsAdd rs p id) q).count j = (refsGet rs q).count j + (if q = p ∧ j = id then 1 else 0) :=
  refsAdd_count rs p q id j hn
/-- `remove_reference_origin` drops one occurrence (none, if there is none) -/
theorem C05_remove_count (rs : List (Bytes × List Nat)) (p q : Bytes) (id j : Nat) (hn : keysNodup rs) :
    (refsGet (refsRemove rs p id) q).count j = (refsGet rs q).count j - (if q = p ∧ j = id then 1 else 0) :=
  refsRemove_count rs p q id j hn
/-- `fix_reference_origins(old, new, origin)` -/
theorem C05_fix_count (rs : List (Bytes × List Nat)) (old new q : Bytes) (id j : Nat) (hn : keysNodup rs) :
    (refsGet (refsFix rs old new id) q).count j =
      if old = new then (refsGet rs q).count j
      else (refsGet rs q).count j - (if q = old ∧ j = id then 1 else 0) + (if q = new ∧ j = id then 1 else 0) :=
  refsFix_count rs old new q id j hn

/-- the rewriting loop of `set_item_name` on the map: afterwards the referrers of `q` are the referrers of ALL old keys that
are rewritten to `q` (a list moved onto an existing key is merged with it, nothing is dropped) -/
theorem C05_rename_map (rs : List (Bytes × List Nat)) (root : Items) (old new : Bytes) (hn : keysNodup rs)
    (hne : refsNonempty rs) (hnd : ∀ e ∈ rs, ∀ s, pathSuffix old e.1 = some s → pathSuffix old (new ++ s) = none)
    (q : Bytes) (id : Nat) :
    (refsGet (renameRefs rs root old new).1 q).count id =
      ((rs.filter fun e => rekey old new e.1 == q).map fun e => e.2.count id).sum :=
  renameRefs_count rs root old new hn hne hnd q id

/-! non-vacuity -/
example : refsGet (refsAdd [([47, 97], [3])] [47, 97] 5) [47, 97] = [3, 5] := by decide
example : refsGet (refsRemove [([47, 97], [3, 5])] [47, 97] 3) [47, 97] = [5] := by decide
example : refsFix [([47, 97], [3])] [47, 97] [47, 98] 3 = [([47, 98], [3])] := by decide

/-- one guarded step keeps the combined invariant (index exact, referrer lists exact, references are leaves, root type) -/
theorem C05_core_step (S : Spec) (V : Env) (vOk : Nat) (rootAttrs : List (Nat × CDv)) (hH : IdxHyp S V vOk) (hR : RefWF S)
    (w : World) (op : Op) (hop : OpOk S vOk op) (h : CInv S vOk w) : CInv S vOk (applyOp S V rootAttrs w op).1 :=
  applyOp_cinv S V vOk rootAttrs hH hR w op hop h

/-- **C05 over all histories**: in every reachable state of a guarded history, in every model, `id` is listed as a referrer
of `p` exactly once if it is a reference element of the tree whose text is `p`, and not at all otherwise -/
theorem C05_referrers_exact_reachable (S : Spec) (V : Env) (vOk : Nat) (rootAttrs : List (Nat × CDv)) (hH : IdxHyp S V vOk)
    (hR : RefWF S) (ops : List Op) (hops : ∀ op ∈ ops, OpOk S vOk op) :
    ∀ m ∈ (run S V rootAttrs ops).models,
      keysNodup m.refs ∧ refsNonempty m.refs ∧
      ∀ (p : Bytes) (id : Nat)
        [Decidable (∃ h k, Occ h k m.rootItems ∧ h.id = id ∧ S.isRef h.ety.typ = true ∧ charData S h k = some (.str p))],
        (refsGet m.refs p).count id =
          if ∃ h k, Occ h k m.rootItems ∧ h.id = id ∧ S.isRef h.ety.typ = true ∧ charData S h k = some (.str p) then 1 else 0 := by
  intro m hm
  obtain ⟨hw, hr, _, _⟩ := run_cinv S V vOk rootAttrs hH hR ops hops
  have he := hr m hm
  exact ⟨he.1, he.2.1, fun p id _ => refsExact_count S m.refs m.rootItems (hw m hm).ids he p id⟩

/-- **C05 over all histories of the larger alphabet** -/
theorem C05_referrers_exact_reachable_larger_alphabet (S : Spec) (V : Env) (vOk : Nat) (rootAttrs : List (Nat × CDv))
    (hH : IdxHyp S V vOk) (hR : RefWF S) (hv32 : vOk &&& 0xFFFFFFFF = vOk) (ops : List OpX)
    (hops : ∀ op ∈ ops, OpXOk S vOk op) :
    ∀ m ∈ (runX S V rootAttrs ops).models,
      keysNodup m.refs ∧ refsNonempty m.refs ∧
      ∀ (p : Bytes) (id : Nat)
        [Decidable (∃ h k, Occ h k m.rootItems ∧ h.id = id ∧ S.isRef h.ety.typ = true ∧ charData S h k = some (.str p))],
        (refsGet m.refs p).count id =
          if ∃ h k, Occ h k m.rootItems ∧ h.id = id ∧ S.isRef h.ety.typ = true ∧ charData S h k = some (.str p) then 1 else 0 := by
  intro m hm
  obtain ⟨hw, hr, _, _⟩ := (runX_finv S V vOk rootAttrs hH hR hv32 ops hops).1
  have he := hr m hm
  exact ⟨he.1, he.2.1, fun p id _ => refsExact_count S m.refs m.rootItems (hw m hm).ids he p id⟩

/-- the invalid-reference report is exact, in every state reachable by any guarded history of the larger alphabet -/
theorem C05_report_is_exact (S : Spec) (V : Env) (vOk : Nat) (rootAttrs : List (Nat × CDv)) (hH : IdxHyp S V vOk) (hR : RefWF S)
    (hv32 : vOk &&& 0xFFFFFFFF = vOk) (ops : List OpX) (hops : ∀ op ∈ ops, OpXOk S vOk op) (k : Nat) (m : Model)
    (hm : (runX S V rootAttrs ops).models[k]? = some m) (r : Nat) :
    r ∈ checkRefsIds S V (runX S V rootAttrs ops) k ↔
      (∃ h k0 p, Occ h k0 m.rootItems ∧ h.id = r ∧ S.isRef h.ety.typ = true ∧ charData S h k0 = some (.str p)) ∧
        refTarget S V (runX S V rootAttrs ops) r = none :=
  runX_mem_checkRefsIds S V vOk rootAttrs hH hR hv32 ops hops k m hm r
/-- what the driver prints for `checkrefs` is that list -/
theorem C05_report_is_what_is_printed (S : Spec) (V : Env) (w : World) (k : Nat) :
    qCheckRefs S V w k = match w.models[k]? with
      | none => "bad-op" | some _ => showIds (checkRefsIds S V w k) := qCheckRefs_eq S V w k
theorem C05_absent_from_report_iff_resolves (S : Spec) (V : Env) (vOk : Nat) (rootAttrs : List (Nat × CDv)) (hH : IdxHyp S V vOk)
    (hR : RefWF S) (hv32 : vOk &&& 0xFFFFFFFF = vOk) (ops : List OpX) (hops : ∀ op ∈ ops, OpXOk S vOk op) (k : Nat) (m : Model)
    (hm : (runX S V rootAttrs ops).models[k]? = some m) (h : Hdr) (k0 : Items) (p : Bytes) (ho : Occ h k0 m.rootItems)
    (hr : S.isRef h.ety.typ = true) (hc : charData S h k0 = some (.str p)) :
    h.id ∉ checkRefsIds S V (runX S V rootAttrs ops) k ↔ ∃ t, refTarget S V (runX S V rootAttrs ops) h.id = some t :=
  runX_not_mem_checkRefsIds_iff S V vOk rootAttrs hH hR hv32 ops hops k m hm h k0 p ho hr hc
theorem C05_report_lists_each_once (S : Spec) (V : Env) (vOk : Nat) (rootAttrs : List (Nat × CDv)) (hH : IdxHyp S V vOk)
    (hR : RefWF S) (hv32 : vOk &&& 0xFFFFFFFF = vOk) (ops : List OpX) (hops : ∀ op ∈ ops, OpXOk S vOk op) (k r : Nat) :
    (checkRefsIds S V (runX S V rootAttrs ops) k).count r ≤ 1 :=
  runX_checkRefsIds_count S V vOk rootAttrs hH hR hv32 ops hops k r
theorem C05_report_in_words (S : Spec) (V : Env) (vOk : Nat) (rootAttrs : List (Nat × CDv)) (hH : IdxHyp S V vOk) (hR : RefWF S)
    (hv32 : vOk &&& 0xFFFFFFFF = vOk) (hrootN : S.isNamed (S.defType S.rootDef) = false) (ops : List OpX)
    (hops : ∀ op ∈ ops, OpXOk S vOk op) (k : Nat) (m : Model) (hm : (runX S V rootAttrs ops).models[k]? = some m)
    (hx : Hdr) (kx : Items) (p : Bytes) (ho : Occ hx kx m.rootItems) (hr : S.isRef hx.ety.typ = true)
    (hc : charData S hx kx = some (.str p)) :
    hx.id ∈ checkRefsIds S V (runX S V rootAttrs ops) k ↔
      ¬ ∃ t ct d, m.rootItems.chain t = some ct ∧ (itemName S (lastOf ct).1 (lastOf ct).2).isSome = true ∧
        pathOfChain S ct = p ∧ attrVal hx V.nmDest = some (.enum d) ∧ S.verifyDest (lastOf ct).1.ety.typ d = true :=
  runX_mem_checkRefsIds_words S V vOk rootAttrs hH hR hv32 hrootN ops hops k m hm hx kx p ho hr hc
theorem C05_resolve_is_sound (S : Spec) (V : Env) (vOk : Nat) (rootAttrs : List (Nat × CDv)) (hH : IdxHyp S V vOk) (hR : RefWF S)
    (hv32 : vOk &&& 0xFFFFFFFF = vOk) (hrootN : S.isNamed (S.defType S.rootDef) = false) (ops : List OpX)
    (hops : ∀ op ∈ ops, OpXOk S vOk op) (x t : Nat) (hrt : refTarget S V (runX S V rootAttrs ops) x = some t) :
    ∃ (k : Nat) (m : Model) (hx : Hdr) (kx : Items) (p : Bytes) (ct : List (Hdr × Items)) (d : Nat),
      (runX S V rootAttrs ops).models[k]? = some m ∧
      Occ hx kx m.rootItems ∧ hx.id = x ∧ S.isRef hx.ety.typ = true ∧ charData S hx kx = some (.str p) ∧
      m.rootItems.chain t = some ct ∧ (itemName S (lastOf ct).1 (lastOf ct).2).isSome = true ∧ pathOfChain S ct = p ∧
      attrVal hx V.nmDest = some (.enum d) ∧ S.verifyDest (lastOf ct).1.ety.typ d = true :=
  runX_refTarget_sound S V vOk rootAttrs hH hR hv32 hrootN ops hops x t hrt
/-- ids of different models are disjoint in every reachable state (root ids excepted) -/
theorem C05_ids_of_models_disjoint (S : Spec) (V : Env) (vOk : Nat) (rootAttrs : List (Nat × CDv)) (hH : IdxHyp S V vOk)
    (hR : RefWF S) (hv32 : vOk &&& 0xFFFFFFFF = vOk) (ops : List OpX) (hops : ∀ op ∈ ops, OpXOk S vOk op) :
    IdsSep (runX S V rootAttrs ops) := runX_idsSep S V vOk rootAttrs hH hR hv32 ops hops
/-- the two facts about the root type hold of the regenerated tables -/
theorem C05_real_root_facts : AV.Gen.realSpec.isRef (AV.Gen.realSpec.defType AV.Gen.realSpec.rootDef) = false ∧
    AV.Gen.realSpec.isNamed (AV.Gen.realSpec.defType AV.Gen.realSpec.rootDef) = false :=
  ⟨AV.Gen.realSpec_root_not_ref, AV.Gen.realSpec_root_not_named⟩
/-- after a successful `set_reference_target` in any reachable state the reference resolves to the target -/
theorem C05_set_reference_target_resolves (S : Spec) (V : Env) (vOk : Nat) (rootAttrs : List (Nat × CDv)) (hH : IdxHyp S V vOk)
    (hR : RefWF S) (hv32 : vOk &&& 0xFFFFFFFF = vOk) (ops : List OpX) (hops : ∀ op ∈ ops, OpXOk S vOk op) (x t : Nat)
    (hne : (opSetRef S V (runX S V rootAttrs ops) x t).2 ≠ .err)
    (hsame : ∀ k c kt tc, locate (runX S V rootAttrs ops) x = some (k, c) → locate (runX S V rootAttrs ops) t = some (kt, tc) →
      kt = k)
    (hdest : ∀ k c kt tc it, locate (runX S V rootAttrs ops) x = some (k, c) →
      locate (runX S V rootAttrs ops) t = some (kt, tc) →
      setRefItem S V (lastOf c).1 (lastOf tc).1 = some it → S.verifyDest (lastOf tc).1.ety.typ it = true) :
    refTarget S V (runX S V rootAttrs (ops ++ [.setref x t])) x = some t :=
  runX_setref_target S V vOk rootAttrs hH hR hv32 ops hops x t hne hsame hdest

/-- the facts the invariant needs about reference types hold of the tables regenerated from the current source -/
theorem C05_real_tables : RefWF AV.Gen.realSpec := AV.Gen.realSpec_refWF

/-- non-vacuity: the hypotheses are met by `refSpec` / `nameEnv`, the history `refOps` is guarded, and the theorem applies -/
theorem C05_hypotheses_are_met : IdxHyp refSpec nameEnv 6 ∧ RefWF refSpec ∧ (∀ op ∈ refOps, OpOk refSpec 6 op) ∧
    CInv refSpec 6 (run refSpec nameEnv [] refOps) := ⟨refSpec_hyp, refSpec_refWF, refOps_ok, refOps_cinv⟩


/-! ### added later in the third session (loads, cross-model moves, merge order): restated by name
(`type_of%` keeps the statement identical to the lemma; the signature is quoted in the comment) -/

/-- `theorem runParser_refs (hchars : ∀ t, S.isRef t = true → S.mode t = .characters) (strict : Bool) (buf : Bytes) (nid nmAutosar : Nat) (h : Hdr) (k : Items) (st : PState) (hr : runParser S V strict buf nid nmAutosar = (.ok (h, k), st)) (h1 : RefOne S (.elem h k .nil)) : st.refs = refEntries S (.elem h k .nil)` -/
theorem C05_parser_collects_exactly_the_references : type_of% @AV.LoadInv.runParser_refs := @AV.LoadInv.runParser_refs

/-- negation witness (the C05 face of c01:comment-splits-character-data): a reference text interrupted by a comment is registered twice, the element then has no character data
`theorem ref_split_not_exact : ¬ ∀ m ∈ (opLoad ldRefSpec toyEnv 100 (w0 ldRefSpec) 0 [102] true refDoc).1.models, RefsExact ldRefSpec m.refs m.rootItems` -/
theorem C05_witness_reference_text_split_by_comment : type_of% @AV.LoadInv.Witness.ref_split_not_exact := @AV.LoadInv.Witness.ref_split_not_exact

end AV.C05
