/-
C19 — Pattern validators accept exactly the language of their published regex.

Property text: "For every pattern-restricted value type of the specification, the validation
function accepts a byte string exactly when the whole string matches the regular expression
published for that type."

Mapping of phrases to definitions:
* "the regular expression published for that type" = the text of `Pattern{regex: r"…"}` in
  `specification.rs`, copied byte for byte into `Gen.regexText_k` and parsed *in Lean* by
  `Rx.parseRegex` (dialect fixed in DESIGN.md §8 C19);
* "the whole string matches" = `Rx.Matches r s`, the textbook inductive semantics
  (`Lemmas/Regex.lean`), over the bytes of the string;
* "the validation function" for a table-driven validator = `Rx.Dfa.run dfa_k`, the loop of
  `validate_regex_k` over `REGEX_k_TABLE` and its `matches!` accepting set, both regenerated from
  `regex.rs` on every run (the translator checks the loop has exactly the modelled shape);
* "a byte string" = any `Bytes = List UInt8`.

For the hand-written validators (`Gen.handWritten`) the claim is partial: the reference semantics
`Rx.matchD` is proved equal to `Matches` (`C19_reference_matcher`) and the Rust functions are
compared with it by the conformance run (DESIGN.md §8 C19); `Properties/C19Hand.lean` proves the
Lean transcriptions of those of the simple "first byte / remaining bytes" shape.

Known findings (KNOWN_FINDINGS.txt): three tables do not implement their regex; for these the
negation witness is proved (`C19_known_bad_witnesses`) instead of the certificate.
-/
import AutosarVerif.Model.Hash
import AutosarVerif.Lemmas.Regex
import AutosarVerif.Gen.DfaAll

namespace AV.C19
open AV.Rx AV.Gen

def nat (s : Bytes) : List Nat := s.map (·.toNat)

theorem nat_lt (s : Bytes) : ∀ b ∈ nat s, b < 256 := by
  intro b hb
  simp only [nat, List.mem_map] at hb
  obtain ⟨x, _, rfl⟩ := hb
  have := UInt8.toNat_lt x
  simpa using this

/-- generic: a checked certificate means the table accepts exactly the regex language, for all byte strings -/
theorem cert_sound (d : Dfa) (text : List Nat) (h : (parseRegex text).map (checkDfa d) = some true) (s : Bytes) :
    d.run (nat s) = true ↔ ∃ r, parseRegex text = some r ∧ Matches r (nat s) := by
  cases hp : parseRegex text with
  | none => simp [hp] at h
  | some r =>
    simp only [hp, Option.map_some, Option.some.injEq] at h
    rw [checkDfa_sound d r h (nat s) (nat_lt s)]
    constructor
    · intro hm; exact ⟨r, rfl, hm⟩
    · rintro ⟨r', hr', hm⟩; cases hr'; exact hm

/-- **C19 for every table-driven validator found in regex.rs** (the list, the tables, the accepting
sets and the regex texts are regenerated from the source): for all byte strings `s`,
`validate_regex_k(s)` ⇔ `s` matches the published regex. -/
theorem C19_table_driven (k : Nat) (d : Dfa) (text : List Nat) (he : (k, d, text) ∈ tableDriven) (s : Bytes) :
    d.run (nat s) = true ↔ ∃ r, parseRegex text = some r ∧ Matches r (nat s) :=
  cert_sound d text (tableDriven_ok _ he) s

/-- the reference matcher used for the hand-written validators decides `Matches` -/
theorem C19_reference_matcher (r : Re) (s : Bytes) : matchD r (nat s) = true ↔ Matches r (nat s) :=
  matchD_correct r (nat s)

/-- **negation witnesses** for the tables recorded as known findings: the table accepts the
witness although the published regex does not match it (so the full statement is false there) -/
theorem C19_known_bad_witnesses (k : Nat) (d : Dfa) (text w : List Nat) (he : (k, d, text, w) ∈ knownBad) :
    d.run w = true ∧ ¬ ∃ r, parseRegex text = some r ∧ Matches r w := by
  obtain ⟨h1, h2⟩ := knownBad_ok _ he
  refine ⟨h1, ?_⟩
  rintro ⟨r, hr, hm⟩
  simp only [hr, Option.map_some, Option.some.injEq] at h2
  have := (matchD_correct r w).mpr hm
  simp [this] at h2

/-! non-vacuity -/
example : tableDriven.length + knownBad.length ≥ 1 := by decide
-- "255.1.01.0" is accepted by the IPv4 table (k = 14) and "256.1.1.1" is not
example : dfa_14.run [50, 53, 53, 46, 49, 46, 48, 49, 46, 48] = true := by decide +kernel
example : dfa_14.run [50, 53, 54, 46, 49, 46, 49, 46, 49] = false := by decide +kernel

end AV.C19
