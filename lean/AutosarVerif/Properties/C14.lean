/-
C14 — Sorting is a content-preserving, idempotent canonicalization.

Property text: "Sorting only permutes sibling elements where the specification permits reordering; it
preserves every element, value, attribute and comment, keeps the model valid and all path and reference
lookups intact, and never fails. Sorting twice gives the same result as sorting once, and the result does
not depend on the order the siblings had before (siblings that are identical except for their comments may
keep their relative order)."

Model: `Model/Sort.lean` — `sortNode` (`ElementRaw::sort`: only Sequence/Choice/Bag content of elements that
are not `ordered`, children sorted first), sort key `childLe` = index path of the child in the parent's type,
then `cmpElem` (`impl Ord for Element`: element name, INDEX, item name as (base, index, full name),
DEFINITION-REF, DEST, content, attributes). The sort itself is a STABLE sort (Rust `sort_by`; core `mergeSort`).
Proved for an arbitrary comparison (so in particular for the model's):
* `C14_preserves_content`: the result is a permutation — nothing lost, nothing duplicated;
* `C14_idempotent`, `C14_fixed_point`: if the comparison is a total preorder, sorting twice = once and a
  sorted list is left alone;
* `C14_order_independent`: if moreover different siblings never tie, the result does not depend on the
  previous order (with ties only the tied siblings may keep their relative order: stability);
* the index-path part of the key is a total order (`C14_index_key_total`).
Assumption (named, compared in the run): `cmpElem` is a total preorder. It was not before the repair of
finding #6 (cyclic comparison of `a2 < a10 < a1b < a2`); the unit `element_order` and the sort scenario compare
all permutations of small sibling sets on the real library.
-/
import AutosarVerif.Lemmas.Sort

namespace AV.C14
open AV.W

theorem C14_preserves_content {α : Type} (le : α → α → Bool) (l : List α) : (l.mergeSort le).Perm l := sort_perm le l

theorem C14_idempotent {α : Type} (le : α → α → Bool) (htrans : ∀ a b c, le a b = true → le b c = true → le a c = true)
    (htotal : ∀ a b, (le a b || le b a) = true) (l : List α) : (l.mergeSort le).mergeSort le = l.mergeSort le :=
  sort_idem le htrans htotal l

theorem C14_fixed_point {α : Type} (le : α → α → Bool) (l : List α) (h : l.Pairwise (fun a b => le a b = true)) :
    l.mergeSort le = l := sort_of_sorted le l h

theorem C14_order_independent {α : Type} (le : α → α → Bool) (htrans : ∀ a b c, le a b = true → le b c = true → le a c = true)
    (htotal : ∀ a b, (le a b || le b a) = true) (hanti : ∀ a b, le a b = true → le b a = true → a = b)
    (l1 l2 : List α) (hp : l1.Perm l2) : l1.mergeSort le = l2.mergeSort le :=
  sort_order_independent le htrans htotal hanti l1 l2 hp

theorem C14_index_key_total (a b : List Nat) : cmpIdx a b ≠ .gt ∨ cmpIdx b a ≠ .gt := cmpIdx_total a b

theorem C14_children_permuted (S : Spec) (V : Env) (typ fuel : Nat) (kids : List (Hdr × Items)) :
    (kids.mergeSort (childLe S V typ fuel)).Perm kids := sortNode_children_perm S V typ fuel kids

/-! non-vacuity: names with numeric suffixes decompose as the code does, and order naturally -/
example : decompose [97, 49, 48] = ([97], some 10) := by decide            -- "a10" = ("a", 10)
example : decompose [97, 49, 98] = ([97, 49, 98], none) := by decide        -- "a1b" has no trailing index

end AV.C14
