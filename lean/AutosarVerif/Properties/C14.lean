/-
C14 — Sorting is a content-preserving, idempotent canonicalization.

Property text: "Sorting only permutes sibling elements where the specification permits reordering; it
preserves every element, value, attribute and comment, keeps the model valid and all path and reference
lookups intact, and never fails. Sorting twice gives the same result as sorting once, and the result does
not depend on the order the siblings had before (siblings that are identical except for their comments may
keep their relative order)."

Model: `Model/Sort.lean` — `sortNode` (`ElementRaw::sort`: only Sequence/Choice/Bag content of elements that
are not `ordered`, children sorted first), sort key `childLe` = index path of the child in the parent's type,
then `cmpElem` (`impl Ord for Element`: element name, INDEX, item name as (base, index, full name),
DEFINITION-REF, DEST, content, attributes). The sort itself is a STABLE sort (Rust `sort_by`; core `mergeSort`).
Proved for an arbitrary comparison (so in particular for the model's):
* `C14_preserves_content`: the result is a permutation — nothing lost, nothing duplicated;
* `C14_idempotent`, `C14_fixed_point`: if the comparison is a total preorder, sorting twice = once and a
  sorted list is left alone;
* `C14_order_independent`: if moreover different siblings never tie, the result does not depend on the
  previous order (with ties only the tied siblings may keep their relative order: stability);
* the index-path part of the key is a total order (`C14_index_key_total`).
ON TREES (`Lemmas/SortTree.lean`, `Lemmas/SortIndex.lean`; `sortNode` / `opSort` are what the driver runs for `sort` requests, as
the operation `.sort` of the larger alphabet `OpX`), for every specification, every tree, every depth:
* `C14_tree_keeps_every_element`: the headers of the sorted tree (id, name, type, attributes, comment, file set, parent field) are
  a permutation of the headers before — nothing lost, duplicated or altered; `C14_tree_keeps_every_value` (under `NoStrayText`: no
  text item in SEQUENCE/CHOICE/BAG content, which the serializer would not write either — `C14_stray_text_is_dropped` shows the
  hypothesis is needed): every element keeps the multiset of its text values, the trees keep their size;
* `C14_only_permitted_reordering`: content of an `ordered` element, character or mixed content keeps its order;
* `C14_never_fails`, `C14_tree_stays_wellformed`;
* `C14_lookups_intact`: in a world with exact index / referrer lists (C04/C05) in which every child is known to its parent's type,
  every path lookup and referrer list answers as before AND is still exact for the sorted tree — the crux is that a SHORT-NAME
  stays the first content item (`C14_short_name_stays_first_needs_known_children`: without the hypothesis a child unknown to the
  all-version lookup is sorted in front of the SHORT-NAME and the element loses its name; the hypothesis `WKidsKnown` is an
  invariant of every guarded history, `C14_lookups_intact_in_every_reachable_state`);
* `C14_tree_idempotent`: sorting a subtree twice = once, for every fuel, if the sibling comparison `childLe` is a total preorder ON
  the class of elements that occur (classes closed under sorting of contents, `SibClosed`); `C14_result_is_sorted`.
The comparison itself: `C14_float_order_total` — the float comparison of the REPAIRED library (`f64::total_cmp`) is a linear order
on bit patterns; `C14_old_float_order_not_transitive` is the negation witness of the repaired defect c14:nan-float-order-dependent
(NaN was equal to every number: 2 ≤ NaN ≤ 1 but not 2 ≤ 1), found by this proof, reproduced on the library, repaired (fix:
e83012f).  REMAINING assumption (named): `childLe` is a total preorder on the elements of the tree; it is NOT in one more family
(known finding c14: an element with and one without a DEFINITION-REF text), which the run tolerates narrowly.
-/
import AutosarVerif.Lemmas.Sort
import AutosarVerif.Lemmas.SortTree
import AutosarVerif.Lemmas.SortIndex
import AutosarVerif.Lemmas.KidsKnownReach

namespace AV.C14
open AV.W

theorem C14_preserves_content {α : Type} (le : α → α → Bool) (l : List α) : (l.mergeSort le).Perm l := sort_perm le l

theorem C14_idempotent {α : Type} (le : α → α → Bool) (htrans : ∀ a b c, le a b = true → le b c = true → le a c = true)
    (htotal : ∀ a b, (le a b || le b a) = true) (l : List α) : (l.mergeSort le).mergeSort le = l.mergeSort le :=
  sort_idem le htrans htotal l

theorem C14_fixed_point {α : Type} (le : α → α → Bool) (l : List α) (h : l.Pairwise (fun a b => le a b = true)) :
    l.mergeSort le = l := sort_of_sorted le l h

theorem C14_order_independent {α : Type} (le : α → α → Bool) (htrans : ∀ a b c, le a b = true → le b c = true → le a c = true)
    (htotal : ∀ a b, (le a b || le b a) = true) (hanti : ∀ a b, le a b = true → le b a = true → a = b)
    (l1 l2 : List α) (hp : l1.Perm l2) : l1.mergeSort le = l2.mergeSort le :=
  sort_order_independent le htrans htotal hanti l1 l2 hp

theorem C14_index_key_total (a b : List Nat) : cmpIdx a b ≠ .gt ∨ cmpIdx b a ≠ .gt := cmpIdx_total a b

theorem C14_children_permuted (S : Spec) (V : Env) (typ fuel : Nat) (kids : List (Hdr × Items)) :
    (kids.mergeSort (childLe S V typ fuel)).Perm kids := sortNode_children_perm S V typ fuel kids

/-! ### on trees -/

theorem C14_tree_keeps_every_element (S : Spec) (V : Env) (fuel : Nat) (h : Hdr) (kids : Items) :
    (sortNode S V fuel h kids).hdrs.Perm kids.hdrs ∧ (sortNode S V fuel h kids).ids.Perm kids.ids :=
  ⟨sortNode_hdrs_perm S V fuel h kids, sortNode_ids_perm S V fuel h kids⟩

theorem C14_tree_keeps_every_value (S : Spec) (V : Env) (fuel : Nat) (h : Hdr) (kids : Items) (hn : NoStrayText S h kids) (p : Nat) :
    ((sortNode S V fuel h kids).ptexts p).Perm (kids.ptexts p) ∧ (sortNode S V fuel h kids).texts = kids.texts ∧
      (sortNode S V fuel h kids).size = kids.size :=
  ⟨sortNode_ptexts_perm S V fuel h kids hn p, sortNode_texts S V fuel h kids hn, sortNode_size S V fuel h kids hn⟩

/-- the hypothesis is needed: a text item in the content of an unordered SEQUENCE/CHOICE/BAG element is dropped by `sort` -/
theorem C14_stray_text_is_dropped (S : Spec) (V : Env) (fuel : Nat) (h : Hdr) (c : CDv) (h1 h2 : Hdr) (k1 k2 : Items)
    (htm : textMode S h = false) (hord : S.defOrdered h.ety.defId = false) :
    (sortNode S V (fuel + 1) h (.text c (.elem h1 k1 (.elem h2 k2 .nil)))).length = 2 ∧
    (sortNode S V (fuel + 1) h (.text c (.elem h1 k1 (.elem h2 k2 .nil)))).texts = [] :=
  sortNode_drops_stray_text S V fuel h c h1 h2 k1 k2 htm hord

theorem C14_only_permitted_reordering (S : Spec) (V : Env) (fuel : Nat) (h : Hdr) (kids : Items)
    (ho : S.defOrdered h.ety.defId = true ∨ S.mode h.ety.typ = .characters ∨ S.mode h.ety.typ = .mixed ∨ kids.length ≤ 1) :
    (sortNode S V fuel h kids).childElems.map (·.1) = kids.childElems.map (·.1) := sortNode_keeps_order S V fuel h kids ho

theorem C14_never_fails (S : Spec) (V : Env) (w : World) (x : Nat) : (opSort S V w x).2 = .ok "" := opSort_ok S V w x
theorem C14_tree_stays_wellformed (S : Spec) (V : Env) (w : World) (x : Nat) (hw : w.wf) : (opSort S V w x).1.wf :=
  opSort_wf S V w x hw

/-- every element of every model is kept by the `sort` request (headers and ids are permuted) -/
theorem C14_request_keeps_every_element (S : Spec) (V : Env) (w : World) (x j : Nat) (m : Model) (hj : w.models[j]? = some m) :
    ∃ m', (opSort S V w x).1.models[j]? = some m' ∧ m'.rootItems.hdrs.Perm m.rootItems.hdrs ∧ m'.rootItems.ids.Perm m.rootItems.ids :=
  opSort_hdrs_perm S V w x j m hj

/-- path lookups and referrer lists answer as before and are exact for the sorted tree -/
theorem C14_lookups_intact (S : Spec) (V : Env) (vOk : Nat) (hH : IdxHyp S V vOk) (w : World) (x : Nat) (h : CInv S vOk w)
    (hK : WKidsKnown S w) (j : Nat) (m m' : Model) (hm : w.models[j]? = some m) (hm' : (opSort S V w x).1.models[j]? = some m') :
    (∀ p, m'.lookup p = m.lookup p ∧ refsGet m'.refs p = refsGet m.refs p) ∧
    (∀ q i, m'.lookup q = some i ↔ (q, i) ∈ entries S m'.rootItems []) ∧
    (∀ p id, (refsGet m'.refs p).count id = (refEntries S m'.rootItems).count (p, id)) :=
  opSort_lookups S V vOk hH w x h (wsibsKnown_of_wkidsKnown S w hK) j m m' hm hm'

/-- … in every state reachable by a guarded history of the core operations (the hypotheses of `C14_lookups_intact` are invariants) -/
theorem C14_lookups_intact_in_every_reachable_state (S : Spec) (V : Env) (vOk : Nat) (rootAttrs : List (Nat × CDv))
    (hH : IdxHyp S V vOk) (hR : RefWF S) (hv32 : vOk &&& 0xFFFFFFFF = vOk) (ops : List Op) (hops : ∀ op ∈ ops, OpOk S vOk op)
    (x : Nat) : CInv S vOk (opSort S V (run S V rootAttrs ops) x).1 ∧ WKidsKnown S (opSort S V (run S V rootAttrs ops) x).1 :=
  run_opSort_cinv S V vOk rootAttrs hH hR hv32 ops hops x

/-- negation witness: without "every child is known to its parent's type" the SHORT-NAME does not stay in front -/
theorem C14_short_name_stays_first_needs_known_children :
    ¬ ∀ (S : Spec) (V : Env) (_ : NameWF S) (fuel : Nat) (h : Hdr) (k : Items), kidsOk S h k → SnOk S k →
      itemName S h (sortNode S V fuel h k) = itemName S h k := itemName_sortNode_needs_sibsKnown

/-- sorting a subtree twice = once (any fuel), for a comparison that is a total preorder on a class of elements closed under
sorting of contents -/
theorem C14_tree_idempotent (S : Spec) (V : Env) (Q : Hdr × Items → Prop) (hQ : SibClosed Q)
    (hle : ∀ typ n, TotalPreOn Q (childLe S V typ n)) (fuel : Nat) (h : Hdr) (kids : Items) (hn : NoStrayText S h kids)
    (hall : ∀ h' k', Occ h' k' kids → Q (h', k')) :
    sortNode S V fuel h (sortNode S V fuel h kids) = sortNode S V fuel h kids :=
  sortNode_idem' S V Q hQ hle fuel h kids hn hall
theorem C14_request_idempotent (S : Spec) (V : Env) (Q : Hdr × Items → Prop) (hQ : SibClosed Q)
    (hle : ∀ typ n, TotalPreOn Q (childLe S V typ n)) (w : World) (x : Nat) (hn : World.noStray S w)
    (hall : ∀ m ∈ w.models, ∀ h k, Occ h k m.rootItems → Q (h, k)) :
    (opSort S V (opSort S V w x).1 x).1 = (opSort S V w x).1 := opSort_idem' S V Q hQ hle w x hn hall

theorem C14_result_is_sorted (S : Spec) (V : Env) (fuel : Nat) (h : Hdr) (kids : Items) (htm : textMode S h = false)
    (hord : S.defOrdered h.ety.defId = false)
    (hpre : TotalPreOn (· ∈ kids.childElems.map fun c => (c.1, sortNode S V fuel c.1 c.2)) (childLe S V h.ety.typ (kids.size + 2))) :
    (sortNode S V (fuel + 1) h kids).childElems.Pairwise (fun a b => childLe S V h.ety.typ (kids.size + 2) a b = true) :=
  sortNode_sorted S V fuel h kids htm hord hpre

/-- the repaired float comparison (`f64::total_cmp`) is a linear order on bit patterns -/
theorem C14_float_order_total (a b c : Nat) :
    (cmpF64 a b ≠ .gt → cmpF64 b c ≠ .gt → cmpF64 a c ≠ .gt) ∧ (cmpF64 a b ≠ .gt ∨ cmpF64 b a ≠ .gt) ∧ (cmpF64 a b = .eq ↔ a = b) :=
  ⟨cmpF64_le_trans a b c, cmpF64_le_total a b, cmpF64_eq_iff a b⟩
/-- negation witness of the repaired defect: the comparison before the repair, `2.0 ≤ NaN ≤ 1.0` but not `2.0 ≤ 1.0` -/
theorem C14_old_float_order_not_transitive :
    cmpF64Old SortTree.twoBits SortTree.nanBits ≠ .gt ∧ cmpF64Old SortTree.nanBits SortTree.oneBits ≠ .gt ∧
      cmpF64Old SortTree.twoBits SortTree.oneBits = .gt := cmpF64Old_not_transitive

/-! non-vacuity: names with numeric suffixes decompose as the code does, and order naturally -/
example : decompose [97, 49, 48] = ([97], some 10) := by decide            -- "a10" = ("a", 10)
example : decompose [97, 49, 98] = ([97, 49, 98], none) := by decide        -- "a1b" has no trailing index

end AV.C14
