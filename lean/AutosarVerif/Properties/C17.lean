/-
C17 — The version-compatibility check is exact and changing a file's version is safe.

Property text: "For every file and target version, the compatibility check lists no incompatibility exactly
when the file's content relabelled with the target version passes strict validation, and the returned version
mask contains the target version exactly in that case.  Changing a file's version succeeds exactly then, does
not alter any content, and the re-serialized file loads strictly as the new version."

Model: `Model/Compat.lean` = `Element::check_version_compatibility` + `recalc_element_type` (element.rs),
`CharacterData::check_version_compatibility` (chardata.rs), `ArxmlFile::{check_version_compatibility,
set_version}` (arxmlfile.rs), answered by the driver for the `compat` / `setver` requests of the world protocol and
compared with the library on every run.

Proved for all trees, specifications, files and target versions `2^i` (i < 32):
* `C17_nothing_listed_iff` — what "lists nothing" means: every attribute the target type knows is allowed in the target
  version and has a compatible value, every character data item is compatible, every child that belongs to the file
  and that the target type knows is allowed there, recursively.  (This is NOT strict validity: attributes and children
  the target type does not know, order, multiplicity and patterns are not looked at — the known findings c17:* are
  exactly these gaps, demonstrated on the library by the `edits` scenario.)
* `C17_mask_contains_target_if_nothing_listed`, `C17_listed_exclusion_clears_mask`, `C17_mask_exact` — the mask part of
  the statement: the mask contains the target exactly when nothing is listed, for every tree in which no value has the
  wrong kind for an enumeration (`C17_each_listed` says these are the only other entries).
* `C17_set_version_refused_iff`, `C17_refused_set_version_no_effect`, `C17_set_version_keeps_content` — the gate.
Partial: "passes strict validation" and "loads strictly as the new version" are decided by the direct oracle on the
library (scenario `edits`: oracles A, B, C), not by a theorem: the strict loader has no Lean model at element level.
-/
import AutosarVerif.Lemmas.Compat
import AutosarVerif.Model.ToySpec

namespace AV.C17
open AV.W

/-- the check lists nothing exactly when the (recursive) allowed-in-target condition holds -/
theorem C17_nothing_listed_iff (S : Spec) (file ver : Nat) (its : Items) (tOld tNew : Nat) :
    (compatKids S file ver tOld tNew its).errs = [] ↔ KidsOk S file ver tOld tNew its :=
  compatKids_nil_iff S file ver its tOld tNew

theorem C17_mask_contains_target_if_nothing_listed (S : Spec) (m : Model) (file i : Nat) (hi : i < 32)
    (h : (compatFile S m file (2 ^ i)).errs = []) : hasVer (compatFile S m file (2 ^ i)).mask i = true :=
  (compatFile_good S m file i hi).none_then_has h

/-- every listed incompatibility excludes the target version by its own mask, or is a value of the wrong kind -/
theorem C17_each_listed (S : Spec) (m : Model) (file i : Nat) (hi : i < 32) :
    ∀ e ∈ (compatFile S m file (2 ^ i)).errs, hasVer e.mask i = false ∨ e.mask = maxMask :=
  (compatFile_good S m file i hi).each

theorem C17_listed_exclusion_clears_mask (S : Spec) (m : Model) (file i : Nat) (hi : i < 32)
    (h : ∃ e ∈ (compatFile S m file (2 ^ i)).errs, hasVer e.mask i = false) :
    hasVer (compatFile S m file (2 ^ i)).mask i = false :=
  (compatFile_good S m file i hi).excl_clears h

/-- the mask contains the target version exactly when nothing is listed — for results without wrong-kind entries -/
theorem C17_mask_exact (S : Spec) (m : Model) (file i : Nat) (hi : i < 32)
    (hkind : ∀ e ∈ (compatFile S m file (2 ^ i)).errs, hasVer e.mask i = false) :
    hasVer (compatFile S m file (2 ^ i)).mask i = true ↔ (compatFile S m file (2 ^ i)).errs = [] := by
  constructor
  · intro hm
    cases he : (compatFile S m file (2 ^ i)).errs with
    | nil => rfl
    | cons e es =>
      have hx := (compatFile_good S m file i hi).excl_clears ⟨e, by rw [he]; exact List.mem_cons_self .., hkind e (by rw [he]; exact List.mem_cons_self ..)⟩
      rw [hm] at hx; cases hx
  · exact C17_mask_contains_target_if_nothing_listed S m file i hi

theorem C17_set_version_refused_iff (S : Spec) (w : World) (f ver k : Nat) (hk : fileModel w f = some k)
    (hp : (compatFile S (w.models[k]!) f ver).panic = false) :
    (opSetVersion S w f ver).2 = .err ↔ (compatFile S (w.models[k]!) f ver).errs ≠ [] :=
  opSetVersion_err_iff S w f ver k hk hp

theorem C17_refused_set_version_no_effect (S : Spec) (w : World) (f ver : Nat) :
    (opSetVersion S w f ver).2 = .err → (opSetVersion S w f ver).1 = w := opSetVersion_err_frame S w f ver

theorem C17_set_version_keeps_content (S : Spec) (w : World) (f ver k : Nat) (hk : fileModel w f = some k)
    (hlt : k < w.models.length) (hok : (opSetVersion S w f ver).2 = .ok "") :
    ((opSetVersion S w f ver).1.models[k]!).rootKids = (w.models[k]!).rootKids ∧
    ((opSetVersion S w f ver).1.models[k]!).rootHdr = (w.models[k]!).rootHdr ∧
    ((opSetVersion S w f ver).1.models[k]!).index = (w.models[k]!).index ∧
    ((opSetVersion S w f ver).1.models[k]!).refs = (w.models[k]!).refs ∧
    ((opSetVersion S w f ver).1.models[k]!).files.map (·.id) = (w.models[k]!).files.map (·.id) :=
  opSetVersion_ok_content S w f ver k hk hlt hok

/-! non-vacuity on the toy specification: <R><A T="x">8</A><B/></R> in a file of version v0 -/

def hdr (id name typ : Nat) (attrs : List (Nat × CDv)) : Hdr :=
  { id := id, name := name, ety := ⟨name - 100, typ⟩, parent := .elem 0, attrs := attrs, files := [], comment := none }

def toyKids (v : Nat) : Items :=
  .elem (hdr 1 101 1 [(5, .str [120])]) (.text (.enum v) .nil) (.elem (hdr 2 102 2 []) .nil .nil)

-- target v0: nothing listed, the mask contains v0
example : (compatKids toySpec 0 1 0 0 (toyKids 8)).errs = [] := by decide
example : hasVer (compatKids toySpec 0 1 0 0 (toyKids 8)).mask 0 = true := by decide
-- target v1: <A> does not exist there: one entry, the mask excludes v1
example : (compatKids toySpec 0 2 0 0 (toyKids 8)).errs = [.elem 1 1] := by decide
example : hasVer (compatKids toySpec 0 2 0 0 (toyKids 8)).mask 1 = false := by decide
-- the enumeration item 7 exists in v0 only; an integer where an enumeration item is expected has the wrong kind
example : valueCompatMask (.enum 7) (.enum [(7, 1), (8, 3)]) 2 = (false, 1) := by decide
example : valueCompatMask (.uint 7) (.enum [(7, 1), (8, 3)]) 2 = (false, maxMask) := by decide

end AV.C17
