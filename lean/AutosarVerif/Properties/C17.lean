/-
C17 — The version-compatibility check is exact and changing a file's version is safe.

Property text: "For every file and target version, the compatibility check lists no incompatibility exactly
when the file's content relabelled with the target version passes strict validation, and the returned version
mask contains the target version exactly in that case.  Changing a file's version succeeds exactly then, does
not alter any content, and the re-serialized file loads strictly as the new version."

Model: `Model/Compat.lean` = `Element::check_version_compatibility` + `recalc_element_type` (element.rs),
`CharacterData::check_version_compatibility` (chardata.rs), `ArxmlFile::{check_version_compatibility,
set_version}` (arxmlfile.rs), answered by the driver for the `compat` / `setver` requests of the world protocol and
compared with the library on every run.

Proved for all trees, specifications, files and target versions `2^i` (i < 32):
* `C17_nothing_listed_iff` — what "lists nothing" means: every attribute the target type knows is allowed in the target
  version and has a compatible value, every character data item is compatible, every child that belongs to the file
  and that the target type knows is allowed there, recursively.  (This is NOT strict validity: attributes and children
  the target type does not know, order, multiplicity and patterns are not looked at — the known findings c17:* are
  exactly these gaps, demonstrated on the library by the `edits` scenario.)
* `C17_mask_contains_target_if_nothing_listed`, `C17_listed_exclusion_clears_mask`, `C17_mask_exact` — the mask part of
  the statement: the mask contains the target exactly when nothing is listed, for every tree in which no value has the
  wrong kind for an enumeration (`C17_each_listed` says these are the only other entries).
* `C17_set_version_refused_iff`, `C17_refused_set_version_no_effect`, `C17_set_version_keeps_content` — the gate.
Partial: "passes strict validation" and "loads strictly as the new version" are decided by the direct oracle on the
library (scenario `edits`: oracles A, B, C), not by a theorem: the strict loader has no Lean model at element level.
-/
import AutosarVerif.Lemmas.Compat
import AutosarVerif.Model.ToySpec
import AutosarVerif.Lemmas.CompatValid
import AutosarVerif.Lemmas.CompatValidReal

namespace AV.C17
open AV.W

/-- the check lists nothing exactly when the (recursive) allowed-in-target condition holds -/
theorem C17_nothing_listed_iff (S : Spec) (file ver : Nat) (its : Items) (tOld tNew : Nat) :
    (compatKids S file ver tOld tNew its).errs = [] ↔ KidsOk S file ver tOld tNew its :=
  compatKids_nil_iff S file ver its tOld tNew

theorem C17_mask_contains_target_if_nothing_listed (S : Spec) (m : Model) (file i : Nat) (hi : i < 32)
    (h : (compatFile S m file (2 ^ i)).errs = []) : hasVer (compatFile S m file (2 ^ i)).mask i = true :=
  (compatFile_good S m file i hi).none_then_has h

/-- every listed incompatibility excludes the target version by its own mask, or is a value of the wrong kind -/
theorem C17_each_listed (S : Spec) (m : Model) (file i : Nat) (hi : i < 32) :
    ∀ e ∈ (compatFile S m file (2 ^ i)).errs, hasVer e.mask i = false ∨ e.mask = maxMask :=
  (compatFile_good S m file i hi).each

theorem C17_listed_exclusion_clears_mask (S : Spec) (m : Model) (file i : Nat) (hi : i < 32)
    (h : ∃ e ∈ (compatFile S m file (2 ^ i)).errs, hasVer e.mask i = false) :
    hasVer (compatFile S m file (2 ^ i)).mask i = false :=
  (compatFile_good S m file i hi).excl_clears h

/-- the mask contains the target version exactly when nothing is listed — for results without wrong-kind entries -/
theorem C17_mask_exact (S : Spec) (m : Model) (file i : Nat) (hi : i < 32)
    (hkind : ∀ e ∈ (compatFile S m file (2 ^ i)).errs, hasVer e.mask i = false) :
    hasVer (compatFile S m file (2 ^ i)).mask i = true ↔ (compatFile S m file (2 ^ i)).errs = [] := by
  constructor
  · intro hm
    cases he : (compatFile S m file (2 ^ i)).errs with
    | nil => rfl
    | cons e es =>
      have hx := (compatFile_good S m file i hi).excl_clears ⟨e, by rw [he]; exact List.mem_cons_self .., hkind e (by rw [he]; exact List.mem_cons_self ..)⟩
      rw [hm] at hx; cases hx
  · exact C17_mask_contains_target_if_nothing_listed S m file i hi

theorem C17_set_version_refused_iff (S : Spec) (w : World) (f ver k : Nat) (hk : fileModel w f = some k)
    (hp : (compatFile S (w.models[k]!) f ver).panic = false) :
    (opSetVersion S w f ver).2 = .err ↔ (compatFile S (w.models[k]!) f ver).errs ≠ [] :=
  opSetVersion_err_iff S w f ver k hk hp

theorem C17_refused_set_version_no_effect (S : Spec) (w : World) (f ver : Nat) :
    (opSetVersion S w f ver).2 = .err → (opSetVersion S w f ver).1 = w := opSetVersion_err_frame S w f ver

theorem C17_set_version_keeps_content (S : Spec) (w : World) (f ver k : Nat) (hk : fileModel w f = some k)
    (hlt : k < w.models.length) (hok : (opSetVersion S w f ver).2 = .ok "") :
    ((opSetVersion S w f ver).1.models[k]!).rootKids = (w.models[k]!).rootKids ∧
    ((opSetVersion S w f ver).1.models[k]!).rootHdr = (w.models[k]!).rootHdr ∧
    ((opSetVersion S w f ver).1.models[k]!).index = (w.models[k]!).index ∧
    ((opSetVersion S w f ver).1.models[k]!).refs = (w.models[k]!).refs ∧
    ((opSetVersion S w f ver).1.models[k]!).files.map (·.id) = (w.models[k]!).files.map (·.id) :=
  opSetVersion_ok_content S w f ver k hk hlt hok

/-! non-vacuity on the toy specification: <R><A T="x">8</A><B/></R> in a file of version v0 -/

def hdr (id name typ : Nat) (attrs : List (Nat × CDv)) : Hdr :=
  { id := id, name := name, ety := ⟨name - 100, typ⟩, parent := .elem 0, attrs := attrs, files := [], comment := none }

def toyKids (v : Nat) : Items :=
  .elem (hdr 1 101 1 [(5, .str [120])]) (.text (.enum v) .nil) (.elem (hdr 2 102 2 []) .nil .nil)

-- target v0: nothing listed, the mask contains v0
example : (compatKids toySpec 0 1 0 0 (toyKids 8)).errs = [] := by decide
example : hasVer (compatKids toySpec 0 1 0 0 (toyKids 8)).mask 0 = true := by decide
-- target v1: <A> does not exist there: one entry, the mask excludes v1
example : (compatKids toySpec 0 2 0 0 (toyKids 8)).errs = [.elem 1 1] := by decide
example : hasVer (compatKids toySpec 0 2 0 0 (toyKids 8)).mask 1 = false := by decide
-- the enumeration item 7 exists in v0 only; an integer where an enumeration item is expected has the wrong kind
example : valueCompatMask (.enum 7) (.enum [(7, 1), (8, 3)]) 2 = (false, 1) := by decide
example : valueCompatMask (.uint 7) (.enum [(7, 1), (8, 3)]) 2 = (false, maxMask) := by decide


/-! ### added in the third session: statements proved in the lemma files, restated here by name
(`type_of%` keeps the statement identical to the lemma; the signature is quoted in the comment) -/

/-- **soundness of "lists nothing"**: content that is valid in the target version (declarative `NodeValid`: every child found by the version's lookup with the recorded type, every attribute known and allowed with a compatible value, every text compatible, recursively, for the children of the file) makes the check list nothing and never panic - for specifications whose enumerations list each item once (`EnumKeysNodup`, checked on the regenerated tables: `C17_real_tables_enum_keys`)
`theorem nodeValid_compat_nil (hE : EnumKeysNodup S) (file ver : Nat) (h : Hdr) (k : Items) (hv : NodeValid S file ver h k) : (compatNode S file ver h k).errs = [] ∧ (compatNode S file ver h k).panic = false` -/
theorem C17_valid_content_lists_nothing : type_of% @AV.W.nodeValid_compat_nil := @AV.W.nodeValid_compat_nil

/-- **exactness under the gap hypotheses**: if every child and attribute is known to its type in SOME version and recorded types agree with recomputed ones, the check lists nothing EXACTLY when the content is valid in the target version; each gap hypothesis is needed (`C17_gap_*`: the Lean negation witnesses of the known findings c17:*)
`theorem compatNode_nil_iff_valid (hE : EnumKeysNodup S) (file ver : Nat) (h : Hdr) (k : Items) (hK : KnownKids S file h.ety.typ k) (hA0 : ∀ a ∈ h.attrs, (S.findAttr h.ety.typ a.1).isSome = true) (hA : KnownAttrs S file k) (hT : TypesAgree S file ver h.ety.typ k) : (compatNode S file ver h k).errs = [] ↔ NodeValid S file ver h k` -/
theorem C17_lists_nothing_iff_valid : type_of% @AV.W.compatNode_nil_iff_valid := @AV.W.compatNode_nil_iff_valid

/-- `theorem realSpec_valid_compat_nil (file ver : Nat) (h : Hdr) (k : Items) (hv : NodeValid realSpec file ver h k) : (compatNode realSpec file ver h k).errs = [] ∧ (compatNode realSpec file ver h k).panic = false` -/
theorem C17_valid_content_lists_nothing_real_tables : type_of% @AV.Gen.realSpec_valid_compat_nil := @AV.Gen.realSpec_valid_compat_nil

/-- `theorem realSpec_enumKeysNodup : EnumKeysNodup realSpec` -/
theorem C17_real_tables_enum_keys : type_of% @AV.Gen.realSpec_enumKeysNodup := @AV.Gen.realSpec_enumKeysNodup

/-- a successful `set_version` keeps the invariants of the larger alphabet, relabels the file, and leaves content that is valid in the new version (gap hypotheses as above)
`theorem opSetVersion_history (vOk : Nat) (w : World) (f ver k : Nat) (hg : GInv S vOk w) (hver : ver &&& vOk = ver) (hk : fileModel w f = some k) (hok : (opSetVersion S w f ver).2 = .ok "") (hA0 : ∀ a ∈ (w.models[k]!).rootHdr.attrs, (S.findAttr (w.models[k]!).rootHdr.ety.typ a.1).isSome = true) (hA : KnownAttrs S f (w.models[k]!).rootKids) (hT : TypesAgree S f ver (w.models[k]!).rootHdr.ety.typ (w.models[k]!).rootKids) : GInv S vOk (opSetVersion S w f ver).1 ∧ NodeValid S f ver ((opSetVersion S w f ver).1.models[k]!).rootHdr ((opSetVersion S w f ver).1.models[k]!).rootKids ∧ (∀ fl ∈ ((opSetVersion S w f ver).1.models[k]!).files, fl.id = f → fl.version = ver)` -/
theorem C17_set_version_in_reachable_states : type_of% @AV.W.opSetVersion_history := @AV.W.opSetVersion_history

/-- `theorem opSetVersion_of_valid (hE : EnumKeysNodup S) (w : World) (f ver k : Nat) (hk : fileModel w f = some k) (hv : NodeValid S f ver (w.models[k]!).rootHdr (w.models[k]!).rootKids) : (opSetVersion S w f ver).2 = .ok ""` -/
theorem C17_set_version_succeeds_on_valid_content : type_of% @AV.W.opSetVersion_of_valid := @AV.W.opSetVersion_of_valid

/-- `theorem gap_unknown_child : (compatKids toySpec 0 1 0 0 unknownChild).errs = [] ∧ ¬ ValidIn toySpec 0 1 0 unknownChild ∧ ¬ KnownKids toySpec 0 0 unknownChild ∧ KnownAttrs toySpec 0 unknownChild ∧ TypesAgree toySpec 0 1 0 unknownChild` -/
theorem C17_gap_unknown_child : type_of% @AV.W.CompatValidWitness.gap_unknown_child := @AV.W.CompatValidWitness.gap_unknown_child

/-- `theorem gap_unknown_attr : (compatKids toySpec 0 1 0 0 unknownAttr).errs = [] ∧ ¬ ValidIn toySpec 0 1 0 unknownAttr ∧ KnownKids toySpec 0 0 unknownAttr ∧ ¬ KnownAttrs toySpec 0 unknownAttr ∧ TypesAgree toySpec 0 1 0 unknownAttr` -/
theorem C17_gap_unknown_attribute : type_of% @AV.W.CompatValidWitness.gap_unknown_attr := @AV.W.CompatValidWitness.gap_unknown_attr

/-- `theorem gap_alien_type : (compatKids toySpec 0 1 0 0 alienType).errs = [] ∧ ¬ ValidIn toySpec 0 1 0 alienType ∧ KnownKids toySpec 0 0 alienType ∧ KnownAttrs toySpec 0 alienType ∧ ¬ TypesAgree toySpec 0 1 0 alienType` -/
theorem C17_gap_alien_type : type_of% @AV.W.CompatValidWitness.gap_alien_type := @AV.W.CompatValidWitness.gap_alien_type

/-- `theorem gap_order : ValidIn toySpec 0 1 0 wrongOrder ∧ (compatKids toySpec 0 1 0 0 wrongOrder).errs = []` -/
theorem C17_gap_order_not_checked : type_of% @AV.W.CompatValidWitness.gap_order := @AV.W.CompatValidWitness.gap_order

/-- `theorem gap_multiplicity : ValidIn toySpec 0 1 0 twice ∧ (compatKids toySpec 0 1 0 0 twice).errs = [] ∧ toySpec.subMult 0 [0] = some .zeroOrOne` -/
theorem C17_gap_multiplicity_not_checked : type_of% @AV.W.CompatValidWitness.gap_multiplicity := @AV.W.CompatValidWitness.gap_multiplicity

/-- `theorem gap_pattern : ValidIn patSpec 0 1 0 patKids ∧ (compatKids patSpec 0 1 0 0 patKids).errs = [] ∧ ¬ ValidInStrict patSpec strictEnv 0 1 0 patKids` -/
theorem C17_gap_pattern_not_checked : type_of% @AV.W.CompatValidWitness.gap_pattern := @AV.W.CompatValidWitness.gap_pattern

end AV.C17
