/-
C07 — What the editing API builds conforms to the specification the loader enforces.

Property text (the part a theorem can carry): "A sub-element can be created at position p exactly when p lies in
the reported insertion range, that range is exactly the set of positions that keep the sub-elements in
specification order, and exactly the sub-elements reported as currently allowed can be created."

Model: `insertRange` / `rangeScan` (`Model/WorldOps.lean` = `calc_element_insert_range`), `opCreate` / `opNamed`
(= `create_[named_]sub_element[_at]`), `qValid` (= `list_valid_sub_elements`); the driver answers the `range`,
`valid`, `create … <pos>` requests of the world protocol with them and the answers are compared with the library.

Proved for all specifications, parents and contents:
* `C07_create_at_iff_in_range` — creation at `pos` succeeds exactly when `pos` lies in the reported range;
* `C07_range_exact_flat_sequence` — for a parent whose children and the new element lie in one SEQUENCE group, with the
  children in specification order and repetition allowed: the reported range is exactly the set of positions at which
  the new element keeps the children in specification order; `C07_conflict_iff_present` /
  `C07_range_exact_flat_sequence_norep` — without repetition the request is refused exactly when the element is
  already present, otherwise the same characterisation;
* `C07_bag_any_position`, `C07_characters_never`.
Partial: CHOICE groups and groups nested in sequences are covered by the correspondence run and by the direct oracle
of scenario `edits` (independent reading of the specification, every position of the range and its neighbours,
lenient reload), not by a theorem; so is "all … values are permitted in the file's version".
-/
import AutosarVerif.Lemmas.Range
import AutosarVerif.Model.ToySpec
import AutosarVerif.Lemmas.RangeGroups
import AutosarVerif.Lemmas.RangeGroupsReach
import AutosarVerif.Lemmas.MergeKeeps
import AutosarVerif.Lemmas.MergeKeepsWitness

namespace AV.C07
open AV.W

theorem C07_create_at_iff_in_range (S : Spec) (V : Env) (w : World) (p name pos k : Nat) (c : List (Hdr × Items))
    (ver lo hi : Nat) (ety : ETy) (idx : List Nat)
    (hl : locate w p = some (k, c)) (hv : minVersion V (w.models[k]!) c = some ver)
    (hr : insertRange S (lastOf c).1 (lastOf c).2 name ver = some (lo, hi))
    (hf : S.findSub (lastOf c).1.ety.typ name ver = some (ety, idx)) (hn : S.isNamedIn ety.typ ver = false) :
    (opCreate S V w p name (some pos)).2 ≠ .err ↔ (lo ≤ pos ∧ pos ≤ hi) := by
  unfold opCreate
  simp only [hl, hv, hr, hf, hn, Option.getD_some]
  by_cases hpos : lo ≤ pos ∧ pos ≤ hi
  · simp [hpos]
  · simp [hpos]

/-- flat sequence, repetition allowed -/
theorem C07_range_exact_flat_sequence (S : Spec) (h : Hdr) (kids : Items) (name ver : Nat) (e : ETy) (newIdx : List Nat)
    (keys : List (List Nat))
    (hmode : S.mode h.ety.typ = .sequence) (hfind : S.findSub h.ety.typ name ver = some (e, newIdx))
    (hflat : FlatSeq S h.ety.typ ver newIdx kids keys) (hord : InOrder cmpIdx keys)
    (hrep : repAllowed S h.ety.typ newIdx = true) :
    ∃ lo hi, insertRange S h kids name ver = some (lo, hi) ∧
      ∀ p, p ≤ keys.length → ((lo ≤ p ∧ p ≤ hi) ↔ Fits cmpIdx keys p newIdx) := by
  obtain ⟨lo, hi, h1, h2⟩ := seqScan_range_exact cmpIdx_laws newIdx keys hord
  refine ⟨lo, hi, ?_, h2⟩
  unfold insertRange
  simp only [hmode, hfind, reduceCtorEq, if_false, false_or]
  rw [rangeScan_eq_seqScan S h.ety.typ ver newIdx kids keys hflat, hrep]
  exact h1

/-- flat sequence, repetition not allowed: refused exactly when the element is already there -/
theorem C07_conflict_iff_present (S : Spec) (h : Hdr) (kids : Items) (name ver : Nat) (e : ETy) (newIdx : List Nat)
    (keys : List (List Nat))
    (hmode : S.mode h.ety.typ = .sequence) (hfind : S.findSub h.ety.typ name ver = some (e, newIdx))
    (hflat : FlatSeq S h.ety.typ ver newIdx kids keys) (hord : InOrder cmpIdx keys)
    (hrep : repAllowed S h.ety.typ newIdx = false) :
    insertRange S h kids name ver = none ↔ ∃ x ∈ keys, cmpIdx newIdx x = .eq := by
  unfold insertRange
  simp only [hmode, hfind, reduceCtorEq, if_false, false_or]
  rw [rangeScan_eq_seqScan S h.ety.typ ver newIdx kids keys hflat, hrep]
  exact seqScan_none_iff cmpIdx_laws newIdx keys hord 0 0 0

theorem C07_range_exact_flat_sequence_norep (S : Spec) (h : Hdr) (kids : Items) (name ver : Nat) (e : ETy)
    (newIdx : List Nat) (keys : List (List Nat))
    (hmode : S.mode h.ety.typ = .sequence) (hfind : S.findSub h.ety.typ name ver = some (e, newIdx))
    (hflat : FlatSeq S h.ety.typ ver newIdx kids keys) (hord : InOrder cmpIdx keys)
    (hrep : repAllowed S h.ety.typ newIdx = false) (lo hi : Nat)
    (hres : insertRange S h kids name ver = some (lo, hi)) :
    ∀ p, p ≤ keys.length → ((lo ≤ p ∧ p ≤ hi) ↔ Fits cmpIdx keys p newIdx) := by
  unfold insertRange at hres
  simp only [hmode, hfind, reduceCtorEq, if_false, false_or] at hres
  rw [rangeScan_eq_seqScan S h.ety.typ ver newIdx kids keys hflat, hrep] at hres
  exact seqScan_range_exact_norep cmpIdx_laws newIdx keys hord lo hi hres

theorem C07_bag_any_position (S : Spec) (h : Hdr) (kids : Items) (name ver : Nat) (x : ETy × List Nat)
    (hmode : S.mode h.ety.typ = .bag ∨ S.mode h.ety.typ = .mixed) (hfind : S.findSub h.ety.typ name ver = some x) :
    insertRange S h kids name ver = some (0, kids.length) := by
  unfold insertRange
  rcases hmode with hm | hm <;> simp [hm, hfind]

theorem C07_characters_never (S : Spec) (h : Hdr) (kids : Items) (name ver : Nat)
    (hmode : S.mode h.ety.typ = .characters) : insertRange S h kids name ver = none := by
  unfold insertRange; simp [hmode]

/-! non-vacuity on the toy specification: root <R> = sequence (A?, B*), content [B] -/

def hdr (id name typ : Nat) : Hdr :=
  { id := id, name := name, ety := ⟨name - 100, typ⟩, parent := .elem 0, attrs := [], files := [], comment := none }

-- A (index path [0]) goes before the B; a second B (index path [1]) before or after the first
example : insertRange toySpec (hdr 0 100 0) (.elem (hdr 1 102 2) .nil .nil) 101 1 = some (0, 0) := by decide
example : insertRange toySpec (hdr 0 100 0) (.elem (hdr 1 102 2) .nil .nil) 102 1 = some (0, 1) := by decide
-- a second A is refused
example : insertRange toySpec (hdr 0 100 0) (.elem (hdr 1 101 1) .nil .nil) 101 1 = none := by decide
example : InOrder cmpIdx [[0], [1], [1]] := by simp [InOrder, cmpIdx]
example : Fits cmpIdx [[1]] 0 [0] ∧ ¬ Fits cmpIdx [[1]] 1 [0] := by simp [Fits, InOrder, cmpIdx]


/-! ### added in the third session: statements proved in the lemma files, restated here by name
(`type_of%` keeps the statement identical to the lemma; the signature is quoted in the comment) -/

/-- **nested groups and CHOICE groups** (`Lemmas/RangeGroups.lean`; `OrderedKids` = children known to the type and pairwise in specification order by their full index paths, `Allowed` = found in the version, no conflict with an exclusive alternative, multiplicity not exhausted): a range is reported exactly when the new element is allowed
`theorem insertRange_isSome_iff (h : Hdr) (kids : Items) (name ver : Nat) (hord : OrderedKids S h.ety.typ ver kids) : (insertRange S h kids name ver).isSome ↔ Allowed S h kids name ver` -/
theorem C07_range_reported_iff_allowed : type_of% @AV.W.insertRange_isSome_iff := @AV.W.insertRange_isSome_iff

/-- … and then the range is exactly the set of positions at which the insertion keeps `OrderedKids`, for arbitrary nesting below a SEQUENCE or CHOICE parent
`theorem insertRange_range_exact (h : Hdr) (kids : Items) (name ver : Nat) (hmode : S.mode h.ety.typ = .sequence ∨ S.mode h.ety.typ = .choice) (hord : OrderedKids S h.ety.typ ver kids) (lo hi : Nat) (hr : insertRange S h kids name ver = some (lo, hi)) (nh : Hdr) (nk : Items) (hname : nh.name = name) : ∀ p, p ≤ kids.length → ((lo ≤ p ∧ p ≤ hi) ↔ OrderedKids S h.ety.typ ver (kids.insertAt (fun r => .elem nh nk r) p))` -/
theorem C07_range_exact_nested_groups : type_of% @AV.W.insertRange_range_exact := @AV.W.insertRange_range_exact

/-- … for any parent mode, for specifications in which no BAG / MIXED group contains a group (`BagFlat`; without it `C07_obs_bag_parent_not_scanned`)
`theorem insertRange_range_exact_all (hB : BagFlat S) (h : Hdr) (kids : Items) (name ver : Nat) (hord : OrderedKids S h.ety.typ ver kids) (lo hi : Nat) (hr : insertRange S h kids name ver = some (lo, hi)) (nh : Hdr) (nk : Items) (hname : nh.name = name) : ∀ p, p ≤ kids.length → ((lo ≤ p ∧ p ≤ hi) ↔ OrderedKids S h.ety.typ ver (kids.insertAt (fun r => .elem nh nk r) p))` -/
theorem C07_range_exact_any_parent : type_of% @AV.W.insertRange_range_exact_all := @AV.W.insertRange_range_exact_all

/-- `theorem opCreate_ok_iff_keeps_order (V : Env) (hB : BagFlat S) (w : World) (p name pos k : Nat) (c : List (Hdr × Items)) (ver lo hi : Nat) (ety : ETy) (idx : List Nat) (hl : locate w p = some (k, c)) (hv : minVersion V (w.models[k]!) c = some ver) (hr : insertRange S (lastOf c).1 (lastOf c).2 name ver = some (lo, hi)) (hf : S.findSub (lastOf c).1.ety.typ name ver = some (ety, idx)) (hn : S.isNamedIn ety.typ ver = false) (hord : OrderedKids S (lastOf c).1.ety.typ ver (lastOf c).2) (hp : pos ≤ (lastOf c).2.length) (nh : Hdr) (nk : Items) (hname : nh.name = name) : (opCreate S V w p name (some pos)).2 ≠ .err ↔ OrderedKids S (lastOf c).1.ety.typ ver ((lastOf c).2.insertAt (fun r => .elem nh nk r) pos)` -/
theorem C07_create_at_iff_keeps_order : type_of% @AV.W.opCreate_ok_iff_keeps_order := @AV.W.opCreate_ok_iff_keeps_order

/-- `list_valid_sub_elements` marks a name as allowed exactly when a range is reported for it
`theorem valid_allowed_iff (h : Hdr) (kids : Items) (nm ver : Nat) : (∃ named, (nm, named, true) ∈ validEntries S h kids ver) ↔ (insertRange S h kids nm ver).isSome` -/
theorem C07_allowed_list_is_exact : type_of% @AV.W.valid_allowed_iff := @AV.W.valid_allowed_iff

/-- every tree built by any guarded history of the core operations with files of ONE version is in specification order (`WOrdered`); across versions the index paths of 17 (type, name) pairs differ, `C07_obs_order_depends_on_version`
`theorem run_wordered_uniform (hH : IdxHyp S V ver) (hR : RefWF S) (hB : BagFlat S) (hsingle : ∀ v, v &&& ver = v → v = 0 ∨ v = ver) (ops : List Op) (hops : ∀ op ∈ ops, OpOk S ver op) : WOrdered S ver (run S V rootAttrs ops)` -/
theorem C07_reachable_states_in_specification_order : type_of% @AV.W.run_wordered_uniform := @AV.W.run_wordered_uniform

/-- `theorem obs_unknown_child_blocks_append : insertRange grpSpec (gh 0 100 0) (gk [101, 555]) 107 1 = some (1, 1) ∧ insertRange grpSpec (gh 0 100 0) (gk [101]) 107 1 = some (1, 1) ∧ insertRange grpSpec (gh 0 100 0) (gk [555]) 107 1 = some (0, 0)` -/
theorem C07_obs_unknown_child_blocks_append : type_of% @AV.W.obs_unknown_child_blocks_append := @AV.W.obs_unknown_child_blocks_append

/-- `theorem obs_bag_parent_not_scanned : insertRange grpSpec (gh 0 100 13) (gk [104]) 103 1 = some (0, 1) ∧ ¬ OrderedKids grpSpec 13 1 (gk [104, 103]) ∧ insertRange grpSpec (gh 0 100 13) (gk [103]) 103 1 = some (0, 1) ∧ ¬ OrderedKids grpSpec 13 1 (gk [103, 103])` -/
theorem C07_obs_bag_parent_not_scanned : type_of% @AV.W.obs_bag_parent_not_scanned := @AV.W.obs_bag_parent_not_scanned

/-- `theorem obs_order_depends_on_version : OrderedKids cexSpec 0 1 (.elem (cexHdr 1 999 5) .nil (.elem (cexHdr 2 102 5) .nil .nil)) ∧ ¬ OrderedKids cexSpec 0 2 (.elem (cexHdr 1 999 5) .nil (.elem (cexHdr 2 102 5) .nil .nil))` -/
theorem C07_obs_order_depends_on_version : type_of% @AV.W.obs_order_depends_on_version := @AV.W.obs_order_depends_on_version


/-! ### added at the end of the third session (proof pack LM3): restated by name
(`type_of%` keeps the statement identical to the lemma; the signature is quoted in the comment) -/

/-- a successful `create_sub_element` made an element the parent's type permits in the version `min_version` returns, at a position of the reported range
`theorem opCreate_ok_permitted (w : World) (p name : Nat) (pos? : Option Nat) (s : String) (hok : (opCreate S V w p name pos?).2 = .ok s) : ∃ k c ver ety idx, locate w p = some (k, c) ∧ minVersion V (w.models[k]!) c = some ver ∧ S.findSub (lastOf c).1.ety.typ name ver = some (ety, idx) ∧ S.isNamedIn ety.typ ver = false ∧ (insertRange S (lastOf c).1 (lastOf c).2 name ver).isSome ∧ s = s!"e{w.nextId}"` -/
theorem C07_created_element_is_permitted_in_the_lowest_version : type_of% @AV.W.opCreate_ok_permitted := @AV.W.opCreate_ok_permitted

/-- `theorem opNamed_ok_permitted (w : World) (p name : Nat) (item : Bytes) (pos? : Option Nat) (s : String) (hok : (opNamed S V w p name item pos?).2 = .ok s) : ∃ k c ver ety idx, locate w p = some (k, c) ∧ minVersion V (w.models[k]!) c = some ver ∧ S.findSub (lastOf c).1.ety.typ name ver = some (ety, idx) ∧ S.isNamedIn ety.typ ver = true ∧ (insertRange S (lastOf c).1 (lastOf c).2 name ver).isSome ∧ s = s!"e{w.nextId} e{w.nextId + 1}"` -/
theorem C07_created_named_element_is_permitted_in_the_lowest_version : type_of% @AV.W.opNamed_ok_permitted := @AV.W.opNamed_ok_permitted

/-- **negation witness = known finding c07:content-below-mixed-version-file-set-checked-against-lowest-version-only**: a reachable world with files of versions 1 and 2; the create succeeds; the new element is in the view of both files and is not permitted in version 2
`theorem mixed_version_finding : (c07W.models.map fun m => m.files.map fun f => (f.id, f.version)) = [[(0, 1), (1, 2)]] ∧ -- the parent: type 1, version the create is checked against: 1 ((locate c07W 1).map fun kc => ((lastOf kc.2).1.ety.typ, effective kc.2, minVersion nameEnv c07W.models[kc.1]! kc.2)) = some (1, [0, 1], some 1) ∧ (opCreate c07Spec nameEnv c07W 1 102 none).2 = .ok "e2" ∧ -- the created element (id, name, local file set) and its effective file set: f1 is in it (c07W'.models.map fun m => m.rootItems.hdrs.map fun h => (h.id, h.name, h.files)) = [[(0, 100, [0, 1]), (1, 101, []), (2, 102, [])]] ∧ ((locate c07W' 2).map fun kc => effective kc.2) = some [0, 1] ∧ -- permitted in version 1, NOT permitted in version 2 (c07Spec.findSub 1 102 1).isSome = true ∧ c07Spec.findSub 1 102 2 = none` -/
theorem C07_witness_content_checked_against_lowest_version_only : type_of% @AV.W.LM3.MixedVer.mixed_version_finding := @AV.W.LM3.MixedVer.mixed_version_finding

end AV.C07
