/-
C07 — What the editing API builds conforms to the specification the loader enforces.

Property text (the part a theorem can carry): "A sub-element can be created at position p exactly when p lies in
the reported insertion range, that range is exactly the set of positions that keep the sub-elements in
specification order, and exactly the sub-elements reported as currently allowed can be created."

Model: `insertRange` / `rangeScan` (`Model/WorldOps.lean` = `calc_element_insert_range`), `opCreate` / `opNamed`
(= `create_[named_]sub_element[_at]`), `qValid` (= `list_valid_sub_elements`); the driver answers the `range`,
`valid`, `create … <pos>` requests of the world protocol with them and the answers are compared with the library.

Proved for all specifications, parents and contents:
* `C07_create_at_iff_in_range` — creation at `pos` succeeds exactly when `pos` lies in the reported range;
* `C07_range_exact_flat_sequence` — for a parent whose children and the new element lie in one SEQUENCE group, with the
  children in specification order and repetition allowed: the reported range is exactly the set of positions at which
  the new element keeps the children in specification order; `C07_conflict_iff_present` /
  `C07_range_exact_flat_sequence_norep` — without repetition the request is refused exactly when the element is
  already present, otherwise the same characterisation;
* `C07_bag_any_position`, `C07_characters_never`.
Partial: CHOICE groups and groups nested in sequences are covered by the correspondence run and by the direct oracle
of scenario `edits` (independent reading of the specification, every position of the range and its neighbours,
lenient reload), not by a theorem; so is "all … values are permitted in the file's version".
-/
import AutosarVerif.Lemmas.Range
import AutosarVerif.Model.ToySpec

namespace AV.C07
open AV.W

theorem C07_create_at_iff_in_range (S : Spec) (V : Env) (w : World) (p name pos k : Nat) (c : List (Hdr × Items))
    (ver lo hi : Nat) (ety : ETy) (idx : List Nat)
    (hl : locate w p = some (k, c)) (hv : minVersion V (w.models[k]!) c = some ver)
    (hr : insertRange S (lastOf c).1 (lastOf c).2 name ver = some (lo, hi))
    (hf : S.findSub (lastOf c).1.ety.typ name ver = some (ety, idx)) (hn : S.isNamedIn ety.typ ver = false) :
    (opCreate S V w p name (some pos)).2 ≠ .err ↔ (lo ≤ pos ∧ pos ≤ hi) := by
  unfold opCreate
  simp only [hl, hv, hr, hf, hn, Option.getD_some]
  by_cases hpos : lo ≤ pos ∧ pos ≤ hi
  · simp [hpos]
  · simp [hpos]

/-- flat sequence, repetition allowed -/
theorem C07_range_exact_flat_sequence (S : Spec) (h : Hdr) (kids : Items) (name ver : Nat) (e : ETy) (newIdx : List Nat)
    (keys : List (List Nat))
    (hmode : S.mode h.ety.typ = .sequence) (hfind : S.findSub h.ety.typ name ver = some (e, newIdx))
    (hflat : FlatSeq S h.ety.typ ver newIdx kids keys) (hord : InOrder cmpIdx keys)
    (hrep : repAllowed S h.ety.typ newIdx = true) :
    ∃ lo hi, insertRange S h kids name ver = some (lo, hi) ∧
      ∀ p, p ≤ keys.length → ((lo ≤ p ∧ p ≤ hi) ↔ Fits cmpIdx keys p newIdx) := by
  obtain ⟨lo, hi, h1, h2⟩ := seqScan_range_exact cmpIdx_laws newIdx keys hord
  refine ⟨lo, hi, ?_, h2⟩
  unfold insertRange
  simp only [hmode, hfind, reduceCtorEq, if_false, false_or]
  rw [rangeScan_eq_seqScan S h.ety.typ ver newIdx kids keys hflat, hrep]
  exact h1

/-- flat sequence, repetition not allowed: refused exactly when the element is already there -/
theorem C07_conflict_iff_present (S : Spec) (h : Hdr) (kids : Items) (name ver : Nat) (e : ETy) (newIdx : List Nat)
    (keys : List (List Nat))
    (hmode : S.mode h.ety.typ = .sequence) (hfind : S.findSub h.ety.typ name ver = some (e, newIdx))
    (hflat : FlatSeq S h.ety.typ ver newIdx kids keys) (hord : InOrder cmpIdx keys)
    (hrep : repAllowed S h.ety.typ newIdx = false) :
    insertRange S h kids name ver = none ↔ ∃ x ∈ keys, cmpIdx newIdx x = .eq := by
  unfold insertRange
  simp only [hmode, hfind, reduceCtorEq, if_false, false_or]
  rw [rangeScan_eq_seqScan S h.ety.typ ver newIdx kids keys hflat, hrep]
  exact seqScan_none_iff cmpIdx_laws newIdx keys hord 0 0 0

theorem C07_range_exact_flat_sequence_norep (S : Spec) (h : Hdr) (kids : Items) (name ver : Nat) (e : ETy)
    (newIdx : List Nat) (keys : List (List Nat))
    (hmode : S.mode h.ety.typ = .sequence) (hfind : S.findSub h.ety.typ name ver = some (e, newIdx))
    (hflat : FlatSeq S h.ety.typ ver newIdx kids keys) (hord : InOrder cmpIdx keys)
    (hrep : repAllowed S h.ety.typ newIdx = false) (lo hi : Nat)
    (hres : insertRange S h kids name ver = some (lo, hi)) :
    ∀ p, p ≤ keys.length → ((lo ≤ p ∧ p ≤ hi) ↔ Fits cmpIdx keys p newIdx) := by
  unfold insertRange at hres
  simp only [hmode, hfind, reduceCtorEq, if_false, false_or] at hres
  rw [rangeScan_eq_seqScan S h.ety.typ ver newIdx kids keys hflat, hrep] at hres
  exact seqScan_range_exact_norep cmpIdx_laws newIdx keys hord lo hi hres

theorem C07_bag_any_position (S : Spec) (h : Hdr) (kids : Items) (name ver : Nat) (x : ETy × List Nat)
    (hmode : S.mode h.ety.typ = .bag ∨ S.mode h.ety.typ = .mixed) (hfind : S.findSub h.ety.typ name ver = some x) :
    insertRange S h kids name ver = some (0, kids.length) := by
  unfold insertRange
  rcases hmode with hm | hm <;> simp [hm, hfind]

theorem C07_characters_never (S : Spec) (h : Hdr) (kids : Items) (name ver : Nat)
    (hmode : S.mode h.ety.typ = .characters) : insertRange S h kids name ver = none := by
  unfold insertRange; simp [hmode]

/-! non-vacuity on the toy specification: root <R> = sequence (A?, B*), content [B] -/

def hdr (id name typ : Nat) : Hdr :=
  { id := id, name := name, ety := ⟨name - 100, typ⟩, parent := .elem 0, attrs := [], files := [], comment := none }

-- A (index path [0]) goes before the B; a second B (index path [1]) before or after the first
example : insertRange toySpec (hdr 0 100 0) (.elem (hdr 1 102 2) .nil .nil) 101 1 = some (0, 0) := by decide
example : insertRange toySpec (hdr 0 100 0) (.elem (hdr 1 102 2) .nil .nil) 102 1 = some (0, 1) := by decide
-- a second A is refused
example : insertRange toySpec (hdr 0 100 0) (.elem (hdr 1 101 1) .nil .nil) 101 1 = none := by decide
example : InOrder cmpIdx [[0], [1], [1]] := by simp [InOrder, cmpIdx]
example : Fits cmpIdx [[1]] 0 [0] ∧ ¬ Fits cmpIdx [[1]] 1 [0] := by simp [Fits, InOrder, cmpIdx]

end AV.C07
