/-
C11 — Failed operations have no effect.

Property text: "Any call that returns an error - including a load rejected for a syntax error, a merge
conflict or overlapping paths - leaves every observable aspect of the model unchanged: the element
tree with all values, the list of files and file membership, path lookups and referrer lists."

Model: the operations of `Model/WorldOps*.lean` return the new world and an answer; the world holds
everything observable (trees with values, attributes, comments, file sets; files; path index; reverse
reference map).  Proved, for every world and all arguments: an `err` answer comes with the SAME world,
for create, named create, remove, rename, set/remove character data, set attribute (both forms),
insert/remove text item, deep copy, add_to_file, remove_from_file and set_version; a load that the MODEL rejects (tokenizer or
parser error, duplicate file name, a path with two kinds of element) leaves the world as it was (`C11_rejected_load`); a merge that
fails half way does NOT in the library (known finding c11:failed-load-partial-merge) and is outside the model.
The same for the step function itself (`C11_every_core_operation`): whichever of the seventeen core operations of
`Model/Step.lean` the driver is asked to perform (new model, create_file, create / create_named, remove, set / remove
character data, the attribute calls, comment, text items, add_to_file, remove_from_file, remove_file, set_version), in ANY
world, a refusal comes with the world unchanged and is printed as `err`.
Not covered by a theorem, and said so: `set_reference_target` and `move_element_here` are the two
places where the Rust code mutates before its last fallible step (DEST attribute and reverse map
before the final `set_character_data`; unlinking before `make_unique_item_name`); the model reproduces
this, so the frame statement is false of the model exactly where it is false of the code, and whether
those late failures are reachable is searched by the oracle run. Loads (lexer/parser/merge/overlap
failures) are covered by the merge scenario on the real library.
-/
import AutosarVerif.Lemmas.WorldOps
import AutosarVerif.Lemmas.FileOps
import AutosarVerif.Lemmas.Compat
import AutosarVerif.Model.Load
import AutosarVerif.Lemmas.StepFrame
import AutosarVerif.Lemmas.StepX
import AutosarVerif.Lemmas.MoveOp
import AutosarVerif.Lemmas.StepY
import AutosarVerif.Lemmas.MoveFull
import AutosarVerif.Lemmas.Dup

namespace AV.C11
open AV.W
variable (S : Spec) (V : Env)

theorem C11_create (w : World) (p n : Nat) (pos : Option Nat) :
    (opCreate S V w p n pos).2 = .err → (opCreate S V w p n pos).1 = w := opCreate_err_frame S V w p n pos
theorem C11_create_named (w : World) (p n : Nat) (nm : Bytes) (pos : Option Nat) :
    (opNamed S V w p n nm pos).2 = .err → (opNamed S V w p n nm pos).1 = w := opNamed_err_frame S V w p n nm pos
theorem C11_remove (w : World) (p c : Nat) :
    (opRemove S w p c).2 = .err → (opRemove S w p c).1 = w := opRemove_err_frame S w p c
theorem C11_rename (w : World) (x : Nat) (nm : Bytes) :
    (opRename S V w x nm).2 = .err → (opRename S V w x nm).1 = w := opRename_err_frame S V w x nm
theorem C11_set_character_data (w : World) (x : Nat) (v : CDv) :
    (opCData S V w x v).2 = .err → (opCData S V w x v).1 = w := opCData_err_frame S V w x v
theorem C11_remove_character_data (w : World) (x : Nat) :
    (opRmCData S w x).2 = .err → (opRmCData S w x).1 = w := opRmCData_err_frame S w x
theorem C11_set_attribute (w : World) (x a : Nat) (v : CDv) :
    (opAttr S V w x a v).2 = .err → (opAttr S V w x a v).1 = w := opAttr_err_frame S V w x a v
theorem C11_set_attribute_string (w : World) (x a : Nat) (s : Bytes) :
    (opAttrS S V w x a s).2 = .err → (opAttrS S V w x a s).1 = w := opAttrS_err_frame S V w x a s
theorem C11_insert_text (w : World) (x pos : Nat) (s : Bytes) :
    (opInsText S w x pos s).2 = .err → (opInsText S w x pos s).1 = w := opInsText_err_frame S w x pos s
theorem C11_remove_text (w : World) (x pos : Nat) :
    (opRmText S w x pos).2 = .err → (opRmText S w x pos).1 = w := opRmText_err_frame S w x pos
theorem C11_copy (w : World) (p x : Nat) (pos : Option Nat) :
    (opCopy S V w p x pos).2 = .err → (opCopy S V w p x pos).1 = w := opCopy_err_frame S V w p x pos

theorem C11_add_to_file (w : World) (x f : Nat) :
    (opAddFile S w x f).2 = .err → (opAddFile S w x f).1 = w := opAddFile_err_frame S w x f
theorem C11_remove_from_file (w : World) (x f : Nat) :
    (opRmFromFile S w x f).2 = .err → (opRmFromFile S w x f).1 = w := opRmFromFile_err_frame S w x f
theorem C11_set_version (w : World) (f ver : Nat) :
    (opSetVersion S w f ver).2 = .err → (opSetVersion S w f ver).1 = w := opSetVersion_err_frame S w f ver
/-- a load that the model does not accept leaves the world as it was -/
theorem C11_rejected_load (nmAutosar : Nat) (w : World) (k : Nat) (name : Bytes) (strict : Bool) (buf : Bytes) (t : String) :
    (opLoad S V nmAutosar w k name strict buf).2 = .no t → (opLoad S V nmAutosar w k name strict buf).1 = w := by
  unfold opLoad
  split
  · intro _; rfl
  · split
    · intro _; rfl
    · dsimp only
      split
      · intro _; rfl
      · split
        · intro h; cases h
        · split
          · intro _; rfl
          · split
            · intro _; rfl
            · intro h; cases h

/-! non-vacuity: on the empty world every one of these calls does answer `err` -/
example : (opCreate S V { models := [], nextId := 0, nextFile := 0, dead := [] } 0 0 none).2 = .err := by
  simp [opCreate, locate]

/-- failed operations have no effect, for every operation of the step function and every world -/
theorem C11_every_core_operation (rootAttrs : List (Nat × CDv)) (w : World) (op : Op) (h : opRefuses S V w op) :
    (applyOp S V rootAttrs w op).1 = w ∧ (applyOp S V rootAttrs w op).2 = "err" :=
  ⟨applyOp_err_frame S V rootAttrs w op h, applyOp_answer_err S V rootAttrs w op h⟩

/-- **failed operations have no effect, for the larger step function** (`applyOpX`: the core operations, `set_item_name`,
`set_reference_target`, `sort`): a refusal returns the world unchanged and is printed `err`.  For `set_reference_target` this
holds since the repair of defect c11:set-reference-target-late-failure (before it the model's last branch answered `err` with
DEST set and the reverse map updated — which is how the defect was found) -/
theorem C11_every_operation_of_the_larger_alphabet (rootAttrs : List (Nat × CDv)) (w : World) (op : OpX) (h : opXRefuses S V w op) :
    (applyOpX S V rootAttrs w op).1 = w ∧ (applyOpX S V rootAttrs w op).2 = "err" :=
  ⟨applyOpX_err_frame S V rootAttrs w op h, applyOpX_answer_err S V rootAttrs w op h⟩
theorem C11_set_reference_target (w : World) (x t : Nat) :
    (opSetRef S V w x t).2 = .err → (opSetRef S V w x t).1 = w := opSetRef_err_frame S V w x t


/-! ### added in the third session: statements proved in the lemma files, restated here by name
(`type_of%` keeps the statement identical to the lemma; the signature is quoted in the comment) -/

/-- `move_element_here` inside one model: a refusal leaves the world unchanged in every world with an exact index (kept under this name; since the repair of c11:move-fails-without-item-name the hypothesis `hw` is not needed any more: `C11_move_unconditional`; the former partial failure `NameFail` - identifiable by type but without item name - is refused before anything changes, and cannot occur in such a world anyway: `C11_move_name_failure_unreachable`)
`theorem opMove_err_frame_winv (vOk : Nat) (w : World) (hw : WInv S vOk w) (p x : Nat) (pos? : Option Nat) (h : (opMove S V w p x pos?).2 = .err) : (opMove S V w p x pos?).1 = w` -/
theorem C11_move : type_of% @AV.W.opMove_err_frame_winv := @AV.W.opMove_err_frame_winv

/-- `move_element_here` inside one model: a refusal leaves the world unchanged, in every world
`theorem opMove_err_frame (w : World) (p x : Nat) (pos? : Option Nat) (h : (opMove S V w p x pos?).2 = .err) : (opMove S V w p x pos?).1 = w` -/
theorem C11_move_unconditional : type_of% @AV.W.opMove_err_frame := @AV.W.opMove_err_frame

/-- `theorem nameFail_impossible (vOk : Nat) (w : World) (hw : WInv S vOk w) (p x : Nat) : ¬ NameFail S w p x` -/
theorem C11_move_name_failure_unreachable : type_of% @AV.W.nameFail_impossible := @AV.W.nameFail_impossible

/-- a refusal of ANY operation of `OpY` (incl. move and copy) in a reachable state leaves the world unchanged
`theorem reachY_err_frame (hH : IdxHyp S V vOk) (hR : RefWF S) (hv32 : vOk &&& 0xFFFFFFFF = vOk) {w : World} (hr : ReachY S V vOk rootAttrs w) (op : OpY) (h : opYRefuses S V w op) : (applyOpY S V rootAttrs w op).1 = w` -/
theorem C11_refusals_in_reachable_states_incl_move_and_copy : type_of% @AV.W.reachY_err_frame := @AV.W.reachY_err_frame


/-! ### added later in the third session (loads, cross-model moves, merge order): restated by name
(`type_of%` keeps the statement identical to the lemma; the signature is quoted in the comment) -/

/-- `move_element_here` inside one model OR between models (`opMoveAny`, what the driver runs): a refusal leaves the world unchanged, unconditionally (since the repairs e563568 and c4f0cbe)
`theorem opMoveAny_err_frame (w : World) (p x : Nat) (pos? : Option Nat) (h : (opMoveAny S V w p x pos?).2 = .err) : (opMoveAny S V w p x pos?).1 = w` -/
theorem C11_move_any : type_of% @AV.W.opMoveAny_err_frame := @AV.W.opMoveAny_err_frame


/-! ### added at the end of the third session (proof pack DU): restated by name
(`type_of%` keeps the statement identical to the lemma; the signature is quoted in the comment) -/

/-- `duplicate()`: any answer other than ok returns the world unchanged, unconditionally
`theorem opDup_err_frame (w : World) (k : Nat) (h : ∀ p, (opDup S V rootAttrs w k).2 ≠ .ok p) : (opDup S V rootAttrs w k).1 = w` -/
theorem C11_duplicate : type_of% @AV.W.opDup_err_frame := @AV.W.opDup_err_frame

end AV.C11
