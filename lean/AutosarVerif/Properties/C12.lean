/-
C12 — Single-threaded use never panics, hangs or reports a spurious lock conflict.

Property text: "In single-threaded use no sequence of public calls - with any handles (including handles to
deleted elements, removed files or elements of other models) and any argument values, on models loaded
strictly or leniently - panics, overflows the stack or blocks. In particular no call reports that a parent
element is locked when no other operation is in progress."

What is proved (all about models; the real code is tied by the runs):
* the specification tables the lookups index into are in range and their group nesting is bounded
  (`C12_spec_tables_in_range`, regenerated obligations): the `unwrap`/index expressions of the specification
  lookups have nothing to fail on, and the recursive lookups terminate at the bounded depth;
* tokenising never runs out of its input-bounded fuel and terminates (`C12_tokenizer_total`, C02);
* every modelled editing operation is a total function returning an answer — on `err` with the world
  unchanged (C11) — including on stale handles (the model keeps removed elements' headers);
* lock part: a recorded lock program that passes `Locks.runsAlone` is executed by one thread without blocking
  and without a failing timed acquisition; the programs of the public operations are re-recorded from the real
  code on every run (hook H2) and checked (`Gen/LockPrograms.lean`, when the shim is applied).
Partial: "never panics" of the real code is an oracle matter (catch_unwind around every request of every
history, watchdog for hangs; known finding `c12:move-to-ancestor-parent-locked`).
-/
import AutosarVerif.Properties.C18
import AutosarVerif.Properties.C02
import AutosarVerif.Properties.C11
import AutosarVerif.Model.Locks

namespace AV.C12
open AV.Locks

theorem C12_spec_tables_in_range :
    Gen.SpecData.packed.rangesOk = true ∧ Gen.SpecData.packed.allDepthOk = true := C18.C18_spec_tables_wellformed

theorem C12_tokenizer_total (buf : Bytes) : (Lex.lex buf).2.2 = true := C02.C02_tokenizing_terminates buf

/-- a thread that already holds a lock for writing cannot take it again: the check rejects such programs -/
theorem C12_reentrant_write_rejected (l : Nat) (rest : Prog) :
    runsAlone (.acq l .write :: .acq l .read :: rest) = false := by
  simp [runsAlone, runAlone]

/-! non-vacuity: a well-bracketed downward program passes, the self-deadlock shape of finding #22 does not -/
example : runsAlone [.acq 0 .read, .acq 1 .write, .rel 1 .write, .rel 0 .read] = true := by decide
example : runsAlone [.acq 1 .write, .acq 1 .read, .rel 1 .read, .rel 1 .write] = false := by decide

end AV.C12
