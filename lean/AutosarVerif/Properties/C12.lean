/-
C12 — Single-threaded use never panics, hangs or reports a spurious lock conflict.

Property text: "In single-threaded use no sequence of public calls - with any handles (including handles to
deleted elements, removed files or elements of other models) and any argument values, on models loaded
strictly or leniently - panics, overflows the stack or blocks. In particular no call reports that a parent
element is locked when no other operation is in progress."

What is proved (all about models; the real code is tied by the runs):
* the specification tables the lookups index into are in range and their group nesting is bounded
  (`C12_spec_tables_in_range`, regenerated obligations): the `unwrap`/index expressions of the specification
  lookups have nothing to fail on, and the recursive lookups terminate at the bounded depth;
* tokenising never runs out of its input-bounded fuel and terminates (`C12_tokenizer_total`, C02);
* every modelled editing operation is a total function returning an answer — on `err` with the world
  unchanged (C11) — including on stale handles (the model keeps removed elements' headers);
* lock part: a recorded lock program that passes `Locks.runsAlone` is executed by one thread without blocking
  and without a failing timed acquisition; the programs of the public operations are re-recorded from the real
  code on every run (hook H2) and checked (`Gen/LockPrograms.lean`, when the shim is applied).
Partial: "never panics" of the real code is an oracle matter (catch_unwind around every request of every
history, watchdog for hangs; known finding `c12:move-to-ancestor-parent-locked`).
-/
import AutosarVerif.Properties.C18
import AutosarVerif.Properties.C02
import AutosarVerif.Properties.C11
import AutosarVerif.Model.Locks
import AutosarVerif.Lemmas.NoPanic
import AutosarVerif.Lemmas.MergeNoPanic

namespace AV.C12
open AV.Locks

theorem C12_spec_tables_in_range :
    Gen.SpecData.packed.rangesOk = true ∧ Gen.SpecData.packed.allDepthOk = true := C18.C18_spec_tables_wellformed

theorem C12_tokenizer_total (buf : Bytes) : (Lex.lex buf).2.2 = true := C02.C02_tokenizing_terminates buf

/-- a thread that already holds a lock for writing cannot take it again: the check rejects such programs -/
theorem C12_reentrant_write_rejected (l : Nat) (rest : Prog) :
    runsAlone (.acq l .write :: .acq l .read :: rest) = false := by
  simp [runsAlone, runAlone]

/-! non-vacuity: a well-bracketed downward program passes, the self-deadlock shape of finding #22 does not -/
example : runsAlone [.acq 0 .read, .acq 1 .write, .rel 1 .write, .rel 0 .read] = true := by decide
example : runsAlone [.acq 1 .write, .acq 1 .read, .rel 1 .read, .rel 1 .write] = false := by decide


/-! ### added in the third session: statements proved in the lemma files, restated here by name
(`type_of%` keeps the statement identical to the lemma; the signature is quoted in the comment) -/

/-- **the panic sites of the modelled operations are unreachable** in every state reachable by a guarded history of the larger alphabet, for arbitrary arguments of the next request: `content[0] = …` on an empty content list in the reference-rewriting loops of `set_item_name` and `move_element_here` (a registered referrer always has content), `position(..).unwrap()` in `move_element_local` (the parent found by navigation lists the child), the last element of a navigation chain, the model index after `locate`
`theorem runX_no_modelled_panic (hH : IdxHyp S V vOk) (hR : RefWF S) (hv32 : vOk &&& 0xFFFFFFFF = vOk) (ops : List OpX) (hops : ∀ op ∈ ops, OpXOk S vOk op) : (∀ x nm, ¬ RenamePanics S V (runX S V rootAttrs ops) x nm) ∧ (∀ p x pos?, ¬ MovePanics S V (runX S V rootAttrs ops) p x pos?) ∧ (∀ x, ¬ MoveUnwrapFails (runX S V rootAttrs ops) x) ∧ (∀ p x k cx cp sph spk, locate (runX S V rootAttrs ops) x = some (k, cx) → locate (runX S V rootAttrs ops) p = some (k, cp) → cx.dropLast.getLast? = some (sph, spk) → sph.id = p → ∃ i, (lastOf cp).2.childPos x 0 = some i) ∧ (∀ x k c, locate (runX S V rootAttrs ops) x = some (k, c) → c ≠ [] ∧ c.getLast? = some (lastOf c) ∧ (lastOf c).1.id = x ∧ k < (runX S V rootAttrs ops).models.length ∧ (runX S V rootAttrs ops).models[k]? = some ((runX S V rootAttrs ops).models[k]!))` -/
theorem C12_no_modelled_panic_in_reachable_states : type_of% @AV.W.runX_no_modelled_panic := @AV.W.runX_no_modelled_panic

/-- `theorem opRename_never_indexes_empty (w : World) (hg : GInv S vOk w) (x : Nat) (nm : Bytes) : ¬ RenamePanics S V w x nm` -/
theorem C12_rename_never_indexes_empty_content : type_of% @AV.W.opRename_never_indexes_empty := @AV.W.opRename_never_indexes_empty

/-- `theorem opMove_never_indexes_empty (w : World) (hg : GInv S vOk w) (p x : Nat) (pos? : Option Nat) : ¬ MovePanics S V w p x pos?` -/
theorem C12_move_never_indexes_empty_content : type_of% @AV.W.opMove_never_indexes_empty := @AV.W.opMove_never_indexes_empty

/-- `theorem opMove_unwrap_never_fails (w : World) (x : Nat) : ¬ MoveUnwrapFails w x` -/
theorem C12_move_unwrap_never_fails : type_of% @AV.W.opMove_unwrap_never_fails := @AV.W.opMove_unwrap_never_fails

/-- the iterations the driver runs for `dfs` / `dfsf` never index the position stack out of range
`theorem dfsAll_never_oob (e : Hdr × Items) (maxDepth : Nat) : ¬ dfsAllMeetsOob e maxDepth` -/
theorem C12_dfs_iterator_never_out_of_range : type_of% @AV.W.dfsAll_never_oob := @AV.W.dfsAll_never_oob

/-- `theorem dfsFileAll_never_oob (f : Nat) (e : Hdr × Items) (maxDepth : Nat) : ¬ dfsFileAllMeetsOob f e maxDepth` -/
theorem C12_file_iterator_never_out_of_range : type_of% @AV.W.dfsFileAll_never_oob := @AV.W.dfsFileAll_never_oob


/-! ### added at the end of the third session (proof pack MP): restated by name
(`type_of%` keeps the statement identical to the lemma; the signature is quoted in the comment) -/

/-- **the `unwrap()` of `merge_element`** (`find_sub_element(name, u32::MAX)` for the names of two differing sub-elements): unreachable when the sub-elements of both sides are known to the parent type (an invariant of all histories for the model side, what the parser guarantees for the new file)
`theorem walk_no_panic (typ : Nat) (splitable : Bool) (allB : List (Hdr × Items)) : ∀ (fuel : Nat) (as : List (Nat × (Hdr × Items))) (bs : List (Hdr × Items)) (w : Walk), (∀ a ∈ as, S.findSub typ a.2.1.name 0xFFFFFFFF ≠ none) → (∀ b ∈ bs, S.findSub typ b.1.name 0xFFFFFFFF ≠ none) → walk S V typ splitable allB fuel as bs w ≠ .error .panic` -/
theorem C12_merge_walk_cannot_panic : type_of% @AV.W.walk_no_panic := @AV.W.walk_no_panic

/-- at every depth, with the fuel `load_buffer` passes (`kb.size < fuel`), given unique / disjoint ids and that paired elements have the same type (`TyBy`: the type is a function of parent type and name)
`theorem mergeElement_no_panic (g : Nat → Nat → Nat) (fver : Nat → Option Nat) (newFile minVerB : Nat) (fuel : Nat) : ∀ (ha : Hdr) (ka : Items) (files : List Nat) (kb : Items), kb.size < fuel → kidsKnownAt S ha ka → KidsKnown S ka → kidsKnownAt S ha kb → KidsKnown S kb → TyBy g ha.ety.typ ka → TyBy g ha.ety.typ kb → ka.ids.Nodup → (∀ x ∈ kb.ids, x ∉ ka.ids) → (mergeElement S V fver newFile minVerB fuel ha ka files kb).2 ≠ some .panic` -/
theorem C12_merge_cannot_panic : type_of% @AV.W.mergeElement_no_panic := @AV.W.mergeElement_no_panic

/-- `theorem mergeRes_no_panic (g : Nat → Nat → Nat) (m : Model) (fid : Nat) (name : Bytes) (kids : Items) (st : PM.PState) (hK : KidsKnown S m.rootItems) (hAb : kidsKnownAt S m.rootHdr kids) (hKb : KidsKnown S kids) (hTa : TyBy g m.rootHdr.ety.typ m.rootKids) (hTb : TyBy g m.rootHdr.ety.typ kids) (hn : m.rootKids.ids.Nodup) (hdisj : ∀ x ∈ kids.ids, x ∉ m.rootKids.ids) : (mergeRes S V m fid name kids st).2 ≠ some .panic` -/
theorem C12_merging_load_cannot_panic : type_of% @AV.W.mergeRes_no_panic := @AV.W.mergeRes_no_panic

/-- the typing hypothesis is necessary on a toy specification: a name whose type differs between two versions, with a child known to one of the two types only, makes the merge of files of those versions panic. In the real tables 281 (type, name) pairs have version-dependent types, and for every one of them the two types know the same sub-element names (scan of the library tables by a probe, not a Lean theorem), so the panic is not reachable there
`theorem tyGap_panics : (mergeElement tyGapSpec toyEnv (fun g => if g = 0 then some 1 else if g = 1 then some 2 else none) 1 2 10 tgRoot tgKa [0] tgKb).2 = some .panic` -/
theorem C12_witness_merge_panics_when_paired_types_differ : type_of% @AV.W.tyGap_panics := @AV.W.tyGap_panics

end AV.C12
