/-
C15 — Concurrent operations never deadlock.

Property text: "No interleaving of public operations executing concurrently on the same model from two or
more threads can leave a thread blocked forever: every call eventually returns, with a result or with the
documented parent-locked error."

Model: `Model/Locks.lean` — reader/writer locks with the fairness of `parking_lot` (a waiting writer blocks
new readers), lock programs (the lock events of one call, recorded from the real code by hook H2), threads
running programs, all interleavings.
Proved (`Lemmas/LocksOrder.lean`), for ANY number of threads and programs of ANY length:
* `C15_ordered_no_deadlock`: if every program takes its blocking locks in increasing order of a fixed order on
  locks (timed try-acquisitions are exempt) and releases what it takes, no reachable state is a deadlock;
* `C15_progress`, `C15_invariant_step`: the two halves (invariant preserved by every step; invariant implies
  some thread can move).
For concrete recorded programs, `Locks.noDeadlock` explores ALL interleavings (no preemption bound) and is
decided in the kernel per pair (`Gen/LockPairs.lean`, regenerated from the traces of the current code);
pairs that can deadlock are negation witnesses and are confirmed on real threads.
Partial: the crate does NOT follow the discipline (known findings `c15:*`, e.g. set_reference_target holds
element→model while check_references holds model→element); OS scheduling, `parking_lot` internals and the 10 ms
constant are outside the model.
-/
import AutosarVerif.Lemmas.LocksOrder

namespace AV.C15
open AV.Locks

theorem C15_ordered_no_deadlock (ps : List Prog)
    (hord : ∀ p, p ∈ ps → ordered p = true ∧ endsEmpty p [] = true) (s : Sys) (hr : Reach ps s) :
    isDeadlock s = false := ordered_no_deadlock ps hord s hr

theorem C15_progress (s : Sys) (hs : AllOk s) (hnf : finished s = false) : ∃ i s', stepTh s i = some s' :=
  progress s hs hnf

theorem C15_invariant_step (s : Sys) (i : Nat) (s' : Sys) (hs : AllOk s) (h : stepTh s i = some s') : AllOk s' :=
  step_ok s i s' hs h

/-! non-vacuity and the shape of the known deadlock -/
-- two readers of (model, element) in the same order satisfy the discipline …
def reader : Prog := [.acq 0 .read, .acq 1 .read, .rel 1 .read, .rel 0 .read]
example : ordered reader = true ∧ endsEmpty reader [] = true := by decide
example : noDeadlock [reader, reader] = true := by decide +kernel
-- … element-write-then-model-write against model-read-then-element-read does not, and the exhaustive search finds the deadlock
def writerUp : Prog := [.acq 1 .write, .acq 0 .write, .rel 0 .write, .rel 1 .write]
example : ordered writerUp = false := by decide
example : (deadlockSearch [writerUp, reader]).1.isSome = true := by decide +kernel

end AV.C15
