/-
C15 — Concurrent operations never deadlock.

Property text: "No interleaving of public operations executing concurrently on the same model from two or
more threads can leave a thread blocked forever: every call eventually returns, with a result or with the
documented parent-locked error."

Model: `Model/Locks.lean` — reader/writer locks with the fairness of `parking_lot` (a waiting writer blocks
new readers), lock programs (the lock events of one call, recorded from the real code by hook H2), threads
running programs, all interleavings.
Proved (`Lemmas/LocksOrder.lean`), for ANY number of threads and programs of ANY length:
* `C15_ordered_no_deadlock`: if every program takes its blocking locks in increasing order of a fixed order on
  locks (timed try-acquisitions are exempt) and releases what it takes, no reachable state is a deadlock;
* `C15_progress`, `C15_invariant_step`: the two halves (invariant preserved by every step; invariant implies
  some thread can move).
For concrete recorded programs, `Locks.noDeadlock` explores ALL interleavings (no preemption bound) and is
decided in the kernel per pair (`Gen/LockPairs.lean`, regenerated from the traces of the current code);
pairs that can deadlock are negation witnesses and are confirmed on real threads.
Partial: the crate does NOT follow the discipline (known findings `c15:*`, e.g. set_reference_target holds
element→model while check_references holds model→element); OS scheduling, `parking_lot` internals and the 10 ms
constant are outside the model.
-/
import AutosarVerif.Lemmas.LocksOrder
import AutosarVerif.Lemmas.LocksSearch

namespace AV.C15
open AV.Locks

theorem C15_ordered_no_deadlock (ps : List Prog)
    (hord : ∀ p, p ∈ ps → ordered p = true ∧ endsEmpty p [] = true) (s : Sys) (hr : Reach ps s) :
    isDeadlock s = false := ordered_no_deadlock ps hord s hr

theorem C15_progress (s : Sys) (hs : AllOk s) (hnf : finished s = false) : ∃ i s', stepTh s i = some s' :=
  progress s hs hnf

theorem C15_invariant_step (s : Sys) (i : Nat) (s' : Sys) (hs : AllOk s) (h : stepTh s i = some s') : AllOk s' :=
  step_ok s i s' hs h

/-! non-vacuity and the shape of the known deadlock -/
-- two readers of (model, element) in the same order satisfy the discipline …
def reader : Prog := [.acq 0 .read, .acq 1 .read, .rel 1 .read, .rel 0 .read]
example : ordered reader = true ∧ endsEmpty reader [] = true := by decide
example : noDeadlock [reader, reader] = true := by decide +kernel
-- … element-write-then-model-write against model-read-then-element-read does not, and the exhaustive search finds the deadlock
def writerUp : Prog := [.acq 1 .write, .acq 0 .write, .rel 0 .write, .rel 1 .write]
example : ordered writerUp = false := by decide
example : (deadlockSearch [writerUp, reader]).1.isSome = true := by decide +kernel


/-! ### added in the third session (proof packs LK, SR): restated by name
(`type_of%` keeps the statement identical to the lemma; the signature is quoted in the comment) -/

/-- **the exhaustive search means what it says (1)**: a state the search returns is reachable by the lock programs and is a deadlock (no thread can step, not all finished)
`theorem deadlockSearch_sound (ps : List Prog) (s : Sys) (b : Bool) (h : deadlockSearch ps = (some s, b)) : Reach ps s ∧ isDeadlock s = true` -/
theorem C15_search_found_deadlock_is_real : type_of% @AV.Locks.deadlockSearch_sound := @AV.Locks.deadlockSearch_sound

/-- **(2)**: when the search ends within its fuel without a deadlock, NO reachable state of the lock programs is a deadlock (worklist invariant: every successor of a visited state is visited or queued; the visited set is closed and contains the initial state)
`theorem noDeadlock_complete (ps : List Prog) (h : noDeadlock ps = true) (s : Sys) (hr : Reach ps s) : isDeadlock s = false` -/
theorem C15_search_clean_answer_is_complete : type_of% @AV.Locks.noDeadlock_complete := @AV.Locks.noDeadlock_complete

/-- in the words of the property: from every reachable state that is not finished some thread can take a step
`theorem noDeadlock_progress (ps : List Prog) (h : noDeadlock ps = true) (s : Sys) (hr : Reach ps s) (hnf : finished s = false) : ∃ i s', stepTh s i = some s'` -/
theorem C15_search_clean_answer_every_call_proceeds : type_of% @AV.Locks.noDeadlock_progress := @AV.Locks.noDeadlock_progress

/-- the three possible answers: a real deadlock; none exists; fuel exhausted (says nothing, never wrong)
`theorem deadlockSearch_cases (ps : List Prog) : (∃ s, deadlockSearch ps = (some s, true) ∧ Reach ps s ∧ isDeadlock s = true) ∨ (deadlockSearch ps = (none, true) ∧ noDeadlock ps = true ∧ ∀ s, Reach ps s → isDeadlock s = false) ∨ (deadlockSearch ps = (none, false) ∧ noDeadlock ps = false)` -/
theorem C15_search_trichotomy : type_of% @AV.Locks.deadlockSearch_cases := @AV.Locks.deadlockSearch_cases

/-- `theorem deadlockSearch_exhaustive_iff (ps : List Prog) (hex : (deadlockSearch ps).2 = true) : (deadlockSearch ps).1.isSome = true ↔ ∃ s, Reach ps s ∧ isDeadlock s = true` -/
theorem C15_search_decides_when_exhaustive : type_of% @AV.Locks.deadlockSearch_exhaustive_iff := @AV.Locks.deadlockSearch_exhaustive_iff

/-- `theorem ordered_search_agrees (ps : List Prog) (hord : ∀ p, p ∈ ps → ordered p = true ∧ endsEmpty p [] = true) : (deadlockSearch ps = (none, true) ∨ deadlockSearch ps = (none, false)) ∧ (noDeadlock ps = true → ∀ s, Reach ps s → isDeadlock s = false) ∧ (∀ s, Reach ps s → isDeadlock s = false)` -/
theorem C15_search_agrees_with_ordered_discipline : type_of% @AV.Locks.ordered_search_agrees := @AV.Locks.ordered_search_agrees

/-- `theorem noDeadlock_exact (ps : List Prog) (h : noDeadlock ps = true) : ∃ S : List Sys, S.Nodup ∧ (∀ s, s ∈ S ↔ Reach ps s) ∧ (∀ s, s ∈ S → isDeadlock s = false) ∧ 1 + transitions S ≤ 200000` -/
theorem C15_search_visits_exactly_the_reachable_states : type_of% @AV.Locks.noDeadlock_exact := @AV.Locks.noDeadlock_exact

end AV.C15
