/-
C10 — File membership is consistent: nothing lost on write, files self-contained.

Property text: "In any multi-file model, however file sets were changed through the API, an element is only
ever restricted to files that also contain its parent and that belong to the model, every element of the
model is written to at least one file, and the text produced for a file contains exactly the elements
attributed to that file and loads on its own. Removing a file removes exactly the elements attributed to it
alone, together with their index entries, and leaves the content of every other file unchanged."

Model: every node carries its LOCAL file set (`Hdr.files`, empty = inherited); `effective` is the set
`file_membership()` reports (nearest non-empty local set on the way up); `create_file` adds the file to the
root's local set (`Driver/World.lean: opMkFile`).
Proved for all chains: an element without a local set has exactly its parent's effective set, one with a
local set has that set, and — since the root of a model with files has a non-empty local set — EVERY element
has a non-empty effective set (`C10_every_element_in_some_file`): nothing can be lost on write for lack of a file.
Partial: the file-set operations themselves (`add_to_file`, `remove_from_file`, `remove_file`) are not yet in
the Lean model (histories are compared up to the first such request); containment in the parent's set,
self-contained files and `remove_file` are checked on the real library by the `files` histories and the merge scenario.
-/
import AutosarVerif.Lemmas.Files

namespace AV.C10
open AV.W

theorem C10_inherits_when_no_local_set (c : List (Hdr × Items)) (h : Hdr) (k : Items) (he : h.files = []) :
    effective (c ++ [(h, k)]) = effective c := effective_snoc_empty c h k he
theorem C10_local_set_wins (c : List (Hdr × Items)) (h : Hdr) (k : Items) (hne : h.files ≠ []) :
    effective (c ++ [(h, k)]) = h.files := effective_snoc_local c h k hne
theorem C10_every_element_in_some_file (root : Hdr × Items) (rest : List (Hdr × Items)) (hr : root.1.files ≠ []) :
    effective (root :: rest) ≠ [] := effective_nonempty root rest hr

/-! non-vacuity -/
def hdr (id : Nat) (files : List Nat) : Hdr := { id := id, name := 0, ety := ⟨0, 0⟩, parent := .none, attrs := [], files := files, comment := none }
example : effective [(hdr 0 [1, 2], .nil), (hdr 1 [], .nil), (hdr 2 [2], .nil), (hdr 3 [], .nil)] = [2] := by decide

end AV.C10
