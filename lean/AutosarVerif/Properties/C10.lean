/-
C10 — File membership is consistent: nothing lost on write, files self-contained.

Property text: "In any multi-file model, however file sets were changed through the API, an element is only
ever restricted to files that also contain its parent and that belong to the model, every element of the
model is written to at least one file, and the text produced for a file contains exactly the elements
attributed to that file and loads on its own. Removing a file removes exactly the elements attributed to it
alone, together with their index entries, and leaves the content of every other file unchanged."

Model: every node carries its LOCAL file set (`Hdr.files`, empty = inherited); `effective` / `membership` is the set
`file_membership()` reports (nearest non-empty local set on the way up).  `Model/FileOps.lean` models
`create_file`, `add_to_file` with its upward walk `add_to_file_restricted`, `remove_from_file` (with the deletion of
elements left in no file) and `remove_file` (with `Vec::swap_remove`); the driver answers the `mkfile`, `addfile`,
`rmfromfile`, `rmfile` requests with them and the full dumps (local file set of every element, file list in order) are
compared with the library after every request.

Proved for all trees and all arguments:
* the INVARIANT "every local file set lies within the effective set of the parent" (`World.filesOk`) is preserved by
  `create_file`, `add_to_file`, `remove_from_file`, `remove_file`, `remove_sub_element` and `create_sub_element`
  (`C10_*_keeps_parent_files`): the part of the statement "an element is only ever restricted to files that also contain
  its parent".  The proof of `add_to_file` is an induction along the upward walk: while the walk continues the invariant
  holds for the parent's set extended by the file, also after the parent has pinned its other children;
* an element without a local set has exactly its parent's effective set, one with a local set has that set, and every
  element of a model whose root is in a file has a non-empty effective set (`C10_every_element_in_some_file`).
NOT preserved by the library (known findings, so no theorem): `move_element_here` keeps the local sets of the moved
element's descendants; `add_to_file` accepts a file already removed from the model; SHORT-NAME with a set of its own.
* "the text produced for a file contains exactly the elements attributed to that file" (`Lemmas/SerFiles.lean`): `Model.view m f`
  (`projFile`) is the view of file `f` written from the ATTRIBUTION side (an element is kept iff `f` lies in its effective
  file set, recursively); the serializer's LOCAL test (`files.isEmpty || files.contains f`) writes exactly that view:
  `C10_file_text_is_text_of_view` (for every tree, with the dropped elements replaced by empty text items, which are written
  as nothing), `C10_file_text_is_text_of_view_exact` (the literal equation, under `ShapeOk`), `C10_serialize_writes_the_view`
  (the whole `serialize` request of the driver).  The literal equation is FALSE without `ShapeOk`:
  `C10_hollow_element_witness` — an element of the view whose content lies entirely in other files is written `<X>`,newline,`</X>`,
  its view `<X/>` (same elements, another form of the empty tag; the library does the same, the `ser` requests are compared
  byte for byte);
* which elements are in the view: `C10_view_membership` (in every model with the invariant and unique ids: `t` is in the view
  of `f` iff `f` is in `t`'s effective file set — the set `file_membership()` reports);
* "every element of the model is written to at least one file": `C10_reachable_every_element_written` — in every state
  reachable by any history of the core operations, every element of a model whose root is in some file occurs in the view
  of one of the root's files; `C10_reachable_views_cover_exactly` (the views of the files together are the tree).
Partial: "loads on its own" and the exactness of `remove_file` with respect to index entries are decided by the oracle on
the library (histories of kind `files` including `load`, and the merge scenario).
-/
import AutosarVerif.Lemmas.Files
import AutosarVerif.Lemmas.FileOps
import AutosarVerif.Lemmas.Reachable
import AutosarVerif.Model.ToySpec
import AutosarVerif.Lemmas.SerFiles
import AutosarVerif.Lemmas.StepX
import AutosarVerif.Lemmas.StepLM
import AutosarVerif.Lemmas.LoadMerge

namespace AV.C10
open AV.W

theorem C10_inherits_when_no_local_set (c : List (Hdr × Items)) (h : Hdr) (k : Items) (he : h.files = []) :
    effective (c ++ [(h, k)]) = effective c := effective_snoc_empty c h k he
theorem C10_local_set_wins (c : List (Hdr × Items)) (h : Hdr) (k : Items) (hne : h.files ≠ []) :
    effective (c ++ [(h, k)]) = h.files := effective_snoc_local c h k hne
theorem C10_every_element_in_some_file (root : Hdr × Items) (rest : List (Hdr × Items)) (hr : root.1.files ≠ []) :
    effective (root :: rest) ≠ [] := effective_nonempty root rest hr

theorem C10_add_to_file_keeps_parent_files (S : Spec) (w : World) (x f : Nat) (hw : w.filesOk) :
    (opAddFile S w x f).1.filesOk := opAddFile_ok S w x f hw
theorem C10_remove_from_file_keeps_parent_files (S : Spec) (w : World) (x f : Nat) (hw : w.filesOk) :
    (opRmFromFile S w x f).1.filesOk := opRmFromFile_ok S w x f hw
theorem C10_remove_file_keeps_parent_files (S : Spec) (w : World) (k f : Nat) (hw : w.filesOk) :
    (opRmFile S w k f).1.filesOk := opRmFile_ok S w k f hw
theorem C10_create_file_keeps_parent_files (S : Spec) (w : World) (k : Nat) (name : Bytes) (ver : Nat) (valid : Bool)
    (hw : w.filesOk) : (opMkFile S w k name ver valid).1.filesOk := opMkFile_ok S w k name ver valid hw
theorem C10_remove_sub_element_keeps_parent_files (S : Spec) (w : World) (p c : Nat) (hw : w.filesOk) :
    (opRemove S w p c).1.filesOk := opRemove_ok S w p c hw
theorem C10_create_sub_element_keeps_parent_files (S : Spec) (V : Env) (w : World) (p name : Nat) (pos : Option Nat)
    (hw : w.filesOk) : (opCreate S V w p name pos).1.filesOk := opCreate_ok S V w p name pos hw

/-- invariant by induction over operations: in every state reachable by any history of the core operations
(`Model/Step.lean`, the step function the driver runs) every local file set lies within the effective set of the parent -/
theorem C10_every_reachable_state_keeps_parent_files (S : Spec) (V : Env) (rootAttrs : List (Nat × CDv)) (ops : List Op) :
    (run S V rootAttrs ops).filesOk := (run_inv S V rootAttrs ops).2

/-- … and for the larger alphabet (+ `set_item_name`, `sort`; with `set_reference_target` under the guards of the index invariant) -/
theorem C10_every_reachable_state_keeps_parent_files_larger_alphabet (S : Spec) (V : Env) (vOk : Nat) (rootAttrs : List (Nat × CDv))
    (hH : IdxHyp S V vOk) (hR : RefWF S) (hv32 : vOk &&& 0xFFFFFFFF = vOk) (ops : List OpX)
    (hops : ∀ op ∈ ops, OpXOk S vOk op) : (runX S V rootAttrs ops).filesOk :=
  (runX_inv S V vOk rootAttrs hH hR hv32 ops hops).2
theorem C10_sort_keeps_parent_files (S : Spec) (V : Env) (w : World) (x : Nat) (hw : w.filesOk) : (opSort S V w x).1.filesOk :=
  opSort_filesOk S V w x hw

/-- the walk of `add_to_file` one level: the statement the induction carries -/
theorem C10_add_walk (S : Spec) (f : Nat) (its : Items) (path pe : List Nat) (ps : Bool) (h : FilesOk pe its) :
    ((addPath S f path pe ps its).2 = false → FilesOk pe (addPath S f path pe ps its).1) ∧
    ((addPath S f path pe ps its).2 = true → FilesOk (pe ++ [f]) (addPath S f path pe ps its).1) :=
  ⟨(addPath_ok S f its path pe ps h).1, fun hq => ((addPath_ok S f its path pe ps h).2 hq).1⟩

/-! ### the text of a file = the text of the elements attributed to it -/

/-- for EVERY tree: what `serialize` writes for file `f` (local test on each element) is the unfiltered text of the view of
`f` (elements whose effective file set contains `f`), with an empty text item in the place of each dropped element -/
theorem C10_file_text_is_text_of_view (S : Spec) (V : Env) (f : Nat) (its : Items) (pe : List Nat) (indent : Nat) (inMixed : Bool)
    (hf : f ∈ pe) : serForest S V (some f) indent inMixed its = serForest S V none indent inMixed (projPad f pe its) :=
  serForest_projPad S V f its pe indent inMixed hf
theorem C10_padded_view_has_the_elements_of_the_view (f : Nat) (pe : List Nat) (its : Items) :
    (projPad f pe its).ids = (projFile f pe its).ids := projPad_ids f pe its
/-- the literal equation, where no element of the view has all of its content in other files -/
theorem C10_file_text_is_text_of_view_exact (S : Spec) (V : Env) (f : Nat) (its : Items) (pe : List Nat) (indent : Nat)
    (inMixed : Bool) (hf : f ∈ pe) (hs : ShapeOk S f pe its) :
    serForest S V (some f) indent inMixed its = serForest S V none indent inMixed (projFile f pe its) :=
  serForest_projFile S V f its pe indent inMixed hf hs
/-- the whole `serialize` request as the driver answers it -/
theorem C10_serialize_writes_the_view (S : Spec) (V : Env) (w : World) (f : Nat) :
    opSerialize S V w f = opSerializeView S V projPad w f := opSerialize_eq_pad S V w f
/-- negation witness for the literal equation without `ShapeOk` (the hollow element) -/
theorem C10_hollow_element_witness :
    FilesOk [5, 7] SerFilesEx.hollow ∧
    serForest toySpec toyEnv (some 5) 0 true SerFilesEx.hollow ≠
      serForest toySpec toyEnv none 0 true (projFile 5 [5, 7] SerFilesEx.hollow) := by
  refine ⟨by simp [FilesOk, SerFilesEx.hollow, SerFilesEx.hdr, effOf], ?_⟩
  decide
/-- an element is in the view of `f` iff `f` is in its effective file set (what `file_membership()` reports) -/
theorem C10_view_membership (m : Model) (f t : Nat) (c : List (Hdr × Items)) (hm : m.filesOk) (hn : m.rootItems.ids.Nodup)
    (hc : m.rootItems.chain t = some c) : t ∈ (m.view f).ids ↔ f ∈ effective c := Model.mem_view_iff m f t c hm hn hc
/-- in every reachable state every element is written to at least one file -/
theorem C10_reachable_every_element_written (S : Spec) (V : Env) (rootAttrs : List (Nat × CDv)) (ops : List Op) (m : Model)
    (hm : m ∈ (run S V rootAttrs ops).models) (hne : m.rootHdr.files ≠ []) (i : Nat) (hi : i ∈ m.rootItems.ids) :
    ∃ f ∈ m.rootHdr.files, i ∈ (m.view f).ids := reachable_covered S V rootAttrs ops m hm hne i hi
theorem C10_reachable_views_cover_exactly (S : Spec) (V : Env) (rootAttrs : List (Nat × CDv)) (ops : List Op) (m : Model)
    (hm : m ∈ (run S V rootAttrs ops).models) (hne : m.rootHdr.files ≠ []) (i : Nat) :
    i ∈ m.rootItems.ids ↔ ∃ f ∈ m.rootHdr.files, i ∈ (m.view f).ids := reachable_union S V rootAttrs ops m hm hne i
/-- the view is a tree of its own: taking it twice changes nothing, and it satisfies the file invariant -/
theorem C10_view_idempotent (f : Nat) (its : Items) (pe : List Nat) : projFile f pe (projFile f pe its) = projFile f pe its :=
  projFile_idem f its pe

/-! non-vacuity -/
def hdr (id : Nat) (files : List Nat) : Hdr := { id := id, name := 0, ety := ⟨0, 0⟩, parent := .none, attrs := [], files := files, comment := none }
example : effective [(hdr 0 [1, 2], .nil), (hdr 1 [], .nil), (hdr 2 [2], .nil), (hdr 3 [], .nil)] = [2] := by decide

-- toy specification (root splittable): root in file 0 with children A (id 1) and B (id 2), neither with a set of its own
def kids : Items := .elem (hdr 1 []) .nil (.elem (hdr 2 []) .nil .nil)
example : FilesOk [0] kids := by simp [FilesOk, kids, hdr]
/-- (id, local file set) of every element, document order -/
def sets (its : Items) : List (Nat × List Nat) := its.hdrs.map fun h => (h.id, h.files)
-- A is added to file 1: A = {0,1}, the root = {0,1}, and B is pinned to {0} (it is not in file 1)
example : sets (addPath toySpec 1 [0, 1] [] true (.elem (hdr 0 [0]) kids .nil)).1 = [(0, [0, 1]), (1, [0, 1]), (2, [0])] := by decide
-- then the root is removed from file 0 (what `remove_file` does): A = {1}, B had {0} only and is left with the empty set (doomed)
example : sets (rmAt 0 0 [] (.elem (hdr 0 [0, 1]) (.elem (hdr 1 [0, 1]) .nil (.elem (hdr 2 [0]) .nil .nil)) .nil)) =
    [(0, [1]), (1, [1]), (2, [])] := by decide
example : (swapRemove [{ id := 0, name := [], version := 1 }, { id := 1, name := [], version := 1 }, { id := 2, name := [], version := 1 }] 0).map (·.id) = [2, 1] := by decide


/-! ### added at the end of the third session (proof pack LM): restated by name
(`type_of%` keeps the statement identical to the lemma; the signature is quoted in the comment) -/

/-- regression statement for the repaired defect 28fbcc4: the history new, load, create_file, remove_from_file(root, f1), create, load ends in a state with consistent file sets (the pre-repair model gave the negation)
`theorem wPost_filesOk : wPost.filesOk` -/
theorem C10_regression_merging_load_after_root_removed : type_of% @AV.W.LoadMergeWitness.wPost_filesOk := @AV.W.LoadMergeWitness.wPost_filesOk

/-- an accepted merge keeps "local file set ⊆ effective set of the parent" at every depth
`theorem mergeElement_filesOk (fver : Nat → Option Nat) (newFile minVerB : Nat) (fuel : Nat) : ∀ (ha : Hdr) (ka : Items) (files : List Nat) (kb : Items) (E' : List Nat), ka.ids.Nodup → kb.ids.Nodup → FilesOk files ka → FilesOk [] kb → (∀ g ∈ files, g ∈ E') → newFile ∈ E' → (mergeElement S V fver newFile minVerB fuel ha ka files kb).2 = none → FilesOk E' (mergeElement S V fver newFile minVerB fuel ha ka files kb).1` -/
theorem C10_merge_keeps_file_sets_consistent : type_of% @AV.W.mergeElement_filesOk := @AV.W.mergeElement_filesOk

/-- at the level of `load_buffer`; the proof of this statement needed, for the pre-repair model, a hypothesis that a reachable state refutes: the defect repaired by 28fbcc4 (KNOWN_FINDINGS.txt)
`theorem opLoad_merge_inv (w : World) (k : Nat) (m : Model) (name : Bytes) (strict : Bool) (buf : Bytes) (hm : w.models[k]? = some m) (hne : m.files.isEmpty = false) (hn : m.rootKids.ids.Nodup) (hi : Inv w) : Inv (opLoad S V nmAutosar w k name strict buf).1` -/
theorem C10_merging_load_keeps_file_sets_consistent : type_of% @AV.W.opLoad_merge_inv := @AV.W.opLoad_merge_inv

end AV.C10
