/-
C20 — Typed values format and parse consistently; numeric interpretation is exact.

Property text: "Formatting a character-data value and parsing the text with the same value type
returns an equal value. Interpreting a textual value as integer, float or boolean returns the exact
(for floats: correctly rounded) number for every text in the AUTOSAR lexical forms - decimal with
optional sign, 0x hexadecimal, 0b binary, leading-0 octal, exponent notation, INF, -INF, NaN,
true/false/1/0 - that fits the requested type, returns nothing when it does not fit, and never
returns a different number."

Mapping:
* formatting = `CData.escape` (strings), `CData.toDec` (unsigned integers), `to_str` (enumeration
  items, C18); parsing = `CData.unescape`, `CData.parseU64`, `from_bytes`;
* "the AUTOSAR lexical forms" for integers = `CData.denoteInt`, an independent reading of the forms
  (it mentions neither `from_str_radix` nor prefix order nor widths);
* "fits the requested type" = `IntTy.fits`; "returns" = `CData.parseInteger T`;
* floats: binary64 bit patterns; `CData.roundPos` is round-to-nearest-even of an exact rational
  (`roundDiv_nearest` proves its rounding core; the assembly of exponent and mantissa and Rust's
  `str::parse::<f64>` / `f64::to_string` are *modelled and compared*, not proved — partial).
Known finding (KNOWN_FINDINGS.txt): radix-form texts above u64::MAX make `parse_float` return
nothing although they denote representable numbers: `C20_witness_parse_float_above_u64`.
-/
import AutosarVerif.Lemmas.CData
import AutosarVerif.Properties.C18

namespace AV.C20
open AV.CData

/-- strings: format (escape) then parse (unescape) is the identity, for every byte string -/
theorem C20_string_roundtrip (s : Bytes) : unescape (escape s) = some s := unescape_escape s

/-- unsigned integers: the whole `u64` range round-trips through its decimal text -/
theorem C20_uint_roundtrip (n : Nat) (h : n < 2 ^ 64) : parseU64 (toDec n) = some n := parseU64_toDec n h

/-- enumeration items: text of an item parses back to the item (C18) -/
theorem C20_enum_roundtrip (i : Nat) (h : i < Gen.Enum.table.nNames) :
    Hash.fromBytes Gen.hashParams Gen.Enum.table (Hash.toStr Gen.Enum.table i) = some i :=
  C18.C18_enumItem_roundtrip i h

/-- integers: exact value if it fits the requested type, nothing otherwise, never another number —
for every text of the lexical forms and every signedness/width -/
theorem C20_parse_integer_exact (T : IntTy) (t : Bytes) (v : Int) (h : denoteInt t = some v) :
    parseInteger T t = if T.fits v then some v else none := parseInteger_spec T t v h

theorem C20_parse_integer_never_wrong (T : IntTy) (t : Bytes) (v w : Int) (h : denoteInt t = some v)
    (hw : parseInteger T t = some w) : w = v ∧ T.fits v = true := by
  rw [parseInteger_spec T t v h] at hw
  split at hw
  · rename_i hf; simp at hw; exact ⟨hw.symm, hf⟩
  · simp at hw

/-- booleans: exactly the four texts -/
theorem C20_parse_bool_exact (t : Bytes) :
    (parseBool t = some true ↔ t = [116, 114, 117, 101] ∨ t = [49]) ∧
    (parseBool t = some false ↔ t = [102, 97, 108, 115, 101] ∨ t = [48]) := by
  unfold parseBool
  constructor
  · constructor
    · intro h; split at h
      · assumption
      · split at h <;> simp at h
    · intro h; simp [h]
  · constructor
    · intro h; split at h
      · simp at h
      · split at h
        · assumption
        · simp at h
    · intro h
      rcases h with h | h <;> subst h <;> decide

/-- floats, rounding core: the integer chosen for a quotient is a nearest one, ties go to even -/
theorem C20_round_nearest_even (n d : Nat) (hd : 0 < d) :
    (2 * (n - roundDiv n d * d) ≤ d ∧ 2 * (roundDiv n d * d - n) ≤ d) ∧
    (2 * (n % d) = d → roundDiv n d % 2 = 0) := roundDiv_nearest n d hd

/-- floats, hexadecimal form below 2^64 (partial: one of the five radix prefixes is proved, the
others are compared in the correspondence run): the value is the `u64` converted to binary64 -/
theorem C20_parse_float_hex_partial (h : Bytes) (v : Nat) (hne : h ≠ []) (hv : digitsVal 16 h 0 = some v)
    (hfit : u64.fits (v : Int) = true) : parseFloat (48 :: 120 :: h) = some (u64ToF64 v) := by
  have e1 : (48 :: 120 :: h : Bytes) ≠ [48] := by simp
  have hr := fromStrRadix_digits u64 16 h v hne hv
  simp only [hfit, if_true] at hr
  simp only [parseFloat, e1, if_false, sp_cons_eq, sp_nil, hr]
  simp

/-- **negation witness** (known finding): `0x10000000000000000` = 2^64 is in the numerical lexical
form and exactly representable (0x43F0000000000000), but `parse_float` returns nothing -/
theorem C20_witness_parse_float_above_u64 :
    parseFloat [48, 120, 49, 48, 48, 48, 48, 48, 48, 48, 48, 48, 48, 48, 48, 48, 48, 48, 48] = none ∧
    digitsVal 16 [49, 48, 48, 48, 48, 48, 48, 48, 48, 48, 48, 48, 48, 48, 48, 48, 48] 0 = some (2 ^ 64) ∧
    roundPos (2 ^ 64) 1 = 0x43F0000000000000 := by decide +kernel

/-! non-vacuity and sanity of the model on concrete values -/
example : denoteInt [48, 120, 49, 70] = some 31 := by decide          -- "0x1F"
example : denoteInt [48, 49, 48] = some 8 := by decide                -- "010" (leading-0 octal)
example : denoteInt [45, 49, 50, 56] = some (-128) := by decide       -- "-128"
example : parseInteger ⟨true, 8⟩ [45, 49, 50, 56] = some (-128) := by decide
example : parseInteger ⟨true, 8⟩ [49, 50, 56] = none := by decide     -- 128 does not fit i8
example : parseFloat [48, 46, 49] = some 0x3FB999999999999A := by decide +kernel   -- "0.1"
example : parseFloat [73, 78, 70] = some posInf := by decide +kernel               -- "INF"
example : escape [97, 38, 60] = [97, 38, 97, 109, 112, 59, 38, 108, 116, 59] := by decide

end AV.C20
