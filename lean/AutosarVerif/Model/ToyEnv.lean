/-
The outside of the toy specification: names, values, versions (for non-vacuity examples of the parser theorems).
Elements R = 100, A = 101, B = 102; attributes xmlns = 10, xmlns:xsi = 11, xsi:schemaLocation = 12, T = 5;
enumeration items "seven" = 7, "eight" = 8; versions "V1.xsd" = bit 1, "V2.xsd" = bit 2.
-/
import AutosarVerif.Model.ToySpec
import AutosarVerif.Model.World

namespace AV
open AV.W

def toyElems : List (Bytes × Nat) := [([82], 100), ([65], 101), ([66], 102)]
def toyAttrs : List (Bytes × Nat) :=
  [([120, 109, 108, 110, 115], 10), ([120, 109, 108, 110, 115, 58, 120, 115, 105], 11),
   ([120, 115, 105, 58, 115, 99, 104, 101, 109, 97, 76, 111, 99, 97, 116, 105, 111, 110], 12), ([84], 5)]
def toyEnums : List (Bytes × Nat) := [([115, 101, 118, 101, 110], 7), ([101, 105, 103, 104, 116], 8)]
def toyVers : List (Bytes × Nat) := [([86, 49, 46, 120, 115, 100], 1), ([86, 50, 46, 120, 115, 100], 2)]

def lookupB (l : List (Bytes × Nat)) (b : Bytes) : Option Nat := (l.find? (·.1 == b)).map (·.2)
def nameOf (l : List (Bytes × Nat)) (n : Nat) : Bytes := ((l.find? (·.2 == n)).map (·.1)).getD []

def toyEnv : Env where
  validate := fun _ _ => true
  enumText := nameOf toyEnums
  enumOf := lookupB toyEnums
  elemText := nameOf toyElems
  attrText := nameOf toyAttrs
  nmIndex := 900
  nmDefinitionRef := 901
  latest := 2
  nmDest := 998
  elemOf := lookupB toyElems
  attrOf := lookupB toyAttrs
  verOfFile := lookupB toyVers
  fileOfVer := nameOf toyVers
  atXmlns := 10
  atXmlnsXsi := 11
  atSchemaLocation := 12

end AV
