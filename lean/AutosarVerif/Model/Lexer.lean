/-
Model of `autosar-data/src/lexer.rs` (`ArxmlLexer::new`, `next`, `read_*`, `count_lines`).
The Rust lexer keeps an absolute position into one buffer; the model keeps the unread rest of the
buffer, which is the same information.  Line counting follows the Rust code exactly (for example
the newlines inside an end tag are not counted, those inside a start tag are counted after the
event's own line is taken: a start tag reports the line it begins on).  No imports beyond `Bytes`.
-/
import AutosarVerif.Model.Hash

namespace AV.Lex

inductive LexErr
  | incompleteData | invalidElement | invalidProcessingInstruction | invalidXmlHeader | invalidComment
  deriving DecidableEq, Repr

inductive Event
  | header (standalone : Option Bool)
  | beginElement (name attrs : Bytes)
  | endElement (name : Bytes)
  | characters (text : Bytes)
  | comment (text : Bytes)
  | eof
  deriving DecidableEq, Repr

structure LState where
  rest : Bytes
  line : Nat
  deferred : Option Bytes
  deriving Repr

def isWs (c : UInt8) : Bool := c = 32 || c = 9 || c = 10 || c = 12 || c = 13   -- u8::is_ascii_whitespace

def countNl (s : Bytes) : Nat := s.countP (· = 10)

/-- `ArxmlLexer::new`: skip a byte-order mark (only if more than 3 bytes follow, as in the Rust code) -/
def init (buf : Bytes) : LState :=
  match buf with
  | 239 :: 187 :: 191 :: c :: r => ⟨c :: r, 1, none⟩
  | _ => ⟨buf, 1, none⟩

/-- split at the first byte satisfying `p`: (before, after-without-that-byte) -/
def splitAt1 (p : UInt8 → Bool) : Bytes → Option (Bytes × Bytes)
  | [] => none
  | c :: r => if p c then some ([], r) else (splitAt1 p r).map fun (a, b) => (c :: a, b)

/-- split on every byte satisfying `p` (`slice::split`) -/
def splitAll (p : UInt8 → Bool) : Bytes → List Bytes
  | [] => [[]]
  | c :: r =>
    if p c then [] :: splitAll p r
    else match splitAll p r with
      | x :: xs => (c :: x) :: xs
      | [] => [[c]]

/-- value of one attribute of the xml header: the text after `=`, without its first and last byte -/
def hdrAttr (a : Bytes) : Bytes × Bytes :=
  match splitAt1 (· = 61) a with
  | some (n, v) => (n, (v.drop 1).dropLast)       -- attr_text[pos+2 .. len-1], empty if out of range
  | none => (a, [])

/-- result of `read_xml_header` on the text between `<?` and `?>`: `none` = other processing instruction (ignored) -/
def xmlHeader (text : Bytes) : Option (Except LexErr Event) :=
  match splitAll isWs text with
  | name :: attrs =>
    if name = [120, 109, 108] then
      let st := attrs.foldl (fun (acc : Bytes × Bytes × Option Bool) a =>
        let (n, v) := hdrAttr a
        if n = [118, 101, 114, 115, 105, 111, 110] then (v, acc.2.1, acc.2.2)
        else if n = [101, 110, 99, 111, 100, 105, 110, 103] then (acc.1, v, acc.2.2)
        else if n = [115, 116, 97, 110, 100, 97, 108, 111, 110, 101] then (acc.1, acc.2.1, some (v == [121, 101, 115]))
        else acc) (([] : Bytes), ([] : Bytes), (none : Option Bool))
      let (ver, enc, sa) := st
      if ver ≠ [49, 46, 48] ∨ (enc ≠ [117, 116, 102, 45, 56] ∧ enc ≠ [85, 84, 70, 45, 56] ∧ enc ≠ [117, 116, 102, 56] ∧ enc ≠ [85, 84, 70, 56])
      then some (.error .invalidXmlHeader)
      else some (.ok (.header sa))
    else none
  | [] => none

/-- end of a comment: smallest `ce ≥ from` such that the bytes at `ce-2, ce-1, ce` are `-->`;
`cur` is the buffer from the `<` on, `i` the index of its head -/
def findCommentEnd : Bytes → Nat → Nat → Option Nat
  | 45 :: 45 :: 62 :: r, i, frm => if i + 2 ≥ frm then some (i + 2) else findCommentEnd (45 :: 62 :: r) (i + 1) frm
  | _ :: r, i, frm => findCommentEnd r (i + 1) frm
  | [], _, _ => none

def startsWith (p s : Bytes) : Bool := p.isPrefixOf s
def endsWith (p s : Bytes) : Bool := p.isSuffixOf s

inductive Step
  | ev (line : Nat) (e : Event) (s : LState)     -- `Ok((line, event))`
  | err (line : Nat) (e : LexErr) (s : LState)   -- `Err(LexerError{line,…})`
  | again (s : LState)                            -- the loop continues (ignored PI / white space)

/-- `</name>` -/
def stepEnd (s : LState) (nm tail : Bytes) : Step := .ev s.line (.endElement nm) { s with rest := tail }

/-- `<? … ?>`: the xml header, or a processing instruction that is skipped -/
def stepPI (s : LState) (inner tail : Bytes) : Step :=
  if inner.length < 2 ∨ inner.getLast? ≠ some 63 then .err s.line .invalidProcessingInstruction s
  else
    match xmlHeader ((inner.drop 1).dropLast) with
    | some (.error e) => .err s.line e { s with rest := tail, line := s.line + countNl ((inner.drop 1).dropLast) }
    | some (.ok ev) => .ev (s.line + countNl ((inner.drop 1).dropLast)) ev { s with rest := tail, line := s.line + countNl ((inner.drop 1).dropLast) }
    | none => .again { s with rest := tail, line := s.line + countNl ((inner.drop 1).dropLast) }

/-- `<!-- … -->`; `innerLen` = number of bytes between `<` and the first `>` -/
def stepComment (s : LState) (innerLen : Nat) : Step :=
  -- the search starts at the first `>`, but not before offset 6: the closing `-->` cannot overlap the opening `<!--`
  -- (repaired defect c01:comment-starting-with-gt; before, `<!-->-->` was an invalid comment)
  match findCommentEnd s.rest 0 (max (innerLen + 1) 6) with
  | none => .err s.line .invalidComment s
  | some ce =>
    if (s.rest.take ce).length < 6 ∨ !startsWith [60, 33, 45, 45] (s.rest.take ce) ∨ !endsWith [45, 45] (s.rest.take ce) then
      .err s.line .invalidComment { s with rest := s.rest.drop (ce + 1) }
    else
      .ev (s.line + countNl (s.rest.take ce)) (.comment (((s.rest.take ce).drop 4).dropLast.dropLast))
        { s with rest := s.rest.drop (ce + 1), line := s.line + countNl (s.rest.take ce) }

/-- `<name attributes>` or `<name attributes/>` -/
def stepBegin (s : LState) (inner tail : Bytes) : Step :=
  let isEnd : Bool := inner.getLast? == some 47
  let text := if isEnd then inner.dropLast else inner
  let na := match splitAt1 isWs text with
    | some (a, b) => (a, b)
    | none => (text, [])
  -- `Ok((self.line, self.read_element_start(endpos)))`: the line is read before the newlines inside the tag are counted
  .ev s.line (.beginElement na.1 na.2)
    { rest := tail, line := s.line + countNl text, deferred := if isEnd then some na.1 else none }

/-- character data up to the next `<` (white-space-only runs are skipped) -/
def stepChars (s : LState) : Step :=
  if (s.rest.takeWhile (· ≠ 60)).all isWs then
    .again { s with rest := s.rest.dropWhile (· ≠ 60), line := s.line + countNl (s.rest.takeWhile (· ≠ 60)) }
  else
    .ev (s.line + countNl (s.rest.takeWhile (· ≠ 60))) (.characters (s.rest.takeWhile (· ≠ 60)))
      { s with rest := s.rest.dropWhile (· ≠ 60), line := s.line + countNl (s.rest.takeWhile (· ≠ 60)) }

/-- one iteration of the loop in `next` (without the deferred end) -/
def step1 (s : LState) : Step :=
  match s.rest with
  | [] => .ev s.line .eof s
  | c :: after =>
    if c = 60 then
      match splitAt1 (· = 62) after with
      | none => .err s.line .incompleteData s
      | some (inner, tail) =>
        match inner with
        | [] => .err s.line .invalidElement s
        | d :: nm =>
          if d = 47 then stepEnd s nm tail
          else if d = 63 then stepPI s inner tail
          else if d = 33 then stepComment s inner.length
          else stepBegin s inner tail
    else stepChars s

/-- `ArxmlLexer::next`; the fuel bounds the number of ignored items, `none` = fuel exhausted (never, see `next_fuel`) -/
def next : Nat → LState → Option (Except (Nat × LexErr) (Nat × Event) × LState)
  | _, ⟨rest, line, some nm⟩ => some (.ok (line, .endElement nm), ⟨rest, line, none⟩)
  | 0, _ => none
  | fuel + 1, s =>
    match step1 s with
    | .ev l e s' => some (.ok (l, e), s')
    | .err l e s' => some (.error (l, e), s')
    | .again s' => next fuel s'

/-- the whole token stream: events until end of file or the first error -/
def lexAll : Nat → LState → List (Nat × Event) → List (Nat × Event) × Option (Nat × LexErr) × Bool
  | 0, _, acc => (acc.reverse, none, false)
  | fuel + 1, s, acc =>
    match next (s.rest.length + 1) s with
    | none => (acc.reverse, none, false)
    | some (.error e, _) => (acc.reverse, some e, true)
    | some (.ok (l, .eof), _) => (((l, .eof) :: acc).reverse, none, true)
    | some (.ok le, s') => lexAll fuel s' (le :: acc)

/-- tokens of a buffer; the last component says whether the lexer finished (EOF or error) within the fuel -/
def lex (buf : Bytes) : List (Nat × Event) × Option (Nat × LexErr) × Bool :=
  lexAll (2 * buf.length + 4) (init buf) []

end AV.Lex
