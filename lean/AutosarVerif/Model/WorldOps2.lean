/-
Moving and deep-copying elements (`move_element_here[_at]`, `create_copied_sub_element[_at]`),
sorting, and the read-only queries and the canonical dump of PROTOCOL.md.
-/
import AutosarVerif.Model.WorldOps

namespace AV.W
open Items

section
variable (S : Spec) (V : Env)

/-- `make_unique_item_name`: first free `name`, `name_1`, `name_2`, … under `parentPath` -/
def uniqueName (idx : List (Bytes × Nat)) (parentPath orig : Bytes) : Nat → Nat → Bytes × Nat
  | 0, counter => (orig ++ [95] ++ CData.toDec counter, counter)
  | fuel + 1, counter =>
    let name := if counter = 0 then orig else orig ++ [95] ++ CData.toDec counter
    if (idxGet idx (parentPath ++ [47] ++ name)).isSome then uniqueName idx parentPath orig fuel (counter + 1)
    else (name, counter)

/-- set the text of the leading SHORT-NAME of a node's content -/
def setShortName (kids : Items) (name : Bytes) : Items :=
  match kids with
  | .elem sh _ r => .elem sh (.text (.str name) .nil) r
  | k => k

/-- paths (as `e.path()`) of the identifiable elements of a subtree whose type is named, preorder;
`prefix` = names of the ancestors above the subtree -/
def subtreePaths (fuel : Nat) (h : Hdr) (kids : Items) (pre : List Bytes) : List (Bytes × Nat) :=
  match fuel with
  | 0 => []
  | fuel + 1 =>
    let pre' := match itemName S h kids with
      | some n => pre ++ [n]
      | none => pre
    (if S.isNamed h.ety.typ ∧ isIdentifiable S h kids then [(joinPath pre', h.id)] else []) ++
      kids.childElems.flatMap fun ch => subtreePaths fuel ch.1 ch.2 pre'

def namesOfChain (c : List (Hdr × Items)) : List Bytes := c.filterMap fun (h, k) => itemName S h k

/-- references (text, id) of a subtree, preorder -/
def subtreeRefs (fuel : Nat) (h : Hdr) (kids : Items) : List (Bytes × Nat) :=
  match fuel with
  | 0 => []
  | fuel + 1 =>
    (if S.isRef h.ety.typ then
      match charData S h kids with
      | some (.str r) => [(r, h.id)]
      | _ => []
     else []) ++ kids.childElems.flatMap fun ch => subtreeRefs fuel ch.1 ch.2

/-- rotate the child at position `cur` to position `pos` -/
def movePos (kids : Items) (cur pos : Nat) : Items :=
  match kids.childElems.length with
  | _ =>
    -- generic on content items: take the item out and re-insert it
    let rec item : Items → Nat → Option (Items → Items)
      | .nil, _ => none
      | .elem h k _, 0 => some fun r => .elem h k r
      | .text c _, 0 => some fun r => .text c r
      | .elem _ _ r, q + 1 => item r q
      | .text _ r, q + 1 => item r q
    match item kids cur with
    | some mk => (kids.removeAt cur).insertAt mk pos
    | none => kids

/-- `original_paths: FxHashMap<String, Element>` of `move_element_full`: collected in DFS order, a later element with the
same path replaces the earlier one -/
def pathsMap (ps : List (Bytes × Nat)) : List (Bytes × Nat) :=
  ps.foldl (fun acc e => idxInsert acc e.1 e.2) []

/-- `ElementRaw::move_element_full`: the move between two different models (`kx ≠ kp`); the checks of
`Element::move_element_here[_at]` (versions, insert range, position) have been made by the caller -/
def opMoveFull (w : World) (kx : Nat) (cx : List (Hdr × Items)) (kp : Nat) (cp : List (Hdr × Items))
    (p x pos : Nat) : World × Ans :=
  let m := w.models[kp]!
  let mx := w.models[kx]!
  let (xh, xkids) := lastOf cx
  match cx.dropLast.getLast? with
  | none => (w, .err)        -- the root element has no parent element
  | some (sph, spk) =>
    let srcPrefix := pathOfChain S cx
    let destPrefix := pathOfChain S cp
    let fuel := xkids.size + 2
    let origPaths := pathsMap (subtreePaths S fuel xh xkids (namesOfChain S cx.dropLast))
    let origRefs := subtreeRefs S fuel xh xkids
    -- source model: x is taken out of its parent, the paths and the reference origins of the subtree are un-registered
    let rootx := match spk.childPos x 0 with
      | some i => mx.rootItems.modify sph.id fun h0 k0 => (h0, k0.removeAt i)
      | none => mx.rootItems
    let idxx := origPaths.foldl (fun ix (op : Bytes × Nat) => idxRemove ix op.1) mx.index
    let rsx := origRefs.foldl (fun rs (r : Bytes × Nat) => refsRemove rs r.1 r.2) mx.refs
    let w1 := setModel w kx { mx.setRoot rootx with index := idxx, refs := rsx }
    let xh1 := { xh with parent := .elem p, files := [] }
    -- unique name in the destination model
    let (xk1, destPath, nameFail) :=
      if isIdentifiable S xh xkids then
        match itemName S xh xkids with
        | some orig =>
          let (nm, cnt) := uniqueName m.index destPrefix orig (m.index.length + 2) 0
          ((if cnt > 0 then setShortName xkids nm else xkids), destPrefix ++ [47] ++ nm, false)
        | none => (xkids, destPrefix, true)
      else (xkids, destPrefix, false)
    if nameFail then
      -- refused before anything changes (since the repair of c11:move-fails-without-item-name)
      (w, .err)
    else
      -- `add_identifiable` for every entry of the path map (an existing entry of the destination is overwritten)
      let idx1 := origPaths.foldl (fun ix (op : Bytes × Nat) =>
        if srcPrefix.isPrefixOf op.1 then idxInsert ix (destPath ++ op.1.drop srcPrefix.length) op.2 else ix) m.index
      -- references of the subtree: those that designate a path of the subtree are rewritten (no value check); all are
      -- registered in the destination model
      let (rs1, sub) := origRefs.foldl (fun (acc : List (Bytes × List Nat) × Items) (r : Bytes × Nat) =>
          if origPaths.any (·.1 == r.1) ∧ srcPrefix.isPrefixOf r.1 then
            let refstr := destPath ++ r.1.drop srcPrefix.length
            (refsAdd acc.1 refstr r.2, setRefTexts acc.2 [r.2] refstr)
          else (refsAdd acc.1 r.1 r.2, acc.2)) (m.refs, Items.elem xh1 xk1 .nil)
      let root1 := m.rootItems.modify p fun h0 k0 =>
        (h0, k0.insertAt (fun r => match sub with | .elem sh sk _ => .elem sh sk r | _ => r) pos)
      (setModel w1 kp { m.setRoot root1 with index := idx1, refs := rs1 }, .ok "")

/-- `move_element_here[_at]` within one model -/
def opMove (w : World) (p x : Nat) (pos? : Option Nat) : World × Ans :=
  if p = x then (w, .err)
  else match locate w x, locate w p with
  | some (kx, cx), some (kp, cp) =>
    let m := w.models[kp]!
    let mx := w.models[kx]!
    match minVersion V mx cx, minVersion V m cp with
    | some vx, some ver =>
      if vx ≠ ver then (w, .err)
      else
        let (ph, pkids) := lastOf cp
        let (xh, xkids) := lastOf cx
        match insertRange S ph pkids xh.name ver with
        | none => (w, .err)
        | some (lo, hi) =>
          let pos := pos?.getD hi
          if ¬ (lo ≤ pos ∧ pos ≤ hi) then (w, .err)
          else if kx ≠ kp then (w, .unsupported)     -- move between models: not in this protocol version
          else match cx.dropLast.getLast? with
            | none => (w, .err)        -- the root element has no parent element
            | some (sph, spk) =>
              if sph.id = p then
                match pos? with
                | none => (w, .ok "")
                | some q =>
                  if q < pkids.length then
                    match pkids.childPos x 0 with
                    | some cur => (setModel w kp (m.setRoot (m.rootItems.modify p fun h0 k0 => (h0, movePos k0 cur q))), .ok "")
                    | none => (w, .err)
                  else (w, .err)
              else if (cp.any fun (h, _) => h.id = x) then (w, .err)      -- destination lies below the moved element
              else
                let srcPrefix := pathOfChain S cx
                let destPrefix := pathOfChain S cp
                let origPaths := subtreePaths S (xkids.size + 2) xh xkids (namesOfChain S cx.dropLast)
                -- take x out of its parent
                let root1 := match spk.childPos x 0 with
                  | some i => m.rootItems.modify sph.id fun h0 k0 => (h0, k0.removeAt i)
                  | none => m.rootItems
                let xh1 := { xh with parent := .elem p, files := [] }
                -- unique name in the destination
                let (xk1, destPath, nameFail) :=
                  if isIdentifiable S xh xkids then
                    match itemName S xh xkids with
                    | some orig =>
                      let (nm, cnt) := uniqueName m.index destPrefix orig (m.index.length + 2) 0
                      ((if cnt > 0 then setShortName xkids nm else xkids), destPrefix ++ [47] ++ nm, false)
                    | none => (xkids, destPrefix, true)
                  else (xkids, destPrefix, false)
                if nameFail then
                  -- refused before the element is taken out of its parent (since the repair of c11:move-fails-without-item-name;
                  -- before it, `make_unique_item_name` failed after the element had been unlinked)
                  (w, .err)
                else
                  let idx1 :=
                    if isIdentifiable S xh xkids then idxFix m.index srcPrefix destPath
                    else origPaths.foldl (fun ix (op : Bytes × Nat) =>
                      if srcPrefix.isPrefixOf op.1 then idxFix ix op.1 (destPath ++ op.1.drop srcPrefix.length) else ix) m.index
                  -- insert x into the destination first (so reference elements inside x are reachable), then rewrite references
                  let root2 := root1.modify p fun h0 k0 => (h0, k0.insertAt (fun r => .elem xh1 xk1 r) pos)
                  let (rs', root3) := origPaths.foldl (fun (acc : List (Bytes × List Nat) × Items) (op : Bytes × Nat) =>
                      if srcPrefix.isPrefixOf op.1 ∧ acc.1.any (·.1 == op.1) then
                        let lst := refsGet acc.1 op.1
                        let refstr := destPath ++ op.1.drop srcPrefix.length
                        let rs1 := acc.1.filter (·.1 != op.1)
                        let rs2 := if rs1.any (·.1 == refstr) then rs1.map fun e => if e.1 == refstr then (e.1, e.2 ++ lst) else e
                          else rs1 ++ [(refstr, lst)]
                        (rs2, setRefTexts acc.2 lst refstr)
                      else acc) (m.refs, root2)
                  (setModel w kp { m.setRoot root3 with index := idx1, refs := rs' }, .ok "")
    | _, _ => (w, .err)
  | _, _ => (w, .err)

/-- `move_element_here[_at]`, inside one model or between two models: what the driver runs for `move` requests.  `opMove` makes
all the checks of `Element::move_element_here[_at]` and answers `.unsupported` exactly when source and destination lie in
different models; `opMoveFull` (`ElementRaw::move_element_full`) then does the move -/
def opMoveAny (w : World) (p x : Nat) (pos? : Option Nat) : World × Ans :=
  match opMove S V w p x pos? with
  | (_, .unsupported) =>
    match locate w x, locate w p with
    | some (kx, cx), some (kp, cp) =>
      match minVersion V (w.models[kp]!) cp with
      | some ver =>
        match insertRange S (lastOf cp).1 (lastOf cp).2 (lastOf cx).1.name ver with
        | some (_, hi) => opMoveFull S w kx cx kp cp p x (pos?.getD hi)
        | none => (w, .err)
      | none => (w, .err)
    | _, _ => (w, .err)
  | r => r

/-- `check_version_compatibility` of a value -/
def valueCompat (v : CDv) (sp : CSpec) (ver : Nat) : Bool :=
  match sp with
  | .enum items => match v with
    | .enum i => items.any fun it => it.1 == i && (it.2 &&& ver) != 0
    | _ => false
  | _ => true

/-- `deep_copy`: returns the copy (ids assigned in preorder from `nid`) and the next free id -/
def deepCopy (fuel : Nat) (h : Hdr) (kids : Items) (ver : Nat) (parent : PRef) (nid : Nat) : Option (Hdr × Items × Nat) :=
  match fuel with
  | 0 => none
  | fuel + 1 =>
    let attrs? : Option (List (Nat × CDv)) := h.attrs.foldl (fun acc a =>
      match acc with
      | none => none
      | some l =>
        match S.findAttr h.ety.typ a.1 with
        | none => none
        | some (cd, req, mask) =>
          if (mask &&& ver) ≠ 0 ∧ valueCompat a.2 (S.cspec cd) ver then some (l ++ [a])
          else if req then none else some l) (some [])
    match attrs? with
    | none => none
    | some attrs =>
      let myId := nid
      let rec go (fuel : Nat) : Items → Nat → Items × Nat
        | .nil, n => (.nil, n)
        | .text c r, n =>
          let keep := match S.chardataSpec h.ety.typ with
            | some sp => valueCompat c sp ver
            | none => true
          let (r', n') := go fuel r n
          (if keep then .text c r' else r', n')
        | .elem sh sk r, n =>
          if (S.findSub h.ety.typ sh.name ver).isSome then
            match deepCopy fuel sh sk ver (.elem myId) n with
            | some (ch, ck, n1) => let (r', n') := go fuel r n1; (.elem ch ck r', n')
            | none => go fuel r n
          else go fuel r n
      let (kids', n') := go fuel kids (nid + 1)
      some ({ h with id := myId, parent := parent, attrs := attrs, files := [] }, kids', n')

/-- registration of the copied subtree: identifiable paths and reference origins (the DFS loop of
`create_copied_sub_element_inner`) -/
def registerCopy (fuel : Nat) (h : Hdr) (kids : Items) (pre : List Bytes) (idx : List (Bytes × Nat))
    (rs : List (Bytes × List Nat)) : List (Bytes × Nat) × List (Bytes × List Nat) :=
  match fuel with
  | 0 => (idx, rs)
  | fuel + 1 =>
    let (pre', idx1) :=
      if isIdentifiable S h kids then
        match itemName S h kids with
        | some n => (pre ++ [n], idxInsert idx (joinPath (pre ++ [n])) h.id)
        | none => (pre, idxInsert idx (joinPath pre) h.id)
      else (pre, idx)
    let rs1 := if S.isRef h.ety.typ then
        match charData S h kids with
        | some (.str r) => refsAdd rs r h.id
        | _ => rs
      else rs
    kids.childElems.foldl (fun acc ch => registerCopy fuel ch.1 ch.2 pre' acc.1 acc.2) (idx1, rs1)

/-- `create_copied_sub_element[_at]` -/
def opCopy (w : World) (p x : Nat) (pos? : Option Nat) : World × Ans :=
  if p = x then (w, .err)
  else match locate w p with
  | none => (w, .err)
  | some (k, cp) =>
    let m := w.models[k]!
    match minVersion V m cp with
    | none => (w, .err)
    | some ver =>
      match hdrOf w x with
      | none => (w, .err)
      | some (xh, xkids) =>
        let (ph, pkids) := lastOf cp
        match insertRange S ph pkids xh.name ver with
        | none => (w, .err)
        | some (lo, hi) =>
          let pos := pos?.getD hi
          if ¬ (lo ≤ pos ∧ pos ≤ hi) then (w, .err)
          else if (cp.dropLast.any fun (h, _) => h.id = x) then (w, .err)
          else match deepCopy S (xkids.size + 2) xh xkids ver (.elem p) w.nextId with
            | none => (w, .err)
            | some (nh, nk, nextId') =>
              let path := pathOfChain S cp
              let (nk1, fail) :=
                if isIdentifiable S nh nk then
                  match itemName S nh nk with
                  | some orig =>
                    let (nm, cnt) := uniqueName m.index path orig (m.index.length + 2) 0
                    ((if cnt > 0 then setShortName nk nm else nk), false)
                  | none => (nk, true)
                else (nk, false)
              if fail then (w, .err)
              else
                let (idx', rs') := registerCopy S (nk1.size + 2) nh nk1 (namesOfChain S cp) m.index m.refs
                let root' := m.rootItems.modify p fun h0 k0 => (h0, k0.insertAt (fun r => .elem nh nk1 r) pos)
                let newIds := (Items.elem nh nk1 .nil).ids
                ({ setModel w k { m.setRoot root' with index := idx', refs := rs' } with nextId := nextId' },
                  .ok (" ".intercalate (newIds.map fun i => s!"e{i}")))

end
end AV.W
