/- Read-only queries and the canonical dump of PROTOCOL.md. -/
import AutosarVerif.Model.WorldOps2

namespace AV.W
open Items

section
variable (S : Spec) (V : Env)

def hexD (n : Nat) : Char := if n < 10 then Char.ofNat (48 + n) else Char.ofNat (87 + n)
def hexB (b : Bytes) : String :=
  if b.isEmpty then "-" else String.ofList (b.flatMap fun x => [hexD (x.toNat / 16), hexD (x.toNat % 16)])
def hex16 (n : Nat) : String := String.ofList ((List.range 16).reverse.map fun i => hexD ((n >>> (4 * i)) % 16))
def isNaN (b : Nat) : Bool := (b >>> 52) % 2048 == 2047 && b % (2 ^ 52) != 0

def showVal : CDv → String
  | .str b => "S:" ++ hexB b
  | .enum i => s!"E:{i}"
  | .uint n => s!"U:{n}"
  | .float b => if isNaN b then "F:nan" else "F:" ++ hex16 b

def showPRef : PRef → String
  | .elem i => s!"e{i}"
  | .model k => s!"m{k}"
  | .none => "-"

/-- insertion sort by a key (small lists) -/
def sortBy {α : Type} (lt : α → α → Bool) (l : List α) : List α :=
  l.foldl (fun acc x =>
    let (a, b) := acc.span fun y => !lt x y
    a ++ [x] ++ b) []

def bytesLt : Bytes → Bytes → Bool
  | [], [] => false
  | [], _ :: _ => true
  | _ :: _, [] => false
  | a :: as, b :: bs => if a < b then true else if a > b then false else bytesLt as bs

def showNode (fuel : Nat) (h : Hdr) (kids : Items) : String :=
  match fuel with
  | 0 => "?"
  | fuel + 1 =>
    let attrs := ";".intercalate (h.attrs.map fun a => s!"{a.1}={showVal a.2}")
    let cm := match h.comment with | some c => hexB c | none => "-"
    let fl := ",".intercalate ((sortBy (· < ·) h.files).map fun f => s!"f{f}")
    let rec items : Items → List String
      | .nil => []
      | .elem sh sk r => showNode fuel sh sk :: items r
      | .text c r => ("T" ++ showVal c) :: items r
    s!"(e{h.id},n{h.name},p{showPRef h.parent},a[{attrs}],c{cm},f[{fl}],[{",".intercalate (items kids)}])"

def dumpModel (k : Nat) (m : Model) : String :=
  let files := ",".intercalate (m.files.map fun f => s!"f{f.id}:{hexB f.name}:{f.version}")
  let tree := if m.rootIssued then showNode (m.rootKids.size + 2) m.rootHdr m.rootKids else "-"
  let idx := ",".intercalate ((sortBy (fun a b => bytesLt a.1 b.1) m.index).map fun e => s!"{hexB e.1}=e{e.2}")
  let refs := ",".intercalate ((sortBy (fun a b => bytesLt a.1 b.1) m.refs).map fun e =>
    s!"{hexB e.1}={"+".intercalate ((sortBy (· < ·) (e.2.filter (· != ghostRef))).map fun i => s!"e{i}")}")
  "M" ++ toString k ++ "{files=[" ++ files ++ "]tree=" ++ tree ++ "index=[" ++ idx ++ "]refs=[" ++ refs ++ "]}"

def dumpWorld (w : World) : String :=
  "ok " ++ String.join ((List.range w.models.length).map fun k => dumpModel k w.models[k]!)

def showIds (l0 : List Nat) : String :=
  let l := l0.filter (· != ghostRef)
  if l.isEmpty then "ok -" else "ok " ++ ",".intercalate ((sortBy (· < ·) l).map fun i => s!"e{i}")

/-- `Element::path` -/
def qPath (w : World) (x : Nat) : String :=
  match locate w x with
  | some (_, c) => let (h, k) := lastOf c; if isIdentifiable S h k then "ok " ++ hexB (pathOfChain S c) else "err"
  | none => "err"

def qParent (w : World) (x : Nat) : String :=
  match locate w x with
  | some (_, c) => match c.dropLast.getLast? with
    | some (ph, _) => s!"ok e{ph.id}"
    | none => "ok model"
  | none => "err"

def qPos (w : World) (x : Nat) : String :=
  match locate w x with
  | some (_, c) => match c.dropLast.getLast? with
    | some (_, pk) => match pk.childPos x 0 with
      | some i => s!"ok {i}"
      | none => "none"
    | none => "none"
  | none => "none"

def attrVal (h : Hdr) (a : Nat) : Option CDv :=
  match h.attrs.find? (fun e => e.1 == a) with
  | some e => some e.2
  | none => none

/-- `get_reference_target` -/
def refTarget (w : World) (x : Nat) : Option Nat :=
  match locate w x with
  | some (k, c) =>
    let m := w.models[k]!
    let (h, kids) := lastOf c
    if S.isRef h.ety.typ then
      match charData S h kids with
      | some (.str r) =>
        match m.lookup r with
        | some t =>
          match attrVal h V.nmDest, locate w t with
          | some (.enum d), some (_, tc) => if S.verifyDest (lastOf tc).1.ety.typ d then some t else none
          | _, _ => none
        | none => none
      | _ => none
    else none
  | none => none

def qTarget (w : World) (x : Nat) : String :=
  match refTarget S V w x with
  | some t => s!"ok e{t}"
  | none => "err"

/-- `check_references` -/
def qCheckRefs (w : World) (k : Nat) : String :=
  match w.models[k]? with
  | none => "bad-op"
  | some m =>
    showIds (m.refs.flatMap fun e =>
      match m.lookup e.1 with
      | some t =>
        match locate w t with
        | some (_, tc) =>
          e.2.filter fun r =>
            match locate w r with
            | some (_, rc) =>
              match attrVal (lastOf rc).1 V.nmDest with
              | some (.enum d) => !S.verifyDest (lastOf tc).1.ety.typ d
              | _ => true
            | none =>
              -- a referrer that is not in the tree any more (kept alive only by an outside handle)
              match (w.dead.find? (·.id == r)) with
              | some dh => match attrVal dh V.nmDest with
                | some (.enum d) => !S.verifyDest (lastOf tc).1.ety.typ d
                | _ => true
              | none => true
        | none => e.2
      | none => e.2)

def qRange (w : World) (p name : Nat) : String :=
  match locate w p with
  | some (k, c) =>
    let (h, kids) := lastOf c
    match minVersion V w.models[k]! c with
    | some ver => match insertRange S h kids name ver with
      | some (lo, hi) => s!"ok {lo} {hi}"
      | none => "err"
    | none => "err"
  | none => "err"

/-- `list_valid_sub_elements` -/
def qValid (w : World) (p : Nat) : String :=
  match hdrOf w p, locate w p with
  | some _, some (k, c) =>
    let (h, kids) := lastOf c
    match minVersion V w.models[k]! c with
    | some ver =>
      let l := (S.listSub h.ety.typ).filterMap fun (nm, e, mask, _) =>
        if (mask &&& ver) ≠ 0 then
          let named := ((S.shortNameMask e.typ).getD 0 &&& ver) ≠ 0
          let allowed := (insertRange S h kids nm ver).isSome
          some s!"{nm}:{if named then 1 else 0}:{if allowed then 1 else 0}"
        else none
      if l.isEmpty then "ok -" else "ok " ++ ",".intercalate l
    | none => "ok -"
  | _, _ => "ok -"

end
end AV.W
