/-
Model of `autosar-data-specification/src/lib.rs` (the lookup functions of `ElementType`)
over an *abstract* specification `Spec`.  The real tables are regenerated from
`specification.rs` into `Gen/Spec*.lean` (`realSpec`), so every theorem stated for an arbitrary
`S : Spec` (with the well-formedness facts it needs as hypotheses) applies to all ≈9000 element
types and 21 versions at once, and a table edit re-opens the regenerated obligation
`realSpec_wf`.

Recursion through nested groups carries explicit fuel (`S.depth` = bound on group nesting,
checked for the real tables by `Spec.depthOk`).  No imports.
-/
import AutosarVerif.Model.Hash

namespace AV

inductive Mode | sequence | choice | bag | characters | mixed
  deriving DecidableEq, Repr, Inhabited

inductive Mult | zeroOrOne | one | any
  deriving DecidableEq, Repr, Inhabited

/-- `CharacterDataSpec` -/
inductive CSpec
  | enum (items : List (Nat × Nat))            -- (EnumItem discriminant, version mask)
  | pattern (validator : Nat) (maxLen : Option Nat)   -- `validate_regex_<validator>`
  | string (preserveWs : Bool) (maxLen : Option Nat)
  | uint
  | float
  deriving Repr, Inhabited

/-- one entry of `SUBELEMENTS` -/
inductive SubEntry
  | elem (defId : Nat)
  | group (tyId : Nat)
  deriving DecidableEq, Repr, Inhabited

/-- `ElementType { def, typ }` -/
structure ETy where
  defId : Nat
  typ : Nat
  deriving DecidableEq, Repr, Inhabited, BEq

/-- The specification tables, as functions of an index (out-of-range indices are the business of
`Spec.WF`, not of the accessors). -/
structure Spec where
  nTypes : Nat          -- DATATYPES.len()
  nDefs : Nat           -- ELEMENTS.len()
  nSubs : Nat           -- SUBELEMENTS.len()
  nAttrs : Nat          -- ATTRIBUTES.len()
  nVer : Nat            -- VERSION_INFO.len()
  nCData : Nat          -- CHARACTER_DATA.len()
  nRefItems : Nat       -- REF_ITEMS.len()
  -- DATATYPES
  subStart : Nat → Nat
  subEnd : Nat → Nat
  subVer : Nat → Nat
  attrStart : Nat → Nat
  attrEnd : Nat → Nat
  attrVer : Nat → Nat
  cdataOf : Nat → Option Nat
  mode : Nat → Mode
  refStart : Nat → Nat
  refEnd : Nat → Nat
  -- SUBELEMENTS / VERSION_INFO / ATTRIBUTES / REF_ITEMS
  subEntry : Nat → SubEntry
  verInfo : Nat → Nat
  attrName : Nat → Nat
  attrCData : Nat → Nat
  attrRequired : Nat → Bool
  refItem : Nat → Nat
  -- ELEMENTS
  defName : Nat → Nat
  defType : Nat → Nat
  defMult : Nat → Mult
  defOrdered : Nat → Bool
  defSplit : Nat → Nat
  -- CHARACTER_DATA
  cspec : Nat → CSpec
  refTypeIdx : Nat      -- REFERENCE_TYPE_IDX
  rootDef : Nat         -- AUTOSAR_ELEMENT
  depth : Nat           -- bound on the nesting of groups (fuel of the recursive lookups)
  -- name ids the code refers to by name
  nmShortName : Nat     -- ElementName::ShortName
  atDest : Nat          -- AttributeName::Dest

namespace Spec

/-- `ElementType::new(def)` -/
def ety (S : Spec) (d : Nat) : ETy := ⟨d, S.defType d⟩

/-- number of sub-entries of data type / group `t` -/
def subCount (S : Spec) (t : Nat) : Nat := S.subEnd t - S.subStart t

/-- `get_sub_elements(t)[i]` -/
def subAt (S : Spec) (t i : Nat) : SubEntry := S.subEntry (S.subStart t + i)

/-- version mask of sub-entry `i` of `t`: `VERSION_INFO[sub_element_ver + i]` -/
def subMask (S : Spec) (t i : Nat) : Nat := S.verInfo (S.subVer t + i)

/-- `find_sub_element_internal` on type / group `t`: first match in document order, descending
into groups.  `fuel` bounds the group nesting.  Returns the element type and the index path. -/
def findSubT (S : Spec) (name vmask : Nat) : Nat → Nat → Option (ETy × List Nat)
  | 0, _ => none
  | fuel + 1, t =>
    (List.range (S.subCount t)).findSome? fun pos =>
      match S.subAt t pos with
      | .elem d =>
        if S.defName d = name ∧ (vmask &&& S.subMask t pos) ≠ 0 then some (S.ety d, [pos]) else none
      | .group g =>
        match findSubT S name vmask fuel g with
        | some (e, idx) => some (e, pos :: idx)
        | none => none

/-- `ElementType::find_sub_element(name, version_mask)` on data type `t` -/
def findSub (S : Spec) (t name vmask : Nat) : Option (ETy × List Nat) :=
  findSubT S name vmask (S.depth + 1) t

/-- `find_sub_element(name, version).or_else(|| find_sub_element(name, u32::MAX))` -/
def findSubOr (S : Spec) (t name vmask : Nat) : Option (ETy × List Nat) :=
  match S.findSub t name vmask with
  | some x => some x
  | none => S.findSub t name 0xFFFFFFFF

/-- `get_sub_element_spec(indices)`: the entry and its version mask; `none` where Rust returns
`None` (empty path, or an element where a group is required).  Out-of-range indices are a Rust
panic; they are excluded by `IdxValid` in the theorems that use this function. -/
def subSpecAt (S : Spec) : Nat → List Nat → Option (SubEntry × Nat)
  | _, [] => none
  | t, [i] => some (S.subAt t i, S.subMask t i)
  | t, i :: rest =>
    match S.subAt t i with
    | .elem _ => none
    | .group g => subSpecAt S g rest

def subMaskAt (S : Spec) (t : Nat) (idx : List Nat) : Option Nat := (S.subSpecAt t idx).map (·.2)

/-- `get_sub_element_multiplicity` -/
def subMult (S : Spec) (t : Nat) (idx : List Nat) : Option Mult :=
  match S.subSpecAt t idx with
  | some (.elem d, _) => some (S.defMult d)
  | _ => none

/-- `get_sub_element_container_mode`; `none` stands for the `unreachable!` -/
def containerMode (S : Spec) (t : Nat) (idx : List Nat) : Option Mode :=
  if idx.length < 2 then some (S.mode t)
  else match S.subSpecAt t idx.dropLast with
    | some (.group g, _) => some (S.mode g)
    | _ => none

/-- `find_common_group`: the innermost group containing both index paths -/
def commonGroup (S : Spec) : Nat → List Nat → List Nat → Nat
  | t, i :: is, j :: js =>
    if i = j then
      match S.subAt t i with
      | .elem _ => t
      | .group g => commonGroup S g is js
    else t
  | t, _, _ => t

/-- `short_name_version_mask` -/
def shortNameMask (S : Spec) (t : Nat) : Option Nat :=
  if S.subCount t = 0 then none
  else match S.subAt t 0 with
    | .elem d => if S.defName d = S.nmShortName then some (S.subMask t 0) else none
    | .group _ => none

def isNamed (S : Spec) (t : Nat) : Bool := (S.shortNameMask t).isSome

def isNamedIn (S : Spec) (t v : Nat) : Bool :=
  match S.shortNameMask t with
  | some m => (m &&& v) != 0
  | none => false

def isRef (S : Spec) (t : Nat) : Bool := S.cdataOf t == some S.refTypeIdx

def chardataSpec (S : Spec) (t : Nat) : Option CSpec := (S.cdataOf t).map S.cspec

/-- position of attribute `name` in the attribute list of `t` (scan of `n` entries from `pos`) -/
def findAttrFrom (S : Spec) (t name : Nat) : Nat → Nat → Option Nat
  | _, 0 => none
  | pos, n + 1 =>
    if S.attrName (S.attrStart t + pos) = name then some pos else findAttrFrom S t name (pos + 1) n

/-- `find_attribute_spec`: (character data spec id, required, version mask) -/
def findAttr (S : Spec) (t name : Nat) : Option (Nat × Bool × Nat) :=
  match S.findAttrFrom t name 0 (S.attrEnd t - S.attrStart t) with
  | some p => some (S.attrCData (S.attrStart t + p), S.attrRequired (S.attrStart t + p), S.verInfo (S.attrVer t + p))
  | none => none

/-- flattening of the sub-element listing (what `SubelemDefinitionsIter` yields, in order):
(name, element type, version mask, index path) -/
def listSubT (S : Spec) : Nat → Nat → List (Nat × ETy × Nat × List Nat)
  | 0, _ => []
  | fuel + 1, t =>
    (List.range (S.subCount t)).flatMap fun pos =>
      match S.subAt t pos with
      | .elem d => [(S.defName d, S.ety d, S.subMask t pos, [pos])]
      | .group g => (listSubT S fuel g).map fun (nm, e, m, idx) => (nm, e, m, pos :: idx)

def listSub (S : Spec) (t : Nat) : List (Nat × ETy × Nat × List Nat) :=
  listSubT S (S.depth + 1) t

/-- the attribute listing of `t`: (name, cdata id, required, version mask) -/
def listAttrs (S : Spec) (t : Nat) : List (Nat × Nat × Bool × Nat) :=
  (List.range (S.attrEnd t - S.attrStart t)).map fun p =>
    (S.attrName (S.attrStart t + p), S.attrCData (S.attrStart t + p), S.attrRequired (S.attrStart t + p),
      S.verInfo (S.attrVer t + p))

/-- `REF_ITEMS[ref_info.0 .. ref_info.1]` of type `t` -/
def refItems (S : Spec) (t : Nat) : List Nat :=
  (List.range (S.refEnd t - S.refStart t)).map fun k => S.refItem (S.refStart t + k)

/-- `verify_reference_dest` -/
def verifyDest (S : Spec) (t dest : Nat) : Bool := (S.refItems t).contains dest

/-- `reference_dest_value(self = r, other = t)` -/
def refDestValue (S : Spec) (r t : Nat) : Option Nat :=
  if S.isRef r && S.isNamed t then
    match S.findAttr r S.atDest with
    | some (cd, _, _) =>
      match S.cspec cd with
      | .enum items => (S.refItems t).find? fun v => items.any fun it => it.1 == v
      | _ => none
    | none => none
  else none

/-- the group nesting below `t` is at most `fuel` levels (so `fuel + 1` suffices for the lookups) -/
def depthOk (S : Spec) : Nat → Nat → Bool
  | 0, t => (List.range (S.subCount t)).all fun pos =>
      match S.subAt t pos with
      | .elem _ => true
      | .group _ => false
  | fuel + 1, t => (List.range (S.subCount t)).all fun pos =>
      match S.subAt t pos with
      | .elem _ => true
      | .group g => depthOk S fuel g

end Spec
end AV
