/-
C16: an abstract model of check-then-act operations on a shared model, used for the negation witness of
the known finding "two loads into an empty model".  `load_buffer_internal` reads `files.is_empty()` in one
critical section and installs / merges the parsed tree in a later one.
-/
namespace AV.Atom

/-- the shared model, abstractly: the set of loaded contents and the list of registered files -/
structure M where
  content : List Nat
  files : List Nat
  deriving DecidableEq, Repr

/-- a thread executing `load_buffer(x)`: before the check, after the check (remembering what it saw), done -/
inductive PC
  | start (x : Nat)
  | checked (x : Nat) (wasEmpty : Bool)
  | done
  deriving DecidableEq, Repr

/-- one critical section of a load -/
def stepLoad (m : M) : PC → M × PC
  | .start x => (m, .checked x m.files.isEmpty)
  | .checked x true => ({ content := [x], files := m.files ++ [x] }, .done)              -- install as the root
  | .checked x false => ({ content := m.content ++ [x], files := m.files ++ [x] }, .done)  -- merge
  | .done => (m, .done)

/-- run a schedule (which thread moves next) -/
def run : List Nat → M → List PC → M × List PC
  | [], m, ts => (m, ts)
  | i :: sched, m, ts =>
    match ts[i]? with
    | some pc => let (m', pc') := stepLoad m pc; run sched m' (ts.set i pc')
    | none => run sched m ts

def empty : M := ⟨[], []⟩

end AV.Atom
