/-
The editing operations of the public API (`element.rs` wrappers over `elementraw.rs`, index
maintenance of `autosarmodel.rs`) on the world of `Model/World.lean`.
Each operation returns the new world and an answer `ok …` / `err` (PROTOCOL.md); on `err` the
world is returned unchanged unless the Rust code itself mutates before failing.
-/
import AutosarVerif.Model.World

namespace AV.W
open Items

section
variable (S : Spec) (V : Env)

def Model.rootItems (m : Model) : Items := .elem m.rootHdr m.rootKids .nil

def Model.setRoot (m : Model) (its : Items) : Model :=
  match its with
  | .elem h k _ => { m with rootHdr := h, rootKids := k }
  | _ => m

/-- the model and the chain (root … element) of a live element -/
def locate (w : World) (id : Nat) : Option (Nat × List (Hdr × Items)) :=
  (List.range w.models.length).findSome? fun k =>
    match w.models[k]? with
    | some m => (m.rootItems.chain id).map fun c => (k, c)
    | none => none

def setModel (w : World) (k : Nat) (m : Model) : World := { w with models := w.models.set k m }

def lastOf (c : List (Hdr × Items)) : Hdr × Items := c.getLast?.getD (default, .nil)

/-- `Element::min_version`: nearest non-empty local file set upwards, minimum of those files' versions -/
def minVersion (m : Model) (c : List (Hdr × Items)) : Option Nat :=
  match c.reverse.find? (fun (h, _) => !h.files.isEmpty) with
  | some (h, _) =>
    some ((m.files.filter fun f => h.files.contains f.id).foldl (fun v f => if f.version < v then f.version else v) V.latest)
  | none => none

def cmpIdx : List Nat → List Nat → Ordering
  | [], [] => .eq
  | [], _ :: _ => .lt
  | _ :: _, [] => .gt
  | a :: as, b :: bs => if a < b then .lt else if a > b then .gt else cmpIdx as bs

/-- the scan of `calc_element_insert_range` over the content items; `none` = insertion conflict -/
def rangeScan (typ : Nat) (ver : Nat) (newIdx : List Nat) : Items → Nat → Nat → Nat → Option (Nat × Nat)
  | .nil, _, lo, hi => some (lo, hi)
  | .text _ r, i, lo, _ => rangeScan typ ver newIdx r (i + 1) lo (i + 1)
  | .elem sh _ r, i, lo, hi =>
    match S.findSubOr typ sh.name ver with
    | none => rangeScan typ ver newIdx r (i + 1) lo hi
    | some (_, exIdx) =>
      match S.mode (S.commonGroup typ newIdx exIdx) with
      | .sequence =>
        match cmpIdx newIdx exIdx with
        | .lt => some (lo, hi)
        | .eq =>
          match S.subMult typ newIdx with
          | some .any => rangeScan typ ver newIdx r (i + 1) lo (i + 1)
          | some _ => none
          | none => rangeScan typ ver newIdx r (i + 1) lo (i + 1)
        | .gt => rangeScan typ ver newIdx r (i + 1) (i + 1) (i + 1)
      | .choice =>
        if newIdx = exIdx then
          match S.subMult typ newIdx with
          | some .any => rangeScan typ ver newIdx r (i + 1) lo (i + 1)
          | some _ => none
          | none => rangeScan typ ver newIdx r (i + 1) lo (i + 1)
        else none
      | .bag => rangeScan typ ver newIdx r (i + 1) lo (i + 1)
      | .mixed => rangeScan typ ver newIdx r (i + 1) lo (i + 1)
      | .characters => none

/-- `calc_element_insert_range` -/
def insertRange (h : Hdr) (kids : Items) (name ver : Nat) : Option (Nat × Nat) :=
  if S.mode h.ety.typ = .characters then none
  else match S.findSub h.ety.typ name ver with
    | none => none
    | some (_, newIdx) =>
      if S.mode h.ety.typ = .bag ∨ S.mode h.ety.typ = .mixed then some (0, kids.length)
      else rangeScan S h.ety.typ ver newIdx kids 0 0 0

def newHdr (id name : Nat) (ety : ETy) (parent : Nat) : Hdr :=
  { id := id, name := name, ety := ety, parent := .elem parent, attrs := [], files := [], comment := none }

/-- live lookup in the path index -/
def Model.lookup (m : Model) (p : Bytes) : Option Nat := idxGet m.index p

/-- `create_sub_element[_at]` -/
def opCreate (w : World) (p name : Nat) (pos? : Option Nat) : World × Ans :=
  match locate w p with
  | none => (w, .err)
  | some (k, c) =>
    let m := w.models[k]!
    let (h, kids) := lastOf c
    match minVersion V m c with
    | none => (w, .err)
    | some ver =>
      match insertRange S h kids name ver with
      | none => (w, .err)
      | some (lo, hi) =>
        let pos := pos?.getD hi
        if ¬ (lo ≤ pos ∧ pos ≤ hi) then (w, .err)
        else match S.findSub h.ety.typ name ver with
          | none => (w, .err)
          | some (ety, _) =>
            if S.isNamedIn ety.typ ver then (w, .err)
            else
              let nh := newHdr w.nextId name ety p
              let root' := m.rootItems.modify p fun h0 k0 => (h0, k0.insertAt (fun r => .elem nh .nil r) pos)
              ({ setModel w k (m.setRoot root') with nextId := w.nextId + 1 }, .ok s!"e{w.nextId}")

/-- `create_named_sub_element[_at]` -/
def opNamed (w : World) (p name : Nat) (item : Bytes) (pos? : Option Nat) : World × Ans :=
  match locate w p with
  | none => (w, .err)
  | some (k, c) =>
    let m := w.models[k]!
    let (h, kids) := lastOf c
    match minVersion V m c with
    | none => (w, .err)
    | some ver =>
      match insertRange S h kids name ver with
      | none => (w, .err)
      | some (lo, hi) =>
        let pos := pos?.getD hi
        if ¬ (lo ≤ pos ∧ pos ≤ hi) then (w, .err)
        else if item.isEmpty then (w, .err)
        else match S.findSub h.ety.typ name ver with
          | none => (w, .err)
          | some (ety, _) =>
            if ¬ S.isNamedIn ety.typ ver then (w, .err)
            else
              let nameOk : Bool := match S.findSub ety.typ S.nmShortName ver with
                | some (sty, _) => match S.chardataSpec sty.typ with
                  | some sp => checkValue V (.str item) sp ver
                  | none => false
                | none => false
              if !nameOk then (w, .err)
              else
                let path := pathOfChain S c ++ [47] ++ item
                if (m.lookup path).isSome then (w, .err)
                else
                  let eid := w.nextId
                  let sid := w.nextId + 1
                  -- SHORT-NAME: created by create_sub_element on the new (empty) element, then given its text
                  let snKid : Items := match S.findSub ety.typ S.nmShortName ver with
                    | some (sty, _) =>
                      if S.isNamedIn sty.typ ver then .nil
                      else .elem (newHdr sid S.nmShortName sty eid) (.text (.str item) .nil) .nil
                    | none => .nil
                  let nh := newHdr eid name ety p
                  let root' := m.rootItems.modify p fun h0 k0 => (h0, k0.insertAt (fun r => .elem nh snKid r) pos)
                  let m' := { m.setRoot root' with index := idxInsert m.index path eid }
                  ({ setModel w k m' with nextId := w.nextId + 2 }, .ok s!"e{eid} e{sid}")

/-- `remove_internal`: un-register everything below a node; returns (index, refs, removed ids) -/
def removeInternal (fuel : Nat) (h : Hdr) (kids : Items) (path : Bytes) (idx : List (Bytes × Nat))
    (rs : List (Bytes × List Nat)) : List (Bytes × Nat) × List (Bytes × List Nat) × List Hdr :=
  match fuel with
  | 0 => (idx, rs, [])
  | fuel + 1 =>
    let (path', idx1) :=
      if isIdentifiable S h kids then
        match itemName S h kids with
        | some n => let p := path ++ [47] ++ n; (p, idxRemove idx p)
        | none => (path, idx)
      else (path, idx)
    let rs1 := if S.isRef h.ety.typ then
        match charData S h kids with
        | some (.str r) => refsRemove rs r h.id
        | _ => rs
      else rs
    kids.childElems.foldl (fun (acc : List (Bytes × Nat) × List (Bytes × List Nat) × List Hdr) (ch : Hdr × Items) =>
      let (i2, r2, d2) := removeInternal fuel ch.1 ch.2 path' acc.1 acc.2.1
      (i2, r2, acc.2.2 ++ d2)) (idx1, rs1, [{ h with parent := .none, files := [] }])

def Items.size : Items → Nat
  | .nil => 1
  | .elem _ k r => k.size + r.size + 1
  | .text _ r => r.size + 1

/-- `remove_sub_element` -/
def opRemove (w : World) (p cid : Nat) : World × Ans :=
  match locate w p with
  | none => (w, .err)
  | some (k, c) =>
    let m := w.models[k]!
    let (h, kids) := lastOf c
    match kids.childPos cid 0, kids.child cid with
    | some pos, some (ch, ck) =>
      if S.isNamed h.ety.typ ∧ ch.name = S.nmShortName then (w, .err)
      else
        let (idx', rs', deadHdrs) := removeInternal S (ck.size + 2) ch ck (pathOfChain S c) m.index m.refs
        let root' := m.rootItems.modify p fun h0 k0 => (h0, k0.removeAt pos)
        let m' := { m.setRoot root' with index := idx', refs := rs' }
        ({ setModel w k m' with dead := w.dead ++ deadHdrs }, .ok "")
    | _, _ => (w, .err)

/-- overwrite the text of the reference elements `ids` (their single content item) -/
def setRefTexts (root : Items) (ids : List Nat) (txt : Bytes) : Items :=
  ids.foldl (fun r id => r.modify id fun h0 k0 =>
    match k0 with
    | .nil => (h0, k0)    -- Rust: `content[0] = …` on an empty list panics; not reachable for registered referrers
    | .elem _ _ rest => (h0, .text (.str txt) rest)
    | .text _ rest => (h0, .text (.str txt) rest)) root

/-- the reference rewriting loop of `set_item_name` -/
def renameRefs (rs : List (Bytes × List Nat)) (root : Items) (oldPath newPath : Bytes) :
    List (Bytes × List Nat) × Items :=
  rs.foldl (fun (acc : List (Bytes × List Nat) × Items) e =>
    match pathSuffix oldPath e.1 with
    | some partialPath =>
      -- the list currently stored under this key (may have been extended by an earlier step)
      let cur := refsGet acc.1 e.1
      if (acc.1.any (·.1 == e.1)) then
        let newKey := newPath ++ partialPath
        let rs1 := acc.1.filter (·.1 != e.1)
        let rs2 := if rs1.any (·.1 == newKey) then rs1.map fun x => if x.1 == newKey then (x.1, x.2 ++ cur) else x
          else rs1 ++ [(newKey, cur)]
        (rs2, setRefTexts acc.2 cur newKey)
      else acc
    | none => acc) (rs, root)

/-- `set_item_name` -/
def opRename (w : World) (x : Nat) (newName : Bytes) : World × Ans :=
  if newName.isEmpty then (w, .err)
  else match locate w x with
  | none => (w, .err)
  | some (k, c) =>
    let m := w.models[k]!
    let (h, kids) := lastOf c
    match minVersion V m c with
    | none => (w, .err)
    | some ver =>
      match itemName S h kids with
      | none => (w, .err)
      | some cur =>
        if cur = newName then (w, .ok "")
        else
          let oldPath := pathOfChain S c
          let newPath := oldPath.take (oldPath.length - cur.length) ++ newName
          if (m.lookup newPath).isSome then (w, .err)
          else match kids with
            | .elem sh _ _ =>
              if sh.name = S.nmShortName then
                -- raw set_character_data on the SHORT-NAME: value must satisfy its spec
                let okv := (S.mode sh.ety.typ = .characters) &&
                  match S.chardataSpec sh.ety.typ with
                  | some sp => checkValue V (.str newName) sp ver
                  | none => false
                if ¬ okv then (w, .err)
                else
                  let root1 := m.rootItems.modify sh.id fun h0 _ => (h0, .text (.str newName) .nil)
                  let idx' := idxFix m.index oldPath newPath
                  let (rs', root2) := renameRefs m.refs root1 oldPath newPath
                  (setModel w k { m.setRoot root2 with index := idx', refs := rs' }, .ok "")
              else (w, .ok "")
            | _ => (w, .ok "")

/-- header of a live or removed element -/
def hdrOf (w : World) (x : Nat) : Option (Hdr × Items) :=
  match locate w x with
  | some (_, c) => some (lastOf c)
  | none => (w.dead.find? (·.id == x)).map fun h => (h, .nil)

/-- `Element::set_character_data` -/
def opCData (w : World) (x : Nat) (v : CDv) : World × Ans :=
  match hdrOf w x with
  | none => (w, .err)
  | some (h, kids) =>
    if ¬ (S.mode h.ety.typ = .characters ∨ S.mode h.ety.typ = .mixed) then (w, .err)
    else match S.chardataSpec h.ety.typ with
    | none => (w, .err)
    | some sp =>
      match locate w x with
      | none => (w, .err)
      | some (k, c) =>
        let m := w.models[k]!
        match minVersion V m c with
        | none => (w, .err)
        | some ver =>
          let isText := match sp with | .pattern _ _ => true | .string _ _ => true | _ => false
          let v' : Option CDv :=
            if checkValue V v sp ver then some v
            else if isText then
              match cdToString V v with
              | some s => if checkValue V (.str s) sp ver then some (.str s) else none
              | none => none
            else none
          match v' with
          | none => (w, .err)
          | some val =>
            -- MIXED content with sub-elements: the Rust code drops them without detaching them (known finding
            -- c03:mixed-set-cdata-drops-children); the half-detached elements are not modelled
            if !kids.childElems.isEmpty then (w, .unsupported) else
            -- SHORT-NAME: duplicate check and previous path
            let parentChain := c.dropLast
            let prev : Except Unit (Option Bytes) :=
              if h.name = S.nmShortName then
                match charData S h kids, parentChain.getLast? with
                | some (.str oldName), some (ph, pk) =>
                  if ¬ isIdentifiable S ph pk then .error ()
                  else
                    let path := pathOfChain S parentChain
                    match val with
                    | .str newName =>
                      if newName ≠ oldName then
                        let base := if oldName.isSuffixOf path then path.take (path.length - oldName.length) else path
                        if (m.lookup (base ++ newName)).isSome then .error () else .ok (some path)
                      else .ok (some path)
                    | _ => .ok (some path)
                | _, _ => .ok none
              else .ok none
            match prev with
            | .error _ => (w, .err)
            | .ok prevPath =>
              let oldRef := if S.isRef h.ety.typ then (charData S h kids).bind cdStr else none
              let root1 := m.rootItems.modify x fun h0 _ => (h0, .text val .nil)
              let idx' := match prevPath with
                | some pp =>
                  match root1.chain x with
                  | some c1 => idxFix m.index pp (pathOfChain S c1.dropLast)
                  | none => m.index
                | none => m.index
              let rs' := if S.isRef h.ety.typ then
                  match val with
                  | .str r => match oldRef with
                    | some o => refsFix m.refs o r x
                    | none => refsAdd m.refs r x
                  | _ => m.refs
                else m.refs
              (setModel w k { m.setRoot root1 with index := idx', refs := rs' }, .ok "")

/-- `remove_character_data` -/
def opRmCData (w : World) (x : Nat) : World × Ans :=
  match hdrOf w x with
  | none => (w, .err)
  | some (h, kids) =>
    if S.mode h.ety.typ ≠ .characters then (w, .err)
    else if h.name = S.nmShortName then (w, .err)
    else match charData S h kids with
      | none => (w, .ok "")
      | some cd =>
        match locate w x with
        | none => (w, .ok "")
        | some (k, _) =>
          let m := w.models[k]!
          let rs' := if S.isRef h.ety.typ then
              match cd with | .str r => refsRemove m.refs r x | _ => m.refs
            else m.refs
          let root1 := m.rootItems.modify x fun h0 _ => (h0, .nil)
          (setModel w k { m.setRoot root1 with refs := rs' }, .ok "")

/-- `set_attribute_internal` on a header -/
def setAttrHdr (h : Hdr) (a : Nat) (v : CDv) (ver : Nat) : Option Hdr :=
  match S.findAttr h.ety.typ a with
  | none => none
  | some (cd, _, mask) =>
    if (mask &&& ver) = 0 then none
    else if ¬ checkValue V v (S.cspec cd) ver then none
    else if h.attrs.any (·.1 == a) then some { h with attrs := h.attrs.map fun e => if e.1 == a then (a, v) else e }
    else some { h with attrs := h.attrs ++ [(a, v)] }

/-- `set_attribute` -/
def opAttr (w : World) (x a : Nat) (v : CDv) : World × Ans :=
  match locate w x with
  | none => (w, .err)
  | some (k, c) =>
    let m := w.models[k]!
    let (h, _) := lastOf c
    match minVersion V m c with
    | none => (w, .err)
    | some ver =>
      match setAttrHdr S V h a v ver with
      | none => (w, .err)
      | some _ => (setModel w k (m.setRoot (m.rootItems.modify x fun h0 k0 => ((setAttrHdr S V h0 a v ver).getD h0, k0))), .ok "")

/-- `CharacterData::parse` -/
def parseValue (s : Bytes) (sp : CSpec) (ver : Nat) : Option CDv :=
  match sp with
  | .enum items => match V.enumOf s with
    | some i => if items.any fun it => it.1 == i && (it.2 &&& ver) != 0 then some (.enum i) else none
    | none => none
  | .pattern k ml => if (match ml with | some mx => decide (s.length ≤ mx) | none => true) && V.validate k s then some (.str s) else none
  | .string _ ml => if (match ml with | some mx => decide (s.length ≤ mx) | none => true) then some (.str s) else none
  | .uint => (CData.parseU64 s).map .uint
  | .float => (CData.parseF64 s).map .float

/-- `set_attribute_string` -/
def opAttrS (w : World) (x a : Nat) (s : Bytes) : World × Ans :=
  match locate w x with
  | none => (w, .err)
  | some (k, c) =>
    let m := w.models[k]!
    let (h, _) := lastOf c
    match minVersion V m c with
    | none => (w, .err)
    | some ver =>
      match S.findAttr h.ety.typ a with
      | none => (w, .err)
      | some (cd, _, mask) =>
        if (mask &&& ver) = 0 then (w, .err)
        else match parseValue V s (S.cspec cd) ver with
          | none => (w, .err)
          | some v =>
            let upd (h0 : Hdr) : Hdr := if h0.attrs.any (·.1 == a) then { h0 with attrs := h0.attrs.map fun e => if e.1 == a then (a, v) else e }
              else { h0 with attrs := h0.attrs ++ [(a, v)] }
            (setModel w k (m.setRoot (m.rootItems.modify x fun h0 k0 => (upd h0, k0))), .ok "")

/-- `remove_attribute` -/
def opRmAttr (w : World) (x a : Nat) : World × Ans :=
  match locate w x with
  | none =>
    -- removed elements keep their attributes; the call works on them too
    match w.dead.find? (·.id == x) with
    | none => (w, .ok "false")
    | some h =>
      if h.attrs.any (·.1 == a) then
        match S.findAttr h.ety.typ a with
        | some (_, req, _) =>
          if req then (w, .ok "false")
          else
            ({ w with dead := w.dead.map fun d => if d.id == x then { d with attrs := d.attrs.filter (·.1 != a) } else d }, .ok "true")
        | none => (w, .ok "false")
      else (w, .ok "false")
  | some (k, c) =>
    let m := w.models[k]!
    let (h, _) := lastOf c
    if h.attrs.any (·.1 == a) then
      match S.findAttr h.ety.typ a with
      | some (_, req, _) =>
        if req then (w, .ok "false")
        else
          (setModel w k (m.setRoot (m.rootItems.modify x fun h0 k0 => ({ h0 with attrs := h0.attrs.filter (·.1 != a) }, k0))), .ok "true")
      | none => (w, .ok "false")
    else (w, .ok "false")

/-- `set_reference_target` -/
def opSetRef (w : World) (x t : Nat) : World × Ans :=
  match hdrOf w x with
  | none => (w, .err)
  | some (h, kids) =>
    if ¬ S.isRef h.ety.typ then (w, .err)
    else match locate w t with
    | none => (w, .err)
    | some (_, tc) =>
      let (th, tk) := lastOf tc
      if ¬ isIdentifiable S th tk then (w, .err)
      else
        let newRef := pathOfChain S tc
        let item := match V.enumOf (V.elemText th.name) with
          | some i => some i
          | none => S.refDestValue h.ety.typ th.ety.typ
        match item with
        | none => (w, .err)
        | some it =>
          match locate w x with
          | none => (w, .err)
          | some (k, c) =>
            let m := w.models[k]!
            match minVersion V m c with
            | none => (w, .err)
            | some ver =>
              match setAttrHdr S V h V.nmDest (.enum it) ver with
              | none => (w, .err)
              | some h' =>
                let rs' := match charData S h kids with
                  | some (.str o) => refsFix m.refs o newRef x
                  | _ => refsAdd m.refs newRef x
                -- raw set_character_data
                let okMode : Bool := decide (S.mode h.ety.typ = .characters ∨ (S.mode h.ety.typ = .mixed ∧ kids.length ≤ 1))
                let okVal : Bool := match S.chardataSpec h.ety.typ with
                  | some sp => checkValue V (.str newRef) sp ver
                  | none => false
                if okMode && okVal then
                  let kids' : Items := match kids with
                    | .nil => .text (.str newRef) .nil
                    | .elem _ _ r => .text (.str newRef) r
                    | .text _ r => .text (.str newRef) r
                  (setModel w k { m.setRoot (m.rootItems.modify x fun _ _ => (h', kids')) with refs := rs' }, .ok "")
                else
                  -- refused before anything is changed (`accepts_character_data`, since the repair of finding
                  -- c11:set-reference-target-late-failure; before it DEST and the reverse map had already been updated)
                  (w, .err)

/-- `set_comment`: "--" is replaced by "__" (left to right, non-overlapping) -/
def fixComment : Bytes → Bytes
  | 45 :: 45 :: r => 95 :: 95 :: fixComment r
  | c :: r => c :: fixComment r
  | [] => []

def opComment (w : World) (x : Nat) (cm : Option Bytes) : World × Ans :=
  match locate w x with
  | none =>
    -- through a stale handle the detached element is changed (visible if it is copied later)
    ({ w with dead := w.dead.map fun d => if d.id == x then { d with comment := cm.map fixComment } else d }, .ok "")
  | some (k, _) =>
    let m := w.models[k]!
    (setModel w k (m.setRoot (m.rootItems.modify x fun h0 k0 => ({ h0 with comment := cm.map fixComment }, k0))), .ok "")

/-- `insert_character_content_item` -/
def opInsText (w : World) (x pos : Nat) (s : Bytes) : World × Ans :=
  match locate w x with
  -- the Rust function does not look at the element's place: through a stale handle it edits the detached element
  -- (no effect on the live model); the content of detached elements is not modelled
  | none => (w, if w.dead.any (·.id == x) then .unsupported else .err)
  | some (k, c) =>
    let m := w.models[k]!
    let (h, kids) := lastOf c
    if S.mode h.ety.typ ≠ .mixed then (w, .err)
    else if pos > kids.length then (w, .err)
    else (setModel w k (m.setRoot (m.rootItems.modify x fun h0 k0 => (h0, k0.insertAt (fun r => .text (.str s) r) pos))), .ok "")

def isTextAt : Items → Nat → Bool
  | .text _ _, 0 => true
  | .elem _ _ _, 0 => false
  | .nil, _ => false
  | .text _ r, q + 1 => isTextAt r q
  | .elem _ _ r, q + 1 => isTextAt r q

/-- `remove_character_content_item` -/
def opRmText (w : World) (x pos : Nat) : World × Ans :=
  match locate w x with
  | none => (w, if w.dead.any (·.id == x) then .unsupported else .err)
  | some (k, c) =>
    let m := w.models[k]!
    let (h, kids) := lastOf c
    if S.mode h.ety.typ ≠ .mixed then (w, .err)
    else if isTextAt kids pos then
      (setModel w k (m.setRoot (m.rootItems.modify x fun h0 k0 => (h0, k0.removeAt pos))), .ok "")
    else (w, .err)

end
end AV.W
