/-
The stateful core: element trees with identities, the path index and the reverse reference map of
a model, and the editing operations of `element.rs` / `elementraw.rs` / `autosarmodel.rs`.

Representation (DESIGN.md §4.2): a content list is a forest in first-child / next-sibling form
(`Items`, ONE plain inductive type).  Every node carries its identity `id` and, redundantly, the
`parent` field the Rust code keeps in `ElementRaw.parent`; `Lemmas/World.lean` proves that the
operations keep the two in step (C03) and keep the index exact (C04).
Everything is parametric in the specification `S : Spec` and in `V`, the things the value layer
needs from outside (pattern validators, enum item texts).  No imports beyond the model.
-/
import AutosarVerif.Model.Spec
import AutosarVerif.Model.CData

namespace AV.W

/-- `CharacterData` -/
inductive CDv
  | str (b : Bytes)
  | enum (i : Nat)
  | uint (n : Nat)
  | float (bits : Nat)
  deriving DecidableEq, Repr, Inhabited

/-- `ElementOrModel` -/
inductive PRef
  | elem (id : Nat)
  | model (k : Nat)
  | none
  deriving DecidableEq, Repr, Inhabited

/-- everything `ElementRaw` holds except `content` -/
structure Hdr where
  id : Nat
  name : Nat            -- ElementName discriminant
  ety : ETy
  parent : PRef
  attrs : List (Nat × CDv)
  files : List Nat      -- local file membership (file ids)
  comment : Option Bytes
  deriving Repr, Inhabited

/-- an ordered content list = a forest -/
inductive Items where
  | nil
  | elem (h : Hdr) (kids : Items) (rest : Items)
  | text (c : CDv) (rest : Items)
  deriving Repr, Inhabited

structure File where
  id : Nat
  name : Bytes
  version : Nat
  /-- `xml_standalone`: the attribute of the xml header the file was loaded with -/
  standalone : Option Bool := none
  deriving Repr, Inhabited

structure Model where
  rootHdr : Hdr
  rootKids : Items
  rootIssued : Bool               -- has the root element been given a protocol id yet
  files : List File
  index : List (Bytes × Nat)      -- `identifiables` (order not observable: dumps are sorted)
  refs : List (Bytes × List Nat)  -- `reference_origins`
  deriving Repr, Inhabited

structure World where
  models : List Model
  nextId : Nat
  nextFile : Nat
  /-- headers of elements that were removed (stale handles): no content, no parent, no file set -/
  dead : List Hdr
  /-- every file ever created: (file id, model it was created in) — `ArxmlFile::model()` still answers for a file that
  was removed from its model -/
  fileOwner : List (Nat × Nat) := []
  deriving Repr, Inhabited

/-- answer of a state-changing request: `ok` with a payload (new handles, …), or an error -/
inductive Ans
  | ok (payload : String)
  | err
  | unsupported
  deriving DecidableEq, Repr

def Ans.show : Ans → String
  | .ok "" => "ok"
  | .ok p => "ok " ++ p
  | .err => "err"
  | .unsupported => "unsupported"

/-- what the value layer needs from outside the tree model -/
structure Env where
  /-- `validate_regex_k` -/
  validate : Nat → Bytes → Bool
  /-- `EnumItem::to_str` -/
  enumText : Nat → Bytes
  /-- `EnumItem::from_str` -/
  enumOf : Bytes → Option Nat
  /-- `ElementName::to_str` -/
  elemText : Nat → Bytes
  /-- `AttributeName::to_str` -/
  attrText : Nat → Bytes
  nmIndex : Nat          -- ElementName::Index
  nmDefinitionRef : Nat  -- ElementName::DefinitionRef
  latest : Nat   -- AutosarVersion::LATEST
  nmDest : Nat   -- AttributeName::Dest (same as Spec.atDest)
  /-- `ElementName::from_bytes`, `AttributeName::from_bytes` -/
  elemOf : Bytes → Option Nat := fun _ => none
  attrOf : Bytes → Option Nat := fun _ => none
  /-- `AutosarVersion::from_str` on the name of the xsd file -/
  verOfFile : Bytes → Option Nat := fun _ => none
  /-- `AutosarVersion::filename` -/
  fileOfVer : Nat → Bytes := fun _ => []
  atXmlns : Nat := 0          -- AttributeName::xmlns
  atXmlnsXsi : Nat := 0       -- AttributeName::xmlnsXsi
  atSchemaLocation : Nat := 0 -- AttributeName::xsiSchemalocation

namespace Items

def length : Items → Nat
  | nil => 0
  | elem _ _ r => r.length + 1
  | text _ r => r.length + 1

def append : Items → Items → Items
  | nil, b => b
  | elem h k r, b => elem h k (append r b)
  | text c r, b => text c (append r b)

/-- all element ids of the forest, preorder -/
def ids : Items → List Nat
  | nil => []
  | elem h k r => h.id :: (k.ids ++ r.ids)
  | text _ r => r.ids

/-- insert one content item (`new` prepends it to the remaining list) at position `pos` (≤ length) -/
def insertAt (new : Items → Items) : Items → Nat → Items
  | its, 0 => new its
  | nil, _ + 1 => new nil
  | elem h k r, q + 1 => elem h k (insertAt new r q)
  | text c r, q + 1 => text c (insertAt new r q)

/-- remove the content item at position `pos` -/
def removeAt : Items → Nat → Items
  | nil, _ => nil
  | elem _ _ r, 0 => r
  | text _ r, 0 => r
  | elem h k r, q + 1 => elem h k (removeAt r q)
  | text c r, q + 1 => text c (removeAt r q)

/-- position (among all content items) of the direct child element with id `cid` -/
def childPos (cid : Nat) : Items → Nat → Option Nat
  | nil, _ => none
  | elem h _ r, i => if h.id = cid then some i else childPos cid r (i + 1)
  | text _ r, i => childPos cid r (i + 1)

/-- the direct child element with id `cid` -/
def child (cid : Nat) : Items → Option (Hdr × Items)
  | nil => none
  | elem h k r => if h.id = cid then some (h, k) else child cid r
  | text _ r => child cid r

/-- header and content of the node with id `t` anywhere in the forest -/
def find (t : Nat) : Items → Option (Hdr × Items)
  | nil => none
  | elem h k r => if h.id = t then some (h, k) else
      match find t k with
      | some x => some x
      | none => find t r
  | text _ r => find t r

/-- replace header and content of node `t` by `f` of them -/
def modify (t : Nat) (f : Hdr → Items → Hdr × Items) : Items → Items
  | nil => nil
  | elem h k r =>
    if h.id = t then let (h', k') := f h k; elem h' k' (modify t f r)
    else elem h (modify t f k) (modify t f r)
  | text c r => text c (modify t f r)

/-- chain of nodes from the top of the forest down to node `t` (inclusive) -/
def chain (t : Nat) : Items → Option (List (Hdr × Items))
  | nil => none
  | elem h k r =>
    if h.id = t then some [(h, k)] else
      match chain t k with
      | some c => some ((h, k) :: c)
      | none => chain t r
  | text _ r => chain t r

/-- preorder list of (depth, header, content) -/
def preorder : Items → Nat → List (Nat × Hdr × Items)
  | nil, _ => []
  | elem h k r, d => (d, h, k) :: (preorder k (d + 1) ++ preorder r d)
  | text _ r, d => preorder r d

/-- set the parent field of all direct children -/
def setParents (p : PRef) : Items → Items
  | nil => nil
  | elem h k r => elem { h with parent := p } k (setParents p r)
  | text c r => text c (setParents p r)

/-- apply `f` to the headers of the direct child elements -/
def mapKidHdrs (f : Hdr → Hdr) : Items → Items
  | nil => nil
  | elem h k r => elem (f h) k (mapKidHdrs f r)
  | text c r => text c (mapKidHdrs f r)

/-- apply `f` to every header of the forest -/
def mapHdrs (f : Hdr → Hdr) : Items → Items
  | nil => nil
  | elem h k r => elem (f h) (mapHdrs f k) (mapHdrs f r)
  | text c r => text c (mapHdrs f r)

/-- all headers of the forest, preorder -/
def hdrs : Items → List Hdr
  | nil => []
  | elem h k r => h :: (k.hdrs ++ r.hdrs)
  | text _ r => r.hdrs

def firstItem : Items → Option (Sum (Hdr × Items) CDv)
  | nil => none
  | elem h k _ => some (.inl (h, k))
  | text c _ => some (.inr c)

/-- the direct child elements -/
def childElems : Items → List (Hdr × Items)
  | nil => []
  | elem h k r => (h, k) :: childElems r
  | text _ r => childElems r

def ofList : List (Hdr × Items) → Items
  | [] => nil
  | (h, k) :: r => elem h k (ofList r)

end Items

open Items

section withSpec
variable (S : Spec) (V : Env)

/-- `ElementRaw::character_data` -/
def charData (h : Hdr) (kids : Items) : Option CDv :=
  match kids with
  | .text c .nil => if S.mode h.ety.typ = .characters ∨ S.mode h.ety.typ = .mixed then some c else none
  | _ => none

/-- `ElementRaw::item_name` -/
def itemName (h : Hdr) (kids : Items) : Option Bytes :=
  if S.isNamed h.ety.typ then
    match kids with
    | .elem sh sk _ =>
      if sh.name = S.nmShortName then
        match charData S sh sk with
        | some (.str n) => some n
        | _ => none
      else none
    | _ => none
  else none

/-- `ElementRaw::is_identifiable` -/
def isIdentifiable (h : Hdr) (kids : Items) : Bool :=
  S.isNamed h.ety.typ &&
    match kids with
    | .elem sh _ _ => sh.name == S.nmShortName
    | _ => false

def joinPath (names : List Bytes) : Bytes :=
  names.foldl (fun acc n => acc ++ [47] ++ n) []

/-- `path_unchecked` of the last node of a chain: "/" + item names of the nodes that have one.
(With no named node the Rust code yields the empty string.) -/
def pathOfChain (c : List (Hdr × Items)) : Bytes :=
  joinPath (c.filterMap fun (h, k) => itemName S h k)

def cdStr : CDv → Option Bytes
  | .str b => some b
  | _ => none

/-- `CharacterData::check_value` -/
def checkValue (v : CDv) (spec : CSpec) (ver : Nat) : Bool :=
  match spec, v with
  | .enum items, .enum i => items.any fun it => it.1 == i && (it.2 &&& ver) != 0
  | .pattern k ml, .str s => (match ml with | some m => s.length ≤ m | none => true) && V.validate k s
  | .string _ ml, .str s => (match ml with | some m => decide (s.length ≤ m) | none => true)
  | .uint, .uint _ => true
  | .float, .float _ => true
  | _, _ => false

/-- `CharacterData::to_string` (Display); floats are not modelled (`none`) -/
def cdToString : CDv → Option Bytes
  | .str b => some b
  | .enum i => some (V.enumText i)
  | .uint n => some (CData.toDec n)
  | .float _ => none

end withSpec

/-! ### index and reverse reference map (`autosarmodel.rs`) -/

def idxInsert (idx : List (Bytes × Nat)) (p : Bytes) (id : Nat) : List (Bytes × Nat) :=
  if idx.any (·.1 == p) then idx.map fun e => if e.1 == p then (p, id) else e else idx ++ [(p, id)]

def idxRemove (idx : List (Bytes × Nat)) (p : Bytes) : List (Bytes × Nat) := idx.filter (·.1 != p)

def idxGet (idx : List (Bytes × Nat)) (p : Bytes) : Option Nat := (idx.find? (·.1 == p)).map (·.2)

/-- suffix of `key` after `old` if `key` is `old` or continues it with '/' -/
def pathSuffix (old key : Bytes) : Option Bytes :=
  if old.isPrefixOf key then
    let s := key.drop old.length
    if s.isEmpty ∨ s.head? = some 47 then some s else none
  else none

/-- `fix_identifiables(old, new)` -/
def idxFix (idx : List (Bytes × Nat)) (old new : Bytes) : List (Bytes × Nat) :=
  idx.foldl (fun acc e =>
    match pathSuffix old e.1 with
    | some s => idxInsert (idxRemove acc e.1) (new ++ s) e.2
    | none => acc) idx

/-- a referrer that no longer exists (the weak reference of an element that was merged away by `load_buffer`): it keeps its
place in the list, so the key survives the removal of the other referrers, but no query shows it -/
def ghostRef : Nat := 4000000000

def refsAdd (rs : List (Bytes × List Nat)) (p : Bytes) (id : Nat) : List (Bytes × List Nat) :=
  if rs.any (·.1 == p) then rs.map fun e => if e.1 == p then (p, e.2 ++ [id]) else e else rs ++ [(p, [id])]

/-- `remove_reference_origin`: drop one occurrence; drop the key if the list becomes empty -/
def refsRemove (rs : List (Bytes × List Nat)) (p : Bytes) (id : Nat) : List (Bytes × List Nat) :=
  (rs.map fun e => if e.1 == p then (p, e.2.erase id) else e).filter fun e => !(e.1 == p && e.2.isEmpty)

/-- `fix_reference_origins(old, new, origin)` -/
def refsFix (rs : List (Bytes × List Nat)) (old new : Bytes) (id : Nat) : List (Bytes × List Nat) :=
  if old = new then rs
  else
    let rs1 := (rs.map fun e => if e.1 == old ∧ e.2.contains id then (e.1, e.2.erase id) else e).filter
      fun e => !(e.1 == old && e.2.isEmpty)
    refsAdd rs1 new id

def refsGet (rs : List (Bytes × List Nat)) (p : Bytes) : List Nat :=
  match rs.find? (·.1 == p) with
  | some e => e.2
  | none => []

end AV.W
