/-
Model of the merge of a newly parsed file into a model that already has files (`AutosarModel::{merge_file_data,
merge_element, calc_identifiables_merge, calc_element_merge, import_new_items, merge_sub_elements}` in autosarmodel.rs).

The Rust code mutates the model in place while it recurses, and an `InvalidFileMerge` error in the middle leaves the
part already merged behind (known finding c11:failed-load-partial-merge); the model does the same: every function
returns the new content together with an optional error.
-/
import AutosarVerif.Model.FileOps

namespace AV.W

section
variable (S : Spec) (V : Env)

/-- text of the DEFINITION-REF child (`get_sub_element(DefinitionRef)…string_value()`) -/
def defRefOf (k : Items) : Option Bytes :=
  match k.childElems.find? (fun c => c.1.name == V.nmDefinitionRef) with
  | some (dh, dk) =>
    match charData S dh dk with
    | some (.str s) => some s
    | _ => none
  | none => none

inductive MergeErr
  | invalidMerge   -- `InvalidFileMerge`
  | panic          -- an `unwrap()` on `find_sub_element` of a name the parent type does not know
  deriving DecidableEq, Repr

/-- what the positional walk over both child lists decides -/
structure Walk where
  aOnly : List Nat := []                         -- ids of elements only in the model
  bOnly : List ((Hdr × Items) × Nat) := []       -- new elements with the position they are inserted at
  pairs : List (Nat × (Hdr × Items)) := []       -- (id of the model's element, the element of the new file merged into it)

def inPairs (w : Walk) (bid : Nat) : Bool := w.pairs.any fun p => p.2.1.id == bid

/-- the loop of `merge_element`: `as` = remaining sub-elements of the model's parent with their index among the
sub-elements, `bs` = remaining sub-elements of the new file's parent, `allB` = all of them (sibling search) -/
def walk (typ : Nat) (splitable : Bool) (allB : List (Hdr × Items)) :
    Nat → List (Nat × (Hdr × Items)) → List (Hdr × Items) → Walk → Except MergeErr (Walk × List (Nat × (Hdr × Items)) × List (Hdr × Items))
  | 0, as, bs, w => .ok (w, as, bs)
  | _, [], bs, w => .ok (w, [], bs)
  | _, as, [], w => .ok (w, as, [])
  | fuel + 1, (pa, (ah, ak)) :: as, (bh, bk) :: bs, w =>
    if ah.name = bh.name then
      if isIdentifiable S ah ak then
        if itemName S ah ak = itemName S bh bk then
          walk typ splitable allB fuel as bs { w with pairs := w.pairs ++ [(ah.id, (bh, bk))] }
        else match allB.find? (fun c => c.1.name == ah.name && itemName S c.1 c.2 == itemName S ah ak) with
          | some sib => walk typ splitable allB fuel as ((bh, bk) :: bs) { w with pairs := w.pairs ++ [(ah.id, sib)] }
          | none =>
            if splitable then walk typ splitable allB fuel as ((bh, bk) :: bs) { w with aOnly := w.aOnly ++ [ah.id] }
            else .error .invalidMerge
      else
        if defRefOf S V ak = defRefOf S V bk then
          walk typ splitable allB fuel as bs { w with pairs := w.pairs ++ [(ah.id, (bh, bk))] }
        else match allB.find? (fun c => c.1.name == ah.name && defRefOf S V c.2 == defRefOf S V ak) with
          | some sib => walk typ splitable allB fuel as ((bh, bk) :: bs) { w with pairs := w.pairs ++ [(ah.id, sib)] }
          | none => walk typ splitable allB fuel as ((bh, bk) :: bs) { w with aOnly := w.aOnly ++ [ah.id] }
    else
      match S.findSub typ ah.name 0xFFFFFFFF, S.findSub typ bh.name 0xFFFFFFFF with
      | some (_, ia), some (_, ib) =>
        if cmpIdx ia ib = .lt then walk typ splitable allB fuel as ((bh, bk) :: bs) { w with aOnly := w.aOnly ++ [ah.id] }
        else
          let w' := if inPairs w bh.id then w else { w with bOnly := w.bOnly ++ [((bh, bk), pa)] }
          walk typ splitable allB fuel ((pa, (ah, ak)) :: as) bs w'
      | _, _ => .error .panic

def enumerate {α : Type} : List α → Nat → List (Nat × α)
  | [], _ => []
  | x :: r, i => (i, x) :: enumerate r (i + 1)

/-- `import_new_items`: the new elements are inserted one by one; an element the parent does not accept (in the version of
the new file) stops the import with what has been inserted so far -/
def importNew (ha : Hdr) (newFile minVerB : Nat) : List ((Hdr × Items) × Nat) → Nat → Items → Items × Option MergeErr
  | [], _, ka => (ka, none)
  | ((bh, bk), pos) :: rest, idx, ka =>
    match insertRange S ha ka bh.name minVerB with
    | none => (ka, some .invalidMerge)
    | some (lo, hi) =>
      let dest := min (max (pos + idx) lo) hi
      let nh : Hdr := { bh with parent := .elem ha.id, files := bh.files ++ [newFile] }
      importNew ha newFile minVerB rest (idx + 1) (ka.insertAt (fun r => .elem nh bk r) dest)

/-- replace header and content of the direct child `cid` -/
def setChild (cid : Nat) (h' : Hdr) (k' : Items) : Items → Items
  | .nil => .nil
  | .text c r => .text c (setChild cid h' k' r)
  | .elem h k r => if h.id = cid then .elem h' k' r else .elem h k (setChild cid h' k' r)

/-- lowest version among the files of a set (`LATEST` if there is none) -/
def minVerOf (fver : Nat → Option Nat) (files : List Nat) : Nat :=
  (files.filterMap fver).foldl (fun v x => if x < v then x else v) V.latest

/-- `merge_element` for the model's element `ha` (content `ka`) and the content `kb` of the new file's element;
returns the new content of `ha` and the error, if any -/
def mergeElement (fver : Nat → Option Nat) (newFile minVerB : Nat) : Nat → Hdr → Items → List Nat → Items → Items × Option MergeErr
  | 0, _, ka, _, _ => (ka, some .panic)
  | fuel + 1, ha, ka, files, kb =>
    let version := min (minVerOf V fver files) minVerB
    let splitable := (S.defSplit ha.ety.defId &&& version) != 0
    let as := enumerate ka.childElems 0
    let bs := kb.childElems
    match walk S V ha.ety.typ splitable bs (as.length + bs.length + 1) as bs {} with
    | .error e => (ka, some e)
    | .ok (w0, restA, restB) =>
      let count := ka.length
      let w : Walk := { w0 with
        aOnly := w0.aOnly ++ restA.map (·.2.1.id),
        bOnly := w0.bOnly ++ (restB.filter fun b => !inPairs w0 b.1.id).map fun b => (b, count) }
      -- elements present only in the model are restricted to the files the parent is in
      let ka1 := ka.mapKidHdrs fun h => if w.aOnly.contains h.id ∧ h.files.isEmpty then { h with files := files } else h
      match importNew S ha newFile minVerB w.bOnly 0 ka1 with
      | (ka2, some e) => (ka2, some e)
      | (ka2, none) =>
        -- `merge_sub_elements`
        w.pairs.foldl (fun (acc : Items × Option MergeErr) (p : Nat × (Hdr × Items)) =>
          match acc.2 with
          | some _ => acc
          | none =>
            match acc.1.child p.1 with
            | none => acc
            | some (ah, ak) =>
              let files' := if ah.files.isEmpty then files else ah.files
              let r := mergeElement fver newFile minVerB fuel ah ak files' p.2.2
              let ah' := if r.2.isNone ∧ !ah.files.isEmpty ∧ !ah.files.contains newFile then { ah with files := ah.files ++ [newFile] } else ah
              (setChild p.1 ah' r.1 acc.1, r.2)) (ka2, none)

/-! ### renumbering: the elements that the load added get their protocol ids in document order of the merged model -/

/-- the ids ≥ `base` of a forest, document order -/
def newIds (base : Nat) (its : Items) : List Nat := its.ids.filter (· ≥ base)

def renum (base : Nat) (order : List Nat) (id : Nat) : Nat :=
  if id < base then id else
    match order.findIdx? (· == id) with
    | some i => base + i
    | none => id

def renumRef (base : Nat) (order : List Nat) : PRef → PRef
  | .elem id => .elem (renum base order id)
  | p => p

def renumItems (base : Nat) (order : List Nat) : Items → Items :=
  Items.mapHdrs fun h => { h with id := renum base order h.id, parent := renumRef base order h.parent }

end
end AV.W
