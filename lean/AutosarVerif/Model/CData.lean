/-
Model of `autosar-data/src/chardata.rs` (value typing, formatting, numeric interpretation) and of the
parts of Rust `std` it calls: `from_str_radix`, `u64::from_str`, `u64::to_string`, `u64 as f64`,
`str::parse::<f64>` (documented as correctly rounded; modelled by exact rational arithmetic and
round-to-nearest-even, `roundPos`).  Floats are IEEE-754 binary64 bit patterns (`Nat < 2^64`).
Text is `Bytes`.  No imports beyond the hash model (for `Bytes`).
-/
import AutosarVerif.Model.Hash

namespace AV.CData

/-! ### escaping (chardata.rs::escape_text) -/

def escOne (c : UInt8) : Bytes :=
  if c = 60 then [38, 108, 116, 59]                 -- &lt;
  else if c = 62 then [38, 103, 116, 59]            -- &gt;
  else if c = 38 then [38, 97, 109, 112, 59]        -- &amp;
  else if c = 34 then [38, 113, 117, 111, 116, 59]  -- &quot;
  else if c = 39 then [38, 97, 112, 111, 115, 59]   -- &apos;
  else [c]

/-- `escape_text`: the five characters are ASCII, so working on the UTF-8 bytes is the same as on chars -/
def escape : Bytes → Bytes
  | [] => []
  | c :: cs => escOne c ++ escape cs

/-! ### unescaping (parser.rs::unescape_string, strict mode: an invalid entity is an error) -/

def isHexDigit (c : UInt8) : Bool :=
  (48 ≤ c.toNat && c.toNat ≤ 57) || (97 ≤ c.toNat && c.toNat ≤ 102) || (65 ≤ c.toNat && c.toNat ≤ 70)

def isDecDigit (c : UInt8) : Bool := 48 ≤ c.toNat && c.toNat ≤ 57

def hexVal (c : UInt8) : Nat :=
  if c.toNat ≤ 57 then c.toNat - 48 else if c.toNat ≤ 70 then c.toNat - 55 else c.toNat - 87

/-- UTF-8 encoding of a Unicode scalar value (`String::push(char)`) -/
def utf8 (n : Nat) : Bytes :=
  if n < 0x80 then [UInt8.ofNat n]
  else if n < 0x800 then [UInt8.ofNat (0xC0 + n / 64), UInt8.ofNat (0x80 + n % 64)]
  else if n < 0x10000 then [UInt8.ofNat (0xE0 + n / 4096), UInt8.ofNat (0x80 + n / 64 % 64), UInt8.ofNat (0x80 + n % 64)]
  else [UInt8.ofNat (0xF0 + n / 262144), UInt8.ofNat (0x80 + n / 4096 % 64), UInt8.ofNat (0x80 + n / 64 % 64),
        UInt8.ofNat (0x80 + n % 64)]

/-- `char::from_u32` succeeds: not a surrogate, at most 0x10FFFF -/
def isScalar (n : Nat) : Bool := n ≤ 0x10FFFF && !(0xD800 ≤ n && n ≤ 0xDFFF)

/-- split at the first `;` -/
def untilSemi : Bytes → Option (Bytes × Bytes)
  | [] => none
  | c :: cs => if c = 59 then some ([], cs) else (untilSemi cs).map fun (a, b) => (c :: a, b)

/-- numeric character reference body: all digits valid, value fits `u32` and is a scalar value -/
def charRef (radix : Nat) (body : Bytes) : Option Bytes :=
  if body.isEmpty then none
  else if radix = 16 ∧ !body.all isHexDigit then none
  else if radix = 10 ∧ !body.all isDecDigit then none
  else
    let v := body.foldl (fun a c => a * radix + hexVal c) 0
    if v < 2 ^ 32 ∧ isScalar v then some (utf8 v) else none

/-- `unescape_string` in strict mode; `none` = `InvalidXmlEntity` -/
def unescapeAux : Nat → Bytes → Option Bytes
  | 0, _ => none
  | _, [] => some []
  | fuel + 1, 38 :: 108 :: 116 :: 59 :: r => (unescapeAux fuel r).map (60 :: ·)
  | fuel + 1, 38 :: 103 :: 116 :: 59 :: r => (unescapeAux fuel r).map (62 :: ·)
  | fuel + 1, 38 :: 97 :: 109 :: 112 :: 59 :: r => (unescapeAux fuel r).map (38 :: ·)
  | fuel + 1, 38 :: 97 :: 112 :: 111 :: 115 :: 59 :: r => (unescapeAux fuel r).map (39 :: ·)
  | fuel + 1, 38 :: 113 :: 117 :: 111 :: 116 :: 59 :: r => (unescapeAux fuel r).map (34 :: ·)
  | fuel + 1, 38 :: 35 :: 120 :: r =>
    match untilSemi r with
    | some (body, rest) =>
      match charRef 16 body with
      | some u => (unescapeAux fuel rest).map (u ++ ·)
      | none => none
    | none => none
  | fuel + 1, 38 :: 35 :: r =>
    match untilSemi r with
    | some (body, rest) =>
      match charRef 10 body with
      | some u => (unescapeAux fuel rest).map (u ++ ·)
      | none => none
    | none => none
  | fuel + 1, c :: r => if c = 38 then none else (unescapeAux fuel r).map (c :: ·)

def unescape (s : Bytes) : Option Bytes := unescapeAux (s.length + 1) s

/-! ### integers (std `from_str_radix`, `u64::from_str`, `to_string`) -/

/-- value of an ASCII digit in `radix` (case-insensitive letters), `none` if it is not one -/
def digitVal (radix : Nat) (c : UInt8) : Option Nat :=
  let n := c.toNat
  let v := if 48 ≤ n ∧ n ≤ 57 then some (n - 48)
    else if 97 ≤ n ∧ n ≤ 122 then some (n - 87)
    else if 65 ≤ n ∧ n ≤ 90 then some (n - 55)
    else none
  match v with
  | some d => if d < radix then some d else none
  | none => none

/-- positional value of a digit string, `none` on any invalid digit -/
def digitsVal (radix : Nat) : Bytes → Nat → Option Nat
  | [], acc => some acc
  | c :: cs, acc =>
    match digitVal radix c with
    | some d => digitsVal radix cs (acc * radix + d)
    | none => none

/-- an integer type of the API: signedness and number of bits -/
structure IntTy where
  signed : Bool
  bits : Nat
  deriving DecidableEq, Repr

def IntTy.fits (T : IntTy) (v : Int) : Bool :=
  if T.signed then decide (-(2 ^ (T.bits - 1) : Int) ≤ v ∧ v < (2 ^ (T.bits - 1) : Int))
  else decide (0 ≤ v ∧ v < (2 ^ T.bits : Int))

/-- `T::from_str_radix(src, radix)` for a primitive integer type (std): optional `+`, `-` only for
signed types, at least one digit, overflow is an error -/
def fromStrRadix (T : IntTy) (radix : Nat) (src : Bytes) : Option Int :=
  match src with
  | [] => none
  | [c] => if c = 43 ∨ c = 45 then none else
      match digitsVal radix [c] 0 with
      | some v => if T.fits v then some v else none
      | none => none
  | c :: rest =>
    let (neg, digits) := if c = 43 then (false, rest) else if c = 45 ∧ T.signed then (true, rest) else (false, c :: rest)
    match digitsVal radix digits 0 with
    | some v =>
      let r : Int := if neg then -(v : Int) else (v : Int)
      if T.fits r then some r else none
    | none => none

def stripPrefix (p : Bytes) (s : Bytes) : Option Bytes :=
  if p.isPrefixOf s then some (s.drop p.length) else none

/-- `CharacterData::String(text).parse_integer::<T>()` -/
def parseInteger (T : IntTy) (text : Bytes) : Option Int :=
  if text = [48] then (if T.fits 0 then some 0 else none)
  else match stripPrefix [48, 120] text with                 -- 0x
    | some h => fromStrRadix T 16 h
    | none => match stripPrefix [48, 88] text with           -- 0X
      | some h => fromStrRadix T 16 h
      | none => match stripPrefix [48, 98] text with         -- 0b
        | some b => fromStrRadix T 2 b
        | none => match stripPrefix [48, 66] text with       -- 0B
          | some b => fromStrRadix T 2 b
          | none => match stripPrefix [48] text with         -- leading 0: octal
            | some o => fromStrRadix T 8 o
            | none => fromStrRadix T 10 text

def u64 : IntTy := ⟨false, 64⟩

/-- `u64::to_string` -/
def toDecAux : Nat → Nat → Bytes → Bytes
  | 0, _, acc => acc
  | fuel + 1, n, acc =>
    let acc' := UInt8.ofNat (48 + n % 10) :: acc
    if n < 10 then acc' else toDecAux fuel (n / 10) acc'

def toDec (n : Nat) : Bytes := toDecAux (n + 1) n []

/-- `input.parse::<u64>()` = `u64::from_str_radix(input, 10)` -/
def parseU64 (s : Bytes) : Option Nat := (fromStrRadix u64 10 s).map Int.toNat

/-- `parse_bool` -/
def parseBool (text : Bytes) : Option Bool :=
  if text = [116, 114, 117, 101] ∨ text = [49] then some true
  else if text = [102, 97, 108, 115, 101] ∨ text = [48] then some false
  else none

/-! ### binary64 -/

def posInf : Nat := 0x7FF0000000000000
def negBit : Nat := 0x8000000000000000
def canonNaN : Nat := 0x7FF8000000000000

/-- round the positive rational `num/den` to the nearest binary64 (ties to even); +∞ on overflow.
(Appendix D.6 of DESIGN.md: agrees with CPython's correctly rounded `float()` on 60 991 cases.) -/
def roundPos (num den : Nat) : Nat :=
  if num = 0 then 0 else
  let e0 : Int := (Nat.log2 num : Int) - (Nat.log2 den : Int)
  let scale (k : Int) : Nat × Nat :=
    if k ≥ 0 then (num, den * 2 ^ k.toNat) else (num * 2 ^ (-k).toNat, den)
  let fix (e : Int) : Int :=
    let (n, d) := scale e
    if n < d then e - 1 else if n ≥ 2 * d then e + 1 else e
  let e := fix (fix e0)
  let k : Int := if e ≥ -1022 then e - 52 else -1074
  let (n, d) := scale k
  let q := n / d
  let r := n % d
  let q' := if 2 * r > d then q + 1 else if 2 * r < d then q else (if q % 2 = 1 then q + 1 else q)
  if e ≥ -1022 then
    let (q'', e') := if q' = 2 ^ 53 then (2 ^ 52, e + 1) else (q', e)
    if e' > 1023 then posInf
    else ((e' + 1023).toNat) * 2 ^ 52 + (q'' - 2 ^ 52)
  else q'

/-- `n as f64` for `n : u64` -/
def u64ToF64 (n : Nat) : Nat := roundPos n 1

/-- decimal text `mantissa-digits × 10^exp10` correctly rounded -/
def decToF64 (digits : Nat) (exp10 : Int) : Nat :=
  if exp10 ≥ 0 then roundPos (digits * 10 ^ exp10.toNat) 1 else roundPos digits (10 ^ (-exp10).toNat)

def isDigit (c : UInt8) : Bool := 48 ≤ c.toNat && c.toNat ≤ 57

def takeDigits : Bytes → Bytes × Bytes
  | [] => ([], [])
  | c :: cs => if isDigit c then let (d, r) := takeDigits cs; (c :: d, r) else ([], c :: cs)

def lower (c : UInt8) : UInt8 := if 65 ≤ c.toNat ∧ c.toNat ≤ 90 then c + 32 else c

def decVal (ds : Bytes) : Nat := ds.foldl (fun a c => a * 10 + (c.toNat - 48)) 0

/-- std `<f64 as FromStr>::from_str` (grammar from the std documentation; value correctly rounded):
`[+-]? ( inf | infinity | nan | digits [. digits?] [exp] | . digits [exp] )`, exp = `[eE][+-]?digits` -/
def parseF64 (s : Bytes) : Option Nat :=
  let (neg, body) := match s with
    | 43 :: r => (false, r)
    | 45 :: r => (true, r)
    | _ => (false, s)
  let sign := if neg then negBit else 0
  let lb := body.map lower
  if lb = [105, 110, 102] ∨ lb = [105, 110, 102, 105, 110, 105, 116, 121] then some (sign + posInf)
  else if lb = [110, 97, 110] then some canonNaN
  else
    let (ip, r1) := takeDigits body
    let (fp, r2, hadDot) := match r1 with
      | 46 :: r => let (f, r') := takeDigits r; (f, r', true)
      | _ => ([], r1, false)
    let _ := hadDot
    if ip.isEmpty ∧ fp.isEmpty then none
    else
      let expPart : Option Int := match r2 with
        | [] => some 0
        | c :: r =>
          if c = 101 ∨ c = 69 then
            let (eneg, r') := match r with
              | 43 :: x => (false, x)
              | 45 :: x => (true, x)
              | _ => (false, r)
            let (ed, rest) := takeDigits r'
            if ed.isEmpty ∨ ¬ rest.isEmpty then none
            else some (if eneg then -(decVal ed : Int) else (decVal ed : Int))
          else none
      match expPart with
      | none => none
      | some ex => some (sign + decToF64 (decVal (ip ++ fp)) (ex - fp.length))

/-- `CharacterData::String(text).parse_float()`; NaN results are canonicalised by `parseF64` -/
def parseFloat (text : Bytes) : Option Nat :=
  if text = [48] then some 0
  else
    let radixForm (p : Bytes) (radix : Nat) : Option Nat :=
      match stripPrefix p text with
      | some t => (fromStrRadix u64 radix t).map fun v => u64ToF64 v.toNat
      | none => none
    match radixForm [48, 120] 16 with
    | some v => some v
    | none => match radixForm [48, 88] 16 with
      | some v => some v
      | none => match radixForm [48, 98] 2 with
        | some v => some v
        | none => match radixForm [48, 66] 2 with
          | some v => some v
          | none => match radixForm [48] 8 with
            | some v => some v
            | none => parseF64 text

end AV.CData
