/-
Reader/writer locks, lock programs and their interleavings (C15, C16, lock part of C12).

A *lock program* is the sequence of lock events one call of the library performs (recorded from
the real code by the lock shim, hook H2).  Threads run programs; the semantics is that of
`parking_lot::RwLock` as the crate uses it: many readers or one writer, a writer that waits blocks
NEW readers (fair policy), timed try-acquisitions never wait forever.
`deadlockSearch` explores all interleavings of given programs.  No imports.
-/
namespace AV.Locks

inductive Mode | read | write
  deriving DecidableEq, Repr

inductive Ev
  | acq (lock : Nat) (m : Mode)        -- blocking `read()` / `write()`
  | tryAcq (lock : Nat) (m : Mode)     -- `try_read_for` / `try_write_for` / `try_write`: never blocks for ever
  | rel (lock : Nat) (m : Mode)        -- guard dropped
  deriving DecidableEq, Repr

abbrev Prog := List Ev

structure Th where
  prog : Prog
  held : List (Nat × Mode)
  deriving DecidableEq, Repr

abbrev Sys := List Th

def holds (t : Th) (l : Nat) : Bool := t.held.any (·.1 == l)
def holdsW (t : Th) (l : Nat) : Bool := t.held.any fun h => h.1 == l && h.2 == .write

/-- threads other than `i` -/
def others (s : Sys) (i : Nat) : List Th := (s.zipIdx.filter (·.2 != i)).map (·.1)

/-- a writer is waiting for `l`: some other thread's next event is a blocking write on `l` and `l` is held by somebody -/
def writerWaiting (s : Sys) (i l : Nat) : Bool :=
  (others s i).any fun t =>
    match t.prog with
    | .acq l' .write :: _ => l' == l && s.any (fun u => holds u l)
    | _ => false

/-- can thread `i` be granted lock `l` in mode `m` now -/
def grantable (s : Sys) (i l : Nat) (m : Mode) : Bool :=
  match s[i]? with
  | none => false
  | some me =>
    match m with
    | .write => !(s.any fun u => holds u l)
    | .read => !((others s i).any fun u => holdsW u l) && !holdsW me l && !writerWaiting s i l

def releaseOne (held : List (Nat × Mode)) (l : Nat) (m : Mode) : List (Nat × Mode) := held.erase (l, m)

/-- the step of thread `i`, if it can move -/
def stepTh (s : Sys) (i : Nat) : Option Sys :=
  match s[i]? with
  | none => none
  | some t =>
    match t.prog with
    | [] => none
    | .rel l m :: rest => some (s.set i { prog := rest, held := releaseOne t.held l m })
    | .acq l m :: rest => if grantable s i l m then some (s.set i { prog := rest, held := (l, m) :: t.held }) else none
    | .tryAcq l m :: rest =>
      if grantable s i l m then some (s.set i { prog := rest, held := (l, m) :: t.held })
      else
        -- the call gives up (`ParentElementLocked`): it releases what it holds and ends
        some (s.set i { prog := [], held := [] })

def finished (s : Sys) : Bool := s.all fun t => t.prog.isEmpty

def successors (s : Sys) : List Sys := (List.range s.length).filterMap fun i => stepTh s i

/-- a deadlock: not finished and nobody can move -/
def isDeadlock (s : Sys) : Bool := !finished s && (successors s).isEmpty

/-- depth-first search over all interleavings; returns a deadlocked state if one is reachable.
`fuel` bounds the number of visited states (it is never the limiting factor for the recorded programs: `searchComplete`). -/
def search : Nat → List Sys → List Sys → Option Sys × Bool
  | 0, work, _ => (none, work.isEmpty)
  | _, [], _ => (none, true)
  | fuel + 1, s :: work, seen =>
    if seen.contains s then search fuel work seen
    else if isDeadlock s then (some s, true)
    else search fuel (successors s ++ work) (s :: seen)

def initSys (ps : List Prog) : Sys := ps.map fun p => { prog := p, held := [] }

/-- `some witness` if the programs can deadlock; the Bool says whether the search was exhaustive -/
def deadlockSearch (ps : List Prog) : Option Sys × Bool := search 200000 [initSys ps] []

/-- the programs cannot deadlock in any interleaving (exhaustively explored) -/
def noDeadlock (ps : List Prog) : Bool :=
  match deadlockSearch ps with
  | (none, true) => true
  | _ => false

/-! ### the ordered-acquisition discipline -/

/-- every blocking acquisition asks for a lock larger than all locks held at that moment -/
def orderedFrom : Prog → List (Nat × Mode) → Bool
  | [], _ => true
  | .acq l m :: rest, held => held.all (·.1 < l) && orderedFrom rest ((l, m) :: held)
  | .tryAcq l m :: rest, held => orderedFrom rest ((l, m) :: held) && orderedFrom rest held
  | .rel l m :: rest, held => orderedFrom rest (releaseOne held l m)

def ordered (p : Prog) : Bool := orderedFrom p []

/-- single-threaded run of a program from a given set of held locks: `none` if it would block for ever
(a lock the thread itself holds in a conflicting mode) or a timed acquisition would fail, otherwise the
locks still held at the end -/
def runAlone : Prog → List (Nat × Mode) → Option (List (Nat × Mode))
  | [], held => some held
  | .rel l m :: rest, held => runAlone rest (releaseOne held l m)
  | .acq l m :: rest, held | .tryAcq l m :: rest, held =>
    let free : Bool := match m with
      | .write => !held.any (·.1 == l)
      | .read => !held.any (fun h => h.1 == l && h.2 == .write)
    if free then runAlone rest ((l, m) :: held) else none

/-- single-threaded execution never blocks, no timed acquisition fails, and every lock is released (C12, lock part) -/
def runsAlone (p : Prog) : Bool := runAlone p [] == some []

end AV.Locks
