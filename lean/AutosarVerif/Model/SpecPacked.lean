/-
Decoding of the specification arrays as the translator packs them: every Rust array is ONE
natural number holding fixed-width records (random access = shift and mask, which the kernel
evaluates with GMP), `CHARACTER_DATA` is a chunked list.  `PackedSpec.toSpec` is the `Spec` the
theorems and the driver use; `rangesOk` / `allDepthOk` are the regenerated well-formedness
obligations (`Gen/SpecWf.lean`).
-/
import AutosarVerif.Model.Spec

namespace AV

structure PackedSpec where
  nTypes : Nat
  nDefs : Nat
  nSubs : Nat
  nAttrs : Nat
  nVer : Nat
  nCData : Nat
  nRefItems : Nat
  datatypes : Nat      -- 176-bit records
  elements : Nat       -- 80-bit records
  subelements : Nat    -- 32-bit records: 2*idx + (1 if group)
  attributes : Nat     -- 40-bit records
  verinfo : Nat        -- 32-bit records
  refitems : Nat       -- 16-bit records
  cspecs : List (List CSpec)
  cspecChunk : Nat
  refTypeIdx : Nat
  rootDef : Nat
  depth : Nat
  nmShortName : Nat
  atDest : Nat

namespace PackedSpec

/-- field of `width` bits at bit offset `off` of record `i` (records are `w` bits wide) -/
@[inline] def fld (data w i off width : Nat) : Nat := (data >>> (w * i + off)) % 2 ^ width

def modeOf : Nat → Mode
  | 0 => .sequence | 1 => .choice | 2 => .bag | 3 => .characters | _ => .mixed
def multOf : Nat → Mult
  | 0 => .zeroOrOne | 1 => .one | _ => .any

def toSpec (P : PackedSpec) : Spec where
  nTypes := P.nTypes
  nDefs := P.nDefs
  nSubs := P.nSubs
  nAttrs := P.nAttrs
  nVer := P.nVer
  nCData := P.nCData
  nRefItems := P.nRefItems
  subStart t := fld P.datatypes 176 t 0 16
  subEnd t := fld P.datatypes 176 t 16 16
  subVer t := fld P.datatypes 176 t 32 16
  attrStart t := fld P.datatypes 176 t 48 16
  attrEnd t := fld P.datatypes 176 t 64 16
  attrVer t := fld P.datatypes 176 t 80 16
  cdataOf t := let c := fld P.datatypes 176 t 96 32; if c = 0 then none else some (c - 1)
  mode t := modeOf (fld P.datatypes 176 t 128 8)
  refStart t := fld P.datatypes 176 t 144 16
  refEnd t := fld P.datatypes 176 t 160 16
  subEntry i := let r := fld P.subelements 32 i 0 32; if r % 2 = 1 then .group (r / 2) else .elem (r / 2)
  verInfo i := fld P.verinfo 32 i 0 32
  attrName i := fld P.attributes 40 i 0 16
  attrCData i := fld P.attributes 40 i 16 16
  attrRequired i := fld P.attributes 40 i 32 1 == 1
  refItem i := fld P.refitems 16 i 0 16
  defName d := fld P.elements 80 d 0 16
  defType d := fld P.elements 80 d 16 16
  defMult d := multOf (fld P.elements 80 d 32 2)
  defOrdered d := fld P.elements 80 d 34 1 == 1
  defSplit d := fld P.elements 80 d 40 32
  cspec i := (P.cspecs.getD (i / P.cspecChunk) []).getD (i % P.cspecChunk) default
  refTypeIdx := P.refTypeIdx
  rootDef := P.rootDef
  depth := P.depth
  nmShortName := P.nmShortName
  atDest := P.atDest

/-- every index stored in the tables is in range (what keeps the Rust lookups from panicking) -/
def rangesOk (P : PackedSpec) : Bool :=
  let S := P.toSpec
  (List.range P.nTypes).all (fun t =>
    S.subStart t ≤ S.subEnd t && S.subEnd t ≤ P.nSubs &&
    S.subVer t + (S.subEnd t - S.subStart t) ≤ P.nVer &&
    S.attrStart t ≤ S.attrEnd t && S.attrEnd t ≤ P.nAttrs &&
    S.attrVer t + (S.attrEnd t - S.attrStart t) ≤ P.nVer &&
    S.refStart t ≤ S.refEnd t && S.refEnd t ≤ P.nRefItems &&
    (match S.cdataOf t with | some c => c < P.nCData | none => true)) &&
  (List.range P.nSubs).all (fun i =>
    match S.subEntry i with | .elem d => d < P.nDefs | .group g => g < P.nTypes) &&
  (List.range P.nDefs).all (fun d => S.defType d < P.nTypes) &&
  (List.range P.nAttrs).all (fun i => S.attrCData i < P.nCData) &&
  P.refTypeIdx < P.nCData && P.rootDef < P.nDefs &&
  (P.cspecs.map List.length).sum == P.nCData &&
  P.cspecs.dropLast.all (fun c => c.length == P.cspecChunk)

/-- groups are nested at most `depth` deep below every data type -/
def allDepthOk (P : PackedSpec) : Bool :=
  (List.range P.nTypes).all fun t => P.toSpec.depthOk P.depth t

end PackedSpec
end AV
