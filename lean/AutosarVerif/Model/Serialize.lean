/-
Model of the serializer: `Element::serialize_internal`, `serialize_attributes`, `CharacterData::serialize_internal`
(element.rs, chardata.rs) and `ArxmlFile::serialize` (arxmlfile.rs), which first rewrites `xsi:schemaLocation` of the
shared root element to the version of the file (`AutosarModelRaw::set_version`).  `f64::to_string` is outside the model:
a tree with a float value serializes to `none`.  No imports beyond the model.
-/
import AutosarVerif.Model.FileOps
import AutosarVerif.Model.WorldQuery

namespace AV.W

section
variable (S : Spec) (V : Env)

def bs (s : String) : Bytes := s.toUTF8.toList

/-- `serialize_newline_indent` -/
def nlIndent (n : Nat) : Bytes := 10 :: List.replicate (2 * n) 32

/-- `CharacterData::serialize_internal` -/
def serVal : CDv → Option Bytes
  | .str b => some (CData.escape b)
  | .enum i => some (V.enumText i)
  | .uint n => some (CData.toDec n)
  | .float _ => none

/-- `serialize_attributes` -/
def serAttrs : List (Nat × CDv) → Option Bytes
  | [] => some []
  | (a, v) :: r =>
    match serVal V v, serAttrs r with
    | some t, some rest => some ([32] ++ V.attrText a ++ [61, 34] ++ t ++ [34] ++ rest)
    | _, _ => none

def optApp (a b : Option Bytes) : Option Bytes :=
  match a, b with
  | some x, some y => some (x ++ y)
  | _, _ => none

/-- the items of one content list: `ff` = the file the text is written for, `indent` = the indentation of the items,
`inMixed` = the parent has MIXED content (its items are written inline, character data included) -/
def serForest (ff : Option Nat) (indent : Nat) (inMixed : Bool) : Items → Option Bytes
  | .nil => some []
  | .text c r => if inMixed then optApp (serVal V c) (serForest ff indent inMixed r) else serForest ff indent inMixed r
  | .elem h k r =>
    let visible : Bool := match ff with
      | none => true
      | some f => h.files.isEmpty || h.files.contains f
    if !visible then serForest ff indent inMixed r
    else
      let name := V.elemText h.name
      let lead : Bytes := if inMixed then [] else nlIndent indent
      let comment : Bytes := match h.comment with
        | some c => lead ++ bs "<!--" ++ c ++ bs "-->"
        | none => []
      let node : Option Bytes :=
        match serAttrs V h.attrs with
        | none => none
        | some attrs =>
          match k with
          | .nil => some ([60] ++ name ++ attrs ++ [47, 62])
          | _ =>
            let body : Option Bytes :=
              match S.mode h.ety.typ with
              | .characters => match k with
                | .text c _ => serVal V c
                | _ => some []
              | .mixed => serForest ff (indent + 1) true k
              | _ => optApp (serForest ff (indent + 1) false k) (some (nlIndent indent))
            optApp (some ([60] ++ name ++ attrs ++ [62])) (optApp body (some ([60, 47] ++ name ++ [62])))
      optApp (some (comment ++ lead)) (optApp node (serForest ff indent inMixed r))

/-- `ArxmlFile::serialize`: the root's schema location is set to the version of the file first (a change of the
model!), then the view of the file is written -/
def opSerialize (w : World) (f : Nat) : World × String :=
  match (List.range w.models.length).find? (fun k => (w.models[k]!).files.any (·.id == f)) with
  | none => (w, "unsupported")     -- a file that was removed from its model
  | some k =>
    let m := w.models[k]!
    if !m.rootHdr.files.contains f then (w, "err")      -- EmptyFile
    else match m.files.find? (·.id == f) with
      | none => (w, "unsupported")
      | some fl =>
        let value : CDv := .str (bs "http://autosar.org/schema/r4.0 " ++ V.fileOfVer fl.version)
        let root' := (setAttrHdr S V m.rootHdr V.atSchemaLocation value fl.version).getD m.rootHdr
        let m' := { m with rootHdr := root' }
        let head : Bytes := match fl.standalone with
          | some true => bs "<?xml version=\"1.0\" encoding=\"utf-8\" standalone=\"yes\"?>"
          | some false => bs "<?xml version=\"1.0\" encoding=\"utf-8\" standalone=\"no\"?>"
          | none => bs "<?xml version=\"1.0\" encoding=\"utf-8\"?>"
        match serForest S V (some f) 0 false m'.rootItems with
        | some t => (setModel w k m', "ok " ++ hexB (head ++ t))
        | none => (setModel w k m', "unsupported")

end
end AV.W
