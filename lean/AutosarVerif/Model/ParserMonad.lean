/-
The parser's error discipline (`parser.rs`): every check either fails hard (`self.error(..)` →
`Err`) or goes through `optional_error`, the ONLY place where the `strict` flag is read:
strict → `Err(e)`, lenient → push `e` to `warnings` and continue.  `P` is that computation type;
the state survives a failure so that "the first warning" is observable.
`parseCharData` is the model of `parse_character_data` + `unescape_string` written with these
combinators (value typing of `Model/CData.lean`).  No imports beyond the value layer.
-/
import AutosarVerif.Model.CData
import AutosarVerif.Model.Spec
import AutosarVerif.Model.Lexer

namespace AV.PM

/-- parser errors that matter for the agreement between the two modes: a kind and the line -/
structure PErr where
  kind : Nat
  line : Nat
  deriving DecidableEq, Repr

structure PState where
  warnings : List PErr
  line : Nat
  /-- the tokenizer (`ArxmlLexer`) -/
  lx : Lex.LState := ⟨[], 1, none⟩
  /-- `fileversion` (one bit; 4.0.1 until the file header has been read) -/
  ver : Nat := 1
  /-- `version_compatibility` -/
  compat : Nat := 0xFFFFFFFF
  /-- `identifiables`, `references`: (text, element id) in the order found -/
  idents : List (Bytes × Nat) := []
  refs : List (Bytes × Nat) := []
  /-- ids for the elements created while parsing -/
  nextId : Nat := 0
  /-- `standalone` of the xml header -/
  standalone : Option Bool := none
  deriving Repr

/-- a parser computation: reads `strict`, threads the state, may fail hard -/
def P (α : Type) := Bool → PState → Except PErr α × PState

def pure' {α : Type} (a : α) : P α := fun _ s => (.ok a, s)

def bind' {α β : Type} (m : P α) (k : α → P β) : P β := fun b s =>
  match m b s with
  | (.ok a, s') => k a b s'
  | (.error e, s') => (.error e, s')

/-- `self.optional_error(e)?` -/
def optErr (kind : Nat) : P Unit := fun strict s =>
  if strict then (.error ⟨kind, s.line⟩, s) else (.ok (), { s with warnings := s.warnings ++ [⟨kind, s.line⟩] })

/-- `return Err(self.error(e))` -/
def hardErr {α : Type} (kind : Nat) : P α := fun _ s => (.error ⟨kind, s.line⟩, s)

/-- error kinds = position of the variant in `enum ArxmlParserError` -/
def kInvalidArxmlFileHeader : Nat := 0
def kUnexpectedXmlFileHeader : Nat := 1
def kUnknownAutosarVersion : Nat := 2
def kInvalidAutosarVersion : Nat := 3
def kIncorrectBeginElement : Nat := 4
def kInvalidBeginElement : Nat := 5
def kIncorrectEndElement : Nat := 6
def kInvalidEndElement : Nat := 7
def kElementChoiceConflict : Nat := 8
def kElementVersionError : Nat := 9
def kTooManySubElements : Nat := 10
def kRequiredSubelementMissing : Nat := 11
def kAttributeValueError : Nat := 12
def kUnknownAttributeError : Nat := 13
def kAttributeVersionError : Nat := 14
def kRequiredAttributeMissing : Nat := 15
def kCharacterContentForbidden : Nat := 16
def kEnumItemVersionError : Nat := 17
def kUnknownEnumItem : Nat := 18
def kInvalidEnumItem : Nat := 19
def kStringValueTooLong : Nat := 20
def kRegexMatchError : Nat := 21
def kUtf8Error : Nat := 22
def kUnexpectedEndOfFile : Nat := 23
def kInvalidNumber : Nat := 24
def kAdditionalDataError : Nat := 25
def kInvalidXmlEntity : Nat := 26
/-- errors of the tokenizer are `100 + ` the position in `LexErr`; 998 = a Rust panic; 999 = outside the model -/
def kLexBase : Nat := 100
/-- the step budget of the model ran out (never: `Lemmas/ParserTotal.lean`) -/
def kFuel : Nat := 997
def kPanic : Nat := 998
def kUnsupported : Nat := 999

/-- `unescape_string`: entities decoded; an invalid entity is an optional error and the `&` is kept -/
def unescapeP : Nat → Bytes → P Bytes
  | 0, _ => pure' []
  | _, [] => pure' []
  | fuel + 1, 38 :: r =>
    let named : Option (UInt8 × Bytes) :=
      match r with
      | 108 :: 116 :: 59 :: t => some (60, t)
      | 103 :: 116 :: 59 :: t => some (62, t)
      | 97 :: 109 :: 112 :: 59 :: t => some (38, t)
      | 97 :: 112 :: 111 :: 115 :: 59 :: t => some (39, t)
      | 113 :: 117 :: 111 :: 116 :: 59 :: t => some (34, t)
      | _ => none
    match named with
    | some (c, t) => bind' (unescapeP fuel t) fun u => pure' (c :: u)
    | none =>
      let num : Option (Bytes × Bytes) :=
        match r with
        | 35 :: 120 :: t => (CData.untilSemi t).bind fun (body, rest) => (CData.charRef 16 body).map fun u => (u, rest)
        | 35 :: t => (CData.untilSemi t).bind fun (body, rest) => (CData.charRef 10 body).map fun u => (u, rest)
        | _ => none
      match num with
      | some (u, rest) => bind' (unescapeP fuel rest) fun v => pure' (u ++ v)
      | none => bind' (optErr kInvalidXmlEntity) fun _ => bind' (unescapeP fuel r) fun u => pure' (38 :: u)
  | fuel + 1, c :: r => bind' (unescapeP fuel r) fun u => pure' (c :: u)

def isWsB (c : UInt8) : Bool := c = 32 || c = 9 || c = 10 || c = 12 || c = 13

/-- `trim_byte_string` -/
def trim (s : Bytes) : Bytes := ((s.dropWhile isWsB).reverse.dropWhile isWsB).reverse

/-- result of typing a text -/
inductive Val
  | str (b : Bytes) | enum (i : Nat) | uint (n : Nat) | float (bits : Nat)
  deriving DecidableEq, Repr

/-- `parse_character_data` for the String / UnsignedInteger / Float kinds (valid UTF-8 input) -/
def parseCharData (input : Bytes) (spec : CSpec) : P Val :=
  match spec with
  | .string preserve maxLen =>
    let raw := if preserve then input else trim input
    bind' (match maxLen with
      | some m => if raw.length > m then optErr kStringValueTooLong else pure' ()
      | none => pure' ()) fun _ =>
    bind' (unescapeP (raw.length + 1) raw) fun u => pure' (.str u)
  | .uint =>
    match CData.parseU64 (trim input) with
    | some n => pure' (.uint n)
    | none => bind' (optErr kInvalidNumber) fun _ => pure' (.uint 0)
  | .float =>
    match CData.parseF64 (trim input) with
    | some b => pure' (.float b)
    | none => bind' (optErr kInvalidNumber) fun _ => pure' (.float 0)
  | _ => hardErr 0

end AV.PM
