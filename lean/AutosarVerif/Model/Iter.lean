/-
Model of the iterators of `autosar-data/src/iterators.rs` over a snapshot of the tree: `ElementsDfsIterator` (`new`, `next`,
`next_sibling`: the explicit stack of elements and the stack of content positions), `ArxmlFileElementsDfsIterator` (the
file-scoped iteration that skips the subtree of every element whose LOCAL file set is not empty and does not contain the
file), and `ElementsIterator` (`sub_elements`).  The stacks are lists with the TOP FIRST (`Vec::push`/`pop` at the end).
The driver answers the requests `dfs`, `dfsf`, `subs` with these machines; `Lemmas/Iter.lean` proves that they enumerate
exactly the tree in document order (recursive specification `preD` / the view of the file).
-/
import AutosarVerif.Model.FileOps

namespace AV.W

/-- `get_sub_element_at(pos)`: the content item at `pos`, if it is an element -/
def Items.elemAt : Items → Nat → Option (Hdr × Items)
  | .nil, _ => none
  | .elem h k _, 0 => some (h, k)
  | .text _ _, 0 => none
  | .elem _ _ r, n + 1 => r.elemAt n
  | .text _ r, n + 1 => r.elemAt n

/-- `ElementsDfsIterator` -/
structure DfsIt where
  elements : List (Hdr × Items)
  position : List Nat
  maxDepth : Nat

/-- `ElementsDfsIterator::new` -/
def DfsIt.new (e : Hdr × Items) (maxDepth : Nat) : DfsIt := { elements := [e], position := [], maxDepth := maxDepth }

/-- one iteration of the `while` loop of `next` -/
inductive DfsStep
  | out (depth : Nat) (e : Hdr × Items) (it : DfsIt)     -- `return Some((depth, element))`
  | go (it : DfsIt)                                       -- the loop continues
  | done                                                  -- the stack is empty: `None`
  | oob                                                   -- `self.position[depth]` out of range (Rust: panic); never (Lemmas/Iter)

def DfsIt.step (it : DfsIt) : DfsStep :=
  match it.elements with
  | [] => .done
  | e :: es =>
    let depth := es.length
    if it.position.length = depth then
      -- return the current element and set up to return its sub-elements next
      .out depth e { it with position := 0 :: it.position }
    else
      match it.position with
      | [] => .oob
      | p :: ps =>
        if (it.maxDepth = 0 ∨ it.maxDepth > depth) ∧ e.2.length > p then
          -- more items to show: push the sub-element (if the item is one), show the next item in the next call
          let els := match e.2.elemAt p with
            | some c => c :: e :: es
            | none => e :: es
          .go { it with elements := els, position := (p + 1) :: ps }
        else
          -- back up one level
          .go { it with elements := es, position := ps }

/-- `ElementsDfsIterator::next`; `fuel` bounds the iterations of the loop (`Lemmas/Iter`: never exhausted by the callers) -/
def DfsIt.next : Nat → DfsIt → Option (Nat × (Hdr × Items)) × DfsIt
  | 0, it => (none, it)
  | fuel + 1, it =>
    match it.step with
    | .out d e it' => (some (d, e), it')
    | .go it' => DfsIt.next fuel it'
    | .done => (none, it)
    | .oob => (none, it)

/-- `ElementsDfsIterator::next_sibling`: discard what was set up for the element returned last, then `next` -/
def DfsIt.nextSibling (fuel : Nat) (it : DfsIt) : Option (Nat × (Hdr × Items)) × DfsIt :=
  DfsIt.next fuel { it with elements := it.elements.tail, position := it.position.tail }

/-- drain the iterator: (depth, id) of everything `next` returns; `calls` bounds the number of calls -/
def DfsIt.drain (fuel : Nat) : Nat → DfsIt → List (Nat × Nat)
  | 0, _ => []
  | calls + 1, it =>
    match DfsIt.next fuel it with
    | (some (d, e), it') => (d, e.1.id) :: DfsIt.drain fuel calls it'
    | (none, _) => []

/-- `ArxmlFileElementsDfsIterator::next` for the file `f`: elements of other files are skipped with their subtrees -/
def fileNextLoop (f : Nat) (fuel : Nat) : Nat → Option (Nat × (Hdr × Items)) × DfsIt → Option (Nat × (Hdr × Items)) × DfsIt
  | 0, r => (none, r.2)
  | _ + 1, (none, it) => (none, it)
  | g + 1, (some (d, e), it) =>
    if e.1.files.isEmpty || e.1.files.contains f then (some (d, e), it)
    else fileNextLoop f fuel g (it.nextSibling fuel)

def fileNext (f : Nat) (fuel skips : Nat) (it : DfsIt) : Option (Nat × (Hdr × Items)) × DfsIt :=
  fileNextLoop f fuel skips (it.next fuel)

def fileDrain (f : Nat) (fuel skips : Nat) : Nat → DfsIt → List (Nat × Nat)
  | 0, _ => []
  | calls + 1, it =>
    match fileNext f fuel skips it with
    | (some (d, e), it') => (d, e.1.id) :: fileDrain f fuel skips calls it'
    | (none, _) => []

/-- the size of a forest (number of items, all levels) -/
def Items.count : Items → Nat
  | .nil => 0
  | .elem _ k r => 1 + k.count + r.count
  | .text _ r => 1 + r.count

/-- `elements_dfs_with_max_depth(max)` on the element `(h, k)`, drained -/
def dfsAll (e : Hdr × Items) (maxDepth : Nat) : List (Nat × Nat) :=
  let n := e.2.count + 2
  DfsIt.drain (3 * n) n (DfsIt.new e maxDepth)

/-- `ArxmlFile::elements_dfs_with_max_depth(max)` for file `f` on the root `(h, k)`, drained -/
def dfsFileAll (f : Nat) (e : Hdr × Items) (maxDepth : Nat) : List (Nat × Nat) :=
  let n := e.2.count + 2
  fileDrain f (3 * n) n n (DfsIt.new e maxDepth)

/-- `sub_elements()`: `ElementsIterator` on an unchanging element returns the child elements in order -/
structure SubIt where
  index : Nat
  last : Option Nat       -- id of the element returned last

/-- the item at a content position: `some (some id)` element, `some none` character data, `none` out of range -/
def Items.itemAt : Items → Nat → Option (Option Nat)
  | .nil, _ => none
  | .elem h _ _, 0 => some (some h.id)
  | .text _ _, 0 => some none
  | .elem _ _ r, n + 1 => r.itemAt n
  | .text _ r, n + 1 => r.itemAt n

/-- `ElementsIterator::next` -/
def SubIt.next (kids : Items) : Nat → SubIt → Option Nat × SubIt
  | 0, it => (none, it)
  | fuel + 1, it =>
    match kids.itemAt it.index with
    | none => (none, it)                                   -- `index = usize::MAX`, fused
    | some none => SubIt.next kids fuel { it with index := it.index + 1 }      -- skip character content
    | some (some id) =>
      match it.last with
      | some prev =>
        if prev ≠ id then (some id, { it with last := some id })
        else SubIt.next kids fuel { it with index := it.index + 1 }
      | none => (some id, { it with last := some id })

def SubIt.drain (kids : Items) (fuel : Nat) : Nat → SubIt → List Nat
  | 0, _ => []
  | calls + 1, it =>
    match SubIt.next kids fuel it with
    | (some id, it') => id :: SubIt.drain kids fuel calls it'
    | (none, _) => []

def subsAll (kids : Items) : List Nat := SubIt.drain kids (2 * kids.length + 2) (kids.length + 1) { index := 0, last := none }

def showDfs (l : List (Nat × Nat)) : String :=
  if l.isEmpty then "ok -" else "ok " ++ ",".intercalate (l.map fun p => s!"{p.1}:e{p.2}")

def showSubs (l : List Nat) : String :=
  if l.isEmpty then "ok -" else "ok " ++ ",".intercalate (l.map fun i => s!"e{i}")

/-- request `dfs e<x> <max>` -/
def qDfs (w : World) (x maxDepth : Nat) : String :=
  match hdrOf w x with
  | some e => showDfs (dfsAll e maxDepth)
  | none => "bad-op"

/-- request `subs e<x>` -/
def qSubs (w : World) (x : Nat) : String :=
  match hdrOf w x with
  | some e => showSubs (subsAll e.2)
  | none => "bad-op"

/-- request `dfsf f<j> <max>`: the file-scoped iteration starts at the root element of the model that holds the file -/
def qDfsFile (w : World) (f maxDepth : Nat) : String :=
  match (List.range w.models.length).find? (fun k => (w.models[k]!).files.any (·.id == f)) with
  | none => if f < w.nextFile then "ok -" else "bad-op"       -- a file that was removed from its model: its root is skipped
  | some k =>
    let m := w.models[k]!
    showDfs (dfsFileAll f (m.rootHdr, m.rootKids) maxDepth)

end AV.W
