/-
Sorting (`ElementRaw::sort`, `impl Ord for Element`, `CharacterData::cmp`, `Attribute::cmp`,
`decompose_item_name`).  Rust's `sort_by` is a stable sort; the model uses core's stable
`List.mergeSort` with the same comparison (`Lemmas/Sort.lean`: any stable sort by a total preorder
yields the same list, so the choice of algorithm is not observable).
-/
import AutosarVerif.Model.WorldOps2

namespace AV.W
open Items

def cmpNat (a b : Nat) : Ordering := if a < b then .lt else if a > b then .gt else .eq

def cmpBytes : Bytes → Bytes → Ordering
  | [], [] => .eq
  | [], _ :: _ => .lt
  | _ :: _, [] => .gt
  | a :: as, b :: bs => if a < b then .lt else if a > b then .gt else cmpBytes as bs

def thenCmp (a : Ordering) (b : Ordering) : Ordering := match a with | .eq => b | o => o

/-- `f64::total_cmp` on bit patterns (IEEE 754 totalOrder: -NaN < -inf < … < -0 < +0 < … < +inf < NaN); before the repair of
finding c14:nan-float-order-dependent the comparison was `partial_cmp(..).unwrap_or(Equal)`, which made a NaN equal to every
number and the sibling comparison no total preorder -/
def cmpF64 (a b : Nat) : Ordering :=
  let key (x : Nat) : Int := if x ≥ 2 ^ 63 then -((x - 2 ^ 63 : Nat) : Int) - 1 else (x : Int)
  let ka := key a
  let kb := key b
  if ka < kb then .lt else if ka > kb then .gt else .eq

section
variable (S : Spec) (V : Env)

/-- `CharacterData::cmp` -/
def cmpCD : CDv → CDv → Ordering
  | .enum a, .enum b => cmpBytes (V.enumText a) (V.enumText b)
  | .str a, .str b => cmpBytes a b
  | .uint a, .uint b => cmpNat a b
  | .float a, .float b => cmpF64 a b
  | .enum _, _ => .lt
  | .str _, .enum _ => .gt
  | .str _, _ => .lt
  | .uint _, .enum _ => .gt
  | .uint _, .str _ => .gt
  | .uint _, _ => .lt
  | .float _, _ => .gt

/-- `Attribute::cmp` lifted to attribute lists (derived `Ord` of the vector: lexicographic) -/
def cmpAttrs : List (Nat × CDv) → List (Nat × CDv) → Ordering
  | [], [] => .eq
  | [], _ :: _ => .lt
  | _ :: _, [] => .gt
  | a :: as, b :: bs =>
    thenCmp (thenCmp (cmpBytes (V.attrText a.1) (V.attrText b.1)) (cmpCD V a.2 b.2)) (cmpAttrs as bs)

/-- `decompose_item_name`: base and trailing decimal index (`none` if there are no trailing digits or they overflow u64) -/
def decompose (name : Bytes) : Bytes × Option Nat :=
  let digits := (name.reverse.takeWhile fun c => 48 ≤ c.toNat && c.toNat ≤ 57).reverse
  match CData.parseU64 digits with
  | some n => (name.take (name.length - digits.length), some n)
  | none => (name, none)

def cmpOptNat : Option Nat → Option Nat → Ordering
  | none, none => .eq
  | none, some _ => .lt
  | some _, none => .gt
  | some a, some b => cmpNat a b

/-- first child element with the given name -/
def subElem (kids : Items) (name : Nat) : Option (Hdr × Items) := kids.childElems.find? fun c => c.1.name == name

/-- `character_data().parse_integer::<u64>()` -/
def intOf (cd : Option CDv) : Option Nat :=
  match cd with
  | some (.str s) => (CData.parseInteger CData.u64 s).map Int.toNat
  | some (.uint n) => some n
  | _ => none

mutual
  /-- `impl Ord for Element` (fuel bounds the nesting depth) -/
  def cmpElem : Nat → (Hdr × Items) → (Hdr × Items) → Ordering
    | 0, _, _ => .eq
    | fuel + 1, a, b =>
      match cmpBytes (V.elemText a.1.name) (V.elemText b.1.name) with
      | .eq =>
        let i1 := ((subElem a.2 V.nmIndex).bind fun e => intOf (charData S e.1 e.2))
        let i2 := ((subElem b.2 V.nmIndex).bind fun e => intOf (charData S e.1 e.2))
        let byIndex : Option Ordering := match i1, i2 with
          | some x, some y => (match cmpNat x y with | .eq => none | o => some o)
          | some _, none => some .lt
          | none, some _ => some .gt
          | none, none => none
        match byIndex with
        | some o => o
        | none =>
          let byName : Option Ordering := match itemName S a.1 a.2, itemName S b.1 b.2 with
            | some n1, some n2 =>
              let d1 := decompose n1
              let d2 := decompose n2
              (match thenCmp (thenCmp (cmpBytes d1.1 d2.1) (cmpOptNat d1.2 d2.2)) (cmpBytes n1 n2) with | .eq => none | o => some o)
            | some _, none => some .lt
            | none, some _ => some .gt
            | none, none => none
          match byName with
          | some o => o
          | none =>
            let def1 := (subElem a.2 V.nmDefinitionRef).bind fun e => (charData S e.1 e.2).bind cdStr
            let def2 := (subElem b.2 V.nmDefinitionRef).bind fun e => (charData S e.1 e.2).bind cdStr
            let byDef : Option Ordering := match def1, def2 with
              | some x, some y => (match cmpBytes x y with | .eq => none | o => some o)
              | _, _ => none
            match byDef with
            | some o => o
            | none =>
              let dest (h : Hdr) : Option Nat := match h.attrs.find? (fun e => e.1 == V.nmDest) with
                | some (_, .enum d) => some d
                | _ => none
              let byDest : Option Ordering := match dest a.1, dest b.1 with
                | some x, some y => (match cmpBytes (V.enumText x) (V.enumText y) with | .eq => none | o => some o)
                | some _, none => some .lt
                | none, some _ => some .gt
                | none, none => none
              match byDest with
              | some o => o
              | none => thenCmp (cmpContent fuel a.2 b.2) (cmpAttrs V a.1.attrs b.1.attrs)
      | o => o

  /-- derived `Ord` of the content vector: lexicographic; `Element(_) < CharacterData(_)` -/
  def cmpContent : Nat → Items → Items → Ordering
    | 0, _, _ => .eq
    | _, .nil, .nil => .eq
    | _, .nil, _ => .lt
    | _, _, .nil => .gt
    | fuel + 1, .elem h1 k1 r1, .elem h2 k2 r2 => thenCmp (cmpElem fuel (h1, k1) (h2, k2)) (cmpContent fuel r1 r2)
    | _, .elem _ _ _, .text _ _ => .lt
    | _, .text _ _, .elem _ _ _ => .gt
    | fuel + 1, .text c1 r1, .text c2 r2 => thenCmp (cmpCD V c1 c2) (cmpContent fuel r1 r2)
end

/-- the sort key of a child: its index path in the parent's type (all versions), then the element order -/
def childLe (typ : Nat) (fuel : Nat) (a b : Hdr × Items) : Bool :=
  let ia := match S.findSub typ a.1.name 0xFFFFFFFF with | some (_, i) => i | none => []
  let ib := match S.findSub typ b.1.name 0xFFFFFFFF with | some (_, i) => i | none => []
  match cmpIdx ia ib with
  | .lt => true
  | .gt => false
  | .eq => cmpElem S V fuel a b != .gt

/-- `ElementRaw::sort` -/
def sortNode : Nat → Hdr → Items → Items
  | 0, _, kids => kids
  | fuel + 1, h, kids =>
    match S.mode h.ety.typ with
    | .characters => kids
    | .mixed => kids
    | _ =>
      if !S.defOrdered h.ety.defId && kids.length > 1 then
        -- text items are dropped (there are none in Sequence / Choice / Bag content)
        let sortedKids := kids.childElems.map fun c => (c.1, sortNode fuel c.1 c.2)
        Items.ofList (sortedKids.mergeSort (childLe S V h.ety.typ (kids.size + 2)))
      else
        let rec descend : Items → Items
          | .nil => .nil
          | .elem ch ck r => .elem ch (sortNode fuel ch ck) (descend r)
          | .text c r => .text c (descend r)
        descend kids

def opSort (w : World) (x : Nat) : World × Ans :=
  match locate w x with
  | none => (w, .ok "")
  | some (k, _) =>
    let m := w.models[k]!
    (setModel w k (m.setRoot (m.rootItems.modify x fun h0 k0 => (h0, sortNode S V (k0.size + 2) h0 k0))), .ok "")

end
end AV.W
