/-
A three-type specification used only for non-vacuity examples (`example … := by decide`): the hypotheses of
the property theorems are met by concrete states, and the model functions compute the expected answers on them.

  type 0 (sequence): root <R>, sub-elements  <A> (def 1, versions {v0})  then  <B> (def 2, versions {v0, v1})
  type 0 has the attributes 10, 11, 12 (strings, all versions): xmlns, xmlns:xsi, xsi:schemaLocation
  type 1 (characters, enumeration {7 in v0, 8 in v0+v1}), one attribute 5 (string, versions {v0})
  type 2 (characters, string)
-/
import AutosarVerif.Model.Spec

namespace AV

def toySpec : Spec where
  nTypes := 3
  nDefs := 3
  nSubs := 2
  nAttrs := 4
  nVer := 6
  nCData := 2
  nRefItems := 0
  subStart := fun t => if t = 0 then 0 else 2
  subEnd := fun _ => 2
  subVer := fun _ => 0
  attrStart := fun t => if t = 0 then 0 else if t = 1 then 3 else 4
  attrEnd := fun t => if t = 0 then 3 else 4
  attrVer := fun t => if t = 0 then 3 else 2
  cdataOf := fun t => if t = 1 then some 0 else if t = 2 then some 1 else none
  mode := fun t => if t = 0 then .sequence else .characters
  refStart := fun _ => 0
  refEnd := fun _ => 0
  subEntry := fun i => if i = 0 then .elem 1 else .elem 2
  verInfo := fun i => if i = 0 ∨ i = 2 then 1 else 3
  attrName := fun i => if i = 3 then 5 else 10 + i
  attrCData := fun _ => 1
  attrRequired := fun _ => false
  refItem := fun _ => 0
  defName := fun d => 100 + d
  defType := fun d => d
  defMult := fun d => if d = 2 then .any else .zeroOrOne
  defOrdered := fun _ => false
  defSplit := fun d => if d = 0 then 1 else 0   -- the root is splittable
  cspec := fun i => if i = 0 then .enum [(7, 1), (8, 3)] else .string false none
  refTypeIdx := 99
  rootDef := 0
  depth := 1
  nmShortName := 999
  atDest := 998

end AV
