/-
File membership operations (`Element::{file_membership, add_to_file, add_to_file_restricted, remove_from_file}` in
element.rs, `AutosarModel::{create_file, remove_file}` in autosarmodel.rs).

A local file set is a list of file ids without duplicates (the Rust `HashSet<WeakArxmlFile>`; the dump sorts it).
The empty local set means "inherit": the effective set is the nearest non-empty local set on the way up.
No imports beyond the model.
-/
import AutosarVerif.Model.WorldOps

namespace AV.W

section
variable (S : Spec)

/-- `element_type().splittable() != 0` -/
def splittable (h : Hdr) : Bool := S.defSplit h.ety.defId != 0

/-- `Element::file_membership` for the last node of a chain (root … element): (is the set the element's own?, the set);
`none` = `NoFilesInModel` -/
def membership (c : List (Hdr × Items)) : Option (Bool × List Nat) :=
  match c.reverse with
  | [] => none
  | (h, _) :: ups =>
    if !h.files.isEmpty then some (true, h.files)
    else match ups.find? (fun n => !n.1.files.isEmpty) with
      | some (a, _) => some (false, a.files)
      | none => none

/-- is the parent of the last node of the chain splittable (`true` for the root: `is_none_or`) -/
def parentSplittable (c : List (Hdr × Items)) : Bool :=
  match c.dropLast.getLast? with
  | none => true
  | some (ph, _) => splittable S ph

def setFiles (root : Items) (id : Nat) (fs : List Nat) : Items :=
  root.modify id fun h k => ({ h with files := fs }, k)

/-- effective set of a node, given the effective set handed down by its parent (`[]` = no ancestor has a set) -/
def effOf (pe : List Nat) (h : Hdr) : List Nat := if h.files.isEmpty then pe else h.files

/-- a child without a set of its own keeps the files it had so far -/
def pin (cur : List Nat) (sh : Hdr) : Hdr := if sh.files.isEmpty then { sh with files := cur } else sh

/-- `add_to_file_restricted` on one node; `pe` = effective set handed down by the parent, `ps` = the parent is splittable
(or there is no parent).  Returns the node and whether the walk continues with the parent. -/
def restrictStep (f : Nat) (h : Hdr) (kids : Items) (pe : List Nat) (ps : Bool) : Hdr × Items × Bool :=
  let cur := effOf pe h
  -- `file_membership().unwrap_or((true, {}))`: the set counts as the element's own also when nothing is set anywhere
  let own := !h.files.isEmpty || pe.isEmpty
  if cur.contains f then (h, kids, false)
  else
    (if ps || own then { h with files := cur ++ [f] } else h,
     if splittable S h then kids.mapKidHdrs (pin cur) else kids,
     true)

/-- `add_to_file` on the last node of `path` (ids from this level down), then `add_to_file_restricted` on the nodes of the
path on the way back up, as long as the walk continues.  Returns the new content list and whether the walk continues
above this level. -/
def addPath (f : Nat) : List Nat → List Nat → Bool → Items → Items × Bool
  | [], _, _, its => (its, false)
  | _ :: _, _, _, .nil => (.nil, false)
  | p, pe, ps, .text c r => let q := addPath f p pe ps r; (.text c q.1, q.2)
  | id :: rest, pe, ps, .elem h k r =>
    if h.id = id then
      match rest with
      | [] =>
        if (effOf pe h).contains f then (.elem h k r, false)
        else (.elem { h with files := effOf pe h ++ [f] } k r, true)
      | _ :: _ =>
        let q := addPath f rest (effOf pe h) (splittable S h) k
        if q.2 then
          let s := restrictStep S f h q.1 pe ps
          (.elem s.1 s.2.1 r, s.2.2)
        else (.elem h q.1 r, false)
    else let q := addPath f (id :: rest) pe ps r; (.elem h k q.1, q.2)

/-- a set loses the file `f` -/
def dropF (f : Nat) (sh : Hdr) : Hdr := { sh with files := sh.files.filter (· != f) }

/-- the file-set part of `remove_from_file(f)` on the element `x`: `x` is restricted to its effective set without `f`,
every set in its subtree loses `f`; `pe` = effective set handed down by the parent -/
def rmAt (f x : Nat) : List Nat → Items → Items
  | _, .nil => .nil
  | pe, .text c r => .text c (rmAt f x pe r)
  | pe, .elem h k r =>
    if h.id = x then .elem { h with files := (effOf pe h).filter (· != f) } (k.mapHdrs (dropF f)) (rmAt f x pe r)
    else .elem h (rmAt f x (effOf pe h) k) (rmAt f x pe r)

/-- `create_file`: the file is added to the model; `add_to_file_restricted` on the root element adds it to the root's
local file set and, the root being splittable, pins the root's children that have no set of their own to the files the
root had so far; the root gets its protocol id on the first file -/
def opMkFile (w : World) (k : Nat) (name : Bytes) (ver : Nat) (validVersion : Bool) : World × String :=
  match w.models[k]? with
  | none => (w, "bad-op")
  | some m =>
    if ¬ validVersion then (w, "err")
    else if m.files.any (·.name == name) then (w, "err")
    else
      let f : File := { id := w.nextFile, name := name, version := ver }
      let st := restrictStep S f.id m.rootHdr m.rootKids [] true
      let (rootHdr, issued, nid, extra) :=
        if m.rootIssued then (st.1, true, w.nextId, "")
        else ({ st.1 with id := w.nextId, parent := .model k }, true, w.nextId + 1, s!" e{w.nextId}")
      -- (a root without protocol id has no content; `setParents` only keeps the function total with respect to the invariant)
      let kids := if m.rootIssued then st.2.1 else st.2.1.setParents (.elem w.nextId)
      let m' := { m with files := m.files ++ [f], rootHdr := rootHdr, rootKids := kids, rootIssued := issued }
      ({ w with models := w.models.set k m', nextFile := w.nextFile + 1, nextId := nid, fileOwner := w.fileOwner ++ [(f.id, k)] },
        s!"ok f{f.id}{extra}")

/-- the model a file was created in (`ArxmlFile::model`) -/
def fileOwnerOf (w : World) (f : Nat) : Option Nat := (w.fileOwner.find? (·.1 == f)).map (·.2)

/-- `Element::add_to_file` -/
def opAddFile (w : World) (x f : Nat) : World × Ans :=
  match locate w x with
  | none => (w, .err)
  | some (k, c) =>
    if !parentSplittable S c then (w, .err)
    else match fileOwnerOf w f with
      | none => (w, .unsupported)
      | some fk =>
        if fk ≠ k then (w, .err)
        else match membership c with
          | none => (w, .err)
          | some (_, cur) =>
            if cur.contains f then (w, .ok "")
            else
              let m := w.models[k]!
              let root' := (addPath S f (c.map (·.1.id)) [] true m.rootItems).1
              (setModel w k (m.setRoot root'), .ok "")

/-- remove the elements `ids` (those still attached to a parent), in order, ignoring refusals -/
def removeAll (w : World) : List Nat → World
  | [] => w
  | id :: rest =>
    let w1 := match locate w id with
      | some (_, c) =>
        match c.dropLast.getLast? with
        | some (ph, _) => (opRemove S w ph.id id).1
        | none => w
      | none => w
    removeAll w1 rest

/-- `Element::remove_from_file` -/
def opRmFromFile (w : World) (x f : Nat) : World × Ans :=
  match locate w x with
  | none => (w, .err)
  | some (k, c) =>
    if !parentSplittable S c then (w, .err)
    else match fileOwnerOf w f with
      | none => (w, .unsupported)
      | some fk =>
        if fk ≠ k then (w, .err)
        else match membership c with
          | none => (w, .err)
          | some (_, cur) =>
            let restricted := cur.filter (· != f)
            -- no file left: try to delete the element (the root has no parent and stays)
            let w1 := if restricted.isEmpty then
                match c.dropLast.getLast? with
                | some (ph, _) => (opRemove S w ph.id x).1
                | none => w
              else w
            match locate w1 x with
            | none => (w1, .ok "")      -- removed: its file set is empty already
            | some (k1, _) =>
              let m := w1.models[k1]!
              -- the elements with a set of their own that consists of `f` only: they end up in no file and are deleted
              let doomed := match m.rootItems.find x with
                | some (h, kk) =>
                  (((Items.elem { h with files := restricted } kk .nil).hdrs.filter fun sh =>
                    !sh.files.isEmpty ∧ (sh.files.filter (· != f)).isEmpty).map (·.id))
                | none => []
              let w2 := setModel w1 k1 (m.setRoot (rmAt f x [] m.rootItems))
              (removeAll S w2 doomed, .ok "")

/-- `Vec::swap_remove`: the last entry takes the place of the removed one -/
def swapRemove (l : List File) (pos : Nat) : List File :=
  match l.getLast? with
  | some last => if pos + 1 = l.length then l.dropLast else (l.set pos last).dropLast
  | none => l

/-- `AutosarModel::remove_file`; removing the last file leaves former children attached to the emptied root (known
finding c03:remove-last-file-keeps-children-attached): not modelled -/
def opRmFile (w : World) (k f : Nat) : World × Ans :=
  match w.models[k]? with
  | none => (w, .unsupported)
  | some m =>
    match m.files.findIdx? (·.id == f) with
    | none => (w, .ok "")
    | some pos =>
      let files' := swapRemove m.files pos
      if files'.isEmpty then (w, .unsupported)
      else
        let w1 := setModel w k { m with files := files' }
        ((opRmFromFile S w1 m.rootHdr.id f).1, .ok "")

end
end AV.W
