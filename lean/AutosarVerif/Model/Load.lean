/-
`AutosarModel::load_buffer` for a model without files (the parsed root element becomes the root of the model); loading
into a model that already has files needs the merge algorithm, which is not modelled: `unsupported`.
-/
import AutosarVerif.Model.Parser
import AutosarVerif.Model.FileOps

namespace AV.W
open AV.PM

def showErr (e : PErr) : String :=
  if e.kind = kUnsupported ∨ e.kind = kFuel then "unsupported"
  else if e.kind = kPanic then "panic"
  else if e.kind ≥ kLexBase then s!"err L{e.kind - kLexBase}@{e.line}"
  else s!"err P{e.kind}@{e.line}"

/-- first occurrence of a path wins (`identifiables.insert` only if the key has no live entry) -/
def indexOfIdents : List (Bytes × Nat) → List (Bytes × Nat) → List (Bytes × Nat)
  | [], acc => acc
  | (p, id) :: r, acc => indexOfIdents r (if acc.any (·.1 == p) then acc else acc ++ [(p, id)])

/-- the answer of `load`: accepted (with the text of the answer) or not -/
inductive LoadAns
  | ok (s : String)
  | no (s : String)

def LoadAns.show : LoadAns → String
  | .ok s => s
  | .no s => s

/-- `load_buffer` -/
def opLoad (S : Spec) (V : Env) (nmAutosar : Nat) (w : World) (k : Nat) (name : Bytes) (strict : Bool) (buf : Bytes) : World × LoadAns :=
  match w.models[k]? with
  | none => (w, .no "bad-op")
  | some m =>
    if m.files.any (·.name == name) then (w, .no "err DuplicateFilenameError")
    else if !m.files.isEmpty then (w, .no "unsupported")
    else
      let r := runParser S V strict buf w.nextId nmAutosar
      match r.1 with
      | .error e => (w, .no (showErr e))
      | .ok (h, kids) =>
        let st := r.2
        let f : File := { id := w.nextFile, name := name, version := st.ver, standalone := st.standalone }
        let m' : Model :=
          { rootHdr := { h with parent := .model k, files := [f.id] }, rootKids := kids, rootIssued := true, files := [f],
            index := indexOfIdents st.idents [], refs := st.refs.foldl (fun rs x => refsAdd rs x.1 x.2) [] }
        let ws := if st.warnings.isEmpty then "-" else ",".intercalate (st.warnings.map fun e => s!"{e.kind}@{e.line}")
        let ids := " ".intercalate ((List.range (st.nextId - w.nextId)).map fun i => s!"e{w.nextId + i}")
        ({ w with models := w.models.set k m', nextFile := w.nextFile + 1, nextId := st.nextId, fileOwner := w.fileOwner ++ [(f.id, k)] },
          .ok s!"ok f{f.id} w{st.warnings.length} {ws} {ids}")

end AV.W
