/-
`AutosarModel::load_buffer`: for a model without files the parsed root element becomes the root of the model; otherwise the
parsed tree is merged into the model (`Model/Merge.lean`).  A merge that fails half way leaves the part already merged
behind (known finding c11:failed-load-partial-merge); the model answers `unsupported` there (the elements left behind have
no protocol ids).
-/
import AutosarVerif.Model.Parser
import AutosarVerif.Model.FileOps
import AutosarVerif.Model.Merge

namespace AV.W
open AV.PM

def showErr (e : PErr) : String :=
  if e.kind = kUnsupported ∨ e.kind = kFuel then "unsupported"
  else if e.kind = kPanic then "panic"
  else if e.kind ≥ kLexBase then s!"err L{e.kind - kLexBase}@{e.line}"
  else s!"err P{e.kind}@{e.line}"

/-- first occurrence of a path wins (`identifiables.insert` only if the key has no live entry) -/
def indexOfIdents : List (Bytes × Nat) → List (Bytes × Nat) → List (Bytes × Nat)
  | [], acc => acc
  | (p, id) :: r, acc => indexOfIdents r (if acc.any (·.1 == p) then acc else acc ++ [(p, id)])

/-- the answer of `load`: accepted (with the text of the answer) or not -/
inductive LoadAns
  | ok (s : String)
  | no (s : String)

def LoadAns.show : LoadAns → String
  | .ok s => s
  | .no s => s

/-- `load_buffer` -/
def opLoad (S : Spec) (V : Env) (nmAutosar : Nat) (w : World) (k : Nat) (name : Bytes) (strict : Bool) (buf : Bytes) : World × LoadAns :=
  match w.models[k]? with
  | none => (w, .no "bad-op")
  | some m =>
    if m.files.any (·.name == name) then (w, .no "err DuplicateFilenameError")
    else
      let r := runParser S V strict buf w.nextId nmAutosar
      match r.1 with
      | .error e => (w, .no (showErr e))
      | .ok (h, kids) =>
        let st := r.2
        let f : File := { id := w.nextFile, name := name, version := st.ver, standalone := st.standalone }
        let ws := if st.warnings.isEmpty then "-" else ",".intercalate (st.warnings.map fun e => s!"{e.kind}@{e.line}")
        if m.files.isEmpty then
          let m' : Model :=
            { rootHdr := { h with parent := .model k, files := [f.id] }, rootKids := kids, rootIssued := true, files := [f],
              index := indexOfIdents st.idents [], refs := st.refs.foldl (fun rs x => refsAdd rs x.1 x.2) [] }
          let ids := " ".intercalate ((List.range (st.nextId - w.nextId)).map fun i => s!"e{w.nextId + i}")
          ({ w with models := w.models.set k m', nextFile := w.nextFile + 1, nextId := st.nextId, fileOwner := w.fileOwner ++ [(f.id, k)] },
            .ok (s!"ok f{f.id} w{st.warnings.length} {ws}" ++ (if ids.isEmpty then "" else " " ++ ids)))
        else
          -- the same path with another kind of element on the two sides: rejected before anything is merged
          let parsed : Items := .elem h kids .nil
          let clash := st.idents.any fun (key, id) =>
            match m.lookup key with
            | some ex =>
              match m.rootItems.find ex, parsed.find id with
              | some (eh, _), some (nh, _) => eh.name != nh.name
              | _, _ => false
            | none => false
          if clash then (w, .no "err OverlappingDataError")
          else
            let fver : Nat → Option Nat := fun fid => ((m.files ++ [f]).find? (·.id == fid)).map (·.version)
            let r2 := mergeElement S V fver f.id st.ver (kids.size + m.rootKids.size + 2) m.rootHdr m.rootKids m.rootHdr.files kids
            match r2.2 with
            | some _ => (w, .no "unsupported")
            | none =>
              let base := w.nextId
              let root1 : Items := .elem { m.rootHdr with files := if m.rootHdr.files.contains f.id then m.rootHdr.files else m.rootHdr.files ++ [f.id] } r2.1 .nil
              let order := newIds base root1
              let rn := renum base order
              let root2 := renumItems base order root1
              -- identifiables: inserted unless the path already has an entry; only elements that are part of the merged model count
              let index1 := st.idents.foldl (fun ix (x : Bytes × Nat) =>
                if ix.any (·.1 == x.1) then ix else if order.contains x.2 then ix ++ [(x.1, rn x.2)] else ix) m.index
              -- references: every text gets its key; referrers that were merged away leave nothing else behind
              let refs1 := st.refs.foldl (fun rs (x : Bytes × Nat) =>
                if order.contains x.2 then refsAdd rs x.1 (rn x.2)
                else refsAdd rs x.1 ghostRef) m.refs
              let m' := { (m.setRoot root2) with files := m.files ++ [f], index := index1, refs := refs1 }
              let ids := " ".intercalate ((List.range order.length).map fun i => s!"e{base + i}")
              ({ w with models := w.models.set k m', nextFile := w.nextFile + 1, nextId := base + order.length, fileOwner := w.fileOwner ++ [(f.id, k)] },
                .ok (s!"ok f{f.id} w{st.warnings.length} {ws}" ++ (if ids.isEmpty then "" else " " ++ ids)))

end AV.W
