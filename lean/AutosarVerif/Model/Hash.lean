/-
Model of `autosar-data-specification/src/lib.rs::hashfunc` and of the three
`from_bytes` / `to_str` pairs (`ElementName`, `AttributeName`, `EnumItem`).

Two presentations of the hash are given:
* `hashBytes` works on a byte list and reads like the Rust loop
  (4-byte little-endian words, then an optional 2-byte word, then an optional byte);
* `hashAux` works on a name *packed into one natural number* (little-endian bytes followed by
  a terminating 1), which is what the kernel can evaluate quickly over a whole table.
`Lemmas/Hash.lean` proves that they agree (`hashAux_pack`).

The name tables themselves are *generated* from the Rust source on every run
(`Gen/Names*.lean`); everything here is parametric in a `NameTable`.
No imports: this file is linked into the driver executable.
-/
namespace AV

abbrev Bytes := List UInt8

namespace Hash

def M32 : Nat := 4294967296

/-- `u32::rotate_left` -/
def rotl (x k : Nat) : Nat := ((x <<< k) % M32) ||| (x >>> (32 - k))

/-- one round: `f1 = f1.rotate_left(5).bitxor(val).wrapping_mul(HASHCONST1)` and likewise `f2` -/
def stepf (c1 c2 : Nat) (f : Nat × Nat) (v : Nat) : Nat × Nat :=
  (((rotl f.1 5) ^^^ v) * c1 % M32, ((rotl f.2 6) ^^^ v) * c2 % M32)

/-- the four constants of `hashfunc` (regenerated from the source into `Gen/HashParams.lean`) -/
structure Params where
  c1 : Nat
  c2 : Nat
  init1 : Nat
  init2 : Nat

/-- byte-level model of the loop in `hashfunc`; returns `(f1, f2)` -/
def hashBytes (P : Params) : Bytes → Nat × Nat → Nat × Nat
  | b0 :: b1 :: b2 :: b3 :: rest, f =>
      hashBytes P rest
        (stepf P.c1 P.c2 f (b0.toNat + 256 * b1.toNat + 65536 * b2.toNat + 16777216 * b3.toNat))
  | [b0, b1, b2], f => stepf P.c1 P.c2 (stepf P.c1 P.c2 f (b0.toNat + 256 * b1.toNat)) b2.toNat
  | [b0, b1], f => stepf P.c1 P.c2 f (b0.toNat + 256 * b1.toNat)
  | [b0], f => stepf P.c1 P.c2 f b0.toNat
  | [], f => f

/-- little-endian packing with a terminating 1 -/
def pack : Bytes → Nat
  | [] => 1
  | b :: bs => b.toNat + 256 * pack bs

/-- inverse of `pack` (fuel = maximal number of bytes) -/
def unpack : Nat → Nat → Bytes
  | 0, _ => []
  | fuel + 1, n => if n ≤ 1 then [] else UInt8.ofNat (n % 256) :: unpack fuel (n / 256)

/-- the same hash on a packed name -/
def hashAux (P : Params) : Nat → Nat → Nat × Nat → Nat × Nat
  | 0, _, f => f
  | fuel + 1, n, f =>
    if n ≥ 0x100000000 then
      hashAux P fuel (n >>> 32) (stepf P.c1 P.c2 f (n % 0x100000000))
    else if n ≥ 0x1000000 then
      stepf P.c1 P.c2 (stepf P.c1 P.c2 f (n % 0x10000)) ((n >>> 16) % 256)
    else if n ≥ 0x10000 then stepf P.c1 P.c2 f (n % 0x10000)
    else if n ≥ 0x100 then stepf P.c1 P.c2 f (n % 256)
    else f

/-- A perfect-hash name table as it appears in the Rust source. -/
structure NameTable where
  /-- `STRING_TABLE`, each text packed by `pack` -/
  names : List Nat
  /-- `STRING_TABLE.len()` (the second modulus) -/
  nNames : Nat
  /-- `DISPLACEMENTS`, entry `k` = `(d1 <<< 16) ||| d2` at bit offset `32*k` -/
  disp : Nat
  /-- `DISPLACEMENTS.len()` (the first modulus) -/
  nDisp : Nat

/-- final index computation of `from_bytes` from `(f1,f2)` -/
def idxOf (T : NameTable) (f : Nat × Nat) : Nat :=
  let g := f.1 ^^^ f.2
  let d := (T.disp >>> (32 * (g % T.nDisp))) % M32
  (d % 65536 + (f.1 * (d / 65536)) % M32 + f.2) % M32 % T.nNames

/-- `X::from_bytes(input)`: `some idx` for `Ok(transmute(idx))`, `none` for `Err` -/
def fromBytes (P : Params) (T : NameTable) (s : Bytes) : Option Nat :=
  let idx := idxOf T (hashBytes P s (P.init1, P.init2))
  if T.names[idx]? = some (pack s) then some idx else none

/-- `x.to_str()` for the item with discriminant `i` -/
def toStr (T : NameTable) (i : Nat) : Bytes := unpack 256 (T.names.getD i 0)

/-- table index computed on a packed name (used by the kernel-evaluated table walk) -/
def idxPacked (P : Params) (T : NameTable) (x : Nat) : Nat :=
  idxOf T (hashAux P 64 x (P.init1, P.init2))

/-- `n` is the packing of some byte string of fewer than `fuel` bytes
(dividing by 256 repeatedly ends in exactly the terminating 1) -/
def validPacked : Nat → Nat → Bool
  | 0, _ => false
  | fuel + 1, n => n == 1 || (decide (n ≥ 256) && validPacked fuel (n / 256))

/-- entry `x` is a well-formed packed text of fewer than 255 bytes and hashes to slot `i` -/
def entryOk (P : Params) (T : NameTable) (x i : Nat) : Bool :=
  idxPacked P T x == i && validPacked 255 x

/-- walk one chunk of the table: entry `base + j` of the table hashes to `base + j`;
returns the index after the chunk -/
def walkN (P : Params) (T : NameTable) : List Nat → Nat → Option Nat
  | [], i => some i
  | x :: xs, i => if entryOk P T x i then walkN P T xs (i + 1) else none

/-- walk all chunks -/
def walkAll (P : Params) (T : NameTable) : List (List Nat) → Nat → Option Nat
  | [], i => some i
  | c :: cs, i =>
    match walkN P T c i with
    | some j => walkAll P T cs j
    | none => none

/-- bitmap of the numbers in `l` -/
def bitmap (l : List Nat) (acc : Nat) : Nat := l.foldl (fun a d => a ||| (1 <<< d)) acc

/-- `l` has `n` entries and contains every number below `n` (hence each exactly once) -/
def isRange (ls : List (List Nat)) (n : Nat) : Bool :=
  ls.flatten.length == n && bitmap ls.flatten 0 == 2 ^ n - 1

end Hash
end AV
