/-
`AutosarModel::duplicate` (autosarmodel.rs): a new model; one file per file of the original (same name, version and
`xml_standalone`, created in the order of `files()`); a copy of every sub-element of `<AUTOSAR>` made with
`create_copied_sub_element` on the root element of the new model (so: in the LOWEST version of the new model's files,
`Model/WorldOps2.lean` `opCopy`); finally the two depth-first iterations are zipped and the local file set of every
element of the copy is replaced by the image of the file set of the element of the original AT THE SAME POSITION OF THE
ITERATION.  An error of any step drops the new model: the original is not touched.

The protocol ids of the new elements are those `opCopy` gives out; the answer lists them in document order of the new model.
Should the order of allocation differ from the document order (a root whose sub-elements are not in the order of the
specification), the model answers `unsupported`.
-/
import AutosarVerif.Model.WorldOps2
import AutosarVerif.Model.FileOps
import AutosarVerif.Model.Step

namespace AV.W

section
variable (S : Spec) (V : Env) (rootAttrs : List (Nat × CDv))

/-- the files of the copy: `create_file(filename, version)` and `xml_standalone` copied, in the order of the original -/
def dupFiles (k' : Nat) : List File → World → Option World
  | [], w => some w
  | f :: fs, w =>
    let r := opMkFile S w k' f.name f.version true
    if r.1.nextFile = w.nextFile + 1 then
      let w1 := match r.1.models[k']? with
        | some m =>
          let m' : Model := { m with files := m.files.map fun g => if g.id = w.nextFile then { g with standalone := f.standalone } else g }
          { r.1 with models := r.1.models.set k' m' }
        | none => r.1
      dupFiles k' fs w1
    else none

/-- `copy.root_element().create_copied_sub_element(&element)?` for every sub-element of the original root -/
def dupCopies (root' : Nat) : List Nat → World → Except Ans World
  | [], w => .ok w
  | c :: cs, w =>
    match opCopy S V w root' c none with
    | (w1, .ok _) => dupCopies root' cs w1
    | (_, a) => .error a

/-- the zip of the two iterations: the elements of the forest take, in document order, the file sets of the list; when
the list is exhausted the rest of the forest keeps what it has -/
def assignFiles : Items → List (List Nat) → Items × List (List Nat)
  | .nil, fs => (.nil, fs)
  | .text c r, fs =>
    let r' := assignFiles r fs
    (.text c r'.1, r'.2)
  | .elem h k r, [] => (.elem h k r, [])
  | .elem h k r, f :: fs =>
    let k' := assignFiles k fs
    let r' := assignFiles r k'.2
    (.elem { h with files := f } k'.1 r'.1, r'.2)

/-- `AutosarModel::duplicate` of the model `k` -/
def opDup (w : World) (k : Nat) : World × Ans :=
  match w.models[k]? with
  | none => (w, .err)
  | some m =>
    let k' := w.models.length
    let w0 : World := { w with models := w.models ++ [newModel S rootAttrs] }
    if m.files.isEmpty then
      -- no file: the copy has none either; a sub-element could not be copied (`NoFilesInModel`)
      if m.rootKids.childElems.isEmpty then (w0, .ok s!"m{k'}") else (w, .err)
    else
      match dupFiles S k' m.files w0 with
      | none => (w, .err)
      | some w1 =>
        match w1.models[k']? with
        | none => (w, .err)
        | some m1 =>
          match dupCopies S V m1.rootHdr.id (m.rootKids.childElems.map (·.1.id)) w1 with
          | .error a => (w, a)
          | .ok w2 =>
            match w2.models[k']? with
            | none => (w, .err)
            | some m2 =>
              let newFiles := m2.files.map (·.id)
              let mapF : Nat → Option Nat := fun fid =>
                match m.files.findIdx? (·.id == fid) with
                | some i => newFiles[i]?
                | none => none
              let origSets := (m.rootHdr :: m.rootKids.hdrs).map fun h => h.files.filterMap mapF
              let root' := (assignFiles m2.rootItems origSets).1
              let m3 := m2.setRoot root'
              let ids := m3.rootItems.ids
              if ids ≠ List.range' w.nextId ids.length then (w, .unsupported)
              else
                let fs := " ".intercalate (newFiles.map fun i => s!"f{i}")
                let es := " ".intercalate (ids.map fun i => s!"e{i}")
                (setModel w2 k' m3, .ok s!"m{k'} {fs} {es}")

end
end AV.W
