/-
Run-time acceleration only: the table accessors of a `Spec` tabulated into arrays
(`SpecArrays.ofSpec`, evaluated once as a top-level constant in the driver), and a `Spec` that
reads those arrays (`SpecArrays.toSpec`).  `Lemmas/SpecCache.lean` proves
`(SpecArrays.ofSpec S).toSpec S = S`, so everything proved about `realSpec` holds of what the
driver executes.
-/
import AutosarVerif.Model.Spec

namespace AV

structure SpecArrays where
  subStart : Array Nat
  subEnd : Array Nat
  subVer : Array Nat
  attrStart : Array Nat
  attrEnd : Array Nat
  attrVer : Array Nat
  cdataOf : Array (Option Nat)
  mode : Array Mode
  refStart : Array Nat
  refEnd : Array Nat
  subEntry : Array SubEntry
  verInfo : Array Nat
  attrName : Array Nat
  attrCData : Array Nat
  attrRequired : Array Bool
  refItem : Array Nat
  defName : Array Nat
  defType : Array Nat
  defMult : Array Mult
  defOrdered : Array Bool
  defSplit : Array Nat
  cspec : Array CSpec

def tab {α : Type} (n : Nat) (f : Nat → α) : Array α := Array.ofFn (n := n) (fun i => f i.val)

/-- read a tabulated function; outside the table fall back to the function itself -/
@[inline] def rd {α : Type} (a : Array α) (f : Nat → α) (i : Nat) : α :=
  if h : i < a.size then a[i] else f i

def SpecArrays.ofSpec (S : Spec) : SpecArrays where
  subStart := tab S.nTypes S.subStart
  subEnd := tab S.nTypes S.subEnd
  subVer := tab S.nTypes S.subVer
  attrStart := tab S.nTypes S.attrStart
  attrEnd := tab S.nTypes S.attrEnd
  attrVer := tab S.nTypes S.attrVer
  cdataOf := tab S.nTypes S.cdataOf
  mode := tab S.nTypes S.mode
  refStart := tab S.nTypes S.refStart
  refEnd := tab S.nTypes S.refEnd
  subEntry := tab S.nSubs S.subEntry
  verInfo := tab S.nVer S.verInfo
  attrName := tab S.nAttrs S.attrName
  attrCData := tab S.nAttrs S.attrCData
  attrRequired := tab S.nAttrs S.attrRequired
  refItem := tab S.nRefItems S.refItem
  defName := tab S.nDefs S.defName
  defType := tab S.nDefs S.defType
  defMult := tab S.nDefs S.defMult
  defOrdered := tab S.nDefs S.defOrdered
  defSplit := tab S.nDefs S.defSplit
  cspec := tab S.nCData S.cspec

def SpecArrays.toSpec (A : SpecArrays) (S : Spec) : Spec :=
  { S with
    subStart := rd A.subStart S.subStart
    subEnd := rd A.subEnd S.subEnd
    subVer := rd A.subVer S.subVer
    attrStart := rd A.attrStart S.attrStart
    attrEnd := rd A.attrEnd S.attrEnd
    attrVer := rd A.attrVer S.attrVer
    cdataOf := rd A.cdataOf S.cdataOf
    mode := rd A.mode S.mode
    refStart := rd A.refStart S.refStart
    refEnd := rd A.refEnd S.refEnd
    subEntry := rd A.subEntry S.subEntry
    verInfo := rd A.verInfo S.verInfo
    attrName := rd A.attrName S.attrName
    attrCData := rd A.attrCData S.attrCData
    attrRequired := rd A.attrRequired S.attrRequired
    refItem := rd A.refItem S.refItem
    defName := rd A.defName S.defName
    defType := rd A.defType S.defType
    defMult := rd A.defMult S.defMult
    defOrdered := rd A.defOrdered S.defOrdered
    defSplit := rd A.defSplit S.defSplit
    cspec := rd A.cspec S.cspec }

namespace Hash
/-- `fromBytes` with the name table in an array (run-time only; equal to `fromBytes`) -/
def fromBytesA (P : Params) (T : NameTable) (names : Array Nat) (s : Bytes) : Option Nat :=
  let idx := idxOf T (hashBytes P s (P.init1, P.init2))
  if names[idx]? = some (pack s) then some idx else none
end Hash

end AV
