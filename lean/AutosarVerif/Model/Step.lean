/-
The core operations of the world model as ONE step function: `applyOp : World → Op → World × String`.  The driver parses a
request into an `Op` and answers it with `applyOp`, so the theorems of `Lemmas/Reachable.lean` about every state reachable
by a history of these operations are theorems about what the driver runs.  The larger alphabet `OpX` / `applyOpX` / `runX` adds
`set_item_name`, `set_reference_target` and `sort` (`Lemmas/StepX.lean`: the same invariants over all histories of the larger
alphabet).  (Moves, copies and loading are answered by the driver too, but are not part of either alphabet yet.)
-/
import AutosarVerif.Model.FileOps
import AutosarVerif.Model.Compat
import AutosarVerif.Model.Sort

namespace AV.W

/-- `AutosarModel::new()`: a root element without protocol id and without content -/
def newModel (S : Spec) (rootAttrs : List (Nat × CDv)) : Model :=
  { rootHdr := { id := 0, name := S.defName S.rootDef, ety := S.ety S.rootDef, parent := .none, attrs := rootAttrs, files := [], comment := none }
    rootKids := .nil, rootIssued := false, files := [], index := [], refs := [] }

def emptyWorld : World := { models := [], nextId := 0, nextFile := 0, dead := [] }

inductive Op
  | newModel
  | mkFile (k : Nat) (name : Bytes) (ver : Nat) (valid : Bool)
  | create (p name : Nat) (pos : Option Nat)
  | named (p name : Nat) (item : Bytes) (pos : Option Nat)
  | remove (p c : Nat)
  | cdata (x : Nat) (v : CDv)
  | rmcdata (x : Nat)
  | attr (x a : Nat) (v : CDv)
  | attrs (x a : Nat) (s : Bytes)
  | rmattr (x a : Nat)
  | comment (x : Nat) (cm : Option Bytes)
  | instext (x pos : Nat) (s : Bytes)
  | rmtext (x pos : Nat)
  | addfile (x f : Nat)
  | rmfromfile (x f : Nat)
  | rmfile (k f : Nat)
  | setver (f ver : Nat)

def shAns (r : World × Ans) : World × String := (r.1, r.2.show)

def applyOp (S : Spec) (V : Env) (rootAttrs : List (Nat × CDv)) (w : World) : Op → World × String
  | .newModel => ({ w with models := w.models ++ [newModel S rootAttrs] }, s!"ok m{w.models.length}")
  | .mkFile k name ver valid => opMkFile S w k name ver valid
  | .create p name pos => shAns (opCreate S V w p name pos)
  | .named p name item pos => shAns (opNamed S V w p name item pos)
  | .remove p c => shAns (opRemove S w p c)
  | .cdata x v => shAns (opCData S V w x v)
  | .rmcdata x => shAns (opRmCData S w x)
  | .attr x a v => shAns (opAttr S V w x a v)
  | .attrs x a s => shAns (opAttrS S V w x a s)
  | .rmattr x a => shAns (opRmAttr S w x a)
  | .comment x cm => shAns (opComment w x cm)
  | .instext x pos s => shAns (opInsText S w x pos s)
  | .rmtext x pos => shAns (opRmText S w x pos)
  | .addfile x f => shAns (opAddFile S w x f)
  | .rmfromfile x f => shAns (opRmFromFile S w x f)
  | .rmfile k f => shAns (opRmFile S w k f)
  | .setver f ver => shAns (opSetVersion S w f ver)

/-- the state after a history of core operations, from the empty world -/
def run (S : Spec) (V : Env) (rootAttrs : List (Nat × CDv)) (ops : List Op) : World :=
  ops.foldl (fun w op => (applyOp S V rootAttrs w op).1) emptyWorld

/-- the larger alphabet: a core operation, `set_item_name`, `sort`, `set_reference_target` -/
inductive OpX
  | core (op : Op)
  | rename (x : Nat) (nm : Bytes)
  | sort (x : Nat)
  | setref (x t : Nat)

def applyOpX (S : Spec) (V : Env) (rootAttrs : List (Nat × CDv)) (w : World) : OpX → World × String
  | .core op => applyOp S V rootAttrs w op
  | .rename x nm => shAns (opRename S V w x nm)
  | .sort x => shAns (opSort S V w x)
  | .setref x t => shAns (opSetRef S V w x t)

/-- the state after a history of the larger alphabet, from the empty world -/
def runX (S : Spec) (V : Env) (rootAttrs : List (Nat × CDv)) (ops : List OpX) : World :=
  ops.foldl (fun w op => (applyOpX S V rootAttrs w op).1) emptyWorld

end AV.W
