/-
Model of the version compatibility check (`Element::check_version_compatibility`,
`CharacterData::check_version_compatibility`, `Element::recalc_element_type` in element.rs /
chardata.rs; `ArxmlFile::{check_version_compatibility, set_version}` in arxmlfile.rs).

The Rust walk returns the list of incompatibilities in document order and the AND of all version
masks it looked at.  One call site unwraps `get_sub_element_version_mask` of the element's CURRENT
type with an index path computed in the type the element has in the TARGET version; where that
path does not exist the Rust code panics (slice index / unwrap) — the model answers `panic` there.
No imports beyond the model.
-/
import AutosarVerif.Model.WorldOps

namespace AV.W

/-- `CompatibilityError` -/
inductive CErr
  | attr (elem attr mask : Nat)       -- IncompatibleAttribute
  | attrVal (elem attr mask : Nat)    -- IncompatibleAttributeValue
  | elem (elem mask : Nat)            -- IncompatibleElement
  deriving DecidableEq, Repr

def maxMask : Nat := 0xFFFFFFFF

/-- `CharacterData::check_version_compatibility` -/
def valueCompatMask (v : CDv) (sp : CSpec) (ver : Nat) : Bool × Nat :=
  match sp with
  | .enum items =>
    match v with
    | .enum i =>
      match items.find? (fun it => it.1 == i) with
      | some it => ((it.2 &&& ver) != 0, it.2)
      | none => (false, 0)
    | _ => (false, maxMask)
  | _ => (true, maxMask)

structure CRes where
  errs : List CErr
  mask : Nat
  panic : Bool
  deriving Repr

section
variable (S : Spec)

/-- the attribute loop -/
def compatAttrs (typNew eid ver : Nat) : List (Nat × CDv) → List CErr × Nat
  | [] => ([], maxMask)
  | a :: rest =>
    let r := compatAttrs typNew eid ver rest
    match S.findAttr typNew a.1 with
    | none => r
    | some (cd, _, vm) =>
      if (vm &&& ver) = 0 then (.attr eid a.1 vm :: r.1, vm &&& r.2)
      else
        let vc := valueCompatMask a.2 (S.cspec cd) ver
        ((if vc.1 then r.1 else .attrVal eid a.1 vc.2 :: r.1), vm &&& (vc.2 &&& r.2))

/-- the character data loop -/
def compatTexts (sp : CSpec) (eid ver : Nat) : Items → List CErr × Nat
  | .nil => ([], maxMask)
  | .elem _ _ r => compatTexts sp eid ver r
  | .text c r =>
    let rr := compatTexts sp eid ver r
    let vc := valueCompatMask c sp ver
    ((if vc.1 then rr.1 else .elem eid vc.2 :: rr.1), vc.2 &&& rr.2)

/-- `get_sub_element_version_mask(indices)` with the bounds checks of the Rust slices -/
def subMaskChecked : Nat → Nat → List Nat → Option Nat
  | _, _, [] => none
  | _, t, [i] => if i < S.subCount t then some (S.subMask t i) else none
  | 0, _, _ => none
  | fuel + 1, t, i :: rest =>
    if i < S.subCount t then
      match S.subAt t i with
      | .elem _ => none
      | .group g => subMaskChecked fuel g rest
    else none

/-- type of an element in the target version (`recalc_element_type`), given its parent's current type -/
def recalcType (parentTyp : Option Nat) (h : Hdr) (ver : Nat) : Nat :=
  match parentTyp with
  | some pt =>
    match S.findSub pt h.name ver with
    | some (e, _) => e.typ
    | none => h.ety.typ
  | none => h.ety.typ

/-- the walk over the content of an element whose current type is `tOld` and whose type in the target
version is `tNew`; each child element is checked completely (attributes, character data, content) -/
def compatKids (file ver : Nat) (tOld tNew : Nat) : Items → CRes
  | .nil => ⟨[], maxMask, false⟩
  | .text _ r => compatKids file ver tOld tNew r
  | .elem h k r =>
    let rest := compatKids file ver tOld tNew r
    if h.files.isEmpty ∨ h.files.contains file then
      match S.findSubOr tNew h.name ver with
      | none => rest
      | some (_, idx) =>
        match subMaskChecked S (S.depth + 2) tOld idx with
        | none => ⟨rest.errs, rest.mask, true⟩
        | some vm =>
          if (vm &&& ver) = 0 then ⟨.elem h.id vm :: rest.errs, vm &&& rest.mask, rest.panic⟩
          else
            let hNew := recalcType S (some tOld) h ver
            let ra := compatAttrs S hNew h.id ver h.attrs
            let rt := match S.chardataSpec hNew with
              | some sp => compatTexts sp h.id ver k
              | none => ([], maxMask)
            let sub := compatKids file ver h.ety.typ hNew k
            ⟨ra.1 ++ (rt.1 ++ (sub.errs ++ rest.errs)), vm &&& (ra.2 &&& (rt.2 &&& (sub.mask &&& rest.mask))), sub.panic || rest.panic⟩
    else rest

/-- `ArxmlFile::check_version_compatibility` for a file of model `m` -/
def compatFile (m : Model) (file ver : Nat) : CRes :=
  let h := m.rootHdr
  let ra := compatAttrs S h.ety.typ h.id ver h.attrs
  let rt := match S.chardataSpec h.ety.typ with
    | some sp => compatTexts sp h.id ver m.rootKids
    | none => ([], maxMask)
  let sub := compatKids S file ver h.ety.typ h.ety.typ m.rootKids
  ⟨ra.1 ++ (rt.1 ++ sub.errs), ra.2 &&& (rt.2 &&& sub.mask), sub.panic⟩

end

/-- the model that owns file `f` -/
def fileModel (w : World) (f : Nat) : Option Nat :=
  (List.range w.models.length).find? fun k => (w.models[k]!).files.any (·.id == f)

/-- answer of the `compat` query -/
def CErr.show : CErr → String
  | .attr e a m => s!"A:e{e}:{a}:{m}"
  | .attrVal e a m => s!"V:e{e}:{a}:{m}"
  | .elem e m => s!"E:e{e}:{m}"

def qCompat (S : Spec) (w : World) (f ver : Nat) : String :=
  match fileModel w f with
  | none => "ok 0 -"
  | some k =>
    let r := compatFile S (w.models[k]!) f ver
    if r.panic then "panic"
    else s!"ok {r.mask} " ++ (if r.errs.isEmpty then "-" else ",".intercalate (r.errs.map CErr.show))

/-- `ArxmlFile::set_version`: allowed exactly when the check lists nothing; changes the file's version only -/
def opSetVersion (S : Spec) (w : World) (f ver : Nat) : World × Ans :=
  match fileModel w f with
  | none => (w, .ok "")      -- a file without model: the check lists nothing (the harness never generates this)
  | some k =>
    let m := w.models[k]!
    let r := compatFile S m f ver
    if r.panic then (w, .unsupported)
    else if r.errs.isEmpty then
      (setModel w k { m with files := m.files.map fun fl => if fl.id == f then { fl with version := ver } else fl }, .ok "")
    else (w, .err)

end AV.W
