/-
Model of `autosar-data-specification/src/autosarversion.rs`: the enum values, `filename()`,
`FromStr` and `FromPrimitive::from_u64`, as four association lists regenerated from the source
(`Gen/Versions.lean`), plus the decidable check that they are mutually inverse.
File names are byte lists (string literals do not reduce in the kernel).
-/
namespace AV

structure VersionTable where
  /-- enum discriminants in declaration order -/
  values : List Nat
  /-- arms of `filename()`: value ↦ text -/
  filename : List (Nat × List Nat)
  /-- arms of `from_str`: text ↦ value -/
  fromStr : List (List Nat × Nat)
  /-- arms of `from_u64`: number ↦ value -/
  fromU64 : List (Nat × Nat)
  latest : Nat

namespace VersionTable

def fileNameOf (T : VersionTable) (v : Nat) : Option (List Nat) := (T.filename.find? (·.1 == v)).map (·.2)
def parse (T : VersionTable) (s : List Nat) : Option Nat := (T.fromStr.find? (·.1 == s)).map (·.2)
def ofU64 (T : VersionTable) (n : Nat) : Option Nat := (T.fromU64.find? (·.1 == n)).map (·.2)

/-- `n` is a single bit below 2^32 -/
def isBit (n : Nat) : Bool := (List.range 32).any fun k => n == 2 ^ k

def pairwiseDistinct : List Nat → Bool
  | [] => true
  | x :: xs => !xs.contains x && pairwiseDistinct xs

/-- everything the property asks of the version tables, as one decidable check -/
def check (T : VersionTable) : Bool :=
  -- value ↔ bit: every value is one bit of a u32 and the values are pairwise different
  T.values.all isBit && pairwiseDistinct T.values &&
  -- value → file name → value
  T.values.all (fun v => match T.fileNameOf v with
    | some s => T.parse s == some v
    | none => false) &&
  -- file name → value → file name (only the listed names parse)
  T.fromStr.all (fun p => T.values.contains p.2 && T.fileNameOf p.2 == some p.1 && T.parse p.1 == some p.2) &&
  -- value → from_u64 → value, and from_u64 accepts nothing else
  T.values.all (fun v => T.ofU64 v == some v) &&
  T.fromU64.all (fun p => p.1 == p.2 && T.values.contains p.2) &&
  T.values.contains T.latest && T.values.all (fun v => v ≤ T.latest)

end VersionTable
end AV
