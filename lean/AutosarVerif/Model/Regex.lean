/-
Regular expressions over bytes, Brzozowski derivatives, a parser for the regex dialect used by
the `Pattern{regex: r"…"}` strings of `specification.rs`, the table-driven DFA run of
`regex.rs`, and the executable check of a bisimulation certificate between the two.

Dialect (fixed in DESIGN.md §8 C19): whole-string match over bytes; `.` = any byte except 0x0A;
`\d` = `[0-9]`; `\c` = the literal byte `c` otherwise; classes `[...]` with ranges and escapes,
`^` negation; `*`, `+`, `?`, `{m}`, `{m,n}`; `|`; groups.  No imports.
-/
namespace AV.Rx

/-- byte-level regular expression; `cls rs neg` lists inclusive ranges, `neg` negates -/
inductive Re where
  | empty : Re
  | eps : Re
  | cls : List (Nat × Nat) → Bool → Re
  | cat : Re → Re → Re
  | alt : Re → Re → Re
  | star : Re → Re
  deriving DecidableEq, Repr, Inhabited

open Re

def inCls (rs : List (Nat × Nat)) (neg : Bool) (b : Nat) : Bool :=
  (rs.any fun p => p.1 ≤ b && b ≤ p.2) != neg

def nullable : Re → Bool
  | empty => false
  | eps => true
  | cls _ _ => false
  | cat a b => nullable a && nullable b
  | alt a b => nullable a || nullable b
  | star _ => true

/-- smart constructors: keep derivatives small (sound: `Lemmas/Regex.lean`) -/
def mkCat (a b : Re) : Re :=
  match a, b with
  | empty, _ => empty
  | _, empty => empty
  | eps, b => b
  | a, eps => a
  | cat a1 a2, b => cat a1 (cat a2 b)
  | a, b => cat a b

def mkAlt (a b : Re) : Re :=
  match a, b with
  | empty, b => b
  | a, empty => a
  | a, b => if a = b then a else alt a b

def deriv (b : Nat) : Re → Re
  | empty => empty
  | eps => empty
  | cls rs neg => if inCls rs neg b then eps else empty
  | cat r s => if nullable r then mkAlt (mkCat (deriv b r) s) (deriv b s) else mkCat (deriv b r) s
  | alt r s => mkAlt (deriv b r) (deriv b s)
  | star r => mkCat (deriv b r) (star r)

/-- reference matcher: the derivative of the whole string is nullable
(`Lemmas/Regex.lean: matchD_correct : matchD r s = true ↔ Matches r s`) -/
def matchD (r : Re) : List Nat → Bool
  | [] => nullable r
  | b :: s => matchD (deriv b r) s

/-! ### table-driven DFA (`REGEX_n_TABLE`, `validate_regex_n`) -/

structure Dfa where
  /-- row `q` packed into one number: byte `b` ↦ `(row >>> (8*b)) % 256` -/
  rows : List Nat
  /-- accepting states (the `matches!(state, …)` pattern) -/
  acc : List Nat

def Dfa.step (d : Dfa) (q b : Nat) : Nat := (d.rows.getD q 0 >>> (8 * b)) % 256

def Dfa.accepts (d : Dfa) (q : Nat) : Bool := d.acc.contains q

/-- the loop of `validate_regex_n` from state `q`; 255 is the rejecting sink (`return false`) -/
def Dfa.runFrom (d : Dfa) : Nat → List Nat → Bool
  | q, [] => d.accepts q
  | q, b :: s => let q' := d.step q b; if q' = 255 then false else d.runFrom q' s

def Dfa.run (d : Dfa) (s : List Nat) : Bool := d.runFrom 0 s

abbrev Pair := Nat × Re

def pairIn (R : List Pair) (q : Nat) (r : Re) : Bool := R.any fun p => p.1 == q && p.2 == r

/-- successors of one pair that are not yet known -/
def newSuccs (d : Dfa) (q : Nat) (r : Re) (known : List Pair) : List Pair :=
  (List.range 256).foldl (fun acc b =>
    let q' := d.step q b
    let r' := deriv b r
    if q' = 255 then acc else if pairIn (acc ++ known) q' r' then acc else (q', r') :: acc) []

/-- breadth-first closure of `(0, r)` under simultaneous DFA step / derivative (unverified search;
only `closed` is trusted, through `closed_sound`) -/
def explore (d : Dfa) : Nat → List Pair → List Pair → List Pair
  | 0, _, seen => seen
  | _, [], seen => seen
  | fuel + 1, (q, r) :: work, seen =>
    let ns := newSuccs d q r seen
    explore d fuel (work ++ ns) (seen ++ ns)

/-- `R` is closed under stepping and consistent on acceptance: a bisimulation between DFA states
and regexes.  Leaving to the sink must correspond to the empty regex. -/
def closed (d : Dfa) (R : List Pair) : Bool :=
  R.all fun (q, r) =>
    q < d.rows.length && q != 255 && (d.accepts q == nullable r) &&
    (List.range 256).all fun b =>
      let q' := d.step q b
      let r' := deriv b r
      if q' = 255 then r' == Re.empty else pairIn R q' r'

/-- the complete check for one validator: explore, then verify the certificate -/
def checkDfa (d : Dfa) (r : Re) : Bool :=
  let R := explore d 4096 [(0, r)] [(0, r)]
  pairIn R 0 r && closed d R

/-! ### parser for the published regex strings -/

def litCls (c : Nat) : Re := cls [(c, c)] false

/-- `(r (r (… )?)?)?` with `k` nested optional copies: the language of `r{0,k}`; the nested form
keeps derivatives linear in `k` -/
def nestOpt (r : Re) : Nat → Re
  | 0 => eps
  | k + 1 => alt eps (cat r (nestOpt r k))

def powCat (r : Re) : Nat → Re → Re
  | 0, acc => acc
  | k + 1, acc => cat r (powCat r k acc)

/-- `r{m,n}` = `r^m` followed by at most `n - m` further copies -/
def repeatRe (r : Re) (m n : Nat) : Re := powCat r m (nestOpt r (n - m))

def isDigit (c : Nat) : Bool := 48 ≤ c && c ≤ 57

def parseNat : List Nat → Nat → Nat × List Nat
  | c :: rest, acc => if isDigit c then parseNat rest (acc * 10 + (c - 48)) else (acc, c :: rest)
  | [], acc => (acc, [])

/-- escape inside or outside a class: `\d` is the digit class, anything else is literal -/
def escRanges (c : Nat) : List (Nat × Nat) := if c = 100 then [(48, 57)] else [(c, c)]

/-- items of a character class up to the closing `]` -/
def parseClassItems : Nat → List Nat → List (Nat × Nat) → Option (List (Nat × Nat) × List Nat)
  | 0, _, _ => none
  | _, [], _ => none
  | fuel + 1, c :: rest, acc =>
    if c = 93 then some (acc.reverse, rest)                       -- ]
    else if c = 92 then                                           -- backslash
      match rest with
      | e :: rest' =>
        -- an escaped literal may start a range
        match rest' with
        | 45 :: hi :: rest'' =>
          if hi ≠ 93 ∧ e ≠ 100 then
            if hi = 92 then
              match rest'' with
              | h2 :: r3 => parseClassItems fuel r3 ((e, h2) :: acc)
              | [] => none
            else parseClassItems fuel rest'' ((e, hi) :: acc)
          else parseClassItems fuel rest' (escRanges e ++ acc)
        | _ => parseClassItems fuel rest' (escRanges e ++ acc)
      | [] => none
    else
      match rest with
      | 45 :: hi :: rest'' =>
        if hi ≠ 93 then
          if hi = 92 then
            match rest'' with
            | h2 :: r3 => parseClassItems fuel r3 ((c, h2) :: acc)
            | [] => none
          else parseClassItems fuel rest'' ((c, hi) :: acc)
        else parseClassItems fuel rest ((c, c) :: acc)
      | _ => parseClassItems fuel rest ((c, c) :: acc)

mutual
  /-- alternation: `cat ('|' cat)*` -/
  def parseAlt : Nat → List Nat → Option (Re × List Nat)
    | 0, _ => none
    | fuel + 1, s =>
      match parseCat fuel s eps with
      | some (r, 124 :: rest) =>
        match parseAlt fuel rest with
        | some (r2, rest2) => some (alt r r2, rest2)
        | none => none
      | other => other

  /-- concatenation of repeated atoms, until `|`, `)` or the end -/
  def parseCat : Nat → List Nat → Re → Option (Re × List Nat)
    | 0, _, _ => none
    | _, [], acc => some (acc, [])
    | fuel + 1, c :: rest, acc =>
      if c = 124 ∨ c = 41 then some (acc, c :: rest)
      else
        match parseAtom fuel (c :: rest) with
        | some (a, rest1) =>
          let (a', rest2) := parsePostfix fuel a rest1
          parseCat fuel rest2 (if acc = eps then a' else cat acc a')
        | none => none

  def parseAtom : Nat → List Nat → Option (Re × List Nat)
    | 0, _ => none
    | _, [] => none
    | fuel + 1, c :: rest =>
      if c = 40 then                                              -- (
        match parseAlt fuel rest with
        | some (r, 41 :: rest') => some (r, rest')
        | _ => none
      else if c = 91 then                                         -- [
        match rest with
        | 94 :: rest' =>
          match parseClassItems (rest'.length + 1) rest' [] with
          | some (rs, rest'') => some (cls rs true, rest'')
          | none => none
        | _ =>
          match parseClassItems (rest.length + 1) rest [] with
          | some (rs, rest'') => some (cls rs false, rest'')
          | none => none
      else if c = 92 then                                         -- backslash
        match rest with
        | e :: rest' => some (cls (escRanges e) false, rest')
        | [] => none
      else if c = 46 then some (cls [(10, 10)] true, rest)        -- .
      else if c = 42 ∨ c = 43 ∨ c = 63 ∨ c = 123 ∨ c = 93 ∨ c = 125 then none
      else some (litCls c, rest)

  /-- postfix operators `* + ? {m} {m,n}` (any number of them) -/
  def parsePostfix : Nat → Re → List Nat → Re × List Nat
    | 0, a, s => (a, s)
    | fuel + 1, a, s =>
      match s with
      | 42 :: rest => parsePostfix fuel (star a) rest
      | 43 :: rest => parsePostfix fuel (cat a (star a)) rest
      | 63 :: rest => parsePostfix fuel (alt eps a) rest
      | 123 :: rest =>
        let (m, r1) := parseNat rest 0
        match r1 with
        | 125 :: r2 => parsePostfix fuel (repeatRe a m m) r2
        | 44 :: r2 =>
          let (n, r3) := parseNat r2 0
          match r3 with
          | 125 :: r4 => parsePostfix fuel (repeatRe a m n) r4
          | _ => (a, s)
        | _ => (a, s)
      | _ => (a, s)
end

/-- parse a complete regex string; `none` if anything is left over or malformed -/
def parseRegex (s : List Nat) : Option Re :=
  match parseAlt (2 * s.length + 4) s with
  | some (r, []) => some r
  | _ => none

end AV.Rx
