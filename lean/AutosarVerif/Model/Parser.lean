/-
Model of `autosar-data/src/parser.rs`: `ArxmlParser::{parse_arxml, parse_file_header, parse_file_version,
parse_element, find_element_in_spec_checked, check_element_conflict, check_multiplicity, parse_attribute_text,
parse_character_data, unescape_string, verify_end_of_input}` and `trim_byte_string`, written in the computation type
`P` of `Model/ParserMonad.lean` (`optErr` = `optional_error`, the only reader of `strict`; `hardErr` = `Err(self.error(..))`).

The tokens come from the tokenizer model (`Model/Lexer.lean`), the tree is built in the representation of the world model
(`Hdr`, `Items`); element ids are taken from `PState.nextId` in the order of the start tags (= document order).
`String::from_utf8_lossy` on invalid UTF-8 is outside the model (kind 999).  No imports beyond the model.
-/
import AutosarVerif.Model.ParserMonad
import AutosarVerif.Model.World

namespace AV.PM
open AV.W

/-! ### `std::str::from_utf8` -/

def cont (c : UInt8) : Bool := 0x80 ≤ c.toNat && c.toNat ≤ 0xBF
def inR (c : UInt8) (lo hi : Nat) : Bool := lo ≤ c.toNat && c.toNat ≤ hi

/-- well-formed UTF-8 (Unicode table 3-7, what `from_utf8` accepts) -/
def validUtf8 : Bytes → Bool
  | [] => true
  | a :: r =>
    if a.toNat < 0x80 then validUtf8 r
    else if inR a 0xC2 0xDF then
      match r with
      | b :: r2 => cont b && validUtf8 r2
      | _ => false
    else if inR a 0xE0 0xEF then
      match r with
      | b :: c :: r3 =>
        (if a.toNat = 0xE0 then inR b 0xA0 0xBF else if a.toNat = 0xED then inR b 0x80 0x9F else cont b) && cont c && validUtf8 r3
      | _ => false
    else if inR a 0xF0 0xF4 then
      match r with
      | b :: c :: d :: r4 =>
        (if a.toNat = 0xF0 then inR b 0x90 0xBF else if a.toNat = 0xF4 then inR b 0x80 0x8F else cont b) && cont c && cont d && validUtf8 r4
      | _ => false
    else false

/-! ### monad helpers -/

def getS : P PState := fun _ s => (.ok s, s)
def modS (f : PState → PState) : P Unit := fun _ s => (.ok (), f s)

/-- `check_version` -/
def checkVersion (mask kind : Nat) : P Unit :=
  bind' (modS fun s => { s with compat := s.compat &&& mask }) fun _ =>
  bind' getS fun s => if (s.ver &&& mask) = 0 then optErr kind else pure' ()

def lexCode : Lex.LexErr → Nat
  | .incompleteData => 0 | .invalidElement => 1 | .invalidProcessingInstruction => 2 | .invalidXmlHeader => 3 | .invalidComment => 4

/-- `lexer.next()?`; `setLine` = the call goes through `ArxmlParser::next`, which stores the line of the token -/
def nextTok (setLine : Bool) : P Lex.Event := fun _ s =>
  match Lex.next (s.lx.rest.length + 1) s.lx with
  | some (.ok (l, e), lx') => (.ok e, { s with lx := lx', line := if setLine then l else s.line })
  | some (.error (l, err), lx') => (.error ⟨kLexBase + lexCode err, l⟩, { s with lx := lx' })
  | none => (.error ⟨kFuel, s.line⟩, s)

def allocId : P Nat := fun _ s => (.ok s.nextId, { s with nextId := s.nextId + 1 })

/-! ### values -/

/-- the full `parse_character_data` (all five kinds) -/
def parseCD (V : Env) (input : Bytes) (spec : CSpec) : P CDv :=
  let trimmed := trim input
  match spec with
  | .enum items =>
    match V.enumOf trimmed with
    | none => hardErr kUnknownEnumItem
    | some v =>
      match items.find? (fun it => it.1 == v) with
      | none => hardErr kInvalidEnumItem
      | some it => bind' (checkVersion it.2 kEnumItemVersionError) fun _ => pure' (.enum v)
  | .pattern k maxLen =>
    bind' (if trimmed.contains 38 ∧ validUtf8 trimmed then unescapeP (trimmed.length + 1) trimmed else pure' trimmed) fun checked =>
    bind' (match maxLen with
      | some m => if checked.length > m then optErr kStringValueTooLong else pure' ()
      | none => pure' ()) fun _ =>
    bind' (if V.validate k checked then pure' () else optErr kRegexMatchError) fun _ =>
    if validUtf8 checked then pure' (.str checked)
    else bind' (optErr kUtf8Error) fun _ => hardErr kUnsupported
  | .string preserve maxLen =>
    let raw := if preserve then input else trimmed
    bind' (match maxLen with
      | some m => if raw.length > m then optErr kStringValueTooLong else pure' ()
      | none => pure' ()) fun _ =>
    if validUtf8 raw then bind' (unescapeP (raw.length + 1) raw) fun u => pure' (.str u)
    else bind' (optErr kUtf8Error) fun _ => hardErr kUnsupported
  | .uint =>
    if !validUtf8 trimmed then hardErr kUtf8Error
    else match CData.parseU64 trimmed with
      | some n => pure' (.uint n)
      | none => bind' (optErr kInvalidNumber) fun _ => pure' (.uint 0)
  | .float =>
    if !validUtf8 trimmed then hardErr kUtf8Error
    else match CData.parseF64 trimmed with
      | some b => pure' (.float b)
      | none => bind' (optErr kInvalidNumber) fun _ => pure' (.float 0)

section
variable (S : Spec) (V : Env)

/-! ### attributes -/

def isWs8 (c : UInt8) : Bool := c = 32 || c = 9 || c = 10 || c = 12 || c = 13

def posOf (p : UInt8 → Bool) : Bytes → Nat → Option Nat
  | [], _ => none
  | c :: r, i => if p c then some i else posOf p r (i + 1)

/-- one attribute `name="value"` at the start of `rem`; `none` = the loop of `parse_attribute_text` breaks -/
def splitAttr (rem : Bytes) : Option (Bytes × Bytes × Bytes) :=
  match posOf (· = 61) rem 0 with
  | none => none
  | some eq =>
    if rem.length - eq < 3 then none
    else
      let q := rem.getD (eq + 1) 0
      if q ≠ 34 ∧ q ≠ 39 then none
      else
        let after := rem.drop (eq + 2)
        match posOf (· = q) after 0 with
        | none => none
        | some e => some (rem.take eq, after.take e, after)

/-- the attribute loop: returns the attributes and the rest that was not consumed -/
def attrLoop (typ : Nat) : Nat → Bytes → List (Nat × CDv) → P (List (Nat × CDv) × Bytes)
  | 0, rem, acc => pure' (acc, rem)
  | fuel + 1, rem, acc =>
    match splitAttr rem with
    | none => pure' (acc, rem)
    | some (nm, val, after) =>
      let endq := val.length
      bind' (match V.attrOf nm with
        | some a =>
          match S.findAttr typ a with
          | some (cd, _, mask) =>
            bind' (checkVersion mask kAttributeVersionError) fun _ =>
            bind' (parseCD V val (S.cspec cd)) fun v => pure' (acc ++ [(a, v)])
          | none => bind' (optErr kUnknownAttributeError) fun _ => pure' acc
        | none => bind' (optErr kUnknownAttributeError) fun _ => pure' acc) fun acc' =>
      -- skip white space after the closing quote; no white space at all before more text: stop
      let tail := after.drop (endq + 1)
      let next := tail.dropWhile isWs8
      if !next.isEmpty ∧ next.length = tail.length then pure' (acc', after)
      else attrLoop typ fuel next acc'

/-- `parse_attribute_text` -/
def parseAttrs (typ : Nat) (text : Bytes) : P (List (Nat × CDv)) :=
  bind' (attrLoop S V typ (text.length + 1) (text.dropWhile isWs8) []) fun (attrs, rem) =>
  bind' (if !rem.isEmpty ∧ !rem.all isWs8 then optErr kAttributeValueError else pure' ()) fun _ =>
  bind' ((S.listAttrs typ).foldl (fun (m : P Unit) (a : Nat × Nat × Bool × Nat) =>
      bind' m fun _ => if a.2.2.1 ∧ !attrs.any (·.1 == a.1) then optErr kRequiredAttributeMissing else pure' ()) (pure' ())) fun _ =>
  pure' attrs

/-! ### elements -/

/-- `find_element_in_spec_checked` -/
def findChecked (typ name : Nat) : P (ETy × List Nat) :=
  bind' getS fun s =>
  match S.findSub typ name s.ver with
  | some r => pure' r
  | none =>
    match S.findSub typ name 0xFFFFFFFF with
    | none => hardErr kIncorrectBeginElement
    | some (e, idx) =>
      match S.subMaskAt typ idx with
      | none => hardErr kPanic
      | some mask => bind' (checkVersion mask kElementVersionError) fun _ => pure' (e, idx)

/-- `check_element_conflict` -/
def checkConflict (typ : Nat) (old new : List Nat) : P Unit :=
  if old.isEmpty ∨ old = new then pure' ()
  else match S.mode (S.commonGroup typ old new) with
    | .choice => optErr kElementChoiceConflict
    | .characters => hardErr kPanic
    | _ => pure' ()

inductive Item
  | el (h : Hdr) (k : Items)
  | tx (c : CDv)

def itemsOf : List Item → Items
  | [] => .nil
  | .el h k :: r => .elem h k (itemsOf r)
  | .tx c :: r => .text c (itemsOf r)

/-- `check_multiplicity` (`acc` = the content so far) -/
def checkMult (typ name : Nat) (idx : List Nat) (acc : List Item) : P Unit :=
  match S.containerMode typ idx with
  | none => hardErr kPanic
  | some md =>
    if md = .sequence ∨ md = .choice then
      match S.subMult typ idx with
      | some mu =>
        if mu ≠ .any ∧ acc.any (fun it => match it with | .el h _ => h.name == name | .tx _ => false) then optErr kTooManySubElements
        else pure' ()
      | none => pure' ()
    else pure' ()

structure LoopSt where
  acc : List Item := []          -- content, in order
  elemIdx : List Nat := []
  snFound : Bool := false
  comment : Option Bytes := none
  path : Bytes := []

/-- the loop of `parse_element` for the element `h`; returns its content -/
def pLoop : Nat → Hdr → LoopSt → P Items
  | 0, _, _ => hardErr kFuel
  | fuel + 1, h, st =>
    bind' (nextTok true) fun ev =>
    match ev with
    | .beginElement nm attrText =>
      match V.elemOf nm with
      | none => hardErr kInvalidBeginElement
      | some name =>
        bind' (findChecked S h.ety.typ name) fun (sty, idx) =>
        bind' (checkConflict S h.ety.typ st.elemIdx idx) fun _ =>
        bind' (if st.acc.isEmpty then pure' () else checkMult S h.ety.typ name idx st.acc) fun _ =>
        bind' (parseAttrs S V sty.typ attrText) fun attrs =>
        bind' allocId fun id =>
        let sh : Hdr := { id := id, name := name, ety := sty, parent := .elem h.id, attrs := attrs, files := [], comment := st.comment }
        bind' (pLoop fuel sh { path := st.path }) fun skids =>
        -- a SHORT-NAME with a string value extends the path and registers the element
        let newPath : Option Bytes :=
          if name = S.nmShortName then
            match skids with
            | .text (.str n) _ => some (st.path ++ [47] ++ n)
            | _ => none
          else none
        bind' (match newPath with
          | some p => modS fun s => { s with idents := s.idents ++ [(p, h.id)] }
          | none => pure' ()) fun _ =>
        pLoop fuel h { st with
          acc := st.acc ++ [.el sh skids], elemIdx := idx, comment := none,
          snFound := st.snFound || name == S.nmShortName,
          path := newPath.getD st.path }
    | .endElement nm =>
      match V.elemOf nm with
      | none => hardErr kInvalidEndElement
      | some name =>
        if name = h.name then
          bind' (if !st.snFound then
              bind' getS fun s => if S.isNamedIn h.ety.typ s.ver then optErr kRequiredSubelementMissing else pure' ()
            else pure' ()) fun _ =>
          pure' (itemsOf st.acc)
        else hardErr kIncorrectEndElement
    | .characters text =>
      match S.chardataSpec h.ety.typ with
      | some spec =>
        bind' (parseCD V text spec) fun v =>
        bind' (match v with
          | .str r => if S.isRef h.ety.typ then modS fun s => { s with refs := s.refs ++ [(r, h.id)] } else pure' ()
          | _ => pure' ()) fun _ =>
        pLoop fuel h { st with acc := st.acc ++ [.tx v] }
      | none => bind' (optErr kCharacterContentForbidden) fun _ => pLoop fuel h st
    | .header _ => bind' (optErr kUnexpectedXmlFileHeader) fun _ => pLoop fuel h st
    | .eof => hardErr kUnexpectedEndOfFile
    | .comment c => if validUtf8 c then pLoop fuel h { st with comment := some c } else hardErr kUnsupported

/-! ### the document -/

def bytesOfString (s : String) : Bytes := s.toUTF8.toList

def nsAutosar : Bytes := [104, 116, 116, 112, 58, 47, 47, 97, 117, 116, 111, 115, 97, 114, 46, 111, 114, 103, 47, 115, 99, 104, 101, 109, 97, 47, 114, 52, 46, 48]   -- "http://autosar.org/schema/r4.0"
def nsXsi : Bytes := [104, 116, 116, 112, 58, 47, 47, 119, 119, 119, 46, 119, 51, 46, 111, 114, 103, 47, 50, 48, 48, 49, 47, 88, 77, 76, 83, 99, 104, 101, 109, 97, 45, 105, 110, 115, 116, 97, 110, 99, 101]   -- "http://www.w3.org/2001/XMLSchema-instance"

/-- `str::split(' ')`: the pieces between single spaces -/
def splitSp : Bytes → List Bytes
  | [] => [[]]
  | c :: r =>
    if c = 32 then [] :: splitSp r
    else match splitSp r with
      | x :: xs => (c :: x) :: xs
      | [] => [[c]]

def x431 : Bytes := [65, 85, 84, 79, 83, 65, 82, 95, 52, 45, 51, 45, 49, 46, 120, 115, 100]   -- "AUTOSAR_4-3-1.xsd"
def x440 : Bytes := [65, 85, 84, 79, 83, 65, 82, 95, 52, 45, 52, 45, 48, 46, 120, 115, 100]   -- "AUTOSAR_4-4-0.xsd"
def x450 : Bytes := [65, 85, 84, 79, 83, 65, 82, 95, 52, 45, 53, 45, 48, 46, 120, 115, 100]   -- "AUTOSAR_4-5-0.xsd"
def x00044 : Bytes := [65, 85, 84, 79, 83, 65, 82, 95, 48, 48, 48, 52, 52, 46, 120, 115, 100]   -- "AUTOSAR_00044.xsd"
def x00046 : Bytes := [65, 85, 84, 79, 83, 65, 82, 95, 48, 48, 48, 52, 54, 46, 120, 115, 100]   -- "AUTOSAR_00046.xsd"
def x00048 : Bytes := [65, 85, 84, 79, 83, 65, 82, 95, 48, 48, 48, 52, 56, 46, 120, 115, 100]   -- "AUTOSAR_00048.xsd"

/-- `parse_file_version` -/
def parseFileVersion (schema : Bytes) : P Nat :=
  let parts := splitSp schema
  if parts.headD [] ≠ nsAutosar then hardErr kInvalidArxmlFileHeader
  else
    let raw := (parts.drop 1).headD []
    let low : Bytes := [97, 117, 116, 111, 115, 97, 114]   -- "autosar"
    let xsd := if low.isPrefixOf raw then ([65, 85, 84, 79, 83, 65, 82] : Bytes) ++ raw.drop low.length else raw   -- "AUTOSAR"
    match V.verOfFile xsd with
    | some v => pure' v
    | none =>
      let fix (good : Bytes) : P Nat :=
        bind' (optErr kInvalidAutosarVersion) fun _ => pure' ((V.verOfFile good).getD 0)
      if xsd = x431 then fix x00044
      else if xsd = x440 then fix x00046
      else if xsd = x450 then fix x00048
      else bind' (optErr kUnknownAutosarVersion) fun _ => pure' V.latest

/-- `parse_file_header` -/
def parseFileHeader (attrs : List (Nat × CDv)) : P Unit :=
  let get (a : Nat) : Option Bytes := match attrs.find? (·.1 == a) with
    | some (_, .str b) => some b
    | _ => none
  match get V.atXmlns, get V.atXmlnsXsi, get V.atSchemaLocation with
  | some xmlns, some xsi, some schema =>
    if xmlns ≠ nsAutosar ∨ xsi ≠ nsXsi then hardErr kInvalidArxmlFileHeader
    else bind' (parseFileVersion V schema) fun v => modS fun s => { s with ver := v }
  | _, _, _ => hardErr kInvalidArxmlFileHeader

/-- skip the comments before the root element, keeping the last one -/
def skipComments : Nat → Option Bytes → Lex.Event → P (Option Bytes × Lex.Event)
  | 0, _, .comment _ => hardErr kFuel
  | fuel + 1, _, .comment b =>
    if validUtf8 b then bind' (nextTok true) fun ev' => skipComments fuel (some b) ev' else hardErr kUnsupported
  | _, c, ev => pure' (c, ev)

/-- `parse_arxml`: the root element with its content -/
def parseArxml (fuel : Nat) (nmAutosar : Nat) : P (Hdr × Items) :=
  bind' (nextTok true) fun ev0 =>
  match ev0 with
  | .header sa =>
    bind' (modS fun s => { s with standalone := sa }) fun _ =>
    bind' (nextTok true) fun ev1 =>
    bind' (skipComments fuel none ev1) fun (comment, ev) =>
    match ev with
    | .beginElement nm attrText =>
      if V.elemOf nm = some nmAutosar then
        let rootTy := S.ety S.rootDef
        bind' (parseAttrs S V rootTy.typ attrText) fun attrs =>
        bind' (parseFileHeader V attrs) fun _ =>
        bind' allocId fun id =>
        let h : Hdr := { id := id, name := nmAutosar, ety := rootTy, parent := .none, attrs := attrs, files := [], comment := comment }
        bind' (pLoop S V fuel h {}) fun kids =>
        -- `verify_end_of_input`: the line of the last token stays
        bind' (nextTok false) fun evEnd =>
        bind' (match evEnd with
          | .eof => pure' ()
          | _ => optErr kAdditionalDataError) fun _ =>
        pure' (h, kids)
      else hardErr kInvalidArxmlFileHeader
    | _ => hardErr kInvalidArxmlFileHeader
  | _ => hardErr kInvalidArxmlFileHeader

/-- `check_arxml_header` (behind `check_buffer` / `check_file`, which build a LENIENT parser): the xml header, comments, the start
tag of the root element with its attributes, the file header -/
def checkHeader (fuel : Nat) (nmAutosar : Nat) : P Unit :=
  bind' (nextTok true) fun ev0 =>
  match ev0 with
  | .header _ =>
    bind' (nextTok true) fun ev1 =>
    bind' (skipComments fuel none ev1) fun (_, ev) =>
    match ev with
    | .beginElement nm attrText =>
      if V.elemOf nm = some nmAutosar then
        bind' (parseAttrs S V (S.ety S.rootDef).typ attrText) fun attrs =>
        parseFileHeader V attrs
      else hardErr kInvalidArxmlFileHeader
    | _ => hardErr kInvalidArxmlFileHeader
  | _ => hardErr kInvalidArxmlFileHeader

/-- `check_buffer` -/
def checkBuffer (buf : Bytes) (nmAutosar : Nat) : Bool :=
  match (checkHeader S V (2 * buf.length + 8) nmAutosar false
      { warnings := [], line := 1, lx := Lex.init buf, nextId := 0 }).1 with
  | .ok _ => true
  | .error _ => false

/-- run the parser on a buffer; element ids start at `firstId` -/
def runParser (strict : Bool) (buf : Bytes) (firstId : Nat) (nmAutosar : Nat) : Except PErr (Hdr × Items) × PState :=
  parseArxml S V (2 * buf.length + 8) nmAutosar strict
    { warnings := [], line := 1, lx := Lex.init buf, nextId := firstId }

end
end AV.PM
