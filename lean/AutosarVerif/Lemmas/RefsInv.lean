/-
C05, the history invariant: in every model the reverse reference map is exact for the tree (`RefsExact`): under each path
exactly the reference elements whose text is that path, each once; no key with an empty list; keys pairwise different.
This file: the world-level invariant and the generic steps; the operations are in `RefsOps*.lean`.
-/
import AutosarVerif.Lemmas.RefsMap
import AutosarVerif.Lemmas.RefsTree
import AutosarVerif.Lemmas.IndexReach

namespace AV.W
open Items

section
variable (S : Spec)

/-- the reference invariant of the world -/
def WRInv (w : World) : Prop := ∀ m ∈ w.models, RefsExact S m.refs m.rootItems

theorem wrinv_update (w w' : World) (k : Nat) (m' : Model) (hr : WRInv S w) (hm : RefsExact S m'.refs m'.rootItems)
    (hmodels : w'.models = w.models.set k m') : WRInv S w' := by
  intro m hmem
  rw [hmodels] at hmem
  rcases List.mem_or_eq_of_mem_set hmem with h | h
  · exact hr m h
  · rw [h]; exact hm

theorem wrinv_congr (w w' : World) (hr : WRInv S w) (hmodels : w'.models = w.models) : WRInv S w' := by
  intro m hmem
  rw [hmodels] at hmem
  exact hr m hmem

/-- same map, a tree with the same registrations (up to order) -/
theorem refsExact_perm (rs : List (Bytes × List Nat)) (its its' : Items) (h : RefsExact S rs its)
    (hp : (refEntries S its').Perm (refEntries S its)) : RefsExact S rs its' :=
  ⟨h.1, h.2.1, fun p id => by rw [h.2.2 p id]; exact (hp.count_eq (p, id)).symm⟩

/-- the general transfer: map and tree change by the same amounts -/
theorem refsExact_transfer (rs rs' : List (Bytes × List Nat)) (its its' : Items) (A B : List (Bytes × Nat))
    (h : RefsExact S rs its) (hn : keysNodup rs') (hne : refsNonempty rs')
    (htree : (refEntries S its' ++ A).Perm (refEntries S its ++ B))
    (hmap : ∀ p id, (refsGet rs' p).count id + A.count (p, id) = (refsGet rs p).count id + B.count (p, id)) :
    RefsExact S rs' its' := by
  refine ⟨hn, hne, fun p id => ?_⟩
  have h1 := htree.count_eq (p, id)
  rw [List.count_append, List.count_append] at h1
  have h2 := hmap p id
  rw [h.2.2 p id] at h2
  omega

end
end AV.W
