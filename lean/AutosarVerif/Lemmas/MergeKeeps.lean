/-
Pack LM3, loose ends of the merge / duplicate / create packs.

1. C09 "keeps each file's content" at header level: the content `ka` of a model element embeds into the result of
   `mergeElement` (any fuel, also on the error path) — same texts in the same places, same elements with the same header
   except the `files` field, and only elements whose ids come from the new file are added (`Emb`).
-/
import AutosarVerif.Lemmas.LoadMerge
import AutosarVerif.Lemmas.Dup
import AutosarVerif.Lemmas.IdsSep

namespace AV.W
open Items

/-! ## 1. the model's content embeds into the merged content -/

/-- the character data / text items directly in a content list, in order -/
def Items.textsOf : Items → List CDv
  | .nil => []
  | .elem _ _ r => textsOf r
  | .text c r => c :: textsOf r

/-- `Emb P a b`: `b` is `a` with (1) `files` fields of headers changed, (2) whole new elements inserted, all of whose ids
satisfy `P`.  Nothing else: text items stay where they are (none added, none lost), names, types, attributes, comments,
ids and parent fields of the elements of `a` are untouched, and the order is kept. -/
inductive Emb (P : Nat → Prop) : Items → Items → Prop
  | nil : Emb P .nil .nil
  | text (c : CDv) {a b : Items} : Emb P a b → Emb P (.text c a) (.text c b)
  | elem {h h' : Hdr} {k k' r r' : Items} :
      h'.noFiles = h.noFiles → Emb P k k' → Emb P r r' → Emb P (.elem h k r) (.elem h' k' r')
  | ins {h : Hdr} {k a b : Items} : (∀ y, (y = h.id ∨ y ∈ k.ids) → P y) → Emb P a b → Emb P a (.elem h k b)

theorem noFiles_id {h h' : Hdr} (e : h'.noFiles = h.noFiles) : h'.id = h.id := by
  have := congrArg Hdr.id e; exact this

theorem Emb.refl (P : Nat → Prop) (a : Items) : Emb P a a := by
  induction a with
  | nil => exact .nil
  | text c r ih => exact .text c ih
  | elem h k r ihk ihr => exact .elem rfl ihk ihr

/-- every id of the larger side is an id of the smaller side or a new one -/
theorem Emb.ids_sub {P : Nat → Prop} {a b : Items} (e : Emb P a b) : ∀ y ∈ b.ids, y ∈ a.ids ∨ P y := by
  induction e with
  | nil => intro y hy; exact Or.inl hy
  | text c _ ih => intro y hy; exact ih y hy
  | elem he _ _ ihk ihr =>
    intro y hy
    simp only [Items.ids, List.mem_cons, List.mem_append] at hy ⊢
    rcases hy with h1 | h1 | h1
    · exact Or.inl (Or.inl (by rw [h1, noFiles_id he]))
    · rcases ihk y h1 with h2 | h2
      · exact Or.inl (Or.inr (Or.inl h2))
      · exact Or.inr h2
    · rcases ihr y h1 with h2 | h2
      · exact Or.inl (Or.inr (Or.inr h2))
      · exact Or.inr h2
  | ins hp _ ih =>
    intro y hy
    simp only [Items.ids, List.mem_cons, List.mem_append] at hy
    rcases hy with h1 | h1 | h1
    · exact Or.inr (hp y (Or.inl h1))
    · exact Or.inr (hp y (Or.inr h1))
    · exact ih y h1

/-- nothing is lost -/
theorem Emb.ids_keep {P : Nat → Prop} {a b : Items} (e : Emb P a b) : ∀ y ∈ a.ids, y ∈ b.ids := by
  induction e with
  | nil => intro y hy; exact hy
  | text c _ ih => intro y hy; exact ih y hy
  | elem he _ _ ihk ihr =>
    intro y hy
    simp only [Items.ids, List.mem_cons, List.mem_append] at hy ⊢
    rcases hy with h1 | h1 | h1
    · exact Or.inl (by rw [h1, noFiles_id he])
    · exact Or.inr (Or.inl (ihk y h1))
    · exact Or.inr (Or.inr (ihr y h1))
  | ins hp _ ih =>
    intro y hy
    simp only [Items.ids, List.mem_cons, List.mem_append]
    exact Or.inr (Or.inr (ih y hy))

theorem Emb.trans {P : Nat → Prop} {a b c : Items} (h1 : Emb P a b) (h2 : Emb P b c) : Emb P a c := by
  induction h2 generalizing a with
  | nil => exact h1
  | text c _ ih =>
    cases h1 with
    | text _ h1' => exact .text c (ih h1')
  | @elem h h' k k' r r' he ek _ ihk ihr =>
    cases h1 with
    | elem he0 ek0 er0 => exact .elem (he.trans he0) (ihk ek0) (ihr er0)
    | ins hp e0 =>
      refine .ins ?_ (ihr e0)
      intro y hy
      rcases hy with hy | hy
      · exact hp y (Or.inl (by rw [hy, noFiles_id he]))
      · rcases ek.ids_sub y hy with h3 | h3
        · exact hp y (Or.inr h3)
        · exact h3
  | ins hp _ ih => exact .ins hp (ih h1)

theorem Emb.mono {P Q : Nat → Prop} (hpq : ∀ y, P y → Q y) {a b : Items} (e : Emb P a b) : Emb Q a b := by
  induction e with
  | nil => exact .nil
  | text c _ ih => exact .text c ih
  | elem he _ _ ihk ihr => exact .elem he ihk ihr
  | ins hp _ ih => exact .ins (fun y hy => hpq y (hp y hy)) ih

/-- the text items directly in the list are the same -/
theorem Emb.textsOf {P : Nat → Prop} {a b : Items} (e : Emb P a b) : b.textsOf = a.textsOf := by
  induction e with
  | nil => rfl
  | text c _ ih => simp only [Items.textsOf, ih]
  | elem _ _ _ _ ihr => simpa only [Items.textsOf] using ihr
  | ins _ _ ih => simpa only [Items.textsOf] using ih

theorem find_none_of_not_mem (x : Nat) (its : Items) (h : x ∉ its.ids) : its.find x = none := by
  induction its with
  | nil => rfl
  | text c r ih => simpa only [Items.find] using ih h
  | elem h0 k r ihk ihr =>
    simp only [Items.ids, List.mem_cons, List.mem_append, not_or] at h
    simp only [Items.find]
    rw [if_neg (fun e => h.1 e.symm), ihk h.2.1, ihr h.2.2]

theorem find_ne_none_of_mem (x : Nat) (its : Items) : x ∈ its.ids → its.find x ≠ none := by
  induction its with
  | nil => intro hm; simp [Items.ids] at hm
  | text c r ih => intro hm; simpa only [Items.find] using ih hm
  | elem h1 k1 r1 ihk1 ihr1 =>
    intro hm
    simp only [Items.ids, List.mem_cons, List.mem_append] at hm
    simp only [Items.find]
    by_cases h5 : h1.id = x
    · rw [if_pos h5]; simp
    · rw [if_neg h5]
      rcases hm with h6 | h6 | h6
      · exact absurd h6.symm h5
      · cases h7 : k1.find x with
        | some _ => simp
        | none => exact absurd h7 (ihk1 h6)
      · cases h7 : k1.find x with
        | some _ => simp
        | none => exact ihr1 h6

/-- **per element**: an element of the smaller side whose id is not a new one is found on the larger side under the same
id, with the same header except `files`, and its content embeds again -/
theorem Emb.find {P : Nat → Prop} {a b : Items} (e : Emb P a b) (x : Nat) (hx : ¬ P x) :
    ∀ (h : Hdr) (k : Items), a.find x = some (h, k) →
      ∃ h' k', b.find x = some (h', k') ∧ h'.noFiles = h.noFiles ∧ Emb P k k' := by
  induction e with
  | nil => intro h k hf; simp [Items.find] at hf
  | text c _ ih => intro h k hf; simp only [Items.find] at hf ⊢; exact ih h k hf
  | @elem h0 h0' k0 k0' r0 r0' he ek _ ihk ihr =>
    intro h k hf
    simp only [Items.find] at hf ⊢
    rw [noFiles_id he]
    by_cases hid : h0.id = x
    · rw [if_pos hid] at hf ⊢
      cases hf
      exact ⟨h0', k0', rfl, he, ek⟩
    · rw [if_neg hid] at hf ⊢
      cases hk : k0.find x with
      | some c =>
        rw [hk] at hf
        cases hf
        obtain ⟨h', k', h1, h2, h3⟩ := ihk h k hk
        exact ⟨h', k', by rw [h1], h2, h3⟩
      | none =>
        rw [hk] at hf
        dsimp only at hf
        have hnot : x ∉ k0'.ids := by
          intro hm
          rcases ek.ids_sub x hm with h3 | h3
          · exact find_ne_none_of_mem x k0 h3 hk
          · exact hx h3
        rw [find_none_of_not_mem x _ hnot]
        exact ihr h k hf
  | @ins h0 k0 a0 b0 hp _ ih =>
    intro h k hf
    simp only [Items.find]
    rw [if_neg (fun e => hx (hp x (Or.inl e.symm)))]
    rw [find_none_of_not_mem x k0 (fun hm => hx (hp x (Or.inr hm)))]
    exact ih h k hf

theorem Emb.mapKidHdrs (P : Nat → Prop) (f : Hdr → Hdr) (hf : ∀ h, (f h).noFiles = h.noFiles) (its : Items) :
    Emb P its (its.mapKidHdrs f) := by
  induction its with
  | nil => exact .nil
  | text c r ih => exact .text c ih
  | elem h k r _ ihr => exact .elem (hf h) (Emb.refl P k) ihr

theorem Emb.insertAt (P : Nat → Prop) (nh : Hdr) (bk : Items) (hp : ∀ y, (y = nh.id ∨ y ∈ bk.ids) → P y) (its : Items) :
    ∀ pos : Nat, Emb P its (its.insertAt (fun r => .elem nh bk r) pos) := by
  induction its with
  | nil => intro pos; cases pos <;> exact .ins hp .nil
  | text c r ih =>
    intro pos
    cases pos with
    | zero => exact .ins hp (Emb.refl P _)
    | succ q => exact .text c (ih q)
  | elem h k r _ ihr =>
    intro pos
    cases pos with
    | zero => exact .ins hp (Emb.refl P _)
    | succ q => exact .elem rfl (Emb.refl P k) (ihr q)

theorem Emb.setChild (P : Nat → Prop) (cid : Nat) (h' : Hdr) (k' : Items) (its : Items) (ah : Hdr) (ak : Items)
    (hc : its.child cid = some (ah, ak)) (hh : h'.noFiles = ah.noFiles) (hk : Emb P ak k') :
    Emb P its (setChild cid h' k' its) := by
  induction its with
  | nil => exact .nil
  | text c r ih =>
    simp only [Items.child] at hc
    exact .text c (ih hc)
  | elem h k r _ ihr =>
    simp only [Items.child] at hc
    unfold AV.W.setChild
    by_cases hcid : h.id = cid
    · rw [if_pos hcid]
      rw [if_pos hcid] at hc
      cases hc
      exact .elem hh hk (Emb.refl P r)
    · rw [if_neg hcid]
      rw [if_neg hcid] at hc
      exact .elem rfl (Emb.refl P k) (ihr hc)

section
variable (S : Spec) (V : Env)

theorem Emb.importNew (P : Nat → Prop) (ha : Hdr) (newFile minVerB : Nat) (l : List ((Hdr × Items) × Nat))
    (hl : ∀ e ∈ l, ∀ y, (y = e.1.1.id ∨ y ∈ e.1.2.ids) → P y) :
    ∀ (idx : Nat) (ka : Items), Emb P ka (AV.W.importNew S ha newFile minVerB l idx ka).1 := by
  induction l with
  | nil => intro idx ka; exact Emb.refl P ka
  | cons e rest ih =>
    intro idx ka
    obtain ⟨⟨bh, bk⟩, pos⟩ := e
    unfold AV.W.importNew
    split
    · exact Emb.refl P ka
    · refine Emb.trans ?_ (ih (fun e he => hl e (List.mem_cons_of_mem _ he)) _ _)
      exact Emb.insertAt P { bh with parent := .elem ha.id, files := bh.files ++ [newFile] } bk
        (hl ((bh, bk), pos) List.mem_cons_self) ka _

/-- **C09, header level: a merge keeps the content of the model** — for every fuel and also when the merge stops with an
error: the model's content `ka` embeds into the result; what is added are elements of the new file (`P` holds of all
ids of `kb`), what changes in the model's own elements is the `files` field only. -/
theorem mergeElement_emb (P : Nat → Prop) (fver : Nat → Option Nat) (newFile minVerB : Nat) (fuel : Nat) :
    ∀ (ha : Hdr) (ka : Items) (files : List Nat) (kb : Items), (∀ y ∈ kb.ids, P y) →
      Emb P ka (mergeElement S V fver newFile minVerB fuel ha ka files kb).1 := by
  induction fuel with
  | zero => intro ha ka files kb _; exact Emb.refl P ka
  | succ n ih =>
    intro ha ka files kb hP
    have hkbsub : ∀ c ∈ kb.childElems, ∀ y, (y = c.1.id ∨ y ∈ c.2.ids) → P y :=
      fun c hc y hy => hP y ((mem_ids_iff_kids kb y).mpr ⟨c, hc, hy⟩)
    unfold mergeElement
    dsimp only
    split
    · exact Emb.refl P ka
    · rename_i w0 restA restB hwalk
      obtain ⟨hb1, hb2, hb3, -⟩ := walk_spec S V _ _ _ _ _ _ _ _ _ _ hwalk
      have himp : Emb P ka (AV.W.importNew S ha newFile minVerB
            (w0.bOnly ++ (restB.filter fun b => !inPairs w0 b.1.id).map fun b => (b, ka.length)) 0
            (ka.mapKidHdrs fun h => if (w0.aOnly ++ restA.map (·.2.1.id)).contains h.id ∧ h.files.isEmpty then { h with files := files } else h)).1 := by
        refine Emb.trans (Emb.mapKidHdrs P _ ?_ ka) (Emb.importNew S P ha newFile minVerB _ ?_ _ _)
        · intro h; split <;> rfl
        · intro e he
          have hmem : e.1 ∈ kb.childElems := by
            rcases List.mem_append.mp he with h | h
            · rcases hb1 e h with h | h
              · simp at h
              · exact h
            · obtain ⟨b, hb, rfl⟩ := List.mem_map.mp h
              exact hb3 b (List.mem_filter.mp hb).1
          exact hkbsub e.1 hmem
      have hp : ∀ p ∈ w0.pairs, p.2 ∈ kb.childElems := by
        intro p hp
        rcases hb2 p hp with h | h | h
        · simp at h
        · exact h
        · exact h
      split
      · rename_i ka2 e heq
        have key := congrArg (fun r => r.1) heq
        dsimp only at key
        rw [← key]; exact himp
      · rename_i ka2 heq
        have key := congrArg (fun r => r.1) heq
        dsimp only at key
        rw [← key]
        refine (foldl_inv (fun (l : List (Nat × (Hdr × Items))) (acc : Items × Option MergeErr) =>
          (∀ p ∈ l, p.2 ∈ kb.childElems) ∧ Emb P ka acc.1) _ ?_ _ (_, none) ⟨hp, himp⟩).2
        intro p rest acc ⟨hq, hacc⟩
        refine ⟨fun q hq' => hq q (List.mem_cons_of_mem _ hq'), ?_⟩
        split
        · exact hacc
        · split
          · exact hacc
          · rename_i ah ak hchild
            dsimp only
            refine Emb.trans hacc (Emb.setChild P p.1 _ _ acc.1 ah ak hchild ?_ ?_)
            · have hnf : ∀ (c : Prop) [Decidable c] (X : List Nat), (if c then { ah with files := X } else ah).noFiles = ah.noFiles := by
                intro c _ X; split <;> rfl
              exact hnf _ _
            · exact ih ah ak _ _ (fun y hy => hkbsub p.2 (hq p List.mem_cons_self) y (Or.inr hy))

/-- the same with the sharpest `P`: the added elements have ids of the new file's content -/
theorem mergeElement_emb_kb (fver : Nat → Option Nat) (newFile minVerB : Nat) (fuel : Nat)
    (ha : Hdr) (ka : Items) (files : List Nat) (kb : Items) :
    Emb (· ∈ kb.ids) ka (mergeElement S V fver newFile minVerB fuel ha ka files kb).1 :=
  mergeElement_emb S V (· ∈ kb.ids) fver newFile minVerB fuel ha ka files kb (fun _ hy => hy)

/-- **C09 per element**: every element of the model's content (any depth) whose id is not an id of the new file's
content is found in the result under its id with the same name, type, attributes, comment (and id, parent field), and
with the same character data / text items directly below it. -/
theorem mergeElement_keeps_hdr (fver : Nat → Option Nat) (newFile minVerB : Nat) (fuel : Nat)
    (ha : Hdr) (ka : Items) (files : List Nat) (kb : Items) (x : Nat) (hx : x ∉ kb.ids)
    (h : Hdr) (k : Items) (hf : ka.find x = some (h, k)) :
    ∃ h' k', (mergeElement S V fver newFile minVerB fuel ha ka files kb).1.find x = some (h', k') ∧
      h'.noFiles = h.noFiles ∧ k'.textsOf = k.textsOf ∧ Emb (· ∈ kb.ids) k k' := by
  obtain ⟨h', k', h1, h2, h3⟩ := (mergeElement_emb_kb S V fver newFile minVerB fuel ha ka files kb).find x hx h k hf
  exact ⟨h', k', h1, h2, h3.textsOf, h3⟩

/-- the projection form of the task text, under disjoint ids -/
theorem mergeElement_keeps_proj (fver : Nat → Option Nat) (newFile minVerB : Nat) (fuel : Nat)
    (ha : Hdr) (ka : Items) (files : List Nat) (kb : Items) (hdis : ∀ x ∈ ka.ids, x ∉ kb.ids) (x : Nat) (hx : x ∈ ka.ids) :
    ((mergeElement S V fver newFile minVerB fuel ha ka files kb).1.find x).map
        (fun c => (c.1.name, c.1.ety, c.1.attrs, c.1.comment, c.1.parent, c.2.textsOf)) =
      (ka.find x).map (fun c => (c.1.name, c.1.ety, c.1.attrs, c.1.comment, c.1.parent, c.2.textsOf)) := by
  cases hf : ka.find x with
  | none =>
    exact absurd hf (find_ne_none_of_mem x ka hx)
  | some c =>
    obtain ⟨h, k⟩ := c
    obtain ⟨h', k', h1, h2, h3, -⟩ := mergeElement_keeps_hdr S V fver newFile minVerB fuel ha ka files kb x (hdis x hx) h k hf
    rw [h1]
    simp only [Option.map_some, h3]
    have e1 := congrArg Hdr.name h2
    have e2 := congrArg Hdr.ety h2
    have e3 := congrArg Hdr.attrs h2
    have e4 := congrArg Hdr.comment h2
    have e5 := congrArg Hdr.parent h2
    simp only [Hdr.noFiles] at e1 e2 e3 e4 e5
    rw [e1, e2, e3, e4, e5]

end

/-! ### the global form: remove what came from the new file, erase the file sets — the model's content is back -/

/-- remove every element (with its content) whose id is `bad` -/
def Items.dropIds (bad : Nat → Bool) : Items → Items
  | .nil => .nil
  | .text c r => .text c (dropIds bad r)
  | .elem h k r => if bad h.id then dropIds bad r else .elem h (dropIds bad k) (dropIds bad r)

theorem Emb.dropIds {P : Nat → Prop} {a b : Items} (e : Emb P a b) (bad : Nat → Bool) (hP : ∀ y, P y → bad y = true) :
    (∀ x ∈ a.ids, bad x = false) → (b.dropIds bad).mapHdrs Hdr.noFiles = a.mapHdrs Hdr.noFiles := by
  induction e with
  | nil => intro _; rfl
  | text c _ ih => intro ha; simp only [Items.dropIds, Items.mapHdrs]; rw [ih ha]
  | @elem h h' k k' r r' he _ _ ihk ihr =>
    intro ha
    simp only [Items.ids, List.mem_cons, List.mem_append] at ha
    have h1 : bad h'.id = false := by rw [noFiles_id he]; exact ha h.id (Or.inl rfl)
    simp only [Items.dropIds, h1, Bool.false_eq_true, if_false, Items.mapHdrs]
    rw [ihk (fun x hx => ha x (Or.inr (Or.inl hx))), ihr (fun x hx => ha x (Or.inr (Or.inr hx))), he]
  | @ins h k a b hp _ ih =>
    intro ha
    simp only [Items.dropIds, hP h.id (hp h.id (Or.inl rfl)), if_true]
    exact ih ha

section
variable (S : Spec) (V : Env)

/-- **C09, global form**: take the result of `mergeElement` (any fuel, with or without error), remove the elements whose ids
are ids of the new file's content `kb`, erase all file sets: this is the model's content `ka` with the file sets erased —
provided no id of `ka` is an id of `kb`. -/
theorem mergeElement_restrict (fver : Nat → Option Nat) (newFile minVerB : Nat) (fuel : Nat)
    (ha : Hdr) (ka : Items) (files : List Nat) (kb : Items) (hdis : ∀ x ∈ ka.ids, x ∉ kb.ids) :
    ((mergeElement S V fver newFile minVerB fuel ha ka files kb).1.dropIds kb.ids.contains).mapHdrs Hdr.noFiles =
      ka.mapHdrs Hdr.noFiles := by
  refine (mergeElement_emb_kb S V fver newFile minVerB fuel ha ka files kb).dropIds _ ?_ ?_
  · intro y hy; exact List.contains_iff_mem.mpr hy
  · intro x hx
    cases hc : kb.ids.contains x with
    | false => rfl
    | true => exact absurd (List.contains_iff_mem.mp hc) (hdis x hx)

end

/-! ## 3. C07: what a successful create has been checked against -/
section
variable (S : Spec) (V : Env)

/-- **a successfully created element is permitted by the parent's type in the version `minVersion` returns** (the lowest
version of the files of the nearest non-empty file set) — and in that version only: see `LM3.MixedVer.mixed_version_finding` -/
theorem opCreate_ok_permitted (w : World) (p name : Nat) (pos? : Option Nat) (s : String)
    (hok : (opCreate S V w p name pos?).2 = .ok s) :
    ∃ k c ver ety idx, locate w p = some (k, c) ∧ minVersion V (w.models[k]!) c = some ver ∧
      S.findSub (lastOf c).1.ety.typ name ver = some (ety, idx) ∧ S.isNamedIn ety.typ ver = false ∧
      (insertRange S (lastOf c).1 (lastOf c).2 name ver).isSome ∧ s = s!"e{w.nextId}" := by
  revert hok
  fun_cases opCreate S V w p name pos? <;> intro hok
  all_goals first
    | (exfalso; simp at hok; done)
    | skip
  rename_i k c hloc m h kids hl ver hver lo hi hrange pos hpos ety idx hfs hnamed nh root'
  refine ⟨k, c, ver, ety, idx, hloc, hver, ?_, ?_, ?_, ?_⟩
  · rw [hl]; exact hfs
  · simpa using hnamed
  · rw [hl, hrange]; rfl
  · simp at hok; exact hok.symm

theorem opNamed_ok_permitted (w : World) (p name : Nat) (item : Bytes) (pos? : Option Nat) (s : String)
    (hok : (opNamed S V w p name item pos?).2 = .ok s) :
    ∃ k c ver ety idx, locate w p = some (k, c) ∧ minVersion V (w.models[k]!) c = some ver ∧
      S.findSub (lastOf c).1.ety.typ name ver = some (ety, idx) ∧ S.isNamedIn ety.typ ver = true ∧
      (insertRange S (lastOf c).1 (lastOf c).2 name ver).isSome ∧ s = s!"e{w.nextId} e{w.nextId + 1}" := by
  revert hok
  fun_cases opNamed S V w p name item pos? <;> intro hok
  all_goals first
    | (exfalso; simp at hok; done)
    | skip
  rename_i k c hloc m h kids hl ver hver lo hi hrange pos hpos hitem ety idx hfs hnamed nameOk hnok path hlook eid sid snKid nh root' m'
  refine ⟨k, c, ver, ety, idx, hloc, hver, ?_, ?_, ?_, ?_⟩
  · rw [hl]; exact hfs
  · simpa using hnamed
  · rw [hl, hrange]; rfl
  · simp at hok; exact hok.symm

end

/-! ## 4. `SepInv` after `opDup` -/
section
variable (S : Spec) (V : Env) (vOk : Nat) (rootAttrs : List (Nat × CDv))

/-- the copies change no model's `rootIssued` flag -/
theorem dupCopies_issued (root' : Nat) (cs : List Nat) : ∀ (w w2 : World), dupCopies S V root' cs w = .ok w2 →
    ∀ j : Nat, (w2.models[j]?).map Model.rootIssued = (w.models[j]?).map Model.rootIssued := by
  induction cs with
  | nil => intro w w2 h j; simp only [dupCopies] at h; cases h; rfl
  | cons c cs ih =>
    intro w w2 h j
    simp only [dupCopies] at h
    split at h
    · rename_i w1 pl heq
      have hok : (opCopy S V w root' c none).2 ≠ .err := by rw [heq]; intro h0; cases h0
      obtain ⟨k, cp, m, m', q, nh, nk1, _, hm, hm', hoth, _, _, _, _, _, hiss, _⟩ := opCopy_frame S V w root' c none hok
      rw [ih w1 w2 h j]
      have e1 : w1 = (opCopy S V w root' c none).1 := by rw [heq]
      rw [e1]
      by_cases hj : j = k
      · subst hj; rw [hm, hm']; simp only [Option.map_some, hiss]
      · rw [hoth j hj]
    · cases h

/-- the new model of a `duplicate` answered `ok` (or the world is unchanged): either the empty model (original without file),
or a model whose root has its protocol id `w.nextId` and whose other element ids are above it -/
theorem opDup_last (w : World) (k : Nat) :
    (opDup S V rootAttrs w k).1 = w ∨
    ∃ m', (opDup S V rootAttrs w k).1.models[w.models.length]? = some m' ∧
      (m' = newModel S rootAttrs ∨
        (m'.rootIssued = true ∧ m'.rootHdr.id = w.nextId ∧ ∀ x ∈ m'.rootKids.ids, w.nextId < x)) := by
  fun_cases opDup S V rootAttrs w k
  all_goals try exact Or.inl rfl
  · rename_i k' w0 _ _
    exact Or.inr ⟨newModel S rootAttrs, by simp [w0], Or.inl rfl⟩
  · rename_i m hm k' w0 hne w1 hf m1 hm1 w2 hc m2 hm2 newFiles mapF origSets root' m3 ids hids fs es
    right
    have hfr0 : FreshRoot k' w0 (newModel S rootAttrs) :=
      ⟨by simp [w0, k'], rfl, rfl, fun g hg => by simp [newModel] at hg⟩
    obtain ⟨m1', r⟩ := dupFiles_res S k' m.files w0 w1 _ hfr0 hf
    have : m1' = m1 := Option.some.inj (r.fresh.get.symm.trans hm1)
    subst this
    have hne' : m.files ≠ [] := by intro h; rw [h] at hne; exact hne rfl
    have hi1 : m1'.rootIssued = true := r.issued hne'
    have hi2 : m2.rootIssued = true := by
      have := dupCopies_issued S V _ _ w1 w2 hc k'
      rw [hm1, hm2] at this
      simp only [Option.map_some, Option.some.injEq] at this
      rw [this, hi1]
    have hlt : k' < w2.models.length := lt_of_getElem?_some _ _ _ hm2
    have hs := setRoot_of_skel m2 root' (assignFiles_skel _ _)
    have hids' : m3.rootItems.ids = List.range' w.nextId m3.rootItems.ids.length := Classical.not_not.mp hids
    rw [rootItems_ids] at hids'
    simp only [List.length_cons, List.range'_succ, List.cons.injEq] at hids'
    refine ⟨m3, by simp only [setModel]; exact List.getElem?_set_self hlt, Or.inr ⟨?_, hids'.1, ?_⟩⟩
    · show (m2.setRoot root').rootIssued = true
      rw [hs.2.2.2, hi2]
    · intro x hx
      rw [hids'.2] at hx
      have := (List.mem_range'_1.mp hx).1
      omega

/-- **`SepInv` after `duplicate`** (whatever the answer): the ids of the new model are `w.nextId …`, no old model has them -/
theorem opDup_sep (w : World) (k : Nat) (hw : WInv S vOk w) (hs : SepInv w)
    (hfresh : ∀ m ∈ w.models, w.nextId ∉ m.rootItems.ids) : SepInv (opDup S V rootAttrs w k).1 := by
  rcases opDup_frame_aux S V rootAttrs w k hfresh with hext | heq
  · rcases opDup_last S V rootAttrs w k with heq | ⟨m', hget', hm'⟩
    · rw [heq]; exact hs
    · obtain ⟨hold, -, hlen⟩ := hext
      obtain ⟨hsep, h0, hpos⟩ := hs
      simp only [List.length_append, List.length_singleton] at hlen
      -- the models of the result: the old ones and `m'`
      have hget : ∀ j mj, (opDup S V rootAttrs w k).1.models[j]? = some mj →
          (j < w.models.length ∧ w.models[j]? = some mj) ∨ (j = w.models.length ∧ mj = m') := by
        intro j mj hj
        have hjl := lt_of_getElem?_some _ _ _ hj
        rcases Nat.lt_or_ge j w.models.length with h | h
        · left
          rw [hold j h, List.getElem?_append_left h] at hj
          exact ⟨h, hj⟩
        · right
          have : j = w.models.length := by omega
          subst this
          rw [hget'] at hj
          exact ⟨rfl, (Option.some.inj hj).symm⟩
      have hmem : ∀ mj ∈ (opDup S V rootAttrs w k).1.models, mj ∈ w.models ∨ mj = m' := by
        intro mj hmj
        obtain ⟨j, hj⟩ := List.getElem?_of_mem hmj
        rcases hget j mj hj with ⟨_, h⟩ | ⟨_, h⟩
        · exact Or.inl (List.mem_of_getElem? h)
        · exact Or.inr h
      -- ids of an old model are below `nextId`, or the model is the bare root 0
      have hbelow : ∀ mj ∈ w.models, ∀ x ∈ mj.rootKids.ids, x < w.nextId := by
        intro mj hmj x hx
        have hI := hw mj hmj
        cases hi : mj.rootIssued with
        | true => exact hI.bound hi x (by rw [rootItems_ids]; exact List.mem_cons_of_mem _ hx)
        | false => rw [(hI.fresh hi).1] at hx; cases hx
      refine ⟨?_, ?_, ?_⟩
      · intro j k2 mj mk hne hj hk2 x hx hxj
        rcases hget j mj hj with ⟨hjl, hj0⟩ | ⟨hjl, rfl⟩ <;> rcases hget k2 mk hk2 with ⟨hkl, hk0⟩ | ⟨hkl, rfl⟩
        · exact hsep j k2 mj mk hne hj0 hk0 x hx hxj
        · -- `x` below the new root and in an old model
          rcases hm' with rfl | ⟨_, _, hgt⟩
          · simp [newModel, Items.ids] at hx
          · have hmj := List.mem_of_getElem? hj0
            have hI := hw mj hmj
            have h1 := hgt x hx
            cases hi : mj.rootIssued with
            | true => have := hI.bound hi x hxj; omega
            | false =>
              rw [rootItems_ids, (hI.fresh hi).1, h0 mj hmj hi] at hxj
              simp only [List.mem_cons, List.not_mem_nil, or_false] at hxj
              omega
        · -- `x` below an old root and in the new model
          have hmk := List.mem_of_getElem? hk0
          have h1 := hbelow mk hmk x hx
          have h2 := hpos mk hmk x hx
          rcases hm' with rfl | ⟨_, hid, hgt⟩
          · simp only [rootItems_ids, newModel, Items.ids, List.mem_cons, List.not_mem_nil, or_false] at hxj
            omega
          · rw [rootItems_ids, hid] at hxj
            simp only [List.mem_cons] at hxj
            rcases hxj with e | e
            · omega
            · have := hgt x e; omega
        · exact hne (hjl.trans hkl.symm)
      · intro mj hmj hi
        rcases hmem mj hmj with h | rfl
        · exact h0 mj h hi
        · rcases hm' with rfl | ⟨hiss, _, _⟩
          · rfl
          · rw [hiss] at hi; cases hi
      · intro mj hmj x hx
        rcases hmem mj hmj with h | rfl
        · exact hpos mj h x hx
        · rcases hm' with rfl | ⟨_, _, hgt⟩
          · simp [newModel, Items.ids] at hx
          · have := hgt x hx; omega
  · rw [heq]; exact hs

/-- the same from the history invariants alone, once an element id has been given out -/
theorem opDup_sep' (w : World) (k : Nat) (hw : WInv S vOk w) (hs : SepInv w) (hpos : 0 < w.nextId) :
    SepInv (opDup S V rootAttrs w k).1 :=
  opDup_sep S V vOk rootAttrs w k hw hs (fresh_of_winv S vOk w hw hs.2.1 hpos)

end
end AV.W
