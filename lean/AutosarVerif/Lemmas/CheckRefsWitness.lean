/-
C05, second sentence, non-vacuity: a specification with a REFERENCE type that has a DEST attribute, a guarded history after
which one reference resolves (absent from the report) and three do not (unknown path / DEST does not fit / no DEST), and the
hypotheses of the theorems of `Lemmas/CheckRefs.lean` at that state.

`refSpecD` = `refSpec` (`Lemmas/RefsWitness.lean`) extended by
  * one attribute of the reference type 5: DEST (name 998, character data 2 = the enumeration {7, 8}), and
  * the reference items of the type 1 (P): [7]  (so DEST = 7 fits a P, DEST = 8 does not).
-/
import AutosarVerif.Lemmas.CheckRefs
import AutosarVerif.Lemmas.IdsSep
import AutosarVerif.Lemmas.RefsWitness

namespace AV.W
open AV

def refSpecD : Spec :=
  { refSpec with
    nAttrs := 1
    nCData := 3
    nRefItems := 1
    attrEnd := fun t => if t = 5 then 1 else 0
    attrName := fun _ => 998
    attrCData := fun _ => 2
    cspec := fun i => if i = 1 then .string false none else if i = 2 then .enum [(7, 7), (8, 7)] else .pattern 8 none
    refEnd := fun t => if t = 1 then 1 else 0
    refItem := fun _ => 7 }

theorem refSpecD_named (t : Nat) (h : refSpecD.isNamed t = true) : t = 1 ∨ t = 4 := refSpec_named t h

theorem refSpecD_snDef (t d : Nat) (h : refSpecD.isNamed t = true) (hd : refSpecD.subAt t 0 = .elem d) : d = 2 :=
  refSpec_snDef t d h hd

theorem refSpecD_isRef (t : Nat) (h : refSpecD.isRef t = true) : t = 5 := refSpec_isRef t h

theorem refSpecD_hyp : IdxHyp refSpecD nameEnv 6 where
  wf := {
    named_seq := by
      intro t h hm
      rcases refSpecD_named t h with rfl | rfl
      · rfl
      · exact absurd (by decide) hm
    sn_mask := by
      intro t h
      rcases refSpecD_named t h with rfl | rfl <;> decide
    sn_mult := by
      intro t d h hd
      have := refSpecD_snDef t d h hd
      subst this
      decide
    sn_type := by
      intro t d h hd
      have := refSpecD_snDef t d h hd
      subst this
      exact ⟨by decide, by decide, .pattern 8 none, rfl, rfl⟩ }
  only := by
    intro t nm e m idx h hmem hnm
    rcases refSpecD_named t h with rfl | rfl
    · have hl : refSpecD.listSub 1 = [(999, ⟨2, 2⟩, 2, [0]), (103, ⟨3, 3⟩, 7, [1])] := by decide
      rw [hl] at hmem
      simp only [List.mem_cons, List.mem_nil_iff, or_false, Prod.mk.injEq] at hmem
      rcases hmem with ⟨_, _, _, h4⟩ | ⟨h1, _, _, _⟩
      · exact h4
      · subst h1; exact absurd hnm (by decide)
    · have hl : refSpecD.listSub 4 = [(999, ⟨2, 2⟩, 1, [0])] := by decide
      rw [hl] at hmem
      simp only [List.mem_cons, List.mem_nil_iff, or_false, Prod.mk.injEq] at hmem
      exact hmem.2.2.2
  noSlash := by
    intro t d sp s ver h hd hsp hcv
    have := refSpecD_snDef t d h hd
    subst this
    have h2 : refSpecD.chardataSpec (refSpecD.defType 2) = some (.pattern 8 none) := rfl
    rw [h2] at hsp
    injection hsp with hsp
    subst hsp
    intro h47
    simp only [checkValue, nameEnv, Bool.true_and] at hcv
    have : s.contains 47 = true := List.contains_iff_mem.mpr h47
    rw [this] at hcv
    cases hcv
  latest := by decide
  rootName := by decide

theorem refSpecD_refWF : RefWF refSpecD where
  ref_chars := by
    intro t h
    have := refSpecD_isRef t h
    subst this
    rfl
  ref_spec := by
    intro t h
    have := refSpecD_isRef t h
    subst this
    exact ⟨.string false none, rfl, rfl⟩
  sn_not_ref := by
    intro t d h hd
    have := refSpecD_snDef t d h hd
    subst this
    decide
  root_not_ref := by decide

/-- a file; the package P "a" (e1, SHORT-NAME e2) with a Q (e3) inside; four X-REF elements e4 … e7 in Q:
e4 → "/a" with DEST = 7 (fits a P), e5 → "/zz" with DEST = 7 (no such path), e6 → "/a" with DEST = 8 (does not fit),
e7 → "/a" without DEST -/
def destOps : List Op :=
  [.newModel, .mkFile 0 [102] 2 true, .named 0 101 [97] none, .create 1 103 none,
   .create 3 105 none, .create 3 105 none, .create 3 105 none, .create 3 105 none,
   .cdata 4 (.str [47, 97]), .cdata 5 (.str [47, 122, 122]), .cdata 6 (.str [47, 97]), .cdata 7 (.str [47, 97]),
   .attr 4 998 (.enum 7), .attr 5 998 (.enum 7), .attr 6 998 (.enum 8)]

theorem destOps_ok : ∀ op ∈ destOps, OpOk refSpecD 6 op := by decide

def destWorld : World := run refSpecD nameEnv [] destOps

/-- the combined invariant holds at the state (by the history theorem) -/
theorem destWorld_cinv : CInv refSpecD 6 destWorld :=
  run_cinv refSpecD nameEnv 6 [] refSpecD_hyp refSpecD_refWF destOps destOps_ok

/-- a world with at most one model shares no ids between models -/
theorem idsSep_of_length_le_one (w : World) (h : w.models.length ≤ 1) : IdsSep w := by
  intro j k mj mk hne hj hk
  have h1 : j < w.models.length := by
    rcases Nat.lt_or_ge j w.models.length with h | h
    · exact h
    · rw [List.getElem?_eq_none h] at hj; cases hj
  have h2 : k < w.models.length := by
    rcases Nat.lt_or_ge k w.models.length with h | h
    · exact h
    · rw [List.getElem?_eq_none h] at hk; cases hk
  omega

theorem destWorld_sep : IdsSep destWorld := idsSep_of_length_le_one _ (by decide)

/-- every operation of the history is answered with success -/
example : (destOps.foldl (fun (ws : World × List String) op =>
      let r := applyOp refSpecD nameEnv [] ws.1 op; (r.1, ws.2 ++ [r.2])) (emptyWorld, [])).2 =
    ["ok m0", "ok f0 e0", "ok e1 e2", "ok e3", "ok e4", "ok e5", "ok e6", "ok e7", "ok", "ok", "ok", "ok", "ok", "ok",
      "ok"] := by decide

/-- the reverse reference map, the index and the report of the state -/
example : (destWorld.models.map fun m => (m.refs, m.index)) =
    [([([47, 97], [4, 6, 7]), ([47, 122, 122], [5])], [([47, 97], 1)])] := by decide

example : checkRefsIds refSpecD nameEnv destWorld 0 = [6, 7, 5] := by decide
example : qCheckRefs refSpecD nameEnv destWorld 0 = "ok e5,e6,e7" := by decide

/-- e4 resolves to the package e1; the other three do not resolve -/
example : [4, 5, 6, 7].map (refTarget refSpecD nameEnv destWorld) = [some 1, none, none, none] := by decide

/-- the theorem at this state: the hypotheses are met … -/
theorem destWorld_report (r : Nat) (m : Model) (hm : destWorld.models[0]? = some m) :
    r ∈ checkRefsIds refSpecD nameEnv destWorld 0 ↔
      (∃ h k0 p, Occ h k0 m.rootItems ∧ h.id = r ∧ refSpecD.isRef h.ety.typ = true ∧
        charData refSpecD h k0 = some (.str p)) ∧ refTarget refSpecD nameEnv destWorld r = none :=
  mem_checkRefsIds refSpecD nameEnv 6 (by decide) destWorld destWorld_cinv destWorld_sep 0 m hm r

/-- … including those of soundness / completeness of `refTarget` (the root type is neither a reference nor named) -/
example : refSpecD.isRef (refSpecD.defType refSpecD.rootDef) = false ∧
    refSpecD.isNamed (refSpecD.defType refSpecD.rootDef) = false := by decide

/-! ### two models -/

/-- a second model with a file (root e8), a package P "b" (e9, SHORT-NAME e10) with a Q (e11) and two references in it:
e12 → "/a" (a path of the FIRST model only: does not resolve here), e13 → "/b" (resolves to e9) -/
def destOps2 : List Op :=
  destOps ++ [.newModel, .mkFile 1 [102] 2 true, .named 8 101 [98] none, .create 9 103 none,
    .create 11 105 none, .create 11 105 none, .cdata 12 (.str [47, 97]), .cdata 13 (.str [47, 98]),
    .attr 12 998 (.enum 7), .attr 13 998 (.enum 7)]

theorem destOps2_ok : ∀ op ∈ destOps2, OpOk refSpecD 6 op := by decide

example : (destOps2.foldl (fun (ws : World × List String) op =>
      let r := applyOp refSpecD nameEnv [] ws.1 op; (r.1, ws.2 ++ [r.2])) (emptyWorld, [])).2.drop 15 =
    ["ok m1", "ok f1 e8", "ok e9 e10", "ok e11", "ok e12", "ok e13", "ok", "ok", "ok", "ok"] := by decide

example : [0, 1].map (checkRefsIds refSpecD nameEnv (run refSpecD nameEnv [] destOps2)) = [[6, 7, 5], [12]] := by decide

example : [12, 13].map (refTarget refSpecD nameEnv (run refSpecD nameEnv [] destOps2)) = [none, some 9] := by decide

/-- the theorem over all histories, at this history -/
theorem destOps2_report (k : Nat) (m : Model) (hm : (run refSpecD nameEnv [] destOps2).models[k]? = some m) (r : Nat) :
    r ∈ checkRefsIds refSpecD nameEnv (run refSpecD nameEnv [] destOps2) k ↔
      (∃ h k0 p, Occ h k0 m.rootItems ∧ h.id = r ∧ refSpecD.isRef h.ety.typ = true ∧
        charData refSpecD h k0 = some (.str p)) ∧ refTarget refSpecD nameEnv (run refSpecD nameEnv [] destOps2) r = none :=
  run_mem_checkRefsIds refSpecD nameEnv 6 [] refSpecD_hyp refSpecD_refWF destOps2 destOps2_ok k m hm r

/-- why `IdsSep` leaves the root elements out: a reachable state in which the roots of two models share the id 0 (the root
of a model without a file has no protocol id; the model gives it the id 0) -/
example : ((run refSpecD nameEnv [] [.newModel, .newModel, .mkFile 1 [102] 2 true]).models.map fun m =>
    (m.rootIssued, m.rootItems.ids)) = [(false, [0]), (true, [0])] := by decide

end AV.W
