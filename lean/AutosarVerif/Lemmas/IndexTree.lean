/-
C04, tree-level lemmas for the history invariant: how `entries` (what the index must hold), the element ids and the
SHORT-NAME discipline behave under the primitive edits `modify` / `insertAt` / `removeAt` and under header-only changes.
-/
import AutosarVerif.Lemmas.IndexDefs

namespace AV.W
open Items

section
variable (S : Spec)

/-! ### `charData` and `itemName` look at very little -/

theorem charData_hdr (h h' : Hdr) (k : Items) (ht : h'.ety.typ = h.ety.typ) : charData S h' k = charData S h k := by
  unfold charData; rw [ht]

theorem itemName_hdr (h h' : Hdr) (k : Items) (ht : h'.ety.typ = h.ety.typ) : itemName S h' k = itemName S h k := by
  unfold itemName; rw [ht]

/-- the first content item is an element called SHORT-NAME -/
def firstIsSn : Items → Prop
  | .elem sh _ _ => sh.name = S.nmShortName
  | _ => False

instance (k : Items) : Decidable (firstIsSn S k) := by
  cases k <;> simp only [firstIsSn] <;> infer_instance

theorem itemName_none_of_not_sn (h : Hdr) (k : Items) (hk : ¬ firstIsSn S k) : itemName S h k = none := by
  unfold itemName
  split
  · cases k with
    | nil => rfl
    | text _ _ => rfl
    | elem sh sk r =>
      simp only [firstIsSn] at hk
      simp [hk]
  · rfl

theorem modify_eq_nil_iff (t : Nat) (f : Hdr → Items → Hdr × Items) (r : Items) : r.modify t f = .nil ↔ r = .nil := by
  cases r with
  | nil => simp [Items.modify]
  | text _ _ => simp [Items.modify]
  | elem h k r => simp only [Items.modify]; split <;> simp

theorem charData_modify (h : Hdr) (t : Nat) (f : Hdr → Items → Hdr × Items) (k : Items) :
    charData S h (k.modify t f) = charData S h k := by
  cases k with
  | nil => rfl
  | elem sh sk r => simp only [Items.modify]; split <;> rfl
  | text c r =>
    simp only [Items.modify]
    cases r with
    | nil => rfl
    | text _ _ => rfl
    | elem sh sk r' => simp only [Items.modify]; split <;> rfl

/-- the node with header `h0` and content `k0` occurs somewhere in the forest -/
def Occ (h0 : Hdr) (k0 : Items) : Items → Prop
  | .nil => False
  | .text _ r => Occ h0 k0 r
  | .elem h k r => (h = h0 ∧ k = k0) ∨ Occ h0 k0 k ∨ Occ h0 k0 r

theorem Occ.id_mem {h0 : Hdr} {k0 : Items} {its : Items} (h : Occ h0 k0 its) : h0.id ∈ its.ids := by
  induction its with
  | nil => exact h.elim
  | text c r ih => exact ih h
  | elem hd k r ihk ihr =>
    simp only [Items.ids, List.mem_cons, List.mem_append]
    rcases h with ⟨rfl, _⟩ | h | h
    · exact Or.inl rfl
    · exact Or.inr (Or.inl (ihk h))
    · exact Or.inr (Or.inr (ihr h))

/-- what an edit of node `t` must keep for the item name of the PARENT of `t` to stay what it is (asked of the nodes of
the forest `its` only) -/
def KeepsView (t : Nat) (f : Hdr → Items → Hdr × Items) (its : Items) : Prop :=
  ∀ h k, Occ h k its → h.id = t → (f h k).1.name = h.name ∧ (f h k).1.ety = h.ety ∧ (f h k).1.id = h.id ∧
    (h.name = S.nmShortName → charData S (f h k).1 (f h k).2 = charData S h k)

theorem KeepsView.kids {t : Nat} {f : Hdr → Items → Hdr × Items} {hd : Hdr} {k r : Items}
    (h : KeepsView S t f (.elem hd k r)) : KeepsView S t f k := fun h0 k0 ho => h h0 k0 (Or.inr (Or.inl ho))
theorem KeepsView.rest {t : Nat} {f : Hdr → Items → Hdr × Items} {hd : Hdr} {k r : Items}
    (h : KeepsView S t f (.elem hd k r)) : KeepsView S t f r := fun h0 k0 ho => h h0 k0 (Or.inr (Or.inr ho))
theorem KeepsView.here {t : Nat} {f : Hdr → Items → Hdr × Items} {hd : Hdr} {k r : Items}
    (h : KeepsView S t f (.elem hd k r)) (e : hd.id = t) :
    (f hd k).1.name = hd.name ∧ (f hd k).1.ety = hd.ety ∧ (f hd k).1.id = hd.id ∧
      (hd.name = S.nmShortName → charData S (f hd k).1 (f hd k).2 = charData S hd k) := h hd k (Or.inl ⟨rfl, rfl⟩) e

theorem itemName_modify (h : Hdr) (t : Nat) (f : Hdr → Items → Hdr × Items) (k : Items) (hf : KeepsView S t f k) :
    itemName S h (k.modify t f) = itemName S h k := by
  cases k with
  | nil => rfl
  | text c r => simp only [Items.modify, itemName]
  | elem sh sk r =>
    simp only [Items.modify]
    split
    · rename_i heq
      obtain ⟨h1, h2, _, h4⟩ := hf.here S heq
      simp only [itemName]
      split
      · rw [h1]
        split
        · rename_i hsn
          rw [h4 hsn]
        · rfl
      · rfl
    · simp only [itemName]
      split
      · split
        · rw [charData_modify]
        · rfl
      · rfl

/-- an edit of node `t` that changes neither names nor the entries below `t`: the entries of the whole forest stay -/
theorem entries_modify_same (t : Nat) (f : Hdr → Items → Hdr × Items) (its : Items) (hv : KeepsView S t f its)
    (hf : ∀ h k, Occ h k its → h.id = t → itemName S (f h k).1 (f h k).2 = itemName S h k ∧
      ∀ pre, entries S (f h k).2 pre = entries S k pre) :
    ∀ pre, entries S (its.modify t f) pre = entries S its pre := by
  induction its with
  | nil => intro pre; rfl
  | text c r ih => intro pre; simp only [Items.modify, entries]; exact ih hv hf pre
  | elem hd k r ihk ihr =>
    intro pre
    have ihk' := ihk hv.kids (fun h0 k0 ho => hf h0 k0 (Or.inr (Or.inl ho)))
    have ihr' := ihr hv.rest (fun h0 k0 ho => hf h0 k0 (Or.inr (Or.inr ho)))
    simp only [Items.modify]
    split
    · rename_i heq
      obtain ⟨h1, h2⟩ := hf hd k (Or.inl ⟨rfl, rfl⟩) heq
      obtain ⟨_, _, h5, _⟩ := hv.here S heq
      simp only [entries, h1, h2, h5, ihr']
    · simp only [entries, itemName_modify S hd t f k hv.kids, ihk', ihr']

/-! ### element ids -/

theorem perm_swap_tail {α : Type} (a b c : List α) : (a ++ (b ++ c)).Perm ((a ++ c) ++ b) := by
  rw [List.append_assoc]
  exact List.Perm.append_left _ List.perm_append_comm

theorem perm3l {α : Type} {a a' x y : List α} (b : List α) (h : (a' ++ x).Perm (a ++ y)) : ((a' ++ b) ++ x).Perm ((a ++ b) ++ y) := by
  have h1 : ((a' ++ b) ++ x).Perm ((a' ++ x) ++ b) := by rw [List.append_assoc]; exact perm_swap_tail _ _ _
  have h2 : ((a ++ y) ++ b).Perm ((a ++ b) ++ y) := by rw [List.append_assoc]; exact perm_swap_tail _ _ _
  exact h1.trans ((List.Perm.append_right b h).trans h2)

theorem perm3r {α : Type} {b b' x y : List α} (a : List α) (h : (b' ++ x).Perm (b ++ y)) : ((a ++ b') ++ x).Perm ((a ++ b) ++ y) := by
  rw [List.append_assoc, List.append_assoc]
  exact List.Perm.append_left _ h

theorem ids_insertAt (nh : Hdr) (nk : Items) (k : Items) (pos : Nat) :
    (k.insertAt (fun r => .elem nh nk r) pos).ids.Perm (nh.id :: nk.ids ++ k.ids) := by
  induction k generalizing pos with
  | nil => cases pos <;> simp [Items.insertAt, Items.ids]
  | text c r ih =>
    cases pos with
    | zero => simp [Items.insertAt, Items.ids]
    | succ q => simp only [Items.insertAt, Items.ids]; exact ih q
  | elem h kk r _ ih =>
    cases pos with
    | zero => simp [Items.insertAt, Items.ids]
    | succ q =>
      simp only [Items.insertAt, Items.ids]
      have := ih q
      -- h.id :: (kk.ids ++ (insertAt r q).ids) ~ nh.id :: nk.ids ++ (h.id :: (kk.ids ++ r.ids))
      refine List.Perm.trans (List.Perm.cons _ (List.Perm.append_left _ this)) ?_
      have e1 : h.id :: (kk.ids ++ (nh.id :: nk.ids ++ r.ids)) = (h.id :: kk.ids) ++ ((nh.id :: nk.ids) ++ r.ids) := by simp
      have e2 : nh.id :: nk.ids ++ h.id :: (kk.ids ++ r.ids) = (nh.id :: nk.ids) ++ ((h.id :: kk.ids) ++ r.ids) := by simp
      rw [e1, e2, ← List.append_assoc, ← List.append_assoc]
      exact List.Perm.append_right _ List.perm_append_comm

theorem ids_insertAt_text (c : CDv) (k : Items) (pos : Nat) : (k.insertAt (fun r => .text c r) pos).ids = k.ids := by
  induction k generalizing pos with
  | nil => cases pos <;> simp [Items.insertAt, Items.ids]
  | text c' r ih =>
    cases pos with
    | zero => simp [Items.insertAt, Items.ids]
    | succ q => simp only [Items.insertAt, Items.ids]; exact ih q
  | elem h kk r _ ih =>
    cases pos with
    | zero => simp [Items.insertAt, Items.ids]
    | succ q => simp only [Items.insertAt, Items.ids, ih q]

/-- `modify` leaves a forest alone that does not contain the node -/
theorem modify_not_mem (t : Nat) (f : Hdr → Items → Hdr × Items) (its : Items) (h : t ∉ its.ids) : its.modify t f = its := by
  induction its with
  | nil => rfl
  | text c r ih => simp only [Items.modify]; rw [ih (by simpa [Items.ids] using h)]
  | elem hd k r ihk ihr =>
    simp only [Items.ids, List.mem_cons, List.mem_append, not_or] at h
    simp only [Items.modify]
    split
    · rename_i heq; exact absurd heq.symm h.1
    · rw [ihk h.2.1, ihr h.2.2]

/-- ids after an edit of node `t` that keeps `t`'s id and turns the ids below it from `k.ids` into a permutation of
`k.ids ++ extra` -/
theorem ids_modify_add (t : Nat) (f : Hdr → Items → Hdr × Items) (extra : List Nat) (its : Items)
    (hf : ∀ h k, Occ h k its → h.id = t → (f h k).1.id = h.id ∧ (f h k).2.ids.Perm (k.ids ++ extra))
    (hn : its.ids.Nodup) (hm : t ∈ its.ids) : (its.modify t f).ids.Perm (its.ids ++ extra) := by
  induction its with
  | nil => simp [Items.ids] at hm
  | text c r ih => simp only [Items.modify, Items.ids] at *; exact ih hf hn hm
  | elem hd k r ihk ihr =>
    have ihk := ihk (fun h0 k0 ho => hf h0 k0 (Or.inr (Or.inl ho)))
    have ihr := ihr (fun h0 k0 ho => hf h0 k0 (Or.inr (Or.inr ho)))
    simp only [Items.ids, List.nodup_cons, List.nodup_append, List.mem_append, not_or] at hn
    obtain ⟨hn1, hnk, hnr, hdis⟩ := hn
    simp only [Items.modify]
    split
    · rename_i heq
      obtain ⟨h1, h2⟩ := hf hd k (Or.inl ⟨rfl, rfl⟩) heq
      have hr : t ∉ r.ids := by rw [← heq]; exact hn1.2
      rw [modify_not_mem t f r hr]
      simp only [Items.ids, h1]
      refine List.Perm.cons _ ?_
      refine List.Perm.trans (List.Perm.append_right _ h2) ?_
      rw [List.append_assoc]
      exact perm_swap_tail _ _ _
    · rename_i hne
      simp only [Items.ids, List.mem_cons, List.mem_append] at hm
      rcases hm with hm | hm | hm
      · exact absurd hm.symm hne
      · have hr : t ∉ r.ids := fun hx => hdis t hm t hx rfl
        rw [modify_not_mem t f r hr]
        simp only [Items.ids]
        refine List.Perm.cons _ ?_
        refine List.Perm.trans (List.Perm.append_right _ (ihk hnk hm)) ?_
        rw [List.append_assoc]
        exact perm_swap_tail _ _ _
      · have hk : t ∉ k.ids := fun hx => hdis t hx t hm rfl
        rw [modify_not_mem t f k hk]
        simp only [Items.ids]
        refine List.Perm.cons _ ?_
        show List.Perm _ ((k.ids ++ r.ids) ++ extra)
        rw [List.append_assoc]
        exact List.Perm.append_left _ (ihr hnr hm)

end
end AV.W

namespace AV.W
open Items
section
variable (S : Spec)

/-- ids after an edit of the content of the (unique) node `t`: `A` / `B` = ids that disappear / appear below `t` -/
theorem ids_modify_rel (t : Nat) (f : Hdr → Items → Hdr × Items) (A B : List Nat) (its : Items)
    (hf : ∀ h k, Occ h k its → h.id = t → (f h k).1.id = h.id ∧ ((f h k).2.ids ++ A).Perm (k.ids ++ B))
    (hn : its.ids.Nodup) (hm : t ∈ its.ids) : ((its.modify t f).ids ++ A).Perm (its.ids ++ B) := by
  induction its with
  | nil => simp [Items.ids] at hm
  | text c r ih => simp only [Items.modify, Items.ids] at *; exact ih hf hn hm
  | elem hd k r ihk ihr =>
    have ihk := ihk (fun h0 k0 ho => hf h0 k0 (Or.inr (Or.inl ho)))
    have ihr := ihr (fun h0 k0 ho => hf h0 k0 (Or.inr (Or.inr ho)))
    simp only [Items.ids, List.nodup_cons, List.nodup_append, List.mem_append, not_or] at hn
    obtain ⟨hn1, hnk, hnr, hdis⟩ := hn
    simp only [Items.modify]
    split
    · rename_i heq
      obtain ⟨h1, h2⟩ := hf hd k (Or.inl ⟨rfl, rfl⟩) heq
      have hr : t ∉ r.ids := by rw [← heq]; exact hn1.2
      rw [modify_not_mem t f r hr]
      simp only [Items.ids, h1, List.cons_append]
      exact List.Perm.cons _ (perm3l _ h2)
    · rename_i hne
      simp only [Items.ids, List.mem_cons, List.mem_append] at hm
      rcases hm with hm | hm | hm
      · exact absurd hm.symm hne
      · have hr : t ∉ r.ids := fun hx => hdis t hm t hx rfl
        rw [modify_not_mem t f r hr]
        simp only [Items.ids, List.cons_append]
        exact List.Perm.cons _ (perm3l _ (ihk hnk hm))
      · have hk : t ∉ k.ids := fun hx => hdis t hx t hm rfl
        rw [modify_not_mem t f k hk]
        simp only [Items.ids, List.cons_append]
        exact List.Perm.cons _ (perm3r _ (ihr hnr hm))

/-! ### the SHORT-NAME discipline under the primitive edits -/

theorem noSnTop_modify (t : Nat) (f : Hdr → Items → Hdr × Items) (r : Items)
    (hf : ∀ h k, Occ h k r → h.id = t → (f h k).1.name = h.name) : noSnTop S (r.modify t f) ↔ noSnTop S r := by
  induction r with
  | nil => simp [Items.modify]
  | text c r ih => simp only [Items.modify, noSnTop]; exact ih hf
  | elem h k r _ ih =>
    have ih := ih (fun h0 k0 ho => hf h0 k0 (Or.inr (Or.inr ho)))
    simp only [Items.modify]
    split
    · rename_i heq
      simp only [noSnTop, hf h k (Or.inl ⟨rfl, rfl⟩) heq, ih]
    · simp only [noSnTop, ih]

/-- what an edit of node `t` must do for the SHORT-NAME discipline to survive: keep name and type; if `t` is a (proper)
SHORT-NAME it stays one; its new content obeys the discipline -/
def KeepsSn (t : Nat) (f : Hdr → Items → Hdr × Items) (its : Items) : Prop :=
  ∀ h k, Occ h k its → h.id = t → (f h k).1.name = h.name ∧ (f h k).1.ety = h.ety ∧
    (h.name = S.nmShortName → properSn S h k → properSn S (f h k).1 (f h k).2) ∧
    (kidsOk S h k → SnOk S k → kidsOk S (f h k).1 (f h k).2 ∧ SnOk S (f h k).2)

theorem kidsOk_hdr (h h' : Hdr) (k : Items) (ht : h'.ety = h.ety) : kidsOk S h' k ↔ kidsOk S h k := by
  cases k <;> simp only [kidsOk, ht]

theorem properSn_hdr (h h' : Hdr) (k : Items) (ht : h'.ety = h.ety) : properSn S h' k ↔ properSn S h k := by
  simp only [properSn, ht]

theorem kidsOk_modify (h : Hdr) (t : Nat) (f : Hdr → Items → Hdr × Items) (k : Items) (hf : KeepsSn S t f k)
    (hk : kidsOk S h k) : kidsOk S h (k.modify t f) := by
  cases k with
  | nil => trivial
  | text c r =>
    simp only [Items.modify, kidsOk] at *
    exact (noSnTop_modify S t f r (fun h0 k0 ho e => (hf h0 k0 ho e).1)).mpr hk
  | elem sh sk r =>
    have hname : ∀ h0 k0, Occ h0 k0 r → h0.id = t → (f h0 k0).1.name = h0.name :=
      fun h0 k0 ho e => (hf h0 k0 (Or.inr (Or.inr ho)) e).1
    simp only [kidsOk] at hk
    simp only [Items.modify]
    split
    · rename_i heq
      obtain ⟨h1, h2, h3, _⟩ := hf sh sk (Or.inl ⟨rfl, rfl⟩) heq
      simp only [kidsOk, h1, h2]
      exact ⟨fun hsn => ⟨(hk.1 hsn).1, h3 hsn (hk.1 hsn).2⟩, (noSnTop_modify S t f r hname).mpr hk.2⟩
    · simp only [kidsOk]
      refine ⟨fun hsn => ⟨(hk.1 hsn).1, ?_⟩, (noSnTop_modify S t f r hname).mpr hk.2⟩
      -- a proper SHORT-NAME holds one text: `modify` below it changes nothing
      obtain ⟨p1, p2, p3, n, hn, hs⟩ := (hk.1 hsn).2
      subst hn
      exact ⟨p1, p2, p3, n, by simp [Items.modify], hs⟩

theorem snOk_modify (t : Nat) (f : Hdr → Items → Hdr × Items) (its : Items) (hf : KeepsSn S t f its) (h : SnOk S its) :
    SnOk S (its.modify t f) := by
  induction its with
  | nil => trivial
  | text c r ih => simp only [Items.modify, SnOk] at *; exact ih hf h
  | elem hd k r ihk ihr =>
    have hfk : KeepsSn S t f k := fun h0 k0 ho => hf h0 k0 (Or.inr (Or.inl ho))
    have hfr : KeepsSn S t f r := fun h0 k0 ho => hf h0 k0 (Or.inr (Or.inr ho))
    simp only [SnOk] at h
    simp only [Items.modify]
    split
    · rename_i heq
      obtain ⟨_, _, _, h4⟩ := hf hd k (Or.inl ⟨rfl, rfl⟩) heq
      obtain ⟨a, b⟩ := h4 h.1 h.2.1
      exact ⟨a, b, ihr hfr h.2.2⟩
    · exact ⟨kidsOk_modify S hd t f k hfk h.1, ihk hfk h.2.1, ihr hfr h.2.2⟩

theorem noSnTop_insertAt (nh : Hdr) (nk : Items) (hn : nh.name ≠ S.nmShortName) (k : Items) (pos : Nat) (hk : noSnTop S k) :
    noSnTop S (k.insertAt (fun r => .elem nh nk r) pos) := by
  induction k generalizing pos with
  | nil => cases pos <;> exact ⟨hn, trivial⟩
  | text c r ih =>
    cases pos with
    | zero => exact ⟨hn, hk⟩
    | succ q => simp only [Items.insertAt, noSnTop] at *; exact ih q hk
  | elem h kk r _ ih =>
    cases pos with
    | zero => exact ⟨hn, hk⟩
    | succ q => simp only [Items.insertAt, noSnTop] at *; exact ⟨hk.1, ih q hk.2⟩

theorem noSnTop_insertText (c : CDv) (k : Items) (pos : Nat) (hk : noSnTop S k) :
    noSnTop S (k.insertAt (fun r => .text c r) pos) := by
  induction k generalizing pos with
  | nil => cases pos <;> exact hk
  | text c' r ih =>
    cases pos with
    | zero => exact hk
    | succ q => simp only [Items.insertAt, noSnTop] at *; exact ih q hk
  | elem h kk r _ ih =>
    cases pos with
    | zero => exact hk
    | succ q => simp only [Items.insertAt, noSnTop] at *; exact ⟨hk.1, ih q hk.2⟩

theorem noSnTop_removeAt (k : Items) (pos : Nat) (hk : noSnTop S k) : noSnTop S (k.removeAt pos) := by
  induction k generalizing pos with
  | nil => exact hk
  | text c r ih =>
    cases pos with
    | zero => exact hk
    | succ q => simp only [Items.removeAt, noSnTop] at *; exact ih q hk
  | elem h kk r _ ih =>
    cases pos with
    | zero => exact hk.2
    | succ q => simp only [Items.removeAt, noSnTop] at *; exact ⟨hk.1, ih q hk.2⟩

theorem not_firstIsSn_of_noSnTop (k : Items) (hk : noSnTop S k) : ¬ firstIsSn S k := by
  cases k with
  | nil => exact id
  | text _ _ => exact id
  | elem h _ _ => exact hk.1

/-- inserting an element that is not a SHORT-NAME, not in front of a SHORT-NAME -/
theorem kidsOk_insertAt (h nh : Hdr) (nk : Items) (hn : nh.name ≠ S.nmShortName) (k : Items) (pos : Nat)
    (hpos : firstIsSn S k → 1 ≤ pos) (hk : kidsOk S h k) : kidsOk S h (k.insertAt (fun r => .elem nh nk r) pos) := by
  cases k with
  | nil => cases pos <;> exact ⟨fun e => absurd e hn, trivial⟩
  | text c r =>
    cases pos with
    | zero => exact ⟨fun e => absurd e hn, hk⟩
    | succ q => exact noSnTop_insertAt S nh nk hn r q hk
  | elem sh sk r =>
    cases pos with
    | zero =>
      have hsn : sh.name ≠ S.nmShortName := fun e => by have := hpos e; omega
      exact ⟨fun e => absurd e hn, hsn, hk.2⟩
    | succ q => exact ⟨hk.1, noSnTop_insertAt S nh nk hn r q hk.2⟩

theorem kidsOk_insertText (h : Hdr) (c : CDv) (k : Items) (pos : Nat)
    (hpos : firstIsSn S k → 1 ≤ pos) (hk : kidsOk S h k) : kidsOk S h (k.insertAt (fun r => .text c r) pos) := by
  cases k with
  | nil => cases pos <;> exact hk
  | text c' r =>
    cases pos with
    | zero => exact hk
    | succ q => exact noSnTop_insertText S c r q hk
  | elem sh sk r =>
    cases pos with
    | zero =>
      have hsn : sh.name ≠ S.nmShortName := fun e => by have := hpos e; omega
      exact ⟨hsn, hk.2⟩
    | succ q => exact ⟨hk.1, noSnTop_insertText S c r q hk.2⟩

/-- removing a content item that is not the SHORT-NAME -/
theorem kidsOk_removeAt (h : Hdr) (k : Items) (pos : Nat) (hpos : firstIsSn S k → 1 ≤ pos) (hk : kidsOk S h k) :
    kidsOk S h (k.removeAt pos) := by
  cases k with
  | nil => exact hk
  | text c r =>
    cases pos with
    | zero =>
      simp only [Items.removeAt]
      cases r with
      | nil => trivial
      | text _ r' => exact hk
      | elem sh sk r' => exact ⟨fun e => absurd e hk.1, hk.2⟩
    | succ q => exact noSnTop_removeAt S r q hk
  | elem sh sk r =>
    cases pos with
    | zero =>
      have hsn : sh.name ≠ S.nmShortName := fun e => by have := hpos e; omega
      simp only [Items.removeAt]
      cases r with
      | nil => trivial
      | text _ r' => exact hk.2
      | elem sh' sk' r' => exact ⟨fun e => absurd e hk.2.1, hk.2.2⟩
    | succ q => exact ⟨hk.1, noSnTop_removeAt S r q hk.2⟩

theorem snOk_insertAt (nh : Hdr) (nk : Items) (hnew : kidsOk S nh nk ∧ SnOk S nk) (k : Items) (pos : Nat) (hk : SnOk S k) :
    SnOk S (k.insertAt (fun r => .elem nh nk r) pos) := by
  induction k generalizing pos with
  | nil => cases pos <;> exact ⟨hnew.1, hnew.2, trivial⟩
  | text c r ih =>
    cases pos with
    | zero => exact ⟨hnew.1, hnew.2, hk⟩
    | succ q => simp only [Items.insertAt, SnOk] at *; exact ih q hk
  | elem h kk r _ ih =>
    cases pos with
    | zero => exact ⟨hnew.1, hnew.2, hk⟩
    | succ q => simp only [Items.insertAt, SnOk] at *; exact ⟨hk.1, hk.2.1, ih q hk.2.2⟩

theorem snOk_insertText (c : CDv) (k : Items) (pos : Nat) (hk : SnOk S k) : SnOk S (k.insertAt (fun r => .text c r) pos) := by
  induction k generalizing pos with
  | nil => cases pos <;> exact hk
  | text c' r ih =>
    cases pos with
    | zero => exact hk
    | succ q => simp only [Items.insertAt, SnOk] at *; exact ih q hk
  | elem h kk r _ ih =>
    cases pos with
    | zero => exact hk
    | succ q => simp only [Items.insertAt, SnOk] at *; exact ⟨hk.1, hk.2.1, ih q hk.2.2⟩

theorem snOk_removeAt (k : Items) (pos : Nat) (hk : SnOk S k) : SnOk S (k.removeAt pos) := by
  induction k generalizing pos with
  | nil => exact hk
  | text c r ih =>
    cases pos with
    | zero => exact hk
    | succ q => simp only [Items.removeAt, SnOk] at *; exact ih q hk
  | elem h kk r _ ih =>
    cases pos with
    | zero => exact hk.2.2
    | succ q => simp only [Items.removeAt, SnOk] at *; exact ⟨hk.1, hk.2.1, ih q hk.2.2⟩

end
end AV.W

namespace AV.W
open Items
section
variable (S : Spec)

/-! ### `entries` and `itemName` under insertion / removal of one content item -/

theorem itemName_insertAt (h nh : Hdr) (nk : Items) (hn : nh.name ≠ S.nmShortName) (k : Items) (pos : Nat)
    (hpos : firstIsSn S k → 1 ≤ pos) : itemName S h (k.insertAt (fun r => .elem nh nk r) pos) = itemName S h k := by
  cases k with
  | nil =>
    have : itemName S h (.elem nh nk .nil) = none := itemName_none_of_not_sn S h _ hn
    cases pos <;> simp only [Items.insertAt, this] <;> exact (itemName_none_of_not_sn S h .nil id).symm
  | text c r =>
    cases pos with
    | zero =>
      simp only [Items.insertAt]
      rw [itemName_none_of_not_sn S h _ (by exact hn), itemName_none_of_not_sn S h (.text c r) id]
    | succ q =>
      simp only [Items.insertAt]
      rw [itemName_none_of_not_sn S h (.text c _) id, itemName_none_of_not_sn S h (.text c r) id]
  | elem sh sk r =>
    cases pos with
    | zero =>
      have hsn : sh.name ≠ S.nmShortName := fun e => by have := hpos e; omega
      simp only [Items.insertAt]
      rw [itemName_none_of_not_sn S h _ (by exact hn), itemName_none_of_not_sn S h (.elem sh sk r) hsn]
    | succ q => simp only [Items.insertAt, itemName]

theorem itemName_insertText (h : Hdr) (c : CDv) (k : Items) (pos : Nat)
    (hpos : firstIsSn S k → 1 ≤ pos) : itemName S h (k.insertAt (fun r => .text c r) pos) = itemName S h k := by
  cases k with
  | nil => cases pos <;> simp only [Items.insertAt, itemName]
  | text c' r => cases pos <;> simp only [Items.insertAt, itemName]
  | elem sh sk r =>
    cases pos with
    | zero =>
      have hsn : sh.name ≠ S.nmShortName := fun e => by have := hpos e; omega
      simp only [Items.insertAt]
      rw [itemName_none_of_not_sn S h (.text c _) id, itemName_none_of_not_sn S h (.elem sh sk r) hsn]
    | succ q => simp only [Items.insertAt, itemName]

theorem itemName_removeAt (h : Hdr) (k : Items) (pos : Nat) (hk : kidsOk S h k) (hpos : firstIsSn S k → 1 ≤ pos) :
    itemName S h (k.removeAt pos) = itemName S h k := by
  cases k with
  | nil => rfl
  | text c r =>
    cases pos with
    | zero =>
      simp only [Items.removeAt]
      rw [itemName_none_of_not_sn S h r (not_firstIsSn_of_noSnTop S r hk), itemName_none_of_not_sn S h (.text c r) id]
    | succ q => simp only [Items.removeAt, itemName]
  | elem sh sk r =>
    cases pos with
    | zero =>
      have hsn : sh.name ≠ S.nmShortName := fun e => by have := hpos e; omega
      simp only [Items.removeAt]
      rw [itemName_none_of_not_sn S h r (not_firstIsSn_of_noSnTop S r hk.2), itemName_none_of_not_sn S h (.elem sh sk r) hsn]
    | succ q => simp only [Items.removeAt, itemName]

theorem entries_insertAt (nh : Hdr) (nk : Items) (k : Items) (pos : Nat) (pre : Bytes) :
    (entries S (k.insertAt (fun r => .elem nh nk r) pos) pre).Perm (entries S (.elem nh nk .nil) pre ++ entries S k pre) := by
  have hsplit : ∀ r, entries S (.elem nh nk r) pre = entries S (.elem nh nk .nil) pre ++ entries S r pre := by
    intro r
    simp only [entries]
    split <;> simp
  induction k generalizing pos with
  | nil => cases pos <;> simp only [Items.insertAt] <;> exact (hsplit .nil) ▸ List.Perm.refl _
  | text c r ih =>
    cases pos with
    | zero => simp only [Items.insertAt]; exact (hsplit _) ▸ List.Perm.refl _
    | succ q => simp only [Items.insertAt, entries]; exact ih q
  | elem h kk r _ ih =>
    cases pos with
    | zero => simp only [Items.insertAt]; exact (hsplit _) ▸ List.Perm.refl _
    | succ q =>
      simp only [Items.insertAt]
      have hs2 : ∀ r', entries S (.elem h kk r') pre = entries S (.elem h kk .nil) pre ++ entries S r' pre := by
        intro r'
        simp only [entries]
        split <;> simp
      rw [hs2, hs2 r]
      refine List.Perm.trans (List.Perm.append_left _ (ih q)) ?_
      rw [← List.append_assoc, ← List.append_assoc]
      exact List.Perm.append_right _ List.perm_append_comm

/-- inserting an element that contributes no entries -/
theorem entries_insertAt_none (nh : Hdr) (nk : Items) (hnone : ∀ pre, entries S (.elem nh nk .nil) pre = []) (k : Items) (pos : Nat)
    (pre : Bytes) : entries S (k.insertAt (fun r => .elem nh nk r) pos) pre = entries S k pre := by
  have hsplit : ∀ r, entries S (.elem nh nk r) pre = entries S r pre := by
    intro r
    have h0 := hnone pre
    simp only [entries] at h0 ⊢
    cases hn : itemName S nh nk with
    | some n => rw [hn] at h0; simp at h0
    | none =>
      rw [hn] at h0
      simp only [List.append_nil, entries] at h0
      simp only [h0, List.nil_append]
  induction k generalizing pos with
  | nil => cases pos <;> simp only [Items.insertAt] <;> exact hsplit _
  | text c r ih =>
    cases pos with
    | zero => simp only [Items.insertAt]; exact hsplit _
    | succ q => simp only [Items.insertAt, entries]; exact ih q
  | elem h kk r _ ih =>
    cases pos with
    | zero => simp only [Items.insertAt]; exact hsplit _
    | succ q => simp only [Items.insertAt, entries, ih q]

theorem entries_insertText (c : CDv) (k : Items) (pos : Nat) (pre : Bytes) :
    entries S (k.insertAt (fun r => .text c r) pos) pre = entries S k pre := by
  induction k generalizing pos with
  | nil => cases pos <;> rfl
  | text c' r ih =>
    cases pos with
    | zero => rfl
    | succ q => simp only [Items.insertAt, entries]; exact ih q
  | elem h kk r _ ih =>
    cases pos with
    | zero => rfl
    | succ q => simp only [Items.insertAt, entries, ih q]

/-- the content item at position `pos`, as a one-item forest -/
def itemAt : Items → Nat → Items
  | .nil, _ => .nil
  | .elem h k _, 0 => .elem h k .nil
  | .text c _, 0 => .text c .nil
  | .elem _ _ r, q + 1 => itemAt r q
  | .text _ r, q + 1 => itemAt r q

theorem entries_removeAt (k : Items) (pos : Nat) (pre : Bytes) :
    (entries S k pre).Perm (entries S (itemAt k pos) pre ++ entries S (k.removeAt pos) pre) := by
  induction k generalizing pos with
  | nil => simp [itemAt, Items.removeAt, entries]
  | text c r ih =>
    cases pos with
    | zero => simp [itemAt, Items.removeAt, entries]
    | succ q => simp only [itemAt, Items.removeAt, entries]; exact ih q
  | elem h kk r _ ih =>
    have hs2 : ∀ r', entries S (.elem h kk r') pre = entries S (.elem h kk .nil) pre ++ entries S r' pre := by
      intro r'
      simp only [entries]
      split <;> simp
    cases pos with
    | zero => simp only [itemAt, Items.removeAt]; rw [hs2 r]
    | succ q =>
      simp only [itemAt, Items.removeAt]
      rw [hs2 r, hs2 (r.removeAt q)]
      refine List.Perm.trans (List.Perm.append_left _ (ih q)) ?_
      rw [← List.append_assoc, ← List.append_assoc]
      exact List.Perm.append_right _ List.perm_append_comm

theorem ids_removeAt (k : Items) (pos : Nat) : k.ids.Perm ((itemAt k pos).ids ++ (k.removeAt pos).ids) := by
  induction k generalizing pos with
  | nil => simp [itemAt, Items.removeAt, Items.ids]
  | text c r ih =>
    cases pos with
    | zero => simp [itemAt, Items.removeAt, Items.ids]
    | succ q => simp only [itemAt, Items.removeAt, Items.ids]; exact ih q
  | elem h kk r _ ih =>
    cases pos with
    | zero => simp [itemAt, Items.removeAt, Items.ids]
    | succ q =>
      simp only [itemAt, Items.removeAt, Items.ids]
      have := ih q
      refine List.Perm.trans (List.Perm.cons _ (List.Perm.append_left _ this)) ?_
      have e1 : h.id :: (kk.ids ++ ((itemAt r q).ids ++ (r.removeAt q).ids)) = (h.id :: kk.ids) ++ ((itemAt r q).ids ++ (r.removeAt q).ids) := by simp
      have e2 : (itemAt r q).ids ++ h.id :: (kk.ids ++ (r.removeAt q).ids) = (itemAt r q).ids ++ ((h.id :: kk.ids) ++ (r.removeAt q).ids) := by simp
      rw [e1, e2, ← List.append_assoc, ← List.append_assoc]
      exact List.Perm.append_right _ List.perm_append_comm

theorem removeAt_text (k : Items) (pos : Nat) (h : isTextAt k pos = true) :
    (k.removeAt pos).ids = k.ids ∧ ∀ pre, entries S (k.removeAt pos) pre = entries S k pre := by
  induction k generalizing pos with
  | nil => simp [isTextAt] at h
  | text c r ih =>
    cases pos with
    | zero => exact ⟨rfl, fun _ => rfl⟩
    | succ q =>
      simp only [isTextAt] at h
      simp only [Items.removeAt, Items.ids, entries]
      exact ih q h
  | elem hd kk r _ ih =>
    cases pos with
    | zero => simp [isTextAt] at h
    | succ q =>
      simp only [isTextAt] at h
      obtain ⟨a, b⟩ := ih q h
      simp only [Items.removeAt, Items.ids, entries, a, b]
      exact ⟨trivial, fun _ => trivial⟩

theorem child_itemAt (cid : Nat) (k : Items) (i pos : Nat) (ch : Hdr) (ck : Items)
    (hp : k.childPos cid i = some pos) (hc : k.child cid = some (ch, ck)) :
    i ≤ pos ∧ itemAt k (pos - i) = .elem ch ck .nil ∧ ch.id = cid := by
  induction k generalizing i with
  | nil => simp [Items.childPos] at hp
  | text c r ih =>
    simp only [Items.childPos, Items.child] at hp hc
    obtain ⟨h1, h2, h3⟩ := ih (i + 1) hp hc
    refine ⟨by omega, ?_, h3⟩
    have : pos - i = (pos - (i + 1)) + 1 := by omega
    rw [this]; exact h2
  | elem h kk r _ ih =>
    simp only [Items.childPos, Items.child] at hp hc
    split at hp
    · rename_i heq
      simp only [heq, if_true] at hc
      simp at hp hc
      subst hp
      obtain ⟨rfl, rfl⟩ := hc
      exact ⟨Nat.le_refl _, by simp [itemAt], heq⟩
    · rename_i hne
      simp only [hne, if_false] at hc
      obtain ⟨h1, h2, h3⟩ := ih (i + 1) hp hc
      refine ⟨by omega, ?_, h3⟩
      have : pos - i = (pos - (i + 1)) + 1 := by omega
      rw [this]; exact h2

/-! ### located edits: the prefix handed to the content of node `t` -/

/-- the path prefix handed down to the content of node `t` (= `path_unchecked` of `t`) -/
def kpre : Items → Bytes → Nat → Option Bytes
  | .nil, _, _ => none
  | .text _ r, pre, t => kpre r pre t
  | .elem h k r, pre, t =>
    let pre' := match itemName S h k with
      | some n => pre ++ [47] ++ n
      | none => pre
    if h.id = t then some pre'
    else match kpre k pre' t with
      | some x => some x
      | none => kpre r pre t

theorem kpre_none_of_not_mem (its : Items) (pre : Bytes) (t : Nat) (h : t ∉ its.ids) : kpre S its pre t = none := by
  induction its generalizing pre with
  | nil => rfl
  | text c r ih => simp only [kpre]; exact ih pre (by simpa [Items.ids] using h)
  | elem hd k r ihk ihr =>
    simp only [Items.ids, List.mem_cons, List.mem_append, not_or] at h
    simp only [kpre]
    rw [if_neg (fun e => h.1 e.symm), ihk _ h.2.1, ihr _ h.2.2]

/-- an edit of the content of the (unique) node `t` that changes the entries below `t` by `A` / `B` changes the entries of the
forest by `A` / `B` at the prefix of `t`'s content -/
theorem entries_modify_located (t : Nat) (f : Hdr → Items → Hdr × Items)
    (A B : Bytes → List (Bytes × Nat)) (its : Items) (hv : KeepsView S t f its)
    (hf : ∀ h k, Occ h k its → h.id = t → itemName S (f h k).1 (f h k).2 = itemName S h k ∧
      ∀ pre, (entries S (f h k).2 pre ++ A pre).Perm (entries S k pre ++ B pre))
    (hn : its.ids.Nodup) (hm : t ∈ its.ids) (pre : Bytes) :
    ∃ p, kpre S its pre t = some p ∧ (entries S (its.modify t f) pre ++ A p).Perm (entries S its pre ++ B p) := by
  induction its generalizing pre with
  | nil => simp [Items.ids] at hm
  | text c r ih => simp only [Items.modify, Items.ids, entries, kpre] at *; exact ih hv hf hn hm pre
  | elem hd k r ihk ihr =>
    have ihk := ihk hv.kids (fun h0 k0 ho => hf h0 k0 (Or.inr (Or.inl ho)))
    have ihr := ihr hv.rest (fun h0 k0 ho => hf h0 k0 (Or.inr (Or.inr ho)))
    simp only [Items.ids, List.nodup_cons, List.nodup_append, List.mem_append, not_or] at hn
    obtain ⟨hn1, hnk, hnr, hdis⟩ := hn
    simp only [Items.modify]
    split
    · rename_i heq
      obtain ⟨h1, h2⟩ := hf hd k (Or.inl ⟨rfl, rfl⟩) heq
      obtain ⟨_, _, h5, _⟩ := hv.here S heq
      have hr : t ∉ r.ids := by rw [← heq]; exact hn1.2
      rw [modify_not_mem t f r hr]
      simp only [kpre, heq, if_true, entries, h1, h5]
      cases hin : itemName S hd k with
      | some n =>
        refine ⟨_, rfl, ?_⟩
        simp only [List.cons_append]
        exact List.Perm.cons _ (perm3l _ (h2 (pre ++ [47] ++ n)))
      | none =>
        exact ⟨_, rfl, perm3l _ (h2 pre)⟩
    · rename_i hne
      simp only [Items.ids, List.mem_cons, List.mem_append] at hm
      have hin : itemName S hd (k.modify t f) = itemName S hd k := itemName_modify S hd t f k hv.kids
      rcases hm with hm | hm | hm
      · exact absurd hm.symm hne
      · have hr : t ∉ r.ids := fun hx => hdis t hm t hx rfl
        rw [modify_not_mem t f r hr]
        simp only [kpre, if_neg hne, entries, hin]
        cases hnm : itemName S hd k with
        | some n =>
          obtain ⟨p, hp, hperm⟩ := ihk hnk hm (pre ++ [47] ++ n)
          refine ⟨p, by simp only [hp], ?_⟩
          simp only [List.cons_append]
          exact List.Perm.cons _ (perm3l _ hperm)
        | none =>
          obtain ⟨p, hp, hperm⟩ := ihk hnk hm pre
          exact ⟨p, by simp only [hp], perm3l _ hperm⟩
      · have hk : t ∉ k.ids := fun hx => hdis t hx t hm rfl
        rw [modify_not_mem t f k hk]
        obtain ⟨p, hp, hperm⟩ := ihr hnr hm pre
        simp only [kpre, if_neg hne, entries]
        rw [kpre_none_of_not_mem S k _ t hk]
        refine ⟨p, hp, ?_⟩
        cases hnm : itemName S hd k with
        | some n =>
          simp only [List.cons_append]
          exact List.Perm.cons _ (perm3r _ hperm)
        | none =>
          exact perm3r _ hperm

end
end AV.W
