/-
C04, the history invariant, part 3: remove_from_file / remove_file (which remove elements that end up in no file),
set_character_data (incl. the SHORT-NAME case = renaming through the text), set_item_name, and the step theorem.
-/
import AutosarVerif.Lemmas.IndexOps2
import AutosarVerif.Lemmas.IndexFileOps

namespace AV.W
open Items

section
variable (S : Spec) (V : Env) (vOk : Nat)

theorem removeAll_inv (ids : List Nat) : ∀ (w : World), WInv S vOk w → WInv S vOk (removeAll S w ids) := by
  induction ids with
  | nil => intro w hw; exact hw
  | cons id rest ih =>
    intro w hw
    simp only [removeAll]
    apply ih
    split
    · split
      · exact opRemove_inv S vOk w _ _ hw
      · exact hw
    · exact hw

theorem opRmFromFile_inv (w : World) (x f : Nat) (hw : WInv S vOk w) : WInv S vOk (opRmFromFile S w x f).1 := by
  unfold opRmFromFile
  split
  · exact hw
  · dsimp only
    split
    · exact hw
    · split
      · exact hw
      · split
        · exact hw
        · split
          · exact hw
          · rename_i cur _
            -- the world after the element itself was removed (if no file is left for it)
            have hw1 : WInv S vOk (if (cur.filter (· != f)).isEmpty then
                (match (‹List (Hdr × Items)›).dropLast.getLast? with
                  | some (ph, _) => (opRemove S w ph.id x).1
                  | none => w) else w) := by
              split
              · split
                · exact opRemove_inv S vOk w _ _ hw
                · exact hw
              · exact hw
            split
            · exact hw1
            · rename_i k1 c1 hloc1
              obtain ⟨m1, _, hm2, hmem1, _⟩ := locate_chain _ x k1 c1 hloc1
              apply removeAll_inv
              refine winv_update S vOk _ _ k1 _ hw1 (Nat.le_refl _) ?_ rfl
              rw [hm2]
              exact rmAt_minv S vOk _ m1 f x (hw1 m1 hmem1)

theorem swapRemove_sub (l : List File) (pos : Nat) : ∀ g ∈ swapRemove l pos, g ∈ l := by
  intro g hg
  unfold swapRemove at hg
  split at hg
  · rename_i last hl
    split at hg
    · exact List.dropLast_subset _ hg
    · have := List.dropLast_subset _ hg
      rcases List.mem_or_eq_of_mem_set this with h | h
      · exact h
      · rw [h]; exact List.mem_of_getLast? hl
  · exact hg

theorem opRmFile_inv (w : World) (k f : Nat) (hw : WInv S vOk w) : WInv S vOk (opRmFile S w k f).1 := by
  unfold opRmFile
  split
  · exact hw
  · rename_i m hk
    split
    · exact hw
    · rename_i pos _
      dsimp only
      split
      · exact hw
      · apply opRmFromFile_inv
        refine winv_update S vOk w _ k _ hw (Nat.le_refl _) ?_ rfl
        have hm := hw m (List.mem_of_getElem? hk)
        exact { hm with vers := fun g hg => hm.vers g (swapRemove_sub m.files pos g hg) }

end
end AV.W
