/-
`EnumKeysNodup` (the hypothesis of direction (1) of `Lemmas/CompatValid.lean`: every enumeration of the specification lists each
item once) on the real specification tables, by kernel evaluation of a linear scan (the items seen so far are the bits of a
natural number).
-/
import AutosarVerif.Gen.SpecData
import AutosarVerif.Lemmas.CompatValid

namespace AV.Gen
open AV.W

/-- no key occurs twice, and no key is a bit of `seen` -/
def keysNodupM : List (Nat × Nat) → Nat → Bool
  | [], _ => true
  | a :: r, seen => !(seen.testBit a.1) && keysNodupM r (seen ||| 2 ^ a.1)

def keysNodupB : CSpec → Bool
  | .enum items => keysNodupM items 0
  | _ => true

theorem keysNodupM_sound (l : List (Nat × Nat)) : ∀ seen, keysNodupM l seen = true →
    (l.Pairwise fun a b => a.1 ≠ b.1) ∧ ∀ a ∈ l, seen.testBit a.1 = false := by
  induction l with
  | nil => intro _ _; exact ⟨List.Pairwise.nil, fun a ha => by cases ha⟩
  | cons a r ih =>
    intro seen h
    simp only [keysNodupM, Bool.and_eq_true, Bool.not_eq_true'] at h
    obtain ⟨hp, hs⟩ := ih _ h.2
    have key : ∀ b ∈ r, seen.testBit b.1 = false ∧ a.1 ≠ b.1 := by
      intro b hb
      have := hs b hb
      simp only [Nat.testBit_or, Nat.testBit_two_pow, Bool.or_eq_false_iff, decide_eq_false_iff_not] at this
      exact this
    refine ⟨List.Pairwise.cons (fun b hb => (key b hb).2) hp, fun b hb => ?_⟩
    rcases List.mem_cons.mp hb with rfl | hb
    · exact h.1
    · exact (key b hb).1

theorem keysNodupB_sound (sp : CSpec) (h : keysNodupB sp = true) : sp.KeysNodup := by
  cases sp with
  | enum items => exact (keysNodupM_sound items 0 h).1
  | _ => trivial

theorem realSpec_keysOk : SpecData.cspecs.all (fun c => c.all keysNodupB) = true := by decide +kernel

theorem getD_getD_keys (ll : List (List CSpec)) (h : ll.all (fun c => c.all keysNodupB) = true) (a b : Nat) :
    ((ll.getD a []).getD b default).KeysNodup := by
  simp only [List.getD_eq_getElem?_getD]
  cases ha : ll[a]? with
  | none => simp only [Option.getD_none, List.getElem?_nil]; exact List.Pairwise.nil
  | some c =>
    simp only [Option.getD_some]
    cases hb : c[b]? with
    | none => exact List.Pairwise.nil
    | some sp =>
      simp only [Option.getD_some]
      have hc := List.mem_of_getElem? ha
      have hs := List.mem_of_getElem? hb
      exact keysNodupB_sound sp (List.all_eq_true.mp (List.all_eq_true.mp h c hc) sp hs)

/-- every enumeration of the real specification lists each item once: direction (1) of `Lemmas/CompatValid.lean` ("valid ⇒ the
check lists nothing") holds for the real tables without a hypothesis on the specification -/
theorem realSpec_enumKeysNodup : EnumKeysNodup realSpec := fun _ =>
  getD_getD_keys SpecData.cspecs realSpec_keysOk _ _

/-- (1) on the real tables: content that is valid in `ver` — the compatibility check lists nothing and does not panic -/
theorem realSpec_valid_compat_nil (file ver : Nat) (h : Hdr) (k : Items) (hv : NodeValid realSpec file ver h k) :
    (compatNode realSpec file ver h k).errs = [] ∧ (compatNode realSpec file ver h k).panic = false :=
  nodeValid_compat_nil realSpec realSpec_enumKeysNodup file ver h k hv

/-- … so `set_version` to a version in which the content of the model is valid succeeds -/
theorem realSpec_setVersion_of_valid (w : World) (f ver k : Nat) (hk : fileModel w f = some k)
    (hv : NodeValid realSpec f ver (w.models[k]!).rootHdr (w.models[k]!).rootKids) :
    (opSetVersion realSpec w f ver).2 = .ok "" :=
  opSetVersion_of_valid realSpec realSpec_enumKeysNodup w f ver k hk hv


end AV.Gen
