/-
C01, element level, part 2: `Valid` and the main induction — the element loop of the parser (`pLoop`), run on a
tokenizer state that runs through the events of a serialized content list, rebuilds that content list (`relabel`).
-/
import AutosarVerif.Lemmas.SerParse

namespace AV.SerParse
open AV.W AV.Lex AV.PM AV.SerLex

/-! ### what a quiet step keeps -/

structure Keeps (s s' : PState) : Prop where
  warnings : s'.warnings = s.warnings
  ver : s'.ver = s.ver
  standalone : s'.standalone = s.standalone
  nextId : s'.nextId = s.nextId

theorem Keeps.refl (s : PState) : Keeps s s := ⟨rfl, rfl, rfl, rfl⟩
theorem Keeps.trans {a b c : PState} (h1 : Keeps a b) (h2 : Keeps b c) : Keeps a c :=
  ⟨h2.1.trans h1.1, h2.2.trans h1.2, h2.3.trans h1.3, h2.4.trans h1.4⟩

/-! ### the value level, semantically: the text of the value is read back as the value -/

/-- the text `t` is typed as `v` by `parse_character_data`, without error or warning, in every state of version `ver`
(only `version_compatibility` may change) -/
def CDRound (V : Env) (ver : Nat) (spec : CSpec) (v : CDv) (t : Bytes) : Prop :=
  ∀ (b : Bool) (s : PState), s.ver = ver → ∃ c, parseCD V t spec b s = (.ok v, { s with compat := c })

/-- character content `c` of an element of type `pt`: the type has character data, the text is not blank, and it is
read back as `c` -/
def TextOK (S : Spec) (V : Env) (ver pt : Nat) (c : CDv) : Prop :=
  ∃ spec t, S.chardataSpec pt = some spec ∧ serVal V c = some t ∧ t.all isWs = false ∧ CDRound V ver spec c t

/-- the attribute list is read back from its text -/
def AttrsRound (S : Spec) (V : Env) (ver typ : Nat) (attrs : List (Nat × CDv)) : Prop :=
  ∃ t, serAttrs V attrs = some t ∧
    ∀ (b : Bool) (s : PState), s.ver = ver → ∃ c, parseAttrs S V typ (t.drop 1) b s = (.ok attrs, { s with compat := c })

/-! ### the checks of `parse_element`, as propositions -/

/-- `check_element_conflict` accepts -/
def ConflictOK (S : Spec) (pt : Nat) (old new : List Nat) : Prop :=
  old = [] ∨ old = new ∨
    (S.mode (S.commonGroup pt old new) ≠ .choice ∧ S.mode (S.commonGroup pt old new) ≠ .characters)

/-- `check_multiplicity` accepts (`seen` = the names of the preceding sibling elements) -/
def MultOK (S : Spec) (pt name : Nat) (idx : List Nat) (seen : List Nat) : Prop :=
  ∃ md, S.containerMode pt idx = some md ∧
    ((md = .sequence ∨ md = .choice) → ∀ mu, S.subMult pt idx = some mu → mu = .any ∨ name ∉ seen)

def hasSN (S : Spec) : Items → Bool
  | .nil => false
  | .text _ r => hasSN S r
  | .elem h _ r => h.name == S.nmShortName || hasSN S r

/-- **`Valid`, content level**: the content list `its` of an element of type `pt` is accepted by the strict parser in
version `ver` and read back unchanged.  `mixed`: character items are allowed (MIXED content; CHARACTERS content is the
special case of one character item); `prevText`: the preceding item is a character item (two adjacent character items
would be read back as one); `pi`: index path of the preceding element (`check_element_conflict`); `seen`: names of the
preceding elements, `ne`: something precedes (`check_multiplicity`). -/
def ValidC (S : Spec) (V : Env) (ver : Nat) : Nat → Bool → Items → Bool → List Nat → List Nat → Bool → Prop
  | _, _, .nil, _, _, _, _ => True
  | pt, mixed, .text c r, prevText, pi, seen, _ =>
    mixed = true ∧ prevText = false ∧ TextOK S V ver pt c ∧ ValidC S V ver pt mixed r true pi seen true
  | pt, mixed, .elem h k r, _, pi, seen, ne =>
    (∃ idx, S.findSub pt h.name ver = some (h.ety, idx) ∧ ConflictOK S pt pi idx ∧
      (ne = true → MultOK S pt h.name idx seen) ∧ ValidC S V ver pt mixed r false idx (h.name :: seen) true) ∧
    V.elemOf (V.elemText h.name) = some h.name ∧
    AttrsRound S V ver h.ety.typ h.attrs ∧
    (∀ c, h.comment = some c → validUtf8 c = true) ∧
    (S.isNamedIn h.ety.typ ver = true → hasSN S k = true) ∧
    (match S.mode h.ety.typ with
      | .characters => k = .nil ∨ ∃ c, k = .text c .nil ∧ TextOK S V ver h.ety.typ c
      | .mixed => ValidC S V ver h.ety.typ true k false [] [] false
      | _ => k = .nil ∨ ValidC S V ver h.ety.typ false k false [] [] false)

/-! ### the checks succeed -/

section
variable (S : Spec) (V : Env)

theorem findChecked_ok (typ name : Nat) (r : ETy × List Nat) (b : Bool) (s : PState)
    (h : S.findSub typ name s.ver = some r) : findChecked S typ name b s = (.ok r, s) := by
  unfold findChecked
  rw [show getS = (fun _ s => (Except.ok s, s) : P PState) from rfl]
  simp only [bind', h]
  rfl

theorem checkConflict_ok (typ : Nat) (old new : List Nat) (b : Bool) (s : PState) (h : ConflictOK S typ old new) :
    checkConflict S typ old new b s = (.ok (), s) := by
  unfold checkConflict
  rcases h with h | h | h
  · subst h; simp [pure']
  · subst h; simp [pure']
  · have key : ∀ m : Mode, m ≠ .choice → m ≠ .characters → (match m with
        | .choice => optErr kElementChoiceConflict
        | .characters => hardErr kPanic
        | _ => pure' () : P Unit) b s = (.ok (), s) := by
      intro m h1 h2; cases m <;> first | rfl | exact absurd rfl h1 | exact absurd rfl h2
    split
    · rfl
    · exact key _ h.1 h.2

def isEl (name : Nat) : Item → Bool
  | .el h _ => h.name == name
  | .tx _ => false

theorem checkMult_ok (typ name : Nat) (idx : List Nat) (acc : List Item) (seen : List Nat) (b : Bool) (s : PState)
    (hseen : ∀ nm, acc.any (isEl nm) = seen.contains nm)
    (h : MultOK S typ name idx seen) : checkMult S typ name idx acc b s = (.ok (), s) := by
  obtain ⟨md, hmd, hmu⟩ := h
  unfold checkMult
  simp only [hmd]
  split
  · rename_i hsc
    cases hsm : S.subMult typ idx with
    | none => rfl
    | some mu =>
      simp only
      split
      · rename_i hh
        exfalso
        obtain ⟨hne, hany⟩ := hh
        rcases hmu hsc mu hsm with h1 | h1
        · exact hne h1
        · obtain ⟨it, hit, hg⟩ := List.any_eq_true.mp hany
          have h2 : acc.any (isEl name) = true := List.any_eq_true.mpr ⟨it, hit, by cases it <;> exact hg⟩
          rw [hseen name] at h2
          exact h1 (by simpa using h2)
      · rfl
  · rfl

theorem allocId_eq (b : Bool) (s : PState) : allocId b s = (.ok s.nextId, { s with nextId := s.nextId + 1 }) := rfl

end

/-! ### the pending character run and the comment in front of an element -/

/-- what a preceding character item leaves for the next step: its text `p` is still to be read (it comes as ONE
`characters` event in front of the next tag) and will append `pend` to the content -/
def Pending (S : Spec) (V : Env) (ver pt : Nat) (prevText : Bool) (p : Bytes) (pend : List Item) : Prop :=
  (prevText = false ∧ p = [] ∧ pend = []) ∨
  (prevText = true ∧ ∃ c spec, pend = [.tx c] ∧ S.chardataSpec pt = some spec ∧ p.all isWs = false ∧ CDRound V ver spec c p)

theorem refs_step (S : Spec) (typ id : Nat) (v : CDv) (b : Bool) (s : PState) :
    ∃ s1, refsUpd S typ id v b s = (.ok (), s1) ∧ Keeps s s1 ∧ s1.lx = s.lx := by
  unfold refsUpd
  cases v with
  | str r =>
    simp only
    split
    · exact ⟨_, rfl, ⟨rfl, rfl, rfl, rfl⟩, rfl⟩
    · exact ⟨_, rfl, Keeps.refl _, rfl⟩
  | _ => exact ⟨_, rfl, Keeps.refl _, rfl⟩

section
variable (S : Spec) (V : Env) (ver : Nat)

theorem pending_step (hp : Hdr) (st : LoopSt) (fuel : Nat) (b : Bool) (s : PState) (prevText : Bool) (p : Bytes)
    (pend : List Item) (lesP more : List (Nat × Event)) (sfin : LState)
    (hpend : Pending S V ver hp.ety.typ prevText p pend) (hl : lesP.map (·.2) = flush p)
    (hrun : Run s.lx (lesP ++ more) sfin) (hf : lesP.length ≤ fuel) (hv : s.ver = ver) :
    ∃ s1, pLoop S V fuel hp st b s = pLoop S V (fuel - lesP.length) hp { st with acc := st.acc ++ pend } b s1 ∧
      Run s1.lx more sfin ∧ Keeps s s1 := by
  rcases hpend with ⟨_, rfl, rfl⟩ | ⟨_, c, spec, rfl, hspec, hws, hcd⟩
  · have : lesP = [] := by simpa [flush] using hl
    subst this
    exact ⟨s, by simp, by simpa using hrun, Keeps.refl _⟩
  · simp only [flush, hws, Bool.false_eq_true, if_false] at hl
    match lesP, hl with
    | [(l, e)], hl =>
      simp only [List.map_cons, List.map_nil, List.cons.injEq, and_true] at hl
      subst hl
      simp only [List.length_cons, List.length_nil, Nat.zero_add] at hf ⊢
      obtain ⟨f, rfl⟩ : ∃ f, fuel = f + 1 := ⟨fuel - 1, by omega⟩
      obtain ⟨lx1, hn, hr1⟩ := nextTok_run_true b s (by simpa using hrun)
      rw [pLoop_chars S V f hp st b s _ p spec hn hspec]
      obtain ⟨cc, hp1⟩ := hcd b { s with lx := lx1, line := l } hv
      rw [bind_ok (by simpa using hp1)]
      obtain ⟨s3, h3, hk3, hlx3⟩ := refs_step S hp.ety.typ hp.id c b { s with lx := lx1, line := l, compat := cc }
      rw [bind_ok h3]
      refine ⟨s3, by simp, by rw [hlx3]; exact hr1, ?_⟩
      exact Keeps.trans (b := { s with lx := lx1, line := l, compat := cc }) ⟨rfl, rfl, rfl, rfl⟩ hk3

theorem comment_step (hp : Hdr) (st : LoopSt) (fuel : Nat) (b : Bool) (s : PState) (h : Hdr)
    (lesC more : List (Nat × Event)) (sfin : LState) (hst : st.comment = none)
    (hl : lesC.map (·.2) = cmTok h) (hrun : Run s.lx (lesC ++ more) sfin) (hf : lesC.length ≤ fuel)
    (hc : ∀ c, h.comment = some c → validUtf8 c = true) :
    ∃ s1, pLoop S V fuel hp st b s = pLoop S V (fuel - lesC.length) hp { st with comment := h.comment } b s1 ∧
      Run s1.lx more sfin ∧ Keeps s s1 := by
  unfold cmTok at hl
  cases hcm : h.comment with
  | none =>
    simp only [hcm] at hl
    have : lesC = [] := by simpa using hl
    subst this
    refine ⟨s, ?_, by simpa using hrun, Keeps.refl _⟩
    obtain ⟨a, e, sn, cm, pa⟩ := st
    simp only at hst; subst hst; rfl
  | some c =>
    simp only [hcm] at hl
    match lesC, hl with
    | [(l, e)], hl =>
      simp only [List.map_cons, List.map_nil, List.cons.injEq, and_true] at hl
      subst hl
      simp only [List.length_cons, List.length_nil, Nat.zero_add] at hf ⊢
      obtain ⟨f, rfl⟩ : ∃ f, fuel = f + 1 := ⟨fuel - 1, by omega⟩
      obtain ⟨lx1, hn, hr1⟩ := nextTok_run_true b s (by simpa using hrun)
      rw [pLoop_comment S V f hp st b s _ c hn (hc c hcm)]
      exact ⟨{ s with lx := lx1, line := l }, rfl, hr1, ⟨rfl, rfl, rfl, rfl⟩⟩

end

/-! ### the main induction -/

section
variable (S : Spec) (V : Env) (ver : Nat)

theorem end_check (typ : Nat) (snFound : Bool) (acc : List Item) (b : Bool) (s : PState)
    (h : S.isNamedIn typ s.ver = true → snFound = true) :
    (bind' (if !snFound then
        bind' getS fun s => if S.isNamedIn typ s.ver then optErr kRequiredSubelementMissing else pure' ()
      else pure' ()) fun _ => pure' (itemsOf acc)) b s = (.ok (itemsOf acc), s) := by
  cases snFound with
  | true => rfl
  | false =>
    have : S.isNamedIn typ s.ver = false := by
      cases hh : S.isNamedIn typ s.ver with
      | false => rfl
      | true => exact absurd (h hh) (by simp)
    simp [bind', getS, pure', this]

theorem idents_step (np : Option Bytes) (id : Nat) (b : Bool) (s : PState) :
    ∃ s1, identsUpd np id b s = (.ok (), s1) ∧ Keeps s s1 ∧ s1.lx = s.lx := by
  cases np with
  | none => exact ⟨s, rfl, Keeps.refl _, rfl⟩
  | some p => exact ⟨_, rfl, ⟨rfl, rfl, rfl, rfl⟩, rfl⟩

theorem tokF_nil_nil (mixed : Bool) : tokF S V none mixed .nil [] = some [] := by
  simp [tokF, flush]

theorem node_split (h : Hdr) (k : Items) (n : List Event)
    (hk : match S.mode h.ety.typ with
      | .characters => k = .nil ∨ ∃ c, k = .text c .nil ∧ TextOK S V ver h.ety.typ c
      | .mixed => ValidC S V ver h.ety.typ true k false [] [] false
      | _ => k = .nil ∨ ValidC S V ver h.ety.typ false k false [] [] false)
    (hn : nodeTok S V none h k = some n) :
    ∃ attrs btoks mixedK, serAttrs V h.attrs = some attrs ∧
      n = .beginElement (V.elemText h.name) (attrs.drop 1) :: (btoks ++ [.endElement (V.elemText h.name)]) ∧
      tokF S V none mixedK k [] = some btoks ∧ ValidC S V ver h.ety.typ mixedK k false [] [] false := by
  by_cases hnil : k = .nil
  · subst hnil
    rw [nodeTok_nil] at hn
    cases hsa : serAttrs V h.attrs with
    | none => simp [hsa] at hn
    | some attrs =>
      simp only [hsa, Option.map_some, Option.some.injEq] at hn
      exact ⟨attrs, [], false, rfl, by simp [← hn], tokF_nil_nil S V false, by simp [ValidC]⟩
  · rw [nodeTok_cons S V none h k hnil] at hn
    cases hsa : serAttrs V h.attrs with
    | none => simp [hsa] at hn
    | some attrs =>
      simp only [hsa] at hn
      cases hb : bodyTok S V none (S.mode h.ety.typ) k with
      | none => simp [hb] at hn
      | some btoks =>
        simp only [hb, Option.map_some, Option.some.injEq] at hn
        subst hn
        cases hm : S.mode h.ety.typ with
        | characters =>
          simp only [hm] at hk hb
          rcases hk with hk | ⟨c, rfl, htx⟩
          · exact absurd hk hnil
          · refine ⟨attrs, btoks, true, rfl, by simp, ?_, ?_⟩
            · simp only [bodyTok] at hb
              cases hsv : serVal V c with
              | none => simp [hsv] at hb
              | some t =>
                simp only [hsv, Option.map_some, Option.some.injEq] at hb
                simp [tokF, hsv, hb]
            · unfold ValidC; exact ⟨rfl, rfl, htx, by unfold ValidC; trivial⟩
        | mixed =>
          simp only [hm] at hk hb
          exact ⟨attrs, btoks, true, rfl, by simp, by simpa [bodyTok] using hb, hk⟩
        | sequence =>
          simp only [hm] at hk hb
          rcases hk with hk | hk
          · exact absurd hk hnil
          · exact ⟨attrs, btoks, false, rfl, by simp, by simpa [bodyTok] using hb, hk⟩
        | choice =>
          simp only [hm] at hk hb
          rcases hk with hk | hk
          · exact absurd hk hnil
          · exact ⟨attrs, btoks, false, rfl, by simp, by simpa [bodyTok] using hb, hk⟩
        | bag =>
          simp only [hm] at hk hb
          rcases hk with hk | hk
          · exact absurd hk hnil
          · exact ⟨attrs, btoks, false, rfl, by simp, by simpa [bodyTok] using hb, hk⟩


theorem map_snd_singleton {l : List (Nat × Event)} {e : Event} (h : l.map (·.2) = [e]) : ∃ n, l = [(n, e)] := by
  match l, h with
  | [(n, e')], h =>
    simp only [List.map_cons, List.map_nil, List.cons.injEq, and_true] at h
    subst h; exact ⟨n, rfl⟩

/-- **the main induction**: the element loop for the (parser-side) element `hp`, in loop state `st`, on a tokenizer
state that runs through the events of the content list `its` followed by the end tag of `hp`, returns the content
accumulated so far followed by `relabel … its`; the ids are taken from `s.nextId`; no warning is added -/
theorem content_ok (its : Items) :
    ∀ (hp : Hdr) (mixed prevText : Bool) (pi seen : List Nat) (ne : Bool) (p : Bytes) (pend : List Item) (st : LoopSt)
      (fuel : Nat) (b : Bool) (s : PState) (toks : List Event) (les rest : List (Nat × Event)) (sfin : LState) (lE : Nat),
      ValidC S V ver hp.ety.typ mixed its prevText pi seen ne →
      tokF S V none mixed its p = some toks →
      Pending S V ver hp.ety.typ prevText p pend →
      Run s.lx (les ++ (lE, .endElement (V.elemText hp.name)) :: rest) sfin →
      les.map (·.2) = toks → les.length < fuel →
      s.ver = ver → st.elemIdx = pi → st.comment = none →
      ((st.acc ++ pend).isEmpty = !ne) → (∀ nm, (st.acc ++ pend).any (isEl nm) = seen.contains nm) →
      V.elemOf (V.elemText hp.name) = some hp.name →
      (S.isNamedIn hp.ety.typ ver = true → st.snFound = true ∨ hasSN S its = true) →
      ∃ s', pLoop S V fuel hp st b s =
          (.ok (itemsOf (st.acc ++ pend ++ listOf (relabel (.elem hp.id) s.nextId its))), s') ∧
        Run s'.lx rest sfin ∧ s'.nextId = s.nextId + cnt its ∧ s'.warnings = s.warnings ∧ s'.ver = s.ver ∧
        s'.standalone = s.standalone := by
  induction its with
  | nil =>
    intro hp mixed prevText pi seen ne p pend st fuel b s toks les rest sfin lE _ htok hpend hrun hles hfuel hver _ _ _ _ hname hsn
    simp only [tokF, Option.some.injEq] at htok
    subst htok
    obtain ⟨s1, e1, r1, k1⟩ := pending_step S V ver hp st fuel b s prevText p pend les _ sfin hpend hles hrun (by omega) hver
    obtain ⟨f, hf⟩ : ∃ f, fuel - les.length = f + 1 := ⟨fuel - les.length - 1, by omega⟩
    obtain ⟨lx2, hn2, r2⟩ := nextTok_run_true b s1 r1
    rw [e1, hf, pLoop_end S V f hp _ b s1 _ _ hn2 hname]
    rw [end_check S hp.ety.typ _ _ b _ (by
      intro hh
      have : s1.ver = ver := by rw [k1.ver, hver]
      simp only [this] at hh
      rcases hsn hh with h1 | h1
      · exact h1
      · simp [hasSN] at h1)]
    refine ⟨{ s1 with lx := lx2, line := lE }, by simp [relabel, listOf], r2, ?_, k1.warnings, k1.ver, k1.standalone⟩
    simp [cnt, k1.nextId]
  | text c r ih =>
    intro hp mixed prevText pi seen ne p pend st fuel b s toks les rest sfin lE hval htok hpend hrun hles hfuel hver hidx hcm hne hseen hname hsn
    unfold ValidC at hval
    obtain ⟨rfl, rfl, ⟨spec, t, hspec, hsv, hws, hcd⟩, hvr⟩ := hval
    rcases hpend with ⟨_, rfl, rfl⟩ | ⟨hf, _⟩
    · simp only [tokF, if_true, hsv, List.nil_append] at htok
      simp only [List.append_nil] at hne hseen
      obtain ⟨s', e1, r1, hn1, hw1, hv1, hs1⟩ := ih hp true true pi seen true t [.tx c] st fuel b s toks les rest sfin lE hvr htok
        (Or.inr ⟨rfl, c, spec, rfl, hspec, hws, hcd⟩) hrun hles hfuel hver hidx hcm (by simp)
        (by intro nm; simp [List.any_append, isEl, hseen nm]) hname
        (by intro hh; simpa [hasSN] using hsn hh)
      exact ⟨s', by simpa [relabel, listOf] using e1, r1, by simpa [cnt] using hn1, hw1, hv1, hs1⟩
    · cases hf
  | elem h k r ihk ihr =>
    intro hp mixed prevText pi seen ne p pend st fuel b s toks les rest sfin lE hval htok hpend hrun hles hfuel hver hidx hcm hne hseen hname hsn
    unfold ValidC at hval
    obtain ⟨⟨idx, hfind, hconf, hmult, hvr⟩, helem, ⟨at0, hsa, hattrs⟩, hcomm, hsnk, hkids⟩ := hval
    rw [tokF_elem] at htok
    simp only [visible, if_true] at htok
    cases hnt : nodeTok S V none h k with
    | none => simp [hnt] at htok
    | some n =>
    cases hrt : tokF S V none mixed r [] with
    | none => simp [hnt, hrt] at htok
    | some rtoks =>
    simp only [hnt, hrt, Option.some.injEq] at htok
    subst htok
    obtain ⟨attrs, btoks, mixedK, hsa', hn, hbt, hvk⟩ := node_split S V ver h k n hkids hnt
    rw [hsa] at hsa'; cases hsa'
    subst hn
    obtain ⟨l123, lesR, rfl, h123, hR⟩ := List.map_eq_append_iff.mp hles
    obtain ⟨l12, lesN, rfl, h12, hN⟩ := List.map_eq_append_iff.mp h123
    obtain ⟨lesP, lesC, rfl, hP, hC⟩ := List.map_eq_append_iff.mp h12
    obtain ⟨⟨lb, eb⟩, lesN', rfl, hb, hN'⟩ := List.map_eq_cons_iff.mp hN
    simp only at hb; subst hb
    obtain ⟨lesB, lesE, rfl, hB, hE⟩ := List.map_eq_append_iff.mp hN'
    obtain ⟨le, rfl⟩ := map_snd_singleton hE
    simp only [List.length_append, List.length_cons, List.length_nil] at hfuel
    have hrun1 : Run s.lx (lesP ++ (lesC ++ ((lb, .beginElement (V.elemText h.name) (at0.drop 1)) :: (lesB ++
        ((le, .endElement (V.elemText h.name)) :: (lesR ++ (lE, .endElement (V.elemText hp.name)) :: rest)))))) sfin := by
      simpa [List.append_assoc] using hrun
    -- the pending character run, the comment
    obtain ⟨s1, e1, r1, k1⟩ := pending_step S V ver hp st fuel b s prevText p pend lesP _ sfin hpend hP hrun1 (by omega) hver
    obtain ⟨s2, e2, r2, k2⟩ := comment_step S V hp { st with acc := st.acc ++ pend } (fuel - lesP.length) b s1 h lesC _ sfin hcm
      hC r1 (by omega) hcomm
    have k02 := Keeps.trans k1 k2
    obtain ⟨f, hf⟩ : ∃ f, fuel - lesP.length - lesC.length = f + 1 := ⟨fuel - lesP.length - lesC.length - 1, by omega⟩
    -- the start tag
    obtain ⟨lx3, hn3, r3⟩ := nextTok_run_true b s2 r2
    have hv3 : s2.ver = ver := by rw [k02.ver, hver]
    have hmultStep : (if (st.acc ++ pend).isEmpty then pure' () else checkMult S hp.ety.typ h.name idx (st.acc ++ pend) : P Unit)
        b { s2 with lx := lx3, line := lb } = (.ok (), { s2 with lx := lx3, line := lb }) := by
      split
      · rfl
      · rename_i hemp
        have hne' : ne = true := by
          cases ne with
          | true => rfl
          | false => rw [hne] at hemp; simp at hemp
        exact checkMult_ok S _ _ _ _ seen b _ hseen (hmult hne')
    obtain ⟨cc, hat⟩ := hattrs b { s2 with lx := lx3, line := lb } hv3
    -- the content of the element
    obtain ⟨s6, e6, r6, hn6, hw6, hv6, hs6⟩ := ihk
      { id := s2.nextId, name := h.name, ety := h.ety, parent := .elem hp.id, attrs := h.attrs, files := [], comment := h.comment }
      mixedK false [] [] false [] [] { path := st.path } f b
      { s2 with lx := lx3, line := lb, compat := cc, nextId := s2.nextId + 1 } btoks lesB
      (lesR ++ (lE, .endElement (V.elemText hp.name)) :: rest) sfin le hvk hbt (Or.inl ⟨rfl, rfl, rfl⟩) r3 hB (by omega) hv3 rfl rfl rfl
      (by intro nm; rfl) helem (by intro hh; exact Or.inr (hsnk hh))
    simp only [List.append_nil, List.nil_append, itemsOf_listOf] at e6
    obtain ⟨s7, e7, k7, hlx7⟩ := idents_step
      (newPathOf S h.name st.path (relabel (.elem s2.nextId) (s2.nextId + 1) k)) hp.id b s6
    -- the rest of the content list
    obtain ⟨s8, e8, r8, hn8, hw8, hv8, hs8⟩ := ihr hp mixed false idx (h.name :: seen) true [] []
      { acc := st.acc ++ pend ++ [Item.el ⟨s2.nextId, h.name, h.ety, .elem hp.id, h.attrs, [], h.comment⟩
            (relabel (.elem s2.nextId) (s2.nextId + 1) k)],
        elemIdx := idx, snFound := st.snFound || h.name == S.nmShortName, comment := none,
        path := (newPathOf S h.name st.path (relabel (.elem s2.nextId) (s2.nextId + 1) k)).getD st.path }
      f b s7 rtoks lesR rest sfin lE hvr hrt (Or.inl ⟨rfl, rfl, rfl⟩) (by rw [hlx7]; exact r6) hR (by omega)
      (by rw [k7.ver, hv6]; exact hv3) rfl rfl (by simp)
      (by
        intro nm
        simp only [List.append_nil, List.any_append, hseen nm, List.any_cons, List.any_nil, isEl, Bool.or_false,
          List.contains_cons]
        rw [Bool.or_comm]
        congr 1
        exact Bool.eq_iff_iff.mpr ⟨fun h => by simpa using (beq_iff_eq.mp h).symm, fun h => by simpa using (beq_iff_eq.mp h).symm⟩)
      hname
      (by
        intro hh
        rcases hsn hh with h1 | h1
        · left; simp [h1]
        · simp only [hasSN, Bool.or_eq_true] at h1
          rcases h1 with h1 | h1
          · left; simp [h1]
          · right; exact h1)
    refine ⟨s8, ?_, r8, ?_, ?_, ?_, ?_⟩
    · rw [e1, e2, hf, pLoop_begin S V f hp _ b s2 _ _ _ h.name hn3 helem]
      rw [bind_ok (findChecked_ok S _ _ (h.ety, idx) b _ (by simpa [hv3] using hfind))]
      simp only
      rw [bind_ok (checkConflict_ok S _ _ _ b _ (by simpa [hidx] using hconf))]
      rw [bind_ok hmultStep, bind_ok hat, bind_ok (allocId_eq b _)]
      simp only
      rw [bind_ok e6, bind_ok e7]
      simp only [List.append_nil] at e8
      rw [e8]
      simp only [relabel, listOf, k7.nextId, hn6, k02.nextId, List.append_assoc, List.cons_append, List.nil_append]
    · rw [hn8, k7.nextId, hn6]; simp only [cnt, k02.nextId]; omega
    · rw [hw8, k7.warnings, hw6]; exact k02.warnings
    · rw [hv8, k7.ver, hv6]; exact k02.ver
    · rw [hs8, k7.standalone, hs6]; exact k02.standalone

end

end AV.SerParse
