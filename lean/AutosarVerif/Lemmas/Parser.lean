/-
C08 for the whole parser: every function of `Model/Parser.lean` is lock-step in the two modes (`Lock`) and only
adds warnings (`Mono`).  `LM m := Lock m ∧ Mono m` is closed under `bind'`, `if`, `match`; the primitives that do not
look at `strict` and do not touch the warnings (`getS`, `modS`, `nextTok`, `allocId`) have it trivially.
-/
import AutosarVerif.Lemmas.ParserMonad
import AutosarVerif.Model.Parser

namespace AV.PM
open AV.W

def LM {α : Type} (m : P α) : Prop := Lock m ∧ Mono m

theorem LM_pure {α : Type} (a : α) : LM (pure' a) := ⟨Lock_pure a, Mono_pure a⟩
theorem LM_hard {α : Type} (k : Nat) : LM (hardErr k : P α) := ⟨Lock_hard k, Mono_hard k⟩
theorem LM_opt (k : Nat) : LM (optErr k) := ⟨Lock_optErr k, Mono_optErr k⟩
theorem LM_bind {α β : Type} {m : P α} {k : α → P β} (hm : LM m) (hk : ∀ a, LM (k a)) : LM (bind' m k) :=
  ⟨Lock_bind hm.1 hm.2 (fun a => (hk a).1) (fun a => (hk a).2), Mono_bind hm.2 (fun a => (hk a).2)⟩

/-- a computation that ignores `strict` and leaves the warnings alone -/
theorem LM_quiet {α : Type} (m : P α) (hb : ∀ s, m true s = m false s) (hw : ∀ b s, (m b s).2.warnings = s.warnings) : LM m := by
  constructor
  · intro s hs
    rw [hw false s, hs]
    exact hb s
  · intro b s
    exact ⟨[], by simp [hw b s]⟩

theorem LM_ite {α : Type} {c : Prop} [Decidable c] {a b : P α} (ha : LM a) (hb : LM b) : LM (if c then a else b) := by
  split <;> assumption

theorem LM_getS : LM getS := LM_quiet _ (fun _ => rfl) (fun _ _ => rfl)
theorem LM_modS (f : PState → PState) (hf : ∀ s, (f s).warnings = s.warnings) : LM (modS f) :=
  LM_quiet _ (fun _ => rfl) (fun _ s => hf s)
theorem LM_allocId : LM allocId := LM_quiet _ (fun _ => rfl) (fun _ _ => rfl)
theorem LM_nextTok (b : Bool) : LM (nextTok b) := by
  apply LM_quiet
  · intro s; rfl
  · intro _ s
    unfold nextTok
    split <;> rfl

theorem LM_checkVersion (mask kind : Nat) : LM (checkVersion mask kind) := by
  unfold checkVersion
  refine LM_bind (LM_modS _ (fun _ => rfl)) fun _ => LM_bind LM_getS fun s => ?_
  split
  · exact LM_opt _
  · exact LM_pure _

theorem LM_unescapeP (fuel : Nat) (s : Bytes) : LM (unescapeP fuel s) := unescapeP_props fuel s

theorem LM_maxLen (maxLen : Option Nat) (n : Nat) : LM (match maxLen with
    | some m => if n > m then optErr kStringValueTooLong else pure' ()
    | none => pure' ()) := by
  cases maxLen with
  | none => exact LM_pure _
  | some m =>
    dsimp only
    split
    · exact LM_opt _
    · exact LM_pure _

theorem LM_parseCD (V : Env) (input : Bytes) (spec : CSpec) : LM (parseCD V input spec) := by
  unfold parseCD
  dsimp only
  split
  · -- enum
    split
    · exact LM_hard _
    · split
      · exact LM_hard _
      · exact LM_bind (LM_checkVersion _ _) fun _ => LM_pure _
  · -- pattern
    refine LM_bind ?_ fun checked => LM_bind (LM_maxLen _ _) fun _ => LM_bind ?_ fun _ => ?_
    · split
      · exact LM_unescapeP _ _
      · exact LM_pure _
    · split
      · exact LM_pure _
      · exact LM_opt _
    · split
      · exact LM_pure _
      · exact LM_bind (LM_opt _) fun _ => LM_hard _
  · -- string
    refine LM_bind (LM_maxLen _ _) fun _ => ?_
    exact LM_ite (LM_bind (LM_unescapeP _ _) fun _ => LM_pure _) (LM_bind (LM_opt _) fun _ => LM_hard _)
  · -- uint
    split
    · exact LM_hard _
    · split
      · exact LM_pure _
      · exact LM_bind (LM_opt _) fun _ => LM_pure _
  · -- float
    split
    · exact LM_hard _
    · split
      · exact LM_pure _
      · exact LM_bind (LM_opt _) fun _ => LM_pure _

section
variable (S : Spec) (V : Env)

theorem LM_attrLoop (typ : Nat) (fuel : Nat) : ∀ (rem : Bytes) (acc : List (Nat × CDv)), LM (attrLoop S V typ fuel rem acc) := by
  induction fuel with
  | zero => intro rem acc; unfold attrLoop; exact LM_pure _
  | succ n ih =>
    intro rem acc
    unfold attrLoop
    split
    · exact LM_pure _
    · dsimp only
      refine LM_bind ?_ fun acc' => ?_
      · split
        · split
          · exact LM_bind (LM_checkVersion _ _) fun _ => LM_bind (LM_parseCD V _ _) fun _ => LM_pure _
          · exact LM_bind (LM_opt _) fun _ => LM_pure _
        · exact LM_bind (LM_opt _) fun _ => LM_pure _
      · split
        · exact LM_pure _
        · exact ih _ _

theorem LM_required (attrs : List (Nat × CDv)) (l : List (Nat × Nat × Bool × Nat)) : ∀ m : P Unit, LM m →
    LM (l.foldl (fun (m : P Unit) (a : Nat × Nat × Bool × Nat) =>
      bind' m fun _ => if a.2.2.1 ∧ !attrs.any (·.1 == a.1) then optErr kRequiredAttributeMissing else pure' ()) m) := by
  induction l with
  | nil => intro m hm; exact hm
  | cons a r ih =>
    intro m hm
    simp only [List.foldl_cons]
    apply ih
    refine LM_bind hm fun _ => ?_
    split
    · exact LM_opt _
    · exact LM_pure _

theorem LM_parseAttrs (typ : Nat) (text : Bytes) : LM (parseAttrs S V typ text) := by
  unfold parseAttrs
  refine LM_bind (LM_attrLoop S V typ _ _ _) fun r => ?_
  refine LM_bind ?_ fun _ => LM_bind (LM_required _ _ _ (LM_pure _)) fun _ => LM_pure _
  split
  · exact LM_opt _
  · exact LM_pure _

theorem LM_findChecked (typ name : Nat) : LM (findChecked S typ name) := by
  unfold findChecked
  refine LM_bind LM_getS fun s => ?_
  split
  · exact LM_pure _
  · split
    · exact LM_hard _
    · split
      · exact LM_hard _
      · exact LM_bind (LM_checkVersion _ _) fun _ => LM_pure _

theorem LM_checkConflict (typ : Nat) (old new : List Nat) : LM (checkConflict S typ old new) := by
  unfold checkConflict
  split
  · exact LM_pure _
  · split
    · exact LM_opt _
    · exact LM_hard _
    · exact LM_pure _

theorem LM_checkMult (typ name : Nat) (idx : List Nat) (acc : List Item) : LM (checkMult S typ name idx acc) := by
  unfold checkMult
  split
  · exact LM_hard _
  · split
    · split
      · split
        · exact LM_opt _
        · exact LM_pure _
      · exact LM_pure _
    · exact LM_pure _

theorem LM_pLoop (fuel : Nat) : ∀ (h : Hdr) (st : LoopSt), LM (pLoop S V fuel h st) := by
  induction fuel with
  | zero => intro h st; unfold pLoop; exact LM_hard _
  | succ n ih =>
    intro h st
    unfold pLoop
    refine LM_bind (LM_nextTok _) fun ev => ?_
    split
    · -- begin element
      split
      · exact LM_hard _
      · refine LM_bind (LM_findChecked S _ _) fun r => LM_bind (LM_checkConflict S _ _ _) fun _ => LM_bind ?_ fun _ =>
          LM_bind (LM_parseAttrs S V _ _) fun attrs => LM_bind LM_allocId fun id => LM_bind (ih _ _) fun skids => LM_bind ?_ fun _ => ih _ _
        · split
          · exact LM_pure _
          · exact LM_checkMult S _ _ _ _
        · split
          · exact LM_modS _ (fun _ => rfl)
          · exact LM_pure _
    · -- end element
      split
      · exact LM_hard _
      · split
        · refine LM_bind ?_ fun _ => LM_pure _
          split
          · refine LM_bind LM_getS fun s => ?_
            split
            · exact LM_opt _
            · exact LM_pure _
          · exact LM_pure _
        · exact LM_hard _
    · -- characters
      split
      · refine LM_bind (LM_parseCD V _ _) fun v => LM_bind ?_ fun _ => ih _ _
        split
        · split
          · exact LM_modS _ (fun _ => rfl)
          · exact LM_pure _
        · exact LM_pure _
      · exact LM_bind (LM_opt _) fun _ => ih _ _
    · exact LM_bind (LM_opt _) fun _ => ih _ _
    · exact LM_hard _
    · split
      · exact ih _ _
      · exact LM_hard _

theorem LM_parseFileVersion (schema : Bytes) : LM (parseFileVersion V schema) := by
  unfold parseFileVersion
  dsimp only
  refine LM_ite (LM_hard _) ?_
  split
  · exact LM_pure _
  · have hfix : ∀ g : Bytes, LM (bind' (optErr kInvalidAutosarVersion) fun _ => pure' ((V.verOfFile g).getD 0)) :=
      fun g => LM_bind (LM_opt _) fun _ => LM_pure _
    exact LM_ite (hfix _) (LM_ite (hfix _) (LM_ite (hfix _) (LM_bind (LM_opt _) fun _ => LM_pure _)))

theorem LM_parseFileHeader (attrs : List (Nat × CDv)) : LM (parseFileHeader V attrs) := by
  unfold parseFileHeader
  dsimp only
  split
  · split
    · exact LM_hard _
    · exact LM_bind (LM_parseFileVersion V _) fun _ => LM_modS _ (fun _ => rfl)
  · exact LM_hard _

theorem LM_skipComments (fuel : Nat) : ∀ (c : Option Bytes) (ev : Lex.Event), LM (skipComments fuel c ev) := by
  induction fuel with
  | zero =>
    intro c ev
    cases ev <;> first | exact LM_hard _ | exact LM_pure _
  | succ n ih =>
    intro c ev
    cases ev with
    | comment b =>
      unfold skipComments
      exact LM_ite (LM_bind (LM_nextTok _) fun _ => ih _ _) (LM_hard _)
    | header _ => exact LM_pure _
    | beginElement _ _ => exact LM_pure _
    | endElement _ => exact LM_pure _
    | characters _ => exact LM_pure _
    | eof => exact LM_pure _

/-- **C08** the whole parser is lock-step in the two modes and only adds warnings -/
theorem LM_parseArxml (fuel nmAutosar : Nat) : LM (parseArxml S V fuel nmAutosar) := by
  unfold parseArxml
  refine LM_bind (LM_nextTok _) fun ev0 => ?_
  split
  · refine LM_bind (LM_modS _ (fun _ => rfl)) fun _ => LM_bind (LM_nextTok _) fun ev1 => LM_bind (LM_skipComments _ _ _) fun r => ?_
    obtain ⟨comment, ev⟩ := r
    dsimp only
    split
    · refine LM_ite ?_ (LM_hard _)
      refine LM_bind (LM_parseAttrs S V _ _) fun attrs => LM_bind (LM_parseFileHeader V _) fun _ => LM_bind LM_allocId fun id =>
        LM_bind (LM_pLoop S V _ _ _) fun kids => LM_bind (LM_nextTok _) fun evEnd => LM_bind ?_ fun _ => LM_pure _
      split
      · exact LM_pure _
      · exact LM_opt _
    · exact LM_hard _
  · exact LM_hard _

end
end AV.PM
