/-
`move_element_here_at` inside one model, the POSITION-CHANGE branch of `opMove` (second alternative of `opMove_cases`): the
element `x` already is a direct child of the destination `p`, the call only rotates it to position `q` among the content items
of `p` (`posModel`).  The fields `index` and `refs` of the model are left alone, so the claim is that the two maps are still
exact for the rotated tree — the argument is the one of `sort` (`Lemmas/SortIndex.lean`): the content of ONE node is replaced by
something "as good" (`SortGood`).

* `mpos_sortGood`: taking the child element at position `cur` out and putting it back at position `q` is `SortGood`, provided
  the child is not called SHORT-NAME and a leading SHORT-NAME stays in front (`firstIsSn S k → 1 ≤ q`);
* `GoodEditAt`, `goodEditAt_tree`, `goodEditAt_root`, `minv_goodEditAt`: the LOCATED variants of `GoodEdit`, `goodEdit_tree`,
  `goodEdit_root`, `minv_goodEdit` (the hypothesis about the edit is asked at the nodes `Occ h k its ∧ h.id = x` only; the
  rotation at an arbitrary node could move a SHORT-NAME away from the front);
* `posModel_inv` (no hypothesis), `posModel_wkidsKnown`, `posModel_wrone` (no hypothesis beyond `locate`), `posModel_cinv`,
  `posModel_ginv`: the invariants for the world `setModel w k (posModel (w.models[k]!) p cur q)`;
* `opMove_pos_inv`, `opMove_pos_cinv`, `opMove_pos_ginv`, `opMove_pos_ginv'`: the same from the facts `opMove_cases` hands out
  (`MoveRun`), with the EXTRA HYPOTHESIS that the moved element is not called SHORT-NAME.
-/
import AutosarVerif.Lemmas.MoveOp

namespace AV.W
open Items

/-! ### the content item at a position -/

theorem mpos_itemAt_mem (k : Items) (cur : Nat) (ch : Hdr) (ck : Items) (h : itemAt k cur = .elem ch ck .nil) :
    (ch, ck) ∈ k.childElems := by
  induction k generalizing cur with
  | nil => simp [itemAt] at h
  | text c r ih =>
    cases cur with
    | zero => simp [itemAt] at h
    | succ n => exact ih n h
  | elem hd kk r _ ih =>
    cases cur with
    | zero =>
      simp only [itemAt, Items.elem.injEq, and_true] at h
      obtain ⟨rfl, rfl⟩ := h
      exact List.mem_cons_self
    | succ n => exact List.mem_cons_of_mem _ (ih n h)

theorem mpos_occ_of_mem (k : Items) (c : Hdr × Items) (h : c ∈ k.childElems) : Occ c.1 c.2 k := by
  induction k with
  | nil => simp [Items.childElems] at h
  | text _ r ih => exact ih h
  | elem hd kk r _ ih =>
    rcases List.mem_cons.mp h with e | e
    · rw [e]; exact Or.inl ⟨rfl, rfl⟩
    · exact Or.inr (Or.inr (ih e))

theorem mpos_item_of_itemAt (k : Items) (cur : Nat) (ch : Hdr) (ck : Items) (h : itemAt k cur = .elem ch ck .nil) :
    movePos.item k cur = some (fun r => .elem ch ck r) := by
  induction k generalizing cur with
  | nil => simp [itemAt] at h
  | text c r ih =>
    cases cur with
    | zero => simp [itemAt] at h
    | succ n => exact ih n h
  | elem hd kk r _ ih =>
    cases cur with
    | zero =>
      simp only [itemAt, Items.elem.injEq, and_true] at h
      obtain ⟨rfl, rfl⟩ := h
      rfl
    | succ n => exact ih n h

/-- the rotation of a child ELEMENT, spelled out -/
theorem mpos_eq_of_itemAt (k : Items) (cur q : Nat) (ch : Hdr) (ck : Items) (h : itemAt k cur = .elem ch ck .nil) :
    movePos k cur q = (k.removeAt cur).insertAt (fun r => .elem ch ck r) q := by
  rw [movePos_eq, mpos_item_of_itemAt k cur ch ck h]

theorem mpos_child_of_childPos (x : Nat) (k : Items) (i cur : Nat) (h : k.childPos x i = some cur) :
    ∃ ch ck, k.child x = some (ch, ck) := by
  induction k generalizing i with
  | nil => simp [Items.childPos] at h
  | text c r ih => exact ih (i + 1) h
  | elem hd kk r _ ih =>
    simp only [Items.childPos] at h
    simp only [Items.child]
    split
    · exact ⟨_, _, rfl⟩
    · rename_i hne
      rw [if_neg hne] at h
      exact ih (i + 1) h

theorem mpos_itemAt_filesOk (k : Items) (cur : Nat) (pe : List Nat) (h : FilesOk pe k) : FilesOk pe (itemAt k cur) := by
  induction k generalizing cur with
  | nil => trivial
  | text c r ih =>
    cases cur with
    | zero => trivial
    | succ n => exact ih n h
  | elem hd kk r _ ih =>
    cases cur with
    | zero => exact ⟨h.1, h.2.1, trivial⟩
    | succ n => exact ih n h.2.2

theorem mpos_length_insertAt (new : Items → Items) (hn : ∀ r, (new r).length = r.length + 1) (its : Items) (q : Nat) :
    (its.insertAt new q).length = its.length + 1 := by
  induction its generalizing q with
  | nil => cases q <;> simp only [Items.insertAt, hn]
  | text c r ih =>
    cases q with
    | zero => simp only [Items.insertAt, hn]
    | succ n => simp only [Items.insertAt, Items.length, ih n]
  | elem hd kk r _ ih =>
    cases q with
    | zero => simp only [Items.insertAt, hn]
    | succ n => simp only [Items.insertAt, Items.length, ih n]

theorem mpos_length_removeAt (k : Items) (cur : Nat) (h : itemAt k cur ≠ .nil) : (k.removeAt cur).length + 1 = k.length := by
  induction k generalizing cur with
  | nil => exact absurd rfl h
  | text c r ih =>
    cases cur with
    | zero => rfl
    | succ n => simp only [Items.removeAt, Items.length]; rw [ih n h]
  | elem hd kk r _ ih =>
    cases cur with
    | zero => rfl
    | succ n => simp only [Items.removeAt, Items.length]; rw [ih n h]

/-- the rotation keeps the number of content items -/
theorem mpos_length (k : Items) (cur q : Nat) : (movePos k cur q).length = k.length := by
  rw [movePos_eq]
  rcases movePos_item k cur with ⟨a, _⟩ | ⟨hd, kk, a, b⟩ | ⟨c, a, b⟩
  · rw [a]
  · rw [a]
    show ((k.removeAt cur).insertAt (fun r => .elem hd kk r) q).length = k.length
    rw [mpos_length_insertAt _ (fun _ => rfl), mpos_length_removeAt k cur (by rw [b]; exact fun e => by cases e)]
  · rw [a]
    show ((k.removeAt cur).insertAt (fun r => .text c r) q).length = k.length
    rw [mpos_length_insertAt _ (fun _ => rfl), mpos_length_removeAt k cur (by rw [b]; exact fun e => by cases e)]

/-! ### C03 + file sets: `Inv` (no hypothesis) -/

theorem mpos_filesOk (k : Items) (cur q : Nat) (pe : List Nat) (h : FilesOk pe k) : FilesOk pe (movePos k cur q) := by
  rw [movePos_eq]
  have hi := mpos_itemAt_filesOk k cur pe h
  rcases movePos_item k cur with ⟨a, _⟩ | ⟨hd, kk, a, b⟩ | ⟨c, a, b⟩
  · rw [a]; exact h
  · rw [a]
    rw [b] at hi
    exact FilesOk_insertAt (fun r => .elem hd kk r) _ pe q (fun r hr => ⟨hi.1, hi.2.1, hr⟩) (FilesOk_removeAt k pe cur h)
  · rw [a]
    exact FilesOk_insertAt (fun r => .text c r) _ pe q (fun r hr => hr) (FilesOk_removeAt k pe cur h)

/-- the position change keeps `Inv`: parent fields in step with the structure, every local file set within the effective set
of the parent (headers are untouched, every element keeps its parent) -/
theorem posModel_inv (w : World) (k p cur q : Nat) (h : Inv w) : Inv (setModel w k (posModel (w.models[k]!) p cur q)) := by
  obtain ⟨hw, hf⟩ := h
  constructor
  · apply wf_setModel' w k _ hw
    exact wfM_modify _ _ _ (fun h kk _ => ⟨rfl, rfl, fun hk => movePos_wf kk cur q _ hk⟩) (wfM_getElem! w k hw)
  · apply setModel_ok w k _ hf
    exact setRoot_ok _ _ (getElem!_ok w k hf)
      (rootOk_modify _ p _ (fun h kk pe hk => ⟨rfl, mpos_filesOk kk cur q pe hk⟩) (getElem!_ok w k hf))

section
variable (S : Spec)

/-! ### `KidsKnown`, `RefOne`: kept by the rotation at ANY node -/

theorem mpos_kidsKnown (h : Hdr) (k : Items) (cur q : Nat) (a : kidsKnownAt S h k) (b : KidsKnown S k) :
    kidsKnownAt S h (movePos k cur q) ∧ KidsKnown S (movePos k cur q) := by
  rw [movePos_eq]
  obtain ⟨a1, b1⟩ := kidsKnown_removeAt S h k cur a b
  rcases movePos_item k cur with ⟨e, _⟩ | ⟨hd, kk, e, i⟩ | ⟨c, e, i⟩
  · rw [e]; exact ⟨a, b⟩
  · rw [e]
    have hmem := mpos_itemAt_mem k cur hd kk i
    exact kidsKnown_insertAt S h hd kk _ q (a (hd, kk) hmem) ((kidsKnown_iff S k).mp b (hd, kk) hmem) a1 b1
  · rw [e]
    exact kidsKnown_insertText S h c _ q a1 b1

theorem mpos_refOne (h : Hdr) (k : Items) (cur q : Nat) (a : S.isRef h.ety.typ = true → k.length ≤ 1) (b : RefOne S k) :
    (S.isRef h.ety.typ = true → (movePos k cur q).length ≤ 1) ∧ RefOne S (movePos k cur q) := by
  refine ⟨fun hr => by rw [mpos_length]; exact a hr, ?_⟩
  rw [movePos_eq]
  have b1 := refOne_removeAt S k cur b
  rcases movePos_item k cur with ⟨e, _⟩ | ⟨hd, kk, e, i⟩ | ⟨c, e, i⟩
  · rw [e]; exact b
  · rw [e]
    have hmem := mpos_itemAt_mem k cur hd kk i
    obtain ⟨x1, x2⟩ := (refOne_iff S k).mp b (hd, kk) hmem
    exact refOne_insertAt S hd kk _ q ((refOne_elem S hd kk .nil).mpr ⟨x1, x2, refOne_nil S⟩) b1
  · rw [e]
    exact refOne_insertText S c _ q b1

/-! ### the rotation of a child element that is not a SHORT-NAME is `SortGood` -/

theorem mpos_firstIsSn_removeAt (h : Hdr) (k : Items) (cur : Nat) (hk : kidsOk S h k) (hf : firstIsSn S (k.removeAt cur)) :
    firstIsSn S k := by
  cases k with
  | nil => exact hf
  | text c r =>
    cases cur with
    | zero => exact absurd hf (not_firstIsSn_of_noSnTop S r hk)
    | succ n => exact hf
  | elem sh sk r =>
    cases cur with
    | zero => exact absurd hf (not_firstIsSn_of_noSnTop S r hk.2)
    | succ n => exact hf

theorem mpos_firstIsSn_insertAt (nh : Hdr) (nk : Items) (hn : nh.name ≠ S.nmShortName) (its : Items) (q : Nat)
    (hf : firstIsSn S (its.insertAt (fun r => .elem nh nk r) q)) : firstIsSn S its := by
  cases q with
  | zero =>
    have hf' : firstIsSn S (.elem nh nk its) := by
      cases its <;> exact hf
    exact absurd hf' hn
  | succ n =>
    cases its with
    | nil => exact absurd hf hn
    | text c r => exact hf
    | elem sh sk r => exact hf

theorem mpos_insertAt_ne_nil (nh : Hdr) (nk : Items) (its : Items) (q : Nat) :
    its.insertAt (fun r => .elem nh nk r) q ≠ .nil := by
  cases q with
  | zero => cases its <;> exact fun e => by cases e
  | succ n => cases its <;> exact fun e => by cases e

theorem mpos_charData_text_cons (h : Hdr) (c : CDv) (r : Items) (hr : r ≠ .nil) : charData S h (.text c r) = none := by
  cases r with
  | nil => exact absurd rfl hr
  | text _ _ => rfl
  | elem _ _ _ => rfl

theorem mpos_charData_insertAt (h nh : Hdr) (nk : Items) (its : Items) (q : Nat) :
    charData S h (its.insertAt (fun r => .elem nh nk r) q) = none := by
  cases q with
  | zero => cases its <;> rfl
  | succ n =>
    cases its with
    | nil => rfl
    | elem _ _ _ => rfl
    | text c r => exact mpos_charData_text_cons S h c _ (mpos_insertAt_ne_nil nh nk r n)

theorem mpos_charData_of_itemAt (h : Hdr) (k : Items) (cur : Nat) (ch : Hdr) (ck : Items)
    (hi : itemAt k cur = .elem ch ck .nil) : charData S h k = none := by
  cases k with
  | nil => rfl
  | elem _ _ _ => rfl
  | text c r =>
    cases cur with
    | zero => simp [itemAt] at hi
    | succ n =>
      refine mpos_charData_text_cons S h c r (fun e => ?_)
      rw [e] at hi
      simp [itemAt] at hi

theorem mpos_not_first (k : Items) (cur : Nat) (ch : Hdr) (ck : Items) (hi : itemAt k cur = .elem ch ck .nil)
    (hn : ch.name ≠ S.nmShortName) (hf : firstIsSn S k) : 1 ≤ cur := by
  cases cur with
  | succ n => omega
  | zero =>
    cases k with
    | nil => exact hf.elim
    | text _ _ => exact hf.elim
    | elem sh sk r =>
      simp only [itemAt, Items.elem.injEq, and_true] at hi
      obtain ⟨rfl, rfl⟩ := hi
      exact absurd hf hn

/-- **the rotation is as good as what was there**: the child element `(ch, ck)` at position `cur` of the content `k` of an
element with header `h` is not called SHORT-NAME, and the new position `q` is not in front of a leading SHORT-NAME -/
theorem mpos_sortGood (h : Hdr) (k : Items) (cur q : Nat) (ch : Hdr) (ck : Items) (hi : itemAt k cur = .elem ch ck .nil)
    (hn : ch.name ≠ S.nmShortName) (hq : firstIsSn S k → 1 ≤ q) :
    SortGood S h k ((k.removeAt cur).insertAt (fun r => .elem ch ck r) q) := by
  have hmem := mpos_itemAt_mem k cur ch ck hi
  have hcur : firstIsSn S k → 1 ≤ cur := mpos_not_first S k cur ch ck hi hn
  have hq' : kidsOk S h k → firstIsSn S (k.removeAt cur) → 1 ≤ q :=
    fun hk hf => hq (mpos_firstIsSn_removeAt S h k cur hk hf)
  have hsub : ∀ c, c ∈ ((k.removeAt cur).insertAt (fun r => .elem ch ck r) q).childElems → c ∈ k.childElems := by
    intro c hc
    rcases mem_childElems_insertAt ch ck c _ q hc with e | e
    · rw [e]; exact hmem
    · exact mem_childElems_removeAt c k cur e
  refine ⟨?_, ?_, ?_, ?_, ?_, ?_, ?_, ?_⟩
  · rw [mpos_charData_insertAt, mpos_charData_of_itemAt S h k cur ch ck hi]
  · refine (ids_insertAt ch ck _ q).trans ?_
    have := ids_removeAt k cur
    rw [hi, ids_elem_nil] at this
    exact this.symm
  · refine (refEntries_insertAt S ch ck _ q).trans ?_
    have := refEntries_removeAt S k cur
    rw [hi] at this
    exact this.symm
  · intro hl
    obtain ⟨x1, x2⟩ := (refLeaf_iff S k).mp hl (ch, ck) hmem
    exact refLeaf_insertAt S ch ck _ q ((refLeaf_elem S ch ck .nil).mpr ⟨x1, x2, refLeaf_nil S⟩) (refLeaf_removeAt S k cur hl)
  · intro h0
    rw [h0] at hmem
    cases hmem
  · intro ⟨h1, h2, h3, h4⟩
    refine ⟨?_, ?_, ?_, ?_⟩
    · exact kidsOk_insertAt S h ch ck hn _ q (hq' h1) (kidsOk_removeAt S h k cur hcur h1)
    · exact snOk_insertAt S ch ck ((snOk_iff S k).mp h2 (ch, ck) hmem) _ q (snOk_removeAt S k cur h2)
    · intro hf c hc
      exact h3 (mpos_firstIsSn_removeAt S h k cur h1 (mpos_firstIsSn_insertAt S ch ck hn _ q hf)) c (hsub c hc)
    · rw [snSibsKnown_iff]
      exact fun c hc => (snSibsKnown_iff S k).mp h4 c (hsub c hc)
  · intro hy
    rw [itemName_insertAt S h ch ck hn _ q (hq' hy.1), itemName_removeAt S h k cur hy.1 hcur]
  · intro _ pre
    refine (entries_insertAt S ch ck _ q pre).trans ?_
    have := entries_removeAt S k cur pre
    rw [hi] at this
    exact this.symm

/-! ### one model: the LOCATED variant of `GoodEdit` -/

/-- at the node(s) `x` of the forest `its` the edit keeps the header and replaces the content by something as good -/
def GoodEditAt (x : Nat) (f : Hdr → Items → Hdr × Items) (its : Items) : Prop :=
  ∀ h k, Occ h k its → h.id = x → (f h k).1 = h ∧ SortGood S h k (f h k).2

theorem GoodEdit.at {f : Hdr → Items → Hdr × Items} (hf : GoodEdit S f) (x : Nat) (its : Items) : GoodEditAt S x f its :=
  fun h k _ _ => hf h k

/-- `goodEdit_tree` for a located good edit -/
theorem goodEditAt_tree (x : Nat) (f : Hdr → Items → Hdr × Items) (its : Items) (hf : GoodEditAt S x f its)
    (hS : SnOk S its) (hK : SnSibsKnown S its) (hn : its.ids.Nodup) (hx : x ∈ its.ids) :
    (its.modify x f).ids.Perm its.ids ∧ (∀ pre, (entries S (its.modify x f) pre).Perm (entries S its pre)) ∧
    (refEntries S (its.modify x f)).Perm (refEntries S its) ∧ SnOk S (its.modify x f) ∧
    SnSibsKnown S (its.modify x f) ∧ (RefLeaf S its → RefLeaf S (its.modify x f)) := by
  have hy := sortHyp_of_occ S its hS hK
  have hv : KeepsView S x f its := by
    intro h k ho he
    have h1 := (hf h k ho he).1
    refine ⟨by rw [h1], by rw [h1], by rw [h1], fun _ => ?_⟩
    rw [h1]; exact (hf h k ho he).2.cd
  refine ⟨?_, ?_, ?_, ?_, ?_, ?_⟩
  · have := ids_modify_rel x f [] [] its (fun h k ho he => ⟨by rw [(hf h k ho he).1], by
      simpa only [List.append_nil] using (hf h k ho he).2.ids⟩) hn hx
    simpa only [List.append_nil] using this
  · intro pre
    obtain ⟨_, _, hp⟩ := entries_modify_located S x f (fun _ => []) (fun _ => []) its hv
      (fun h k ho he => ⟨by rw [(hf h k ho he).1]; exact (hf h k ho he).2.name (hy h k ho), fun pre => by
        simpa only [List.append_nil] using (hf h k ho he).2.ents (hy h k ho) pre⟩) hn hx pre
    simpa only [List.append_nil] using hp
  · have := refEntries_modify_located S x f [] [] its (fun h k ho he => ⟨by rw [(hf h k ho he).1], by
      have h1 : refOf S (f h k).1 (f h k).2 = refOf S h k := by
        rw [(hf h k ho he).1]; unfold refOf; rw [(hf h k ho he).2.cd]
      rw [h1]
      simpa only [List.append_nil] using List.Perm.append_left _ (hf h k ho he).2.refs⟩) hn hx
    simpa only [List.append_nil] using this
  · refine snOk_modify S x f its ?_ hS
    intro h k ho he
    have h1 := (hf h k ho he).1
    refine ⟨by rw [h1], by rw [h1], fun _ hp => ?_, fun _ _ => ?_⟩
    · rw [h1, properSn_cd S h k _ hp (hf h k ho he).2.cd]; exact hp
    · have := (hf h k ho he).2.hyp (hy h k ho)
      rw [h1]; exact ⟨this.1, this.2.1⟩
  · refine snSibsKnown_modify S x f its ?_ hK
    intro h k ho he
    have h1 := (hf h k ho he).1
    refine ⟨by rw [h1], by rw [h1], fun _ _ => ?_⟩
    have := (hf h k ho he).2.hyp (hy h k ho)
    rw [h1]; exact ⟨this.2.2.1, this.2.2.2⟩
  · intro hl
    refine refLeaf_modify S x f its ?_ hl
    intro h k ho he a b
    rw [(hf h k ho he).1]
    exact ⟨fun hx => (hf h k ho he).2.leaf0 (a hx), (hf h k ho he).2.leaf b⟩

/-- `goodEdit_root` for a located good edit -/
theorem goodEditAt_root (m m' : Model) (x : Nat) (f : Hdr → Items → Hdr × Items) (hf : GoodEditAt S x f m.rootItems)
    (hroot : m'.rootItems = m.rootItems.modify x f) : m'.rootHdr = m.rootHdr := by
  have hocc : Occ m.rootHdr m.rootKids m.rootItems := Or.inl ⟨rfl, rfl⟩
  rw [rootItems_eq m', rootItems_eq m] at hroot
  by_cases he : m.rootHdr.id = x
  · rw [modify_elem_eq x f _ _ _ he] at hroot
    injection hroot with a _ _
    rw [a]; exact (hf _ _ hocc he).1
  · rw [modify_elem_ne x f _ _ _ he] at hroot
    injection hroot with a _ _

variable (vOk : Nat)

/-- `minv_goodEdit` for a located good edit: the index invariant of one model survives with the SAME index -/
theorem minv_goodEditAt (nid : Nat) (m m' : Model) (x : Nat) (f : Hdr → Items → Hdr × Items)
    (hf : GoodEditAt S x f m.rootItems)
    (hm : MInv S vOk nid m) (hK : SnSibsKnown S m.rootItems) (hx : x ∈ m.rootItems.ids)
    (hroot : m'.rootItems = m.rootItems.modify x f) (hidx : m'.index = m.index) (hiss : m'.rootIssued = m.rootIssued)
    (hfiles : m'.files = m.files) : MInv S vOk nid m' ∧ SnSibsKnown S m'.rootItems := by
  obtain ⟨hids, hent, _, hsn, hkn, _⟩ := goodEditAt_tree S x f m.rootItems hf hm.sn hK hm.ids hx
  have hrh := goodEditAt_root S m m' x f hf hroot
  refine ⟨⟨?_, ?_, ?_, ?_, ?_, ?_, ?_, ?_, ?_⟩, ?_⟩
  · rw [hfiles]; exact hm.vers
  · rw [hroot]; exact hids.symm.nodup hm.ids
  · intro hi i hmem
    rw [hroot] at hmem
    exact hm.bound (hiss ▸ hi) i (hids.mem_iff.mp hmem)
  · intro hi
    obtain ⟨hk, hfl⟩ := hm.fresh (hiss ▸ hi)
    refine ⟨?_, by rw [hrh]; exact hfl⟩
    have h1 : m'.rootItems.ids.Perm m.rootItems.ids := by rw [hroot]; exact hids
    rw [rootItems_eq m', rootItems_eq m] at h1
    simp only [Items.ids, List.append_nil, hrh, hk] at h1
    exact List.perm_nil.mp (h1.cons_inv)
  · rw [hrh]; exact hm.rootName
  · rw [hroot]; exact hsn
  · rw [hroot]; exact keysNodupI_perm (hent []) hm.keys
  · rw [hidx]; exact hm.idxKeys
  · intro q i
    rw [hidx, hroot, hm.exact q i]
    exact ((hent []).mem_iff).symm
  · rw [hroot]; exact hkn

/-! ### the position change at the located node -/

/-- the edit `posModel` makes -/
def posEdit (cur q : Nat) : Hdr → Items → Hdr × Items := fun h0 k0 => (h0, movePos k0 cur q)

theorem posModel_eq (m : Model) (p cur q : Nat) : posModel m p cur q = m.setRoot (m.rootItems.modify p (posEdit cur q)) := rfl

/-- in a model with the index invariant, the rotation at the node `p` the chain `cp` leads to is a located good edit: the
child `x` at position `cur` is not called SHORT-NAME, the new position is not in front of a leading SHORT-NAME -/
theorem posEdit_good {nid : Nat} {m : Model} (hm : MInv S vOk nid m) (p x cur q : Nat) (cp : List (Hdr × Items))
    (hc : m.rootItems.chain p = some cp) (hcur : (lastOf cp).2.childPos x 0 = some cur)
    (hname : ∀ ch ck, (lastOf cp).2.child x = some (ch, ck) → ch.name ≠ S.nmShortName)
    (hq : firstIsSn S (lastOf cp).2 → 1 ≤ q) : GoodEditAt S p (posEdit cur q) m.rootItems := by
  intro h k ho he
  obtain ⟨e1, e2⟩ := node_eq S vOk hm p cp hc h k ho he
  obtain ⟨ch, ck, hch⟩ := mpos_child_of_childPos x _ 0 cur hcur
  obtain ⟨_, hi, _⟩ := child_itemAt x _ 0 cur ch ck hcur hch
  rw [Nat.sub_zero] at hi
  refine ⟨rfl, ?_⟩
  show SortGood S h k (movePos k cur q)
  rw [e2, mpos_eq_of_itemAt _ cur q ch ck hi]
  exact mpos_sortGood S h _ cur q ch ck hi (hname ch ck hch) hq

end

section
variable (S : Spec) (V : Env) (vOk : Nat)

/-! ### the world after the position change -/

theorem posModel_models (w : World) (k p cur q : Nat) :
    (setModel w k (posModel (w.models[k]!) p cur q)).models = w.models.set k (posModel (w.models[k]!) p cur q) := rfl

/-- `KidsKnown` survives (the set of child elements of every element stays) -/
theorem posModel_wkidsKnown (w : World) (k p cur q : Nat) (cp : List (Hdr × Items)) (hloc : locate w p = some (k, cp))
    (hK : WKidsKnown S w) : WKidsKnown S (setModel w k (posModel (w.models[k]!) p cur q)) := by
  obtain ⟨m, _, hm2, hmem, _⟩ := locate_chain w p k cp hloc
  rw [hm2]
  refine wkidsKnown_update S w _ k _ hK ?_ rfl
  rw [posModel_eq, rootItems_setRoot_modify]
  exact kidsKnown_modify S p (posEdit cur q) _ (fun h k0 _ _ => ⟨rfl, fun a b => mpos_kidsKnown S h k0 cur q a b⟩) (hK m hmem)

/-- `RefOne` survives (the number of content items of every element stays) -/
theorem posModel_wrone (w : World) (k p cur q : Nat) (cp : List (Hdr × Items)) (hloc : locate w p = some (k, cp))
    (hl : WROne S w) : WROne S (setModel w k (posModel (w.models[k]!) p cur q)) := by
  obtain ⟨m, _, hm2, hmem, _⟩ := locate_chain w p k cp hloc
  rw [hm2]
  refine wrone_update S w _ k _ hl ?_ rfl
  rw [posModel_eq, rootItems_setRoot_modify]
  exact refOne_modify S p (posEdit cur q) _ (fun h k0 _ _ a b => mpos_refOne S h k0 cur q a b) (hl m hmem)

/-- **C04 for the position change**: the index invariant survives (and so does `SnSibsKnown`) — the child `x` at position
`cur` of the content of `p` is not called SHORT-NAME, the new position `q` is not in front of a leading SHORT-NAME -/
theorem posModel_winv' (w : World) (p x k cur q : Nat) (cp : List (Hdr × Items)) (hw : WInv S vOk w) (hK : WSibsKnown S w)
    (hloc : locate w p = some (k, cp)) (hcur : (lastOf cp).2.childPos x 0 = some cur)
    (hname : ∀ ch ck, (lastOf cp).2.child x = some (ch, ck) → ch.name ≠ S.nmShortName)
    (hq : firstIsSn S (lastOf cp).2 → 1 ≤ q) :
    WInv S vOk (setModel w k (posModel (w.models[k]!) p cur q)) ∧
    WSibsKnown S (setModel w k (posModel (w.models[k]!) p cur q)) := by
  obtain ⟨m, _, hm2, hmem, hc⟩ := locate_chain w p k cp hloc
  rw [hm2, posModel_eq]
  obtain ⟨a, b, c', d⟩ := setRoot_modify_fields m p (posEdit cur q)
  obtain ⟨h1, h2⟩ := minv_goodEditAt S vOk w.nextId m _ p (posEdit cur q)
    (posEdit_good S vOk (hw m hmem) p x cur q cp hc hcur hname hq) (hw m hmem) (hK m hmem)
    (chain_mem_ids p _ cp hc) (rootItems_setRoot_modify m p _) a d c'
  exact ⟨winv_update S vOk w _ k _ hw (Nat.le_refl _) h1 rfl, wsibsKnown_update S w _ k _ hK h2 rfl⟩

/-- **C04 + C05 for the position change**: the combined invariant survives -/
theorem posModel_cinv (w : World) (p x k cur q : Nat) (cp : List (Hdr × Items)) (h : CInv S vOk w) (hK : WSibsKnown S w)
    (hloc : locate w p = some (k, cp)) (hcur : (lastOf cp).2.childPos x 0 = some cur)
    (hname : ∀ ch ck, (lastOf cp).2.child x = some (ch, ck) → ch.name ≠ S.nmShortName)
    (hq : firstIsSn S (lastOf cp).2 → 1 ≤ q) :
    CInv S vOk (setModel w k (posModel (w.models[k]!) p cur q)) := by
  refine ⟨(posModel_winv' S vOk w p x k cur q cp h.1 hK hloc hcur hname hq).1, ?_⟩
  obtain ⟨hw, hr, hl, hT⟩ := h
  obtain ⟨m, _, hm2, hmem, hc⟩ := locate_chain w p k cp hloc
  rw [hm2, posModel_eq]
  obtain ⟨_, b, _, _⟩ := setRoot_modify_fields m p (posEdit cur q)
  have hroot := rootItems_setRoot_modify m p (posEdit cur q)
  have hm := hw m hmem
  have hgood := posEdit_good S vOk hm p x cur q cp hc hcur hname hq
  obtain ⟨_, _, hrefs, _, _, hleaf⟩ := goodEditAt_tree S p (posEdit cur q) m.rootItems hgood hm.sn (hK m hmem) hm.ids
    (chain_mem_ids p _ cp hc)
  refine ⟨?_, ?_, ?_⟩
  · refine wrinv_update S w _ k _ hr ?_ rfl
    rw [b, hroot]
    exact refsExact_perm S m.refs _ _ (hr m hmem) hrefs
  · refine wrleaf_update S w _ k _ hl ?_ rfl
    rw [hroot]; exact hleaf (hl m hmem)
  · refine wrootTy_update S w _ k _ hT ?_ rfl
    rw [goodEditAt_root S m _ p (posEdit cur q) hgood hroot]
    exact hT m hmem

/-- **the full invariant survives the position change** -/
theorem posModel_ginv (w : World) (p x k cur q : Nat) (cp : List (Hdr × Items)) (h : GInv S vOk w)
    (hloc : locate w p = some (k, cp)) (hcur : (lastOf cp).2.childPos x 0 = some cur)
    (hname : ∀ ch ck, (lastOf cp).2.child x = some (ch, ck) → ch.name ≠ S.nmShortName)
    (hq : firstIsSn S (lastOf cp).2 → 1 ≤ q) :
    GInv S vOk (setModel w k (posModel (w.models[k]!) p cur q)) := by
  obtain ⟨hi, ⟨hc, hk⟩, h1⟩ := h
  exact ⟨posModel_inv w k p cur q hi,
    ⟨posModel_cinv S vOk w p x k cur q cp hc (wsibsKnown_of_wkidsKnown S w hk) hloc hcur hname hq,
      posModel_wkidsKnown S w k p cur q cp hloc hk⟩,
    posModel_wrone S w k p cur q cp hloc h1⟩

/-! ### from the facts `opMove_cases` hands out -/

/-- the child `x` of `p` the position-change branch rotates is the element navigation to `x` finds -/
theorem moveRun_child {w : World} {p x : Nat} {pos? : Option Nat} {k : Nat} {cx cp : List (Hdr × Items)} {ver lo hi : Nat}
    {sph : Hdr} {spk : Items} (hw : WInv S vOk w) (hr : MoveRun S V w p x pos? k cx cp ver lo hi sph spk)
    (ch : Hdr) (ck : Items) (hch : (lastOf cp).2.child x = some (ch, ck)) (cur : Nat)
    (hcur : (lastOf cp).2.childPos x 0 = some cur) : ch = (lastOf cx).1 ∧ ck = (lastOf cx).2 := by
  obtain ⟨m, hm1, _, hmem, hcp⟩ := locate_chain w p k cp hr.locp
  obtain ⟨m', hm1', _, _, hcx⟩ := locate_chain w x k cx hr.locx
  obtain rfl : m = m' := by
    rw [hm1] at hm1'
    exact Option.some.inj hm1'
  have hm := hw m hmem
  obtain ⟨_, hi, hid⟩ := child_itemAt x _ 0 cur ch ck hcur hch
  rw [Nat.sub_zero] at hi
  have o1 : Occ ch ck m.rootItems :=
    (chain_occ p m.rootItems cp hcp).1.trans (mpos_occ_of_mem _ (ch, ck) (mpos_itemAt_mem _ cur ch ck hi))
  obtain ⟨o2, e2⟩ := chain_occ x m.rootItems cx hcx
  exact occ_unique m.rootItems hm.ids ch _ ck _ o1 o2 (hid.trans e2.symm)

/-- an accepted position is not in front of a leading SHORT-NAME of the destination -/
theorem moveRun_pos (hH : IdxHyp S V vOk) {w : World} {p x : Nat} {pos? : Option Nat} {k : Nat} {cx cp : List (Hdr × Items)}
    {ver lo hi : Nat} {sph : Hdr} {spk : Items} (hw : WInv S vOk w)
    (hr : MoveRun S V w p x pos? k cx cp ver lo hi sph spk) (hf : firstIsSn S (lastOf cp).2) : 1 ≤ pos?.getD hi := by
  obtain ⟨m, _, _, hmem, hcp⟩ := locate_chain w p k cp hr.locp
  have hm := hw m hmem
  obtain ⟨hocc, _⟩ := chain_occ p m.rootItems cp hcp
  have hrange := hr.range
  have hpos := hr.pos
  cases hl : (lastOf cp).2 with
  | nil => rw [hl] at hf; exact hf.elim
  | text _ _ => rw [hl] at hf; exact hf.elim
  | elem sh sk rest =>
    rw [hl] at hf hrange
    have hk := (kidsOk_of_occ S _ hm.sn _ _ hocc).1
    rw [hl] at hk
    obtain ⟨⟨hnamed, hseq, _, _⟩, _⟩ := hk.1 hf
    have := insertRange_lo_pos S hH.wf hH.only (lastOf cp).1 sh sk rest (lastOf cx).1.name ver lo hi hnamed hseq hf hrange
    omega

/-- 1. the position-change branch keeps `Inv` (no hypothesis) -/
theorem opMove_pos_inv (w : World) (p x : Nat) (pos? : Option Nat) (k cur q : Nat) (h : Inv w)
    (he : opMove S V w p x pos? = (setModel w k (posModel (w.models[k]!) p cur q), .ok "")) :
    Inv (opMove S V w p x pos?).1 := by
  rw [he]; exact posModel_inv w k p cur q h

/-- 2a. the position-change branch keeps `CInv` — EXTRA HYPOTHESIS: the moved element is not called SHORT-NAME -/
theorem opMove_pos_cinv (hH : IdxHyp S V vOk) (w : World) (p x : Nat) (pos? : Option Nat) (k : Nat)
    (cx cp : List (Hdr × Items)) (ver lo hi : Nat) (sph : Hdr) (spk : Items) (q cur : Nat)
    (h : CInv S vOk w) (hK : WSibsKnown S w)
    (hr : MoveRun S V w p x pos? k cx cp ver lo hi sph spk) (hq : pos? = some q)
    (hcur : (lastOf cp).2.childPos x 0 = some cur) (hname : (lastOf cx).1.name ≠ S.nmShortName) :
    CInv S vOk (setModel w k (posModel (w.models[k]!) p cur q)) := by
  refine posModel_cinv S vOk w p x k cur q cp h hK hr.locp hcur ?_ ?_
  · intro ch ck hch
    rw [(moveRun_child S V vOk h.1 hr ch ck hch cur hcur).1]
    exact hname
  · intro hf
    have := moveRun_pos S V vOk hH h.1 hr hf
    rw [hq] at this
    exact this

/-- 2b. the position-change branch keeps the full invariant `GInv` — EXTRA HYPOTHESIS: the moved element is not called
SHORT-NAME -/
theorem opMove_pos_ginv (hH : IdxHyp S V vOk) (w : World) (p x : Nat) (pos? : Option Nat) (k : Nat)
    (cx cp : List (Hdr × Items)) (ver lo hi : Nat) (sph : Hdr) (spk : Items) (q cur : Nat)
    (h : GInv S vOk w)
    (hr : MoveRun S V w p x pos? k cx cp ver lo hi sph spk) (hq : pos? = some q)
    (hcur : (lastOf cp).2.childPos x 0 = some cur) (hname : (lastOf cx).1.name ≠ S.nmShortName) :
    GInv S vOk (setModel w k (posModel (w.models[k]!) p cur q)) := by
  obtain ⟨hi', ⟨hc, hk⟩, h1⟩ := h
  exact ⟨posModel_inv w k p cur q hi',
    ⟨opMove_pos_cinv S V vOk hH w p x pos? k cx cp ver lo hi sph spk q cur hc (wsibsKnown_of_wkidsKnown S w hk) hr hq hcur hname,
      posModel_wkidsKnown S w k p cur q cp hr.locp hk⟩,
    posModel_wrone S w k p cur q cp hr.locp h1⟩

/-- 3. the same about the result of `opMove`, for a call that takes the position-change branch (the facts are those of the
second alternative of `opMove_cases`) -/
theorem opMove_pos_ginv' (hH : IdxHyp S V vOk) (w : World) (p x : Nat) (pos? : Option Nat) (h : GInv S vOk w)
    (k : Nat) (cx cp : List (Hdr × Items)) (ver lo hi : Nat) (sph : Hdr) (spk : Items) (q cur : Nat)
    (hr : MoveRun S V w p x pos? k cx cp ver lo hi sph spk) (hq : pos? = some q)
    (hcur : (lastOf cp).2.childPos x 0 = some cur)
    (he : opMove S V w p x pos? = (setModel w k (posModel (w.models[k]!) p cur q), .ok ""))
    (hname : (lastOf cx).1.name ≠ S.nmShortName) : GInv S vOk (opMove S V w p x pos?).1 := by
  rw [he]
  exact opMove_pos_ginv S V vOk hH w p x pos? k cx cp ver lo hi sph spk q cur h hr hq hcur hname

end
end AV.W
