/-
C02: every parser / tokenizer error and every warning of the parser model names a line between 1 and the number of lines
of the input.  `LO L m`: started in a state whose line numbers are within `[1, L]` (and whose tokenizer cannot exceed `L`),
`m` ends in such a state, and an error it returns carries such a line.  Closed under `bind'`, `if`, `match`; `nextTok`
has it by `Lex.next_lines`.  (The proofs follow the structure of `Lemmas/Parser.lean`.)
-/
import AutosarVerif.Lemmas.Lexer
import AutosarVerif.Model.Parser

namespace AV.PM
open AV.W

def StOk (L : Nat) (s : PState) : Prop :=
  1 ≤ s.line ∧ s.line ≤ L ∧ 1 ≤ s.lx.line ∧ s.lx.line + Lex.countNl s.lx.rest ≤ L ∧ ∀ w ∈ s.warnings, 1 ≤ w.line ∧ w.line ≤ L

def LineIn (L l : Nat) : Prop := 1 ≤ l ∧ l ≤ L

def LO {α : Type} (L : Nat) (m : P α) : Prop :=
  ∀ b s, StOk L s →
    (∀ w ∈ (m b s).2.warnings, LineIn L w.line) ∧
    (∀ a, (m b s).1 = .ok a → StOk L (m b s).2) ∧
    (∀ e, (m b s).1 = .error e → LineIn L e.line)

variable {L : Nat}

theorem LO_pure {α : Type} (a : α) : LO L (pure' a) := fun _ s hs => ⟨hs.2.2.2.2, fun _ _ => hs, fun _ h => (by cases h)⟩
theorem LO_hard {α : Type} (k : Nat) : LO L (hardErr k : P α) :=
  fun _ s hs => ⟨hs.2.2.2.2, fun _ h => (by cases h), fun e h => (by simp only [hardErr] at h; cases h; exact ⟨hs.1, hs.2.1⟩)⟩
theorem LO_opt (k : Nat) : LO L (optErr k) := by
  intro b s hs
  have hw : ∀ w ∈ s.warnings ++ [(⟨k, s.line⟩ : PErr)], LineIn L w.line := by
    intro w hw
    rcases List.mem_append.mp hw with h | h
    · exact hs.2.2.2.2 w h
    · have : w = ⟨k, s.line⟩ := by simpa using h
      rw [this]; exact ⟨hs.1, hs.2.1⟩
  cases b
  · exact ⟨hw, fun _ _ => ⟨hs.1, hs.2.1, hs.2.2.1, hs.2.2.2.1, hw⟩, fun _ h => (by simp [optErr] at h)⟩
  · exact ⟨hs.2.2.2.2, fun _ h => (by simp [optErr] at h), fun e h => (by simp only [optErr, if_true] at h; cases h; exact ⟨hs.1, hs.2.1⟩)⟩
theorem LO_bind {α β : Type} {m : P α} {k : α → P β} (hm : LO L m) (hk : ∀ a, LO L (k a)) : LO L (bind' m k) := by
  intro b s hs
  have h1 := hm b s hs
  simp only [bind']
  cases hr : m b s with
  | mk r s1 =>
    rw [hr] at h1
    cases r with
    | error e => exact ⟨h1.1, fun _ h => (by cases h), fun e' h => (by cases h; exact h1.2.2 e rfl)⟩
    | ok a => exact hk a b s1 (h1.2.1 a rfl)
theorem LO_ite {α : Type} {c : Prop} [Decidable c] {a b : P α} (ha : LO L a) (hb : LO L b) : LO L (if c then a else b) := by
  split <;> assumption
theorem LO_getS : LO L getS := fun _ s hs => ⟨hs.2.2.2.2, fun _ _ => hs, fun _ h => (by cases h)⟩
theorem LO_modS (f : PState → PState) (hf : ∀ s, (f s).warnings = s.warnings ∧ (f s).line = s.line ∧ (f s).lx = s.lx) : LO L (modS f) := by
  intro b s hs
  obtain ⟨h1, h2, h3⟩ := hf s
  have hst : StOk L (f s) := by
    unfold StOk
    rw [h1, h2, h3]
    exact hs
  exact ⟨hst.2.2.2.2, fun _ _ => hst, fun _ h => (by cases h)⟩
theorem LO_allocId : LO L allocId := fun _ s hs => ⟨hs.2.2.2.2, fun _ _ => hs, fun _ h => (by cases h)⟩

theorem LO_nextTok (setLine : Bool) : LO L (nextTok setLine) := by
  intro b s hs
  obtain ⟨h1, h2, h3, h4, h5⟩ := hs
  unfold nextTok
  have hl := Lex.next_lines (s.lx.rest.length + 1) s.lx L h4
  cases hn : Lex.next (s.lx.rest.length + 1) s.lx with
  | none => exact ⟨h5, fun _ h => (by cases h), fun e h => (by cases h; exact ⟨h1, h2⟩)⟩
  | some r =>
    rw [hn] at hl
    obtain ⟨res, lx'⟩ := r
    cases res with
    | error e =>
      obtain ⟨l, err⟩ := e
      have hl' : s.lx.line ≤ l ∧ l ≤ L := hl
      exact ⟨h5, fun _ h => (by cases h), fun e' h => (by cases h; exact ⟨Nat.le_trans h3 hl'.1, hl'.2⟩)⟩
    | ok le =>
      obtain ⟨l, ev⟩ := le
      have hl' : s.lx.line ≤ l ∧ l ≤ L ∧ lx'.line + Lex.countNl lx'.rest ≤ L ∧ s.lx.line ≤ lx'.line := hl
      refine ⟨h5, fun _ _ => ?_, fun e h => (by cases h)⟩
      cases setLine
      · exact ⟨h1, h2, Nat.le_trans h3 hl'.2.2.2, hl'.2.2.1, h5⟩
      · exact ⟨Nat.le_trans h3 hl'.1, hl'.2.1, Nat.le_trans h3 hl'.2.2.2, hl'.2.2.1, h5⟩

theorem LO_unescapeP (fuel : Nat) (s : Bytes) : LO L (unescapeP fuel s) := by
  fun_induction unescapeP fuel s
  all_goals first
    | exact LO_pure _
    | (rename_i ih; exact LO_bind ih fun _ => LO_pure _)
    | (rename_i ih; exact LO_bind (LO_opt _) fun _ => LO_bind ih fun _ => LO_pure _)

theorem LO_checkVersion (mask kind : Nat) : LO L (checkVersion mask kind) := by
  unfold checkVersion
  refine LO_bind (LO_modS _ (fun _ => ⟨rfl, rfl, rfl⟩)) fun _ => LO_bind LO_getS fun s => ?_
  split
  · exact LO_opt _
  · exact LO_pure _

theorem LO_maxLen (maxLen : Option Nat) (n : Nat) : LO L (match maxLen with
    | some m => if n > m then optErr kStringValueTooLong else pure' ()
    | none => pure' ()) := by
  cases maxLen with
  | none => exact LO_pure _
  | some m =>
    dsimp only
    split
    · exact LO_opt _
    · exact LO_pure _

theorem LO_parseCD (V : Env) (input : Bytes) (spec : CSpec) : LO L (parseCD V input spec) := by
  unfold parseCD
  dsimp only
  split
  · -- enum
    split
    · exact LO_hard _
    · split
      · exact LO_hard _
      · exact LO_bind (LO_checkVersion _ _) fun _ => LO_pure _
  · -- pattern
    refine LO_bind ?_ fun checked => LO_bind (LO_maxLen _ _) fun _ => LO_bind ?_ fun _ => ?_
    · split
      · exact LO_unescapeP _ _
      · exact LO_pure _
    · split
      · exact LO_pure _
      · exact LO_opt _
    · split
      · exact LO_pure _
      · exact LO_bind (LO_opt _) fun _ => LO_hard _
  · -- string
    refine LO_bind (LO_maxLen _ _) fun _ => ?_
    exact LO_ite (LO_bind (LO_unescapeP _ _) fun _ => LO_pure _) (LO_bind (LO_opt _) fun _ => LO_hard _)
  · -- uint
    split
    · exact LO_hard _
    · split
      · exact LO_pure _
      · exact LO_bind (LO_opt _) fun _ => LO_pure _
  · -- float
    split
    · exact LO_hard _
    · split
      · exact LO_pure _
      · exact LO_bind (LO_opt _) fun _ => LO_pure _

section
variable (S : Spec) (V : Env)

theorem LO_attrLoop (typ : Nat) (fuel : Nat) : ∀ (rem : Bytes) (acc : List (Nat × CDv)), LO L (attrLoop S V typ fuel rem acc) := by
  induction fuel with
  | zero => intro rem acc; unfold attrLoop; exact LO_pure _
  | succ n ih =>
    intro rem acc
    unfold attrLoop
    split
    · exact LO_pure _
    · dsimp only
      refine LO_bind ?_ fun acc' => ?_
      · split
        · split
          · exact LO_bind (LO_checkVersion _ _) fun _ => LO_bind (LO_parseCD V _ _) fun _ => LO_pure _
          · exact LO_bind (LO_opt _) fun _ => LO_pure _
        · exact LO_bind (LO_opt _) fun _ => LO_pure _
      · split
        · exact LO_pure _
        · exact ih _ _

theorem LO_required (attrs : List (Nat × CDv)) (l : List (Nat × Nat × Bool × Nat)) : ∀ m : P Unit, LO L m →
    LO L (l.foldl (fun (m : P Unit) (a : Nat × Nat × Bool × Nat) =>
      bind' m fun _ => if a.2.2.1 ∧ !attrs.any (·.1 == a.1) then optErr kRequiredAttributeMissing else pure' ()) m) := by
  induction l with
  | nil => intro m hm; exact hm
  | cons a r ih =>
    intro m hm
    simp only [List.foldl_cons]
    apply ih
    refine LO_bind hm fun _ => ?_
    split
    · exact LO_opt _
    · exact LO_pure _

theorem LO_parseAttrs (typ : Nat) (text : Bytes) : LO L (parseAttrs S V typ text) := by
  unfold parseAttrs
  refine LO_bind (LO_attrLoop S V typ _ _ _) fun r => ?_
  refine LO_bind ?_ fun _ => LO_bind (LO_required _ _ _ (LO_pure _)) fun _ => LO_pure _
  split
  · exact LO_opt _
  · exact LO_pure _

theorem LO_findChecked (typ name : Nat) : LO L (findChecked S typ name) := by
  unfold findChecked
  refine LO_bind LO_getS fun s => ?_
  split
  · exact LO_pure _
  · split
    · exact LO_hard _
    · split
      · exact LO_hard _
      · exact LO_bind (LO_checkVersion _ _) fun _ => LO_pure _

theorem LO_checkConflict (typ : Nat) (old new : List Nat) : LO L (checkConflict S typ old new) := by
  unfold checkConflict
  split
  · exact LO_pure _
  · split
    · exact LO_opt _
    · exact LO_hard _
    · exact LO_pure _

theorem LO_checkMult (typ name : Nat) (idx : List Nat) (acc : List Item) : LO L (checkMult S typ name idx acc) := by
  unfold checkMult
  split
  · exact LO_hard _
  · split
    · split
      · split
        · exact LO_opt _
        · exact LO_pure _
      · exact LO_pure _
    · exact LO_pure _

theorem LO_pLoop (fuel : Nat) : ∀ (h : Hdr) (st : LoopSt), LO L (pLoop S V fuel h st) := by
  induction fuel with
  | zero => intro h st; unfold pLoop; exact LO_hard _
  | succ n ih =>
    intro h st
    unfold pLoop
    refine LO_bind (LO_nextTok _) fun ev => ?_
    split
    · -- begin element
      split
      · exact LO_hard _
      · refine LO_bind (LO_findChecked S _ _) fun r => LO_bind (LO_checkConflict S _ _ _) fun _ => LO_bind ?_ fun _ =>
          LO_bind (LO_parseAttrs S V _ _) fun attrs => LO_bind LO_allocId fun id => LO_bind (ih _ _) fun skids => LO_bind ?_ fun _ => ih _ _
        · split
          · exact LO_pure _
          · exact LO_checkMult S _ _ _ _
        · split
          · exact LO_modS _ (fun _ => ⟨rfl, rfl, rfl⟩)
          · exact LO_pure _
    · -- end element
      split
      · exact LO_hard _
      · split
        · refine LO_bind ?_ fun _ => LO_pure _
          split
          · refine LO_bind LO_getS fun s => ?_
            split
            · exact LO_opt _
            · exact LO_pure _
          · exact LO_pure _
        · exact LO_hard _
    · -- characters
      split
      · refine LO_bind (LO_parseCD V _ _) fun v => LO_bind ?_ fun _ => ih _ _
        split
        · split
          · exact LO_modS _ (fun _ => ⟨rfl, rfl, rfl⟩)
          · exact LO_pure _
        · exact LO_pure _
      · exact LO_bind (LO_opt _) fun _ => ih _ _
    · exact LO_bind (LO_opt _) fun _ => ih _ _
    · exact LO_hard _
    · split
      · exact ih _ _
      · exact LO_hard _

theorem LO_parseFileVersion (schema : Bytes) : LO L (parseFileVersion V schema) := by
  unfold parseFileVersion
  dsimp only
  refine LO_ite (LO_hard _) ?_
  split
  · exact LO_pure _
  · have hfix : ∀ g : Bytes, LO L (bind' (optErr kInvalidAutosarVersion) fun _ => pure' ((V.verOfFile g).getD 0)) :=
      fun g => LO_bind (LO_opt _) fun _ => LO_pure _
    exact LO_ite (hfix _) (LO_ite (hfix _) (LO_ite (hfix _) (LO_bind (LO_opt _) fun _ => LO_pure _)))

theorem LO_parseFileHeader (attrs : List (Nat × CDv)) : LO L (parseFileHeader V attrs) := by
  unfold parseFileHeader
  dsimp only
  split
  · split
    · exact LO_hard _
    · exact LO_bind (LO_parseFileVersion V _) fun _ => LO_modS _ (fun _ => ⟨rfl, rfl, rfl⟩)
  · exact LO_hard _

theorem LO_skipComments (fuel : Nat) : ∀ (c : Option Bytes) (ev : Lex.Event), LO L (skipComments fuel c ev) := by
  induction fuel with
  | zero =>
    intro c ev
    cases ev <;> first | exact LO_hard _ | exact LO_pure _
  | succ n ih =>
    intro c ev
    cases ev with
    | comment b =>
      unfold skipComments
      exact LO_ite (LO_bind (LO_nextTok _) fun _ => ih _ _) (LO_hard _)
    | header _ => exact LO_pure _
    | beginElement _ _ => exact LO_pure _
    | endElement _ => exact LO_pure _
    | characters _ => exact LO_pure _
    | eof => exact LO_pure _

/-- **C08** the whole parser is lock-step in the two modes and only adds warnings -/
theorem LO_parseArxml (fuel nmAutosar : Nat) : LO L (parseArxml S V fuel nmAutosar) := by
  unfold parseArxml
  refine LO_bind (LO_nextTok _) fun ev0 => ?_
  split
  · refine LO_bind (LO_modS _ (fun _ => ⟨rfl, rfl, rfl⟩)) fun _ => LO_bind (LO_nextTok _) fun ev1 => LO_bind (LO_skipComments _ _ _) fun r => ?_
    obtain ⟨comment, ev⟩ := r
    dsimp only
    split
    · refine LO_ite ?_ (LO_hard _)
      refine LO_bind (LO_parseAttrs S V _ _) fun attrs => LO_bind (LO_parseFileHeader V _) fun _ => LO_bind LO_allocId fun id =>
        LO_bind (LO_pLoop S V _ _ _) fun kids => LO_bind (LO_nextTok _) fun evEnd => LO_bind ?_ fun _ => LO_pure _
      split
      · exact LO_pure _
      · exact LO_opt _
    · exact LO_hard _
  · exact LO_hard _

/-- **C02** every error and every warning of a parser run names a line between 1 and the number of lines of the input -/
theorem runParser_lines (strict : Bool) (buf : Bytes) (firstId nmAutosar : Nat) :
    (∀ e, (runParser S V strict buf firstId nmAutosar).1 = .error e → 1 ≤ e.line ∧ e.line ≤ 1 + Lex.countNl buf) ∧
    (∀ w ∈ (runParser S V strict buf firstId nmAutosar).2.warnings, 1 ≤ w.line ∧ w.line ≤ 1 + Lex.countNl buf) := by
  have hb := Lex.init_bound buf
  have hst : StOk (1 + Lex.countNl buf) { warnings := [], line := 1, lx := Lex.init buf, nextId := firstId } := by
    refine ⟨Nat.le_refl _, ?_, ?_, hb.2, by simp⟩
    · show 1 ≤ 1 + Lex.countNl buf
      omega
    · show 1 ≤ (Lex.init buf).line
      rw [hb.1]
      exact Nat.le_refl _
  have h := LO_parseArxml (L := 1 + Lex.countNl buf) S V (2 * buf.length + 8) nmAutosar strict _ hst
  exact ⟨h.2.2, h.1⟩

end
end AV.PM
