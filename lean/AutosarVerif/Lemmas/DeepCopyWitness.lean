/-
C13, witnesses for `Lemmas/DeepCopy.lean`:
* non-vacuity: the hypotheses of `opCopy_inv_same_version` are met by a concrete world (the history `refOps.take 10` of
  `Lemmas/RefsWitness.lean`), the copy gets the suffix `_1`, and index and reference map are exact afterwards;
* `CopyPathsOk` cannot be dropped: the copy of an element WITHOUT an item name whose named children have the names of
  existing siblings leaves an index that is not exact (only the copied element's own name is made unique).
-/
import AutosarVerif.Lemmas.DeepCopy
import AutosarVerif.Lemmas.RefsWitness

namespace AV.W
open AV Items

/-! ### non-vacuity: a same-version copy of a named element with a reference element inside -/

/-- a file of version 2; the package P "a" (e1, SHORT-NAME e2) with a Q (e3) inside; in Q the reference elements e4 (no text) and
e5 (text "/a") -/
def cpW : World := run refSpec nameEnv [] (refOps.take 10)

theorem cpW_winv : WInv refSpec 6 cpW := (refOps_cinv_take 10).1
theorem cpW_wrinv : WRInv refSpec cpW := (refOps_cinv_take 10).2.1

/-- the copy of P "a" (e1) into the root (e0): its hypotheses hold, so index and reference map are exact afterwards … -/
theorem cpW_copy_inv : WInv refSpec 6 (opCopy refSpec nameEnv cpW 0 1 none).1 ∧ WRInv refSpec (opCopy refSpec nameEnv cpW 0 1 none).1 := by
  have hx : ∃ kx cx, locate cpW 1 = some (kx, cx) := by
    cases h : locate cpW 1 with
    | some r => exact ⟨r.1, r.2, rfl⟩
    | none =>
      have : (locate cpW 1).isSome = true := by decide
      rw [h] at this; cases this
  obtain ⟨kx, cx, hx⟩ := hx
  have hsrc : hdrOf cpW 1 = some (lastOf cx) := by simp only [hdrOf, hx]
  have h1 : ((hdrOf cpW 1).map fun r => itemName refSpec r.1 r.2) = some (some [97]) := by decide
  have h2 : ((hdrOf cpW 1).map fun r => allCompatB refSpec 2 r.1 r.2) = some true := by decide
  have h3 : ((locate cpW 0).bind fun r => minVersion nameEnv (cpW.models[r.1]!) r.2) = some 2 := by decide
  rw [hsrc] at h1 h2
  simp only [Option.map_some, Option.some.injEq] at h1 h2
  refine opCopy_inv_same_version refSpec nameEnv 6 refSpec_hyp refSpec_refWF cpW 0 1 none cpW_winv cpW_wrinv kx cx hx ?_ ?_
  · rw [h1]; exact fun h => by cases h
  · intro k cp ver hl hv
    rw [hl] at h3
    simp only [Option.bind_some] at h3
    rw [hv] at h3
    cases h3
    exact allCompatB_sound refSpec 2 _ _ h2

/-- … and this is what they hold: the copy is e6 … e10, named "a_1" … -/
example : (opCopy refSpec nameEnv cpW 0 1 none).2 = .ok "e6 e7 e8 e9 e10" ∧
    ((opCopy refSpec nameEnv cpW 0 1 none).1.models.map fun m => (m.index, entries refSpec m.rootItems [])) =
      [([([47, 97], 1), ([47, 97, 95, 49], 6)], [([47, 97], 1), ([47, 97, 95, 49], 6)])] := by
  rw [opCopy_eq_S]; decide

/-- … and its reference element e10 is registered under the text it was copied with -/
example : ((opCopy refSpec nameEnv cpW 0 1 none).1.models.map fun m => (m.refs, refEntries refSpec m.rootItems)) =
    [([([47, 97], [5, 10])], [([47, 97], 5), ([47, 97], 10)])] := by
  rw [opCopy_eq_S]; decide

/-- the source is where it was: the handle e1 still denotes the same node -/
example : (hdrOf (opCopy refSpec nameEnv cpW 0 1 none).1 1).map (fun r => (r.1.id, r.2.ids)) = some (1, [2, 3, 4, 5]) := by
  rw [opCopy_eq_S]; decide

/-! ### `CopyPathsOk` cannot be dropped: copying an element without an item name -/

/-- R (type 0, sequence): C*;  C (type 1, sequence, NOT named): P*;  P (type 2, sequence, named): SHORT-NAME;  SHORT-NAME (type 3,
characters).  All in all versions. -/
def copySpec : Spec where
  nTypes := 4
  nDefs := 4
  nSubs := 3
  nAttrs := 0
  nVer := 3
  nCData := 1
  nRefItems := 0
  subStart := fun t => if t = 0 then 0 else if t = 1 then 1 else if t = 2 then 2 else 3
  subEnd := fun t => if t = 0 then 1 else if t = 1 then 2 else 3
  subVer := fun t => if t = 0 then 0 else if t = 1 then 1 else 2
  attrStart := fun _ => 0
  attrEnd := fun _ => 0
  attrVer := fun _ => 0
  cdataOf := fun t => if t = 3 then some 0 else none
  mode := fun t => if t = 3 then .characters else .sequence
  refStart := fun _ => 0
  refEnd := fun _ => 0
  subEntry := fun i => if i = 0 then .elem 1 else if i = 1 then .elem 2 else .elem 3
  verInfo := fun _ => 7
  attrName := fun _ => 0
  attrCData := fun _ => 0
  attrRequired := fun _ => false
  refItem := fun _ => 0
  defName := fun d => if d = 3 then 999 else 100 + d
  defType := fun d => d
  defMult := fun d => if d = 3 then .zeroOrOne else .any
  defOrdered := fun _ => false
  defSplit := fun d => if d = 0 then 1 else 0
  cspec := fun _ => .pattern 8 none
  refTypeIdx := 99
  rootDef := 0
  depth := 1
  nmShortName := 999
  atDest := 998

/-- a file of version 2; the container C (e1); in it the package P "a" (e2, SHORT-NAME e3) -/
def copyOps : List Op := [.newModel, .mkFile 0 [102] 2 true, .create 0 101 none, .named 1 102 [97] none]
def copyW : World := run copySpec nameEnv [] copyOps

/-- before: index and tree agree -/
example : (copyW.models.map fun m => (m.index, entries copySpec m.rootItems [])) = [([([47, 97], 2)], [([47, 97], 2)])] := by decide

/-- copying the package into the container it is in: the name is made unique, the index stays exact -/
example : (opCopy copySpec nameEnv copyW 1 2 none).2 = .ok "e4 e5" ∧
    ((opCopy copySpec nameEnv copyW 1 2 none).1.models.map fun m => (m.index, entries copySpec m.rootItems [])) =
      [([([47, 97], 2), ([47, 97, 95, 49], 4)], [([47, 97], 2), ([47, 97, 95, 49], 4)])] := by
  rw [opCopy_eq_S]; decide

/-- copying the CONTAINER (no item name: nothing is made unique) next to itself: the copy of the package has the path "/a" of the
original; `registerCopy` overwrites the index entry: two elements with the path "/a", one index entry -/
theorem copy_unnamed_collision : (opCopy copySpec nameEnv copyW 0 1 none).2 = .ok "e4 e5 e6" ∧
    ((opCopy copySpec nameEnv copyW 0 1 none).1.models.map fun m => (m.index, entries copySpec m.rootItems [])) =
      [([([47, 97], 5)], [([47, 97], 2), ([47, 97], 5)])] := by
  rw [opCopy_eq_S]; decide

/-- so "the index after the copy = old index ++ entries of the copy" is false without the freshness hypothesis … -/
example : ((opCopy copySpec nameEnv copyW 0 1 none).1.models.map fun m => m.index) ≠
    (copyW.models.map fun m => m.index ++ [([47, 97], 5)]) := by
  rw [opCopy_eq_S]; decide

/-- … and the index invariant does not survive this copy -/
theorem not_winv_after_unnamed_copy (vOk : Nat) : ¬ WInv copySpec vOk (opCopy copySpec nameEnv copyW 0 1 none).1 := by
  intro h
  obtain ⟨_, hs⟩ := copy_unnamed_collision
  cases hms : (opCopy copySpec nameEnv copyW 0 1 none).1.models with
  | nil => rw [hms] at hs; cases hs
  | cons m rest =>
    rw [hms] at hs
    simp only [List.map_cons, List.cons.injEq, Prod.mk.injEq] at hs
    obtain ⟨⟨h1, h2⟩, _⟩ := hs
    have hm := h m (by rw [hms]; exact List.mem_cons_self)
    have := hm.keys
    rw [h2] at this
    simp [keysNodupI] at this

/-! ### `CopyPathsOk` cannot be dropped: a copy into a version in which a nested element has no SHORT-NAME

R (type 0): N*;  N (type 1, named): SHORT-NAME, P*;  P (type 3, named in version 2 ONLY): SHORT-NAME (version 2 only), P2*;
P2 (type 4, named): SHORT-NAME;  SHORT-NAME (type 2, characters). -/

def mergeSpec : Spec where
  nTypes := 5
  nDefs := 5
  nSubs := 6
  nAttrs := 0
  nVer := 6
  nCData := 1
  nRefItems := 0
  subStart := fun t => if t = 0 then 0 else if t = 1 then 1 else if t = 3 then 3 else if t = 4 then 5 else 6
  subEnd := fun t => if t = 0 then 1 else if t = 1 then 3 else if t = 3 then 5 else 6
  subVer := fun t => if t = 0 then 0 else if t = 1 then 1 else if t = 3 then 3 else if t = 4 then 5 else 6
  attrStart := fun _ => 0
  attrEnd := fun _ => 0
  attrVer := fun _ => 0
  cdataOf := fun t => if t = 2 then some 0 else none
  mode := fun t => if t = 2 then .characters else .sequence
  refStart := fun _ => 0
  refEnd := fun _ => 0
  subEntry := fun i => if i = 0 then .elem 1 else if i = 1 then .elem 2 else if i = 2 then .elem 3 else if i = 3 then .elem 2
    else if i = 4 then .elem 4 else .elem 2
  verInfo := fun i => if i = 3 then 2 else 7
  attrName := fun _ => 0
  attrCData := fun _ => 0
  attrRequired := fun _ => false
  refItem := fun _ => 0
  defName := fun d => if d = 2 then 999 else 100 + d
  defType := fun d => d
  defMult := fun d => if d = 2 then .zeroOrOne else .any
  defOrdered := fun _ => false
  defSplit := fun d => if d = 0 then 1 else 0
  cspec := fun _ => .pattern 8 none
  refTypeIdx := 99
  rootDef := 0
  depth := 1
  nmShortName := 999
  atDest := 998

def mergeOps : List Op :=
  [.newModel, .mkFile 0 [102] 2 true, .named 0 101 [110] none, .named 1 103 [97] none, .named 3 104 [120] none,
   .named 1 103 [98] none, .named 7 104 [120] none, .newModel, .mkFile 1 [103] 1 true]
def mergeW : World := run mergeSpec nameEnv [] mergeOps

/-- model 0, file version 2: N "n" (e1) with the packages P "a" (e3) and P "b" (e7), each holding a P2 "x" (e5, e9): five different
paths.  Model 1, file version 1: an empty root (e11). -/
example : (mergeW.models.map fun m => (m.index, entries mergeSpec m.rootItems [])) =
    [([([47, 110], 1), ([47, 110, 47, 97], 3), ([47, 110, 47, 97, 47, 120], 5), ([47, 110, 47, 98], 7), ([47, 110, 47, 98, 47, 120], 9)],
      [([47, 110], 1), ([47, 110, 47, 97], 3), ([47, 110, 47, 97, 47, 120], 5), ([47, 110, 47, 98], 7), ([47, 110, 47, 98, 47, 120], 9)]),
     ([], [])] := by decide

/-- copying N "n" into the version-1 model: the copies of P "a" and P "b" lose their SHORT-NAME (not permitted in version 1), so
both copies of P2 "x" have the path "/n/x" (e15, e18); the index keeps one of them -/
theorem copy_merges_paths : (opCopy mergeSpec nameEnv mergeW 11 1 none).2 = .ok "e12 e13 e14 e15 e16 e17 e18 e19" ∧
    (((opCopy mergeSpec nameEnv mergeW 11 1 none).1.models.drop 1).map fun m => (m.index, entries mergeSpec m.rootItems [])) =
      [([([47, 110], 12), ([47, 110, 47, 120], 18)], [([47, 110], 12), ([47, 110, 47, 120], 15), ([47, 110, 47, 120], 18)])] := by
  rw [opCopy_eq_S]; decide

end AV.W
