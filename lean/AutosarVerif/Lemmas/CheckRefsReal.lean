/-
The two facts about the root type that `Lemmas/CheckRefs.lean` asks of the specification (`hroot`: the root type is no
reference type — part of `RefWF`; `hrootN`: the root type has no SHORT-NAME) hold of the tables regenerated from the current
source, by kernel evaluation.
-/
import AutosarVerif.Gen.SpecData
import AutosarVerif.Lemmas.RefWfReal

namespace AV.Gen

theorem realSpec_root_not_ref : realSpec.isRef (realSpec.defType realSpec.rootDef) = false :=
  realSpec_refWF.root_not_ref

theorem realSpec_root_not_named : realSpec.isNamed (realSpec.defType realSpec.rootDef) = false := by decide +kernel

end AV.Gen
