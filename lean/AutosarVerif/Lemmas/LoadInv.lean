/-
The first `load_buffer` into a model: what the parser records while it builds the tree (`PState.idents`, `PState.refs`,
`PState.nextId`) is exactly what the invariants of the world ask of the loaded model.

Part 1 (every accepted run, strict or lenient):
* `Quiet` — the parser functions that do not touch `idents` / `refs` / `nextId`;
* `pIds` / `pRefs` — what the element loop records, as structural functions of the tree it returns;
* `pLoop_track`, `runParser_track` — the loop invariant and the statement for the document;
* `pIds_entries` (under `SnOk`), `pRefs_refEntries` (under `RefOne` and `RefWF.ref_chars`) — the bridge to `entries` /
  `refEntries`.
-/
import AutosarVerif.Lemmas.ParseSound
import AutosarVerif.Lemmas.StepY
import AutosarVerif.Model.Load
import AutosarVerif.Model.ToyEnv

namespace AV.LoadInv
open AV.W AV.Lex AV.PM AV.SerParse AV.ParseSound

/-! ### computations that leave `idents`, `refs`, `nextId` alone -/

/-- the part of the parser state the loaded model is built from -/
def core3 (s : PState) : List (Bytes × Nat) × List (Bytes × Nat) × Nat := (s.idents, s.refs, s.nextId)

/-- `m` never changes `idents`, `refs`, `nextId` (whatever the outcome) -/
def Quiet {α : Type} (m : P α) : Prop := ∀ b s, core3 (m b s).2 = core3 s

theorem Q_pure {α : Type} (a : α) : Quiet (pure' a) := fun _ _ => rfl
theorem Q_hard {α : Type} (k : Nat) : Quiet (hardErr k : P α) := fun _ _ => rfl
theorem Q_opt (k : Nat) : Quiet (optErr k) := by
  intro b s; unfold optErr; split <;> rfl

theorem Q_bind {α β : Type} {m : P α} {k : α → P β} (hm : Quiet m) (hk : ∀ a, Quiet (k a)) : Quiet (bind' m k) := by
  intro b s
  have h1 := hm b s
  simp only [bind']
  cases h : m b s with
  | mk r s1 =>
    rw [h] at h1
    cases r with
    | error e => exact h1
    | ok a => exact (hk a b s1).trans h1

theorem Q_ite {α : Type} {c : Prop} [Decidable c] {a b : P α} (ha : Quiet a) (hb : Quiet b) : Quiet (if c then a else b) := by
  split <;> assumption

theorem Q_getS : Quiet getS := fun _ _ => rfl
theorem Q_modS (f : PState → PState) (hf : ∀ s, core3 (f s) = core3 s) : Quiet (modS f) := fun _ s => hf s
theorem Q_nextTok (b : Bool) : Quiet (nextTok b) := by
  intro _ s
  unfold nextTok
  split <;> rfl

theorem Q_checkVersion (mask kind : Nat) : Quiet (checkVersion mask kind) := by
  unfold checkVersion
  refine Q_bind (Q_modS _ (fun _ => rfl)) fun _ => Q_bind Q_getS fun s => ?_
  split
  · exact Q_opt _
  · exact Q_pure _

theorem Q_unescapeP (fuel : Nat) (s : Bytes) : Quiet (unescapeP fuel s) := by
  fun_induction unescapeP fuel s
  · exact Q_pure _
  · exact Q_pure _
  · rename_i ih; exact Q_bind ih fun _ => Q_pure _
  · rename_i ih; exact Q_bind ih fun _ => Q_pure _
  · rename_i ih; exact Q_bind (Q_opt _) fun _ => Q_bind ih fun _ => Q_pure _
  · rename_i ih; exact Q_bind ih fun _ => Q_pure _

theorem Q_maxLen (maxLen : Option Nat) (n : Nat) : Quiet (match maxLen with
    | some m => if n > m then optErr kStringValueTooLong else pure' ()
    | none => pure' ()) := by
  cases maxLen with
  | none => exact Q_pure _
  | some m =>
    dsimp only
    split
    · exact Q_opt _
    · exact Q_pure _

theorem Q_parseCD (V : Env) (input : Bytes) (spec : CSpec) : Quiet (parseCD V input spec) := by
  unfold parseCD
  dsimp only
  split
  · split
    · exact Q_hard _
    · split
      · exact Q_hard _
      · exact Q_bind (Q_checkVersion _ _) fun _ => Q_pure _
  · refine Q_bind ?_ fun checked => Q_bind (Q_maxLen _ _) fun _ => Q_bind ?_ fun _ => ?_
    · split
      · exact Q_unescapeP _ _
      · exact Q_pure _
    · split
      · exact Q_pure _
      · exact Q_opt _
    · split
      · exact Q_pure _
      · exact Q_bind (Q_opt _) fun _ => Q_hard _
  · refine Q_bind (Q_maxLen _ _) fun _ => ?_
    exact Q_ite (Q_bind (Q_unescapeP _ _) fun _ => Q_pure _) (Q_bind (Q_opt _) fun _ => Q_hard _)
  · split
    · exact Q_hard _
    · split
      · exact Q_pure _
      · exact Q_bind (Q_opt _) fun _ => Q_pure _
  · split
    · exact Q_hard _
    · split
      · exact Q_pure _
      · exact Q_bind (Q_opt _) fun _ => Q_pure _

section
variable (S : Spec) (V : Env)

theorem Q_attrLoop (typ : Nat) (fuel : Nat) : ∀ (rem : Bytes) (acc : List (Nat × CDv)), Quiet (attrLoop S V typ fuel rem acc) := by
  induction fuel with
  | zero => intro rem acc; unfold attrLoop; exact Q_pure _
  | succ n ih =>
    intro rem acc
    unfold attrLoop
    split
    · exact Q_pure _
    · dsimp only
      refine Q_bind ?_ fun acc' => ?_
      · split
        · split
          · exact Q_bind (Q_checkVersion _ _) fun _ => Q_bind (Q_parseCD V _ _) fun _ => Q_pure _
          · exact Q_bind (Q_opt _) fun _ => Q_pure _
        · exact Q_bind (Q_opt _) fun _ => Q_pure _
      · split
        · exact Q_pure _
        · exact ih _ _

theorem Q_required (attrs : List (Nat × CDv)) (l : List (Nat × Nat × Bool × Nat)) : ∀ m : P Unit, Quiet m →
    Quiet (l.foldl (fun (m : P Unit) (a : Nat × Nat × Bool × Nat) =>
      bind' m fun _ => if a.2.2.1 ∧ !attrs.any (·.1 == a.1) then optErr kRequiredAttributeMissing else pure' ()) m) := by
  induction l with
  | nil => intro m hm; exact hm
  | cons a r ih =>
    intro m hm
    simp only [List.foldl_cons]
    apply ih
    refine Q_bind hm fun _ => ?_
    split
    · exact Q_opt _
    · exact Q_pure _

theorem Q_parseAttrs (typ : Nat) (text : Bytes) : Quiet (parseAttrs S V typ text) := by
  unfold parseAttrs
  refine Q_bind (Q_attrLoop S V typ _ _ _) fun r => ?_
  refine Q_bind ?_ fun _ => Q_bind (Q_required _ _ _ (Q_pure _)) fun _ => Q_pure _
  split
  · exact Q_opt _
  · exact Q_pure _

theorem Q_findChecked (typ name : Nat) : Quiet (findChecked S typ name) := by
  unfold findChecked
  refine Q_bind Q_getS fun s => ?_
  split
  · exact Q_pure _
  · split
    · exact Q_hard _
    · split
      · exact Q_hard _
      · exact Q_bind (Q_checkVersion _ _) fun _ => Q_pure _

theorem Q_checkConflict (typ : Nat) (old new : List Nat) : Quiet (checkConflict S typ old new) := by
  unfold checkConflict
  split
  · exact Q_pure _
  · split
    · exact Q_opt _
    · exact Q_hard _
    · exact Q_pure _

theorem Q_checkMult (typ name : Nat) (idx : List Nat) (acc : List Item) : Quiet (checkMult S typ name idx acc) := by
  unfold checkMult
  split
  · exact Q_hard _
  · split
    · split
      · split
        · exact Q_opt _
        · exact Q_pure _
      · exact Q_pure _
    · exact Q_pure _

theorem Q_parseFileVersion (schema : Bytes) : Quiet (parseFileVersion V schema) := by
  unfold parseFileVersion
  dsimp only
  refine Q_ite (Q_hard _) ?_
  split
  · exact Q_pure _
  · have hfix : ∀ g : Bytes, Quiet (bind' (optErr kInvalidAutosarVersion) fun _ => pure' ((V.verOfFile g).getD 0)) :=
      fun g => Q_bind (Q_opt _) fun _ => Q_pure _
    exact Q_ite (hfix _) (Q_ite (hfix _) (Q_ite (hfix _) (Q_bind (Q_opt _) fun _ => Q_pure _)))

theorem Q_parseFileHeader (attrs : List (Nat × CDv)) : Quiet (parseFileHeader V attrs) := by
  unfold parseFileHeader
  dsimp only
  split
  · split
    · exact Q_hard _
    · exact Q_bind (Q_parseFileVersion V _) fun _ => Q_modS _ (fun _ => rfl)
  · exact Q_hard _

theorem Q_skipComments (fuel : Nat) : ∀ (c : Option Bytes) (ev : Lex.Event), Quiet (skipComments fuel c ev) := by
  induction fuel with
  | zero =>
    intro c ev
    cases ev <;> first | exact Q_hard _ | exact Q_pure _
  | succ n ih =>
    intro c ev
    cases ev with
    | comment b =>
      unfold skipComments
      exact Q_ite (Q_bind (Q_nextTok _) fun _ => ih _ _) (Q_hard _)
    | header _ => exact Q_pure _
    | beginElement _ _ => exact Q_pure _
    | endElement _ => exact Q_pure _
    | characters _ => exact Q_pure _
    | eof => exact Q_pure _

end

/-- a quiet computation that succeeds -/
theorem Quiet.ok {α : Type} {m : P α} (h : Quiet m) {b : Bool} {s s' : PState} {a : α} (hr : m b s = (.ok a, s')) :
    s'.idents = s.idents ∧ s'.refs = s.refs ∧ s'.nextId = s.nextId := by
  have := h b s
  rw [hr] at this
  simp only [core3, Prod.mk.injEq] at this
  exact this


/-! ### what the element loop records -/

section
variable (S : Spec) (V : Env)

/-- the identifiable entries the loop for an element with id `pid` adds while it reads the content `its`; `path` = the
path the loop has at that point (the path of the nearest named ancestor, plus the own name once the SHORT-NAME is read) -/
def pIds (pid : Nat) : Bytes → Items → List (Bytes × Nat)
  | _, .nil => []
  | path, .text _ r => pIds pid path r
  | path, .elem sh sk r =>
    pIds sh.id path sk ++
      (match newPathOf S sh.name path sk with
        | some p => (p, pid) :: pIds pid p r
        | none => pIds pid path r)

/-- what a character item of an element with id `pid` adds to the references -/
def refTx (isref : Bool) (pid : Nat) : CDv → List (Bytes × Nat)
  | .str p => if isref then [(p, pid)] else []
  | _ => []

/-- the reference entries the loop for an element with id `pid` (`isref`: its type is a reference type) adds -/
def pRefs (isref : Bool) (pid : Nat) : Items → List (Bytes × Nat)
  | .nil => []
  | .text c r => refTx isref pid c ++ pRefs isref pid r
  | .elem sh sk r => pRefs (S.isRef sh.ety.typ) sh.id sk ++ pRefs isref pid r

/-- the tree is labelled as the parser labels it: ids `n, n+1, …` in document order, parents assigned, no local file sets -/
def Lab (par : PRef) (n : Nat) (its : Items) : Prop := relabel par n its = its

theorem identsUpd_inv (np : Option Bytes) (id : Nat) (b : Bool) (s : PState) (a : Unit) (s' : PState)
    (h : identsUpd np id b s = (.ok a, s')) :
    s'.idents = s.idents ++ (np.map fun p => (p, id)).toList ∧ s'.refs = s.refs ∧ s'.nextId = s.nextId := by
  cases np with
  | none =>
    simp only [identsUpd, pure', Prod.mk.injEq] at h
    obtain ⟨_, rfl⟩ := h
    simp
  | some p =>
    simp only [identsUpd, modS, Prod.mk.injEq] at h
    obtain ⟨_, rfl⟩ := h
    simp

theorem refsUpd_inv (typ id : Nat) (v : CDv) (b : Bool) (s : PState) (a : Unit) (s' : PState)
    (h : refsUpd S typ id v b s = (.ok a, s')) :
    s'.refs = s.refs ++ refTx (S.isRef typ) id v ∧ s'.idents = s.idents ∧ s'.nextId = s.nextId := by
  unfold refsUpd at h
  cases v with
  | str r =>
    simp only [refTx] at h ⊢
    split at h
    · simp only [modS, Prod.mk.injEq] at h
      obtain ⟨_, rfl⟩ := h
      simp [*]
    · simp only [pure', Prod.mk.injEq] at h
      obtain ⟨_, rfl⟩ := h
      simp [*]
  | _ =>
    simp only [pure', Prod.mk.injEq] at h
    obtain ⟨_, rfl⟩ := h
    simp [refTx]

/-- what the loop for `h`, started in loop state `st` and parser state `s`, returns and leaves behind -/
def Track (h : Hdr) (st : LoopSt) (s : PState) (items : Items) (s' : PState) : Prop :=
  ∃ new, items = (itemsOf st.acc).append new ∧ Lab (.elem h.id) s.nextId new ∧ s'.nextId = s.nextId + cnt new ∧
    s'.idents = s.idents ++ pIds S h.id st.path new ∧ s'.refs = s.refs ++ pRefs S (S.isRef h.ety.typ) h.id new

/-- **the invariant of `parse_element`, bookkeeping part** (every accepted run, both modes) -/
theorem pLoop_track (fuel : Nat) : ∀ (h : Hdr) (st : LoopSt) (b : Bool) (s : PState) (items : Items) (s' : PState),
    pLoop S V fuel h st b s = (.ok items, s') → Track S h st s items s' := by
  induction fuel with
  | zero => intro h st b s items s' hr; simp [pLoop, hardErr] at hr
  | succ n ih =>
    intro h st b s items s' hr
    cases hn : nextTok true b s with
    | mk r1 s1 =>
    have hq1 := Q_nextTok true b s
    rw [hn] at hq1
    simp only [core3, Prod.mk.injEq] at hq1
    obtain ⟨hi1, hr1, hn1⟩ := hq1
    cases r1 with
    | error e => rw [pLoop, bind'] at hr; simp only [hn] at hr; cases hr
    | ok ev =>
    cases ev with
    | beginElement nm attrText =>
      cases he : V.elemOf nm with
      | none => rw [pLoop, bind_ok hn] at hr; simp [he, hardErr] at hr
      | some name =>
        rw [pLoop_begin S V n h st b s s1 nm attrText name hn he] at hr
        obtain ⟨⟨sty, idx⟩, s2, h2, hr⟩ := bind_inv hr
        obtain ⟨hi2, hr2, hn2⟩ := (Q_findChecked S _ _).ok h2
        obtain ⟨_, s3, h3, hr⟩ := bind_inv hr
        obtain ⟨hi3, hr3, hn3⟩ := (Q_checkConflict S _ _ _).ok h3
        obtain ⟨_, s4, h4, hr⟩ := bind_inv hr
        obtain ⟨hi4, hr4, hn4⟩ := (Q_ite (c := st.acc.isEmpty) (Q_pure ()) (Q_checkMult S h.ety.typ name idx st.acc)).ok h4
        obtain ⟨attrs, s5, h5, hr⟩ := bind_inv hr
        obtain ⟨hi5, hr5, hn5⟩ := (Q_parseAttrs S V _ _).ok h5
        obtain ⟨id, s6, h6, hr⟩ := bind_inv hr
        rw [allocId_eq] at h6
        simp only [Prod.mk.injEq, Except.ok.injEq] at h6
        obtain ⟨rfl, rfl⟩ := h6
        obtain ⟨skids, s7, h7, hr⟩ := bind_inv hr
        obtain ⟨newk, hk1, hk2, hk3, hk4, hk5⟩ := ih _ _ _ _ _ _ h7
        simp only [itemsOf, Items.append] at hk1
        subst hk1
        obtain ⟨_, s8, h8, hr⟩ := bind_inv hr
        obtain ⟨hi8, hr8, hn8⟩ := identsUpd_inv _ _ _ _ _ _ h8
        obtain ⟨new, rfl, hl, hc, hid, hrf⟩ := ih _ _ _ _ _ _ hr
        have e5 : s5.nextId = s.nextId := by rw [hn5, hn4, hn3, hn2, hn1]
        have e5i : s5.idents = s.idents := by rw [hi5, hi4, hi3, hi2, hi1]
        have e5r : s5.refs = s.refs := by rw [hr5, hr4, hr3, hr2, hr1]
        simp only at hk2 hk3 hk4 hk5 hl hc hid hrf
        refine ⟨.elem _ skids new, itemsOf_snoc_el _ _ _ _, ?_, ?_, ?_, ?_⟩
        · unfold Lab at hk2 hl ⊢
          rw [relabel]
          rw [hn8, hk3] at hl
          rw [← e5, hk2, hl]
        · rw [hc, hn8, hk3]; simp only [cnt]; rw [e5]; omega
        · rw [hid, hi8, hk4, e5i]
          simp only [pIds, List.append_assoc]
          cases newPathOf S name st.path skids <;> simp
        · rw [hrf, hr8, hk5, e5r]
          simp only [pRefs, List.append_assoc]
    | endElement nm =>
      cases he : V.elemOf nm with
      | none => rw [pLoop, bind_ok hn] at hr; simp [he, hardErr] at hr
      | some name =>
        by_cases hnm : name = h.name
        · subst hnm
          rw [pLoop_end S V n h st b s s1 nm hn he] at hr
          obtain ⟨_, s2, h2, hr⟩ := bind_inv hr
          have hq : Quiet (if !st.snFound then
              bind' getS fun s => if S.isNamedIn h.ety.typ s.ver then optErr kRequiredSubelementMissing else pure' ()
            else pure' ()) := by
            split
            · exact Q_bind Q_getS fun _ => Q_ite (Q_opt _) (Q_pure _)
            · exact Q_pure _
          obtain ⟨hi2, hr2, hn2⟩ := hq.ok h2
          simp only [pure', Prod.mk.injEq, Except.ok.injEq] at hr
          obtain ⟨rfl, rfl⟩ := hr
          refine ⟨.nil, (append_nil _).symm, rfl, ?_, ?_, ?_⟩
          · simp [cnt, hn2, hn1]
          · simp [pIds, hi2, hi1]
          · simp [pRefs, hr2, hr1]
        · rw [pLoop, bind_ok hn] at hr; simp [he, hnm, hardErr] at hr
    | characters text =>
      cases hc : S.chardataSpec h.ety.typ with
      | some spec =>
        rw [pLoop_chars S V n h st b s s1 text spec hn hc] at hr
        obtain ⟨v, s2, h2, hr⟩ := bind_inv hr
        obtain ⟨hi2, hr2, hn2⟩ := (Q_parseCD V _ _).ok h2
        obtain ⟨_, s3, h3, hr⟩ := bind_inv hr
        obtain ⟨hr3, hi3, hn3⟩ := refsUpd_inv S _ _ _ _ _ _ _ h3
        obtain ⟨new, rfl, hl, hcn, hid, hrf⟩ := ih _ _ _ _ _ _ hr
        simp only at hl hcn hid hrf
        refine ⟨.text v new, itemsOf_snoc_tx _ _ _, ?_, ?_, ?_, ?_⟩
        · unfold Lab at hl ⊢
          rw [relabel, ← hn1, ← hn2, ← hn3, hl]
        · rw [hcn, hn3, hn2, hn1]; simp [cnt]
        · rw [hid, hi3, hi2, hi1]; simp [pIds]
        · rw [hrf, hr3, hr2, hr1]; simp only [pRefs, List.append_assoc]
      | none =>
        rw [pLoop, bind_ok hn] at hr
        simp only [hc] at hr
        obtain ⟨_, s2, h2, hr⟩ := bind_inv hr
        obtain ⟨hi2, hr2, hn2⟩ := (Q_opt _).ok h2
        obtain ⟨new, rfl, hl, hcn, hid, hrf⟩ := ih _ _ _ _ _ _ hr
        exact ⟨new, rfl, by rw [← hn1, ← hn2]; exact hl, by rw [hcn, hn2, hn1], by rw [hid, hi2, hi1], by rw [hrf, hr2, hr1]⟩
    | header sa =>
      rw [pLoop, bind_ok hn] at hr
      simp only at hr
      obtain ⟨_, s2, h2, hr⟩ := bind_inv hr
      obtain ⟨hi2, hr2, hn2⟩ := (Q_opt _).ok h2
      obtain ⟨new, rfl, hl, hcn, hid, hrf⟩ := ih _ _ _ _ _ _ hr
      exact ⟨new, rfl, by rw [← hn1, ← hn2]; exact hl, by rw [hcn, hn2, hn1], by rw [hid, hi2, hi1], by rw [hrf, hr2, hr1]⟩
    | eof => rw [pLoop, bind_ok hn] at hr; simp [hardErr] at hr
    | comment c =>
      rw [pLoop, bind_ok hn] at hr
      simp only at hr
      split at hr
      · obtain ⟨new, rfl, hl, hcn, hid, hrf⟩ := ih _ _ _ _ _ _ hr
        exact ⟨new, rfl, by rw [← hn1]; exact hl, by rw [hcn, hn1], by rw [hid, hi1], by rw [hrf, hr1]⟩
      · simp [hardErr] at hr


theorem Q_endCheck (ev : Event) : Quiet (match ev with | .eof => pure' () | _ => optErr kAdditionalDataError : P Unit) := by
  split
  · exact Q_pure _
  · exact Q_opt _

/-- **the document, bookkeeping part** -/
theorem parseArxml_track (fuel nmAutosar : Nat) (b : Bool) (s0 : PState) (h : Hdr) (k : Items) (st : PState)
    (hr : parseArxml S V fuel nmAutosar b s0 = (.ok (h, k), st)) :
    h.id = s0.nextId ∧ h.parent = .none ∧ h.files = [] ∧ Lab (.elem h.id) (s0.nextId + 1) k ∧
      st.nextId = s0.nextId + 1 + cnt k ∧ st.idents = s0.idents ++ pIds S h.id [] k ∧
      st.refs = s0.refs ++ pRefs S (S.isRef h.ety.typ) h.id k := by
  unfold parseArxml at hr
  obtain ⟨ev0, s1, h1, hr⟩ := bind_inv hr
  obtain ⟨hi1, hr1, hn1⟩ := (Q_nextTok true).ok h1
  split at hr
  · obtain ⟨_, s2, h2, hr⟩ := bind_inv hr
    have hq2 : s2.idents = s1.idents ∧ s2.refs = s1.refs ∧ s2.nextId = s1.nextId := by
      simp only [modS, Prod.mk.injEq] at h2
      rw [← h2.2]; exact ⟨rfl, rfl, rfl⟩
    obtain ⟨hi2, hr2, hn2⟩ := hq2
    obtain ⟨ev1, s3, h3, hr⟩ := bind_inv hr
    obtain ⟨hi3, hr3, hn3⟩ := (Q_nextTok true).ok h3
    obtain ⟨⟨comment, ev⟩, s4, h4, hr⟩ := bind_inv hr
    obtain ⟨hi4, hr4, hn4⟩ := (Q_skipComments fuel none ev1).ok h4
    dsimp only at hr
    split at hr
    · split at hr
      · obtain ⟨attrs, s5, h5, hr⟩ := bind_inv hr
        obtain ⟨hi5, hr5, hn5⟩ := (Q_parseAttrs S V _ _).ok h5
        obtain ⟨_, s6, h6, hr⟩ := bind_inv hr
        obtain ⟨hi6, hr6, hn6⟩ := (Q_parseFileHeader V _).ok h6
        obtain ⟨id, s7, h7, hr⟩ := bind_inv hr
        rw [allocId_eq] at h7
        simp only [Prod.mk.injEq, Except.ok.injEq] at h7
        obtain ⟨rfl, rfl⟩ := h7
        obtain ⟨kids, s8, h8, hr⟩ := bind_inv hr
        obtain ⟨new, hk1, hk2, hk3, hk4, hk5⟩ := pLoop_track S V fuel _ _ _ _ _ _ h8
        simp only [itemsOf, Items.append] at hk1
        subst hk1
        obtain ⟨evEnd, s9, h9, hr⟩ := bind_inv hr
        obtain ⟨hi9, hr9, hn9⟩ := (Q_nextTok false).ok h9
        obtain ⟨_, s10, h10, hr⟩ := bind_inv hr
        obtain ⟨hi10, hr10, hn10⟩ := (Q_endCheck evEnd).ok h10
        simp only [pure', Prod.mk.injEq, Except.ok.injEq] at hr
        obtain ⟨⟨rfl, rfl⟩, rfl⟩ := hr
        have e6 : s6.nextId = s0.nextId := by rw [hn6, hn5, hn4, hn3, hn2, hn1]
        have e6i : s6.idents = s0.idents := by rw [hi6, hi5, hi4, hi3, hi2, hi1]
        have e6r : s6.refs = s0.refs := by rw [hr6, hr5, hr4, hr3, hr2, hr1]
        simp only at hk2 hk3 hk4 hk5
        refine ⟨e6, rfl, rfl, ?_, ?_, ?_, ?_⟩
        · rw [← e6]; exact hk2
        · rw [hn10, hn9, hk3, e6]
        · rw [hi10, hi9, hk4, e6i]
        · rw [hr10, hr9, hk5, e6r]
      · simp [hardErr] at hr
    · simp [hardErr] at hr
  · simp [hardErr] at hr

/-- **what the parser leaves behind after an accepted run** (strict or lenient): the root has the first id, the content is
labelled from the next id on, `nextId` is the first id plus the number of elements, `idents` and `refs` are the structural
functions `pIds` / `pRefs` of the tree -/
theorem runParser_track (strict : Bool) (buf : Bytes) (nid nmAutosar : Nat) (h : Hdr) (k : Items) (st : PState)
    (hr : runParser S V strict buf nid nmAutosar = (.ok (h, k), st)) :
    h.id = nid ∧ h.parent = .none ∧ h.files = [] ∧ Lab (.elem nid) (nid + 1) k ∧
      st.nextId = nid + 1 + cnt k ∧ st.idents = pIds S nid [] k ∧ st.refs = pRefs S (S.isRef h.ety.typ) nid k := by
  obtain ⟨a, b, c, d, e, f, g⟩ := parseArxml_track S V _ nmAutosar strict _ h k st hr
  simp only [List.nil_append] at a d e f g
  rw [a] at d f g
  exact ⟨a, b, c, d, e, f, g⟩

/-! ### labelled trees -/

theorem Lab.elem {par : PRef} {n : Nat} {h : Hdr} {k r : Items} (hl : Lab par n (.elem h k r)) :
    h.id = n ∧ h.parent = par ∧ h.files = [] ∧ Lab (.elem n) (n + 1) k ∧ Lab par (n + 1 + cnt k) r := by
  unfold Lab at hl ⊢
  rw [relabel] at hl
  injection hl with h1 h2 h3
  refine ⟨?_, ?_, ?_, h2, h3⟩
  · rw [← h1]
  · rw [← h1]
  · rw [← h1]

theorem Lab.text {par : PRef} {n : Nat} {c : CDv} {r : Items} (hl : Lab par n (.text c r)) : Lab par n r := by
  unfold Lab at hl ⊢
  rw [relabel] at hl
  injection hl

/-- the ids of a labelled forest are `n, n+1, …` -/
theorem Lab.ids {par : PRef} {n : Nat} {its : Items} (hl : Lab par n its) : its.ids = (List.range (cnt its)).map (n + ·) := by
  have := ids_relabel par n its
  rw [hl] at this
  exact this

theorem Lab.wf {its : Items} : ∀ {par : PRef} {n : Nat}, Lab par n its → its.wf par := by
  induction its with
  | nil => intro _ _ _; trivial
  | text c r ih => intro par n hl; exact ih hl.text
  | elem h k r ihk ihr =>
    intro par n hl
    obtain ⟨h1, h2, _, h4, h5⟩ := hl.elem
    exact ⟨h2, by rw [h1]; exact ihk h4, ihr h5⟩

theorem Lab.filesOk {its : Items} : ∀ {par : PRef} {n : Nat} (pe : List Nat), Lab par n its → FilesOk pe its := by
  induction its with
  | nil => intro _ _ _ _; trivial
  | text c r ih => intro par n pe hl; exact ih pe hl.text
  | elem h k r ihk ihr =>
    intro par n pe hl
    obtain ⟨_, _, h3, h4, h5⟩ := hl.elem
    exact ⟨(by rw [h3]; intro g hg; cases hg), ihk _ h4, ihr pe h5⟩


/-! ### the bridge to `entries` -/

/-- a list without element called SHORT-NAME on top, or the content of an element under the SHORT-NAME discipline: what the
loop records is what the index must hold -/
theorem pIds_bridge (its : Items) :
    (∀ pid pre, noSnTop S its → SnOk S its → pIds S pid pre its = entries S its pre) ∧
    (∀ (h : Hdr) pre, kidsOk S h its → SnOk S its →
      pIds S h.id pre its = match itemName S h its with
        | some n => (pre ++ [47] ++ n, h.id) :: entries S its (pre ++ [47] ++ n)
        | none => entries S its pre) := by
  induction its with
  | nil => exact ⟨fun _ _ _ _ => rfl, fun h pre _ _ => by simp [pIds, itemName, entries]⟩
  | text c r ih =>
    refine ⟨fun pid pre h1 h2 => ?_, fun h pre h1 h2 => ?_⟩
    · simp only [pIds, entries]; exact ih.1 pid pre h1 h2
    · have : itemName S h (.text c r) = none := by simp [itemName]
      simp only [this, pIds, entries]
      exact ih.1 h.id pre h1 h2
  | elem sh sk r ihk ihr =>
    have part1 : ∀ pid pre, noSnTop S (.elem sh sk r) → SnOk S (.elem sh sk r) →
        pIds S pid pre (.elem sh sk r) = entries S (.elem sh sk r) pre := by
      intro pid pre h1 h2
      obtain ⟨hne, hnr⟩ := h1
      obtain ⟨hko, hsk, hsr⟩ := h2
      have hnp : newPathOf S sh.name pre sk = none := by simp [newPathOf, hne]
      simp only [pIds, hnp, entries]
      rw [ihk.2 sh pre hko hsk, ihr.1 pid pre hnr hsr]
      cases itemName S sh sk <;> simp
    refine ⟨part1, fun h pre h1 h2 => ?_⟩
    obtain ⟨hsn, hnr⟩ := h1
    obtain ⟨hko, hsk, hsr⟩ := h2
    by_cases hname : sh.name = S.nmShortName
    · obtain ⟨⟨hnamed, _, _, _⟩, hmode, hnn, _, n, rfl, _⟩ := hsn hname
      have hin : itemName S h (.elem sh (.text (.str n) .nil) r) = some n := by
        simp [itemName, hnamed, hname, charData, hmode]
      have hnp : newPathOf S sh.name pre (.text (.str n) .nil) = some (pre ++ [47] ++ n) := by simp [newPathOf, hname]
      have hsh : itemName S sh (.text (.str n) .nil) = none := by simp [itemName, hnn]
      simp only [hin, pIds, hnp, entries, hsh, List.nil_append]
      rw [ihr.1 h.id _ hnr hsr]
    · have hin : itemName S h (.elem sh sk r) = none := by simp [itemName, hname]
      rw [hin]
      exact part1 h.id pre ⟨hname, hnr⟩ ⟨hko, hsk, hsr⟩

/-- **under the SHORT-NAME discipline the recorded identifiables are the entries of the tree**, in document order -/
theorem pIds_entries (h : Hdr) (k : Items) (hs : SnOk S (.elem h k .nil)) :
    pIds S h.id [] k = entries S (.elem h k .nil) [] := by
  obtain ⟨hko, hsk, _⟩ := hs
  rw [(pIds_bridge S k).2 h [] hko hsk]
  simp only [entries, List.append_nil]
  cases itemName S h k <;> rfl

/-! ### the bridge to `refEntries` -/

theorem pRefs_bridge (hchars : ∀ t, S.isRef t = true → S.mode t = .characters) (its : Items) :
    (∀ pid, RefOne S its → pRefs S false pid its = refEntries S its) ∧
    (∀ (h : Hdr), (S.isRef h.ety.typ = true → its.length ≤ 1) → RefOne S its →
      pRefs S (S.isRef h.ety.typ) h.id its = refOf S h its ++ refEntries S its) := by
  induction its with
  | nil => exact ⟨fun _ _ => rfl, fun h _ _ => by simp [pRefs, refOf, charData, refEntries]⟩
  | text c r ih =>
    have part1 : ∀ pid, RefOne S (.text c r) → pRefs S false pid (.text c r) = refEntries S (.text c r) := by
      intro pid h1
      have : refTx false pid c = [] := by cases c <;> simp [refTx]
      simp only [pRefs, refEntries, this, List.nil_append]
      exact ih.1 pid ((refOne_text S c r).mp h1)
    refine ⟨part1, fun h hlen h1 => ?_⟩
    cases hr : S.isRef h.ety.typ with
    | false => rw [part1 h.id h1]; simp [refOf, hr]
    | true =>
      have hl := hlen hr
      cases r with
      | nil =>
        have hm := hchars _ hr
        simp only [pRefs, refOf, hr, charData, hm, refEntries, List.append_nil, if_true, true_or]
        cases c <;> simp [refTx]
      | elem _ _ _ => simp [Items.length] at hl
      | text _ _ => simp [Items.length] at hl
  | elem sh sk r ihk ihr =>
    have part1 : ∀ pid, RefOne S (.elem sh sk r) → pRefs S false pid (.elem sh sk r) = refEntries S (.elem sh sk r) := by
      intro pid h1
      obtain ⟨a, b, c⟩ := (refOne_elem S sh sk r).mp h1
      simp only [pRefs, refEntries]
      rw [ihk.2 sh a b, ihr.1 pid c]
    refine ⟨part1, fun h hlen h1 => ?_⟩
    cases hr : S.isRef h.ety.typ with
    | false => rw [part1 h.id h1]; simp [refOf, hr]
    | true =>
      have hl := hlen hr
      obtain ⟨a, b, c⟩ := (refOne_elem S sh sk r).mp h1
      cases r with
      | nil =>
        simp only [pRefs, refOf, hr, charData, refEntries, List.append_nil, if_true, List.nil_append]
        exact ihk.2 sh a b
      | elem _ _ _ => simp [Items.length] at hl
      | text _ _ => simp [Items.length] at hl

/-- **when no reference element holds more than one content item the recorded references are the reference entries of the
tree**, in document order (a reference text interrupted by a comment is recorded twice by the parser, but is no text of the
element for `character_data`: finding c01:comment-splits-character-data) -/
theorem pRefs_refEntries (hchars : ∀ t, S.isRef t = true → S.mode t = .characters) (h : Hdr) (k : Items)
    (h1 : RefOne S (.elem h k .nil)) :
    pRefs S (S.isRef h.ety.typ) h.id k = refEntries S (.elem h k .nil) := by
  obtain ⟨a, b, _⟩ := (refOne_elem S h k .nil).mp h1
  rw [(pRefs_bridge S hchars k).2 h a b]
  simp [refEntries]


/-- **Part 1, identifiables**: after an accepted run (either mode) whose result obeys the SHORT-NAME discipline (`SnOk`: every
SHORT-NAME is the first content item of an element of a named type and holds exactly one text without '/') the recorded
identifiables are exactly the entries of the tree, in document order -/
theorem runParser_idents (strict : Bool) (buf : Bytes) (nid nmAutosar : Nat) (h : Hdr) (k : Items) (st : PState)
    (hr : runParser S V strict buf nid nmAutosar = (.ok (h, k), st)) (hs : SnOk S (.elem h k .nil)) :
    st.idents = entries S (.elem h k .nil) [] := by
  obtain ⟨a, _, _, _, _, f, _⟩ := runParser_track S V strict buf nid nmAutosar h k st hr
  rw [f, ← a]
  exact pIds_entries S h k hs

/-- **Part 1, references**: … and when no reference element holds more than one content item the recorded references are
exactly the reference entries of the tree -/
theorem runParser_refs (hchars : ∀ t, S.isRef t = true → S.mode t = .characters) (strict : Bool) (buf : Bytes)
    (nid nmAutosar : Nat) (h : Hdr) (k : Items) (st : PState)
    (hr : runParser S V strict buf nid nmAutosar = (.ok (h, k), st)) (h1 : RefOne S (.elem h k .nil)) :
    st.refs = refEntries S (.elem h k .nil) := by
  obtain ⟨a, _, _, _, _, _, g⟩ := runParser_track S V strict buf nid nmAutosar h k st hr
  rw [g, ← a]
  exact pRefs_refEntries S hchars h k h1

/-- **Part 1, ids**: the root has the first id, the ids of the content are the next ones in document order, `nextId` is
the first unused one -/
theorem runParser_ids (strict : Bool) (buf : Bytes) (nid nmAutosar : Nat) (h : Hdr) (k : Items) (st : PState)
    (hr : runParser S V strict buf nid nmAutosar = (.ok (h, k), st)) :
    (Items.elem h k .nil).ids = (List.range (1 + cnt k)).map (nid + ·) ∧ st.nextId = nid + 1 + cnt k := by
  obtain ⟨a, _, _, d, e, _, _⟩ := runParser_track S V strict buf nid nmAutosar h k st hr
  refine ⟨?_, e⟩
  simp only [Items.ids, List.append_nil, d.ids, a]
  rw [Nat.add_comm 1, List.range_succ_eq_map]
  simp only [List.map_cons, List.map_map, Nat.add_zero, List.cons.injEq, true_and]
  apply List.map_congr_left
  intro x _
  simp only [Function.comp]
  omega

end

/-! ## Part 2: the first load keeps the invariants -/

/-- first occurrence wins; with pairwise different paths nothing is dropped -/
theorem indexOfIdents_nodup (l : List (Bytes × Nat)) : ∀ acc, keysNodupI (acc ++ l) → indexOfIdents l acc = acc ++ l := by
  induction l with
  | nil => intro acc _; simp [indexOfIdents]
  | cons e r ih =>
    intro acc hn
    obtain ⟨p, id⟩ := e
    have hnot : acc.any (·.1 == p) = false := by
      cases hany : acc.any (·.1 == p) with
      | false => rfl
      | true =>
        exfalso
        obtain ⟨x, hx, hxp⟩ := List.any_eq_true.mp hany
        have hxp' : x.1 = p := by simpa using hxp
        unfold keysNodupI at hn
        rw [List.map_append, List.nodup_append] at hn
        exact hn.2.2 x.1 (List.mem_map.mpr ⟨x, hx, rfl⟩) p (by simp) hxp'
    simp only [indexOfIdents, hnot, Bool.false_eq_true, if_false]
    rw [ih (acc ++ [(p, id)]) (by simpa using hn)]
    simp

/-- the index of a first load is always keyed without repetition -/
theorem indexOfIdents_keys (l : List (Bytes × Nat)) : ∀ acc, keysNodupI acc → keysNodupI (indexOfIdents l acc) := by
  induction l with
  | nil => intro acc h; exact h
  | cons e r ih =>
    intro acc hn
    obtain ⟨p, id⟩ := e
    simp only [indexOfIdents]
    split
    · exact ih acc hn
    · rename_i hany
      apply ih
      unfold keysNodupI at hn ⊢
      rw [List.map_append, List.nodup_append]
      refine ⟨hn, by simp, ?_⟩
      intro a ha b hb hab
      simp only [List.map_cons, List.map_nil, List.mem_singleton] at hb
      subst hb; subst hab
      apply hany
      obtain ⟨x, hx, hxa⟩ := List.mem_map.mp ha
      exact List.any_eq_true.mpr ⟨x, hx, by simpa using hxa⟩

/-- the reverse map built from the recorded references -/
theorem refsFold_exact (l : List (Bytes × Nat)) : ∀ rs, keysNodup rs → refsNonempty rs →
    keysNodup (l.foldl (fun rs x => refsAdd rs x.1 x.2) rs) ∧ refsNonempty (l.foldl (fun rs x => refsAdd rs x.1 x.2) rs) ∧
    ∀ p id, (refsGet (l.foldl (fun rs x => refsAdd rs x.1 x.2) rs) p).count id = (refsGet rs p).count id + l.count (p, id) := by
  induction l with
  | nil => intro rs h1 h2; exact ⟨h1, h2, fun p id => by simp⟩
  | cons e r ih =>
    intro rs h1 h2
    obtain ⟨a, b, c⟩ := ih (refsAdd rs e.1 e.2) (refsAdd_keysNodup rs e.1 e.2 h1) (refsAdd_nonempty rs e.1 e.2 h2)
    refine ⟨a, b, fun p id => ?_⟩
    simp only [List.foldl_cons]
    rw [c p id, refsAdd_count rs e.1 p e.2 id h1, List.count_cons]
    obtain ⟨e1, e2⟩ := e
    by_cases hh : p = e1 ∧ id = e2
    · obtain ⟨rfl, rfl⟩ := hh; simp; omega
    · have : ((e1, e2) == (p, id)) = false := by
        simp only [beq_eq_false_iff_ne, ne_eq, Prod.mk.injEq, not_and]
        intro h1 h2; exact hh ⟨h1.symm, h2.symm⟩
      simp [hh, this]

section
variable (S : Spec) (V : Env) (vOk : Nat)

theorem findSub_none_of_subCount (t name v : Nat) (h0 : S.subCount t = 0) : S.findSub t name v = none := by
  unfold Spec.findSub Spec.findSubT
  rw [h0]
  simp

theorem mem_childs_of_childElems (k : Items) (c : Hdr × Items) (hc : c ∈ k.childElems) : c.1 ∈ childs k := by
  induction k with
  | nil => simp [Items.childElems] at hc
  | text _ r ih => exact ih hc
  | elem h kk r _ ihr =>
    simp only [Items.childElems, List.mem_cons] at hc
    simp only [childs, List.mem_cons]
    rcases hc with rfl | hc
    · exact Or.inl rfl
    · exact Or.inr (ihr hc)

/-- a valid forest: every child is known to the all-version lookup of its parent's type -/
theorem treeC_kidsKnown (ver : Nat) (hv : ver &&& 0xFFFFFFFF = ver) (its : Items) :
    ∀ (pt : Nat) (pi seen : List Nat) (ne : Bool), TreeC S V ver pt its pi seen ne → KidsKnown S its := by
  induction its with
  | nil => intro _ _ _ _ _; trivial
  | text c r ih => intro pt pi seen ne ht; unfold TreeC at ht; exact ih _ _ _ _ ht.2
  | elem h k r ihk ihr =>
    intro pt pi seen ne ht
    unfold TreeC at ht
    obtain ⟨⟨idx, _, _, _, hr⟩, _, _, hk⟩ := ht
    refine ⟨fun c hc => ?_, ihk _ _ _ _ hk, ihr _ _ _ _ hr⟩
    obtain ⟨i, hi⟩ := TreeC_childs S V ver k _ _ _ _ hk c.1 (mem_childs_of_childElems k c hc)
    exact findSub_full S _ _ ver hv _ hi

/-- a valid forest over a specification whose reference types have no sub-elements: reference elements are leaves -/
theorem treeC_refLeaf (hNoSub : ∀ t, S.isRef t = true → S.subCount t = 0) (ver : Nat) (its : Items) :
    ∀ (pt : Nat) (pi seen : List Nat) (ne : Bool), TreeC S V ver pt its pi seen ne → RefLeaf S its := by
  induction its with
  | nil => intro _ _ _ _ _; exact refLeaf_nil S
  | text c r ih => intro pt pi seen ne ht; unfold TreeC at ht; exact (refLeaf_text S c r).mpr (ih _ _ _ _ ht.2)
  | elem h k r ihk ihr =>
    intro pt pi seen ne ht
    unfold TreeC at ht
    obtain ⟨⟨idx, _, _, _, hr⟩, _, _, hk⟩ := ht
    refine (refLeaf_elem S h k r).mpr ⟨fun hx => ?_, ihk _ _ _ _ hk, ihr _ _ _ _ hr⟩
    cases hce : k.childElems with
    | nil => rfl
    | cons c cs =>
      exfalso
      obtain ⟨i, hi⟩ := TreeC_childs S V ver k _ _ _ _ hk c.1 (mem_childs_of_childElems k c (by rw [hce]; exact List.mem_cons_self))
      rw [findSub_none_of_subCount S _ _ _ (hNoSub _ hx)] at hi
      cases hi

/-- the model a first load builds -/
def firstModel (k fid : Nat) (name : Bytes) (h : Hdr) (kids : Items) (st : PState) : Model :=
  { rootHdr := { h with parent := .model k, files := [fid] }, rootKids := kids, rootIssued := true,
    files := [{ id := fid, name := name, version := st.ver, standalone := st.standalone }],
    index := indexOfIdents st.idents [], refs := st.refs.foldl (fun rs x => refsAdd rs x.1 x.2) [] }

/-- the world after a first load -/
def firstWorld (w : World) (k : Nat) (name : Bytes) (h : Hdr) (kids : Items) (st : PState) : World :=
  { w with models := w.models.set k (firstModel k w.nextFile name h kids st), nextFile := w.nextFile + 1, nextId := st.nextId,
           fileOwner := w.fileOwner ++ [(w.nextFile, k)] }

/-- `load_buffer` into a model without files, accepted by the parser: the new world -/
theorem opLoad_first_eq (nmAutosar : Nat) (w : World) (k : Nat) (m : Model) (name : Bytes) (strict : Bool) (buf : Bytes)
    (h : Hdr) (kids : Items) (st : PState) (hm : w.models[k]? = some m) (hemp : m.files = [])
    (hr : runParser S V strict buf w.nextId nmAutosar = (.ok (h, kids), st)) :
    (opLoad S V nmAutosar w k name strict buf).1 = firstWorld w k name h kids st := by
  unfold opLoad
  simp only [hm, hemp, List.any_nil, Bool.false_eq_true, if_false, hr, List.isEmpty_nil, if_true]
  rfl

/-- what the guarded statement asks of the RESULT of the parser (all of it decidable on the tree):
* `ver`: the version of the file is one of the versions `vOk`;
* `sn`: the SHORT-NAME discipline (fails for `<SHORT-NAME/>`, finding c04:empty-short-name-element-not-indexed, and for a
  SHORT-NAME whose text is interrupted by a comment, c01:comment-splits-character-data);
* `keys`: the paths of the document are pairwise different (fails for c04:document-with-duplicate-paths-accepted);
* `one`: no reference element holds more than one content item (fails for a reference text interrupted by a comment). -/
structure LoadGuard (h : Hdr) (kids : Items) (ver : Nat) : Prop where
  ver : ver &&& vOk = ver
  sn : SnOk S (.elem h kids .nil)
  keys : keysNodupI (entries S (.elem h kids .nil) [])
  one : RefOne S (.elem h kids .nil)

/-- the run was accepted without reservation: strict, or lenient without a warning -/
def Clean (strict : Bool) (st : PState) : Prop := strict = true ∨ st.warnings = []

theorem clean_valid (strict : Bool) (buf : Bytes) (nid nmAutosar : Nat) (h : Hdr) (k : Items) (st : PState)
    (hr : runParser S V strict buf nid nmAutosar = (.ok (h, k), st)) (hc : Clean strict st) :
    TreeValid S V nmAutosar st.ver h k := by
  cases strict with
  | true => exact (runParser_sound S V buf nid nmAutosar h k st hr).1
  | false =>
    rcases hc with hc | hc
    · cases hc
    · exact (runParser_sound_lenient S V buf nid nmAutosar h k st hr hc).1

theorem firstModel_rootItems_skel (k fid : Nat) (name : Bytes) (h : Hdr) (kids : Items) (st : PState) :
    (firstModel k fid name h kids st).rootItems.skel = (Items.elem h kids .nil).skel := rfl

section
variable (nmAutosar : Nat) (k fid : Nat) (name : Bytes) (strict : Bool) (buf : Bytes) (nid : Nat)
  (h : Hdr) (kids : Items) (st : PState)
  (hr : runParser S V strict buf nid nmAutosar = (.ok (h, kids), st))
include hr

/-- **the index invariant of the loaded model** (the index is exact) -/
theorem firstModel_minv (hroot : nmAutosar ≠ S.nmShortName) (hc : Clean strict st) (hg : LoadGuard S vOk h kids st.ver) :
    MInv S vOk st.nextId (firstModel k fid name h kids st) := by
  have hv := clean_valid S V strict buf nid nmAutosar h kids st hr hc
  obtain ⟨hids, hnext⟩ := runParser_ids S V strict buf nid nmAutosar h kids st hr
  have hid := runParser_idents S V strict buf nid nmAutosar h kids st hr hg.sn
  have hsk := firstModel_rootItems_skel k fid name h kids st
  have hent : entries S (firstModel k fid name h kids st).rootItems [] = entries S (.elem h kids .nil) [] :=
    entries_of_skel S hsk []
  have hidx : (firstModel k fid name h kids st).index = entries S (.elem h kids .nil) [] := by
    show indexOfIdents st.idents [] = _
    rw [indexOfIdents_nodup st.idents [] (by rw [List.nil_append, hid]; exact hg.keys), List.nil_append, hid]
  have hidsM : (firstModel k fid name h kids st).rootItems.ids = (List.range (1 + cnt kids)).map (nid + ·) := by
    rw [← hids, ← ids_skel, hsk, ids_skel]
  refine ⟨?_, ?_, ?_, ?_, ?_, ?_, ?_, ?_, ?_⟩
  · intro f hf
    simp only [firstModel, List.mem_singleton] at hf
    subst hf
    exact hg.ver
  · rw [hidsM]
    refine List.Pairwise.map _ ?_ (List.nodup_range (n := 1 + cnt kids))
    intro a b hab; omega
  · intro _ i hi
    rw [hidsM] at hi
    obtain ⟨a, ha, rfl⟩ := List.mem_map.mp hi
    have := List.mem_range.mp ha
    omega
  · intro hf; cases hf
  · show h.name ≠ S.nmShortName
    rw [hv.name]; exact hroot
  · exact (snOk_of_skel S hsk).mpr hg.sn
  · rw [hent]; exact hg.keys
  · rw [hidx]; exact hg.keys
  · intro q i
    rw [hent, hidx]
    exact idxGet_iff_mem _ hg.keys q i

/-- **the reverse reference map of the loaded model is exact** -/
theorem firstModel_refsExact (hchars : ∀ t, S.isRef t = true → S.mode t = .characters) (hone : RefOne S (.elem h kids .nil)) :
    RefsExact S (firstModel k fid name h kids st).refs (firstModel k fid name h kids st).rootItems := by
  have hrf := runParser_refs S V hchars strict buf nid nmAutosar h kids st hr hone
  obtain ⟨a, b, c⟩ := refsFold_exact st.refs [] (by simp [keysNodup]) (by intro e he; cases he)
  refine ⟨a, b, fun p id => ?_⟩
  rw [refEntries_of_skel S (firstModel_rootItems_skel k fid name h kids st)]
  show (refsGet (st.refs.foldl (fun rs x => refsAdd rs x.1 x.2) []) p).count id = _
  rw [c p id, hrf]
  simp [refsGet]

/-- reference elements of the loaded model are leaves -/
theorem firstModel_refLeaf (hNoSub : ∀ t, S.isRef t = true → S.subCount t = 0) (hc : Clean strict st) :
    RefLeaf S (firstModel k fid name h kids st).rootItems := by
  have hv := clean_valid S V strict buf nid nmAutosar h kids st hr hc
  have hk := treeC_refLeaf S V hNoSub st.ver kids _ _ _ _ hv.kids
  refine refLeaf_root_congr S h _ kids kids rfl rfl ((refLeaf_elem S h kids .nil).mpr ⟨fun hx => ?_, hk, refLeaf_nil S⟩)
  cases hce : kids.childElems with
  | nil => rfl
  | cons c cs =>
    exfalso
    obtain ⟨i, hi⟩ := TreeC_childs S V st.ver kids _ _ _ _ hv.kids c.1 (mem_childs_of_childElems kids c (by rw [hce]; exact List.mem_cons_self))
    rw [findSub_none_of_subCount S _ _ _ (hNoSub _ hx)] at hi
    cases hi

/-- every child of every element of the loaded model is known to its parent's type -/
theorem firstModel_kidsKnown (hver : st.ver &&& 0xFFFFFFFF = st.ver) (hc : Clean strict st) :
    KidsKnown S (firstModel k fid name h kids st).rootItems := by
  have hv := clean_valid S V strict buf nid nmAutosar h kids st hr hc
  have hk := treeC_kidsKnown S V st.ver hver kids _ _ _ _ hv.kids
  refine kidsKnown_root_congr S h _ kids kids rfl rfl ⟨fun c hc' => ?_, hk, trivial⟩
  obtain ⟨i, hi⟩ := TreeC_childs S V st.ver kids _ _ _ _ hv.kids c.1 (mem_childs_of_childElems kids c hc')
  exact findSub_full S _ _ st.ver hver _ hi

theorem firstModel_rootTy (hc : Clean strict st) : (firstModel k fid name h kids st).rootHdr.ety = S.ety S.rootDef :=
  (clean_valid S V strict buf nid nmAutosar h kids st hr hc).ety

omit hr in
theorem firstModel_refOne (hone : RefOne S (.elem h kids .nil)) : RefOne S (firstModel k fid name h kids st).rootItems :=
  refOne_root_congr S h _ kids kids rfl rfl hone

/-- the tree of the loaded model is well-formed (the parser assigns the parents) -/
theorem firstModel_wfM : (firstModel k fid name h kids st).wfM := by
  obtain ⟨a, _, _, d, _, _, _⟩ := runParser_track S V strict buf nid nmAutosar h kids st hr
  show kids.wf (.elem h.id)
  rw [a]; exact d.wf

/-- the file sets of the loaded model: the root in the new file, no local sets below -/
theorem firstModel_filesOk : (firstModel k fid name h kids st).filesOk := by
  obtain ⟨_, _, _, d, _, _, _⟩ := runParser_track S V strict buf nid nmAutosar h kids st hr
  exact d.filesOk _

end

/-! ### the world -/

theorem land_trans (ver : Nat) (h1 : ver &&& vOk = ver) (h2 : vOk &&& 0xFFFFFFFF = vOk) : ver &&& 0xFFFFFFFF = ver := by
  rw [← h1, Nat.and_assoc, h2]

theorem getElem?_firstWorld (w : World) (k : Nat) (name : Bytes) (h : Hdr) (kids : Items) (st : PState) (j : Nat) (mj : Model)
    (hj : (firstWorld w k name h kids st).models[j]? = some mj) :
    (j = k ∧ mj = firstModel k w.nextFile name h kids st) ∨ (j ≠ k ∧ w.models[j]? = some mj) := by
  simp only [firstWorld] at hj
  by_cases hjk : j = k
  · subst hjk
    by_cases hk : j < w.models.length
    · rw [List.getElem?_set_self hk] at hj
      injection hj with hj
      exact Or.inl ⟨rfl, hj.symm⟩
    · rw [List.getElem?_eq_none (by simpa using hk)] at hj
      cases hj
  · rw [List.getElem?_set_ne (Ne.symm hjk)] at hj
    exact Or.inr ⟨hjk, hj⟩

section
variable (nmAutosar : Nat) (w : World) (k : Nat) (name : Bytes) (strict : Bool) (buf : Bytes)
  (h : Hdr) (kids : Items) (st : PState)
  (hr : runParser S V strict buf w.nextId nmAutosar = (.ok (h, kids), st))
include hr

theorem firstWorld_nextId_le : w.nextId ≤ (firstWorld w k name h kids st).nextId := by
  obtain ⟨_, hnext⟩ := runParser_ids S V strict buf w.nextId nmAutosar h kids st hr
  show w.nextId ≤ st.nextId
  omega

/-- **`opLoad_first_minv`** — the index invariant of the world after a guarded first load -/
theorem firstWorld_winv (hroot : nmAutosar ≠ S.nmShortName) (hc : Clean strict st) (hg : LoadGuard S vOk h kids st.ver)
    (hw : WInv S vOk w) : WInv S vOk (firstWorld w k name h kids st) :=
  winv_update S vOk w _ k _ hw (firstWorld_nextId_le S V nmAutosar w k name strict buf h kids st hr)
    (firstModel_minv S V vOk nmAutosar k w.nextFile name strict buf w.nextId h kids st hr hroot hc hg) rfl

/-- **the full invariant after a guarded first load**: tree well-formed and file sets consistent (`Inv`), index exact
(`WInv`), reverse reference map exact (`WRInv`), reference elements are leaves with at most one content item (`WRLeaf`,
`WROne`), root type (`WRootTy`), children known to their parents' types (`WKidsKnown`) -/
theorem firstWorld_ginv (hroot : nmAutosar ≠ S.nmShortName) (hR : RefWF S) (hNoSub : ∀ t, S.isRef t = true → S.subCount t = 0)
    (hv32 : vOk &&& 0xFFFFFFFF = vOk) (hc : Clean strict st) (hg : LoadGuard S vOk h kids st.ver)
    (hG : GInv S vOk w) : GInv S vOk (firstWorld w k name h kids st) := by
  obtain ⟨⟨hwf, hfo⟩, ⟨⟨hw, hri, hrl, hrt⟩, hkk⟩, hro⟩ := hG
  refine ⟨⟨?_, ?_⟩, ⟨⟨?_, ?_, ?_, ?_⟩, ?_⟩, ?_⟩
  · rw [World.wf_iff] at hwf ⊢
    intro m hmem
    rcases List.mem_or_eq_of_mem_set hmem with hm | hm
    · exact hwf m hm
    · rw [hm]; exact firstModel_wfM S V nmAutosar k w.nextFile name strict buf w.nextId h kids st hr
  · intro m hmem
    rcases List.mem_or_eq_of_mem_set hmem with hm | hm
    · exact hfo m hm
    · rw [hm]; exact firstModel_filesOk S V nmAutosar k w.nextFile name strict buf w.nextId h kids st hr
  · exact firstWorld_winv S V vOk nmAutosar w k name strict buf h kids st hr hroot hc hg hw
  · exact wrinv_update S w _ k _ hri
      (firstModel_refsExact S V nmAutosar k w.nextFile name strict buf w.nextId h kids st hr hR.ref_chars hg.one) rfl
  · exact wrleaf_update S w _ k _ hrl
      (firstModel_refLeaf S V nmAutosar k w.nextFile name strict buf w.nextId h kids st hr hNoSub hc) rfl
  · exact wrootTy_update S w _ k _ hrt
      (firstModel_rootTy S V nmAutosar k w.nextFile name strict buf w.nextId h kids st hr hc) rfl
  · exact wkidsKnown_update S w _ k _ hkk
      (firstModel_kidsKnown S V nmAutosar k w.nextFile name strict buf w.nextId h kids st hr
        (land_trans vOk st.ver hg.ver hv32) hc) rfl
  · exact wrone_update S w _ k _ hro (firstModel_refOne S k w.nextFile name h kids st hg.one) rfl

/-- **the ids of different models stay apart** (the ids of the loaded tree are the fresh ones, `w.nextId` and above) -/
theorem firstWorld_sep (hw : WInv S vOk w) (hs : SepInv w) : SepInv (firstWorld w k name h kids st) := by
  obtain ⟨hsep, h0, hpos⟩ := hs
  obtain ⟨a, _, _, d, _, _, _⟩ := runParser_track S V strict buf w.nextId nmAutosar h kids st hr
  have hkids : ∀ x ∈ (firstModel k w.nextFile name h kids st).rootKids.ids, w.nextId + 1 ≤ x := by
    intro x hx
    change x ∈ kids.ids at hx
    rw [d.ids] at hx
    obtain ⟨i, _, rfl⟩ := List.mem_map.mp hx
    omega
  have hall : ∀ x ∈ (firstModel k w.nextFile name h kids st).rootItems.ids, w.nextId ≤ x := by
    intro x hx
    rw [rootItems_ids] at hx
    rcases List.mem_cons.mp hx with rfl | hx
    · show w.nextId ≤ h.id
      omega
    · have := hkids x hx; omega
  -- an old model: the ids of its content are below `nextId`; all its ids are below `nextId`, or it is `[0]`
  have hold : ∀ mj ∈ w.models, (∀ x ∈ mj.rootKids.ids, x < w.nextId) ∧
      ((∀ x ∈ mj.rootItems.ids, x < w.nextId) ∨ mj.rootItems.ids = [0]) := by
    intro mj hmj
    have hI := hw mj hmj
    cases hiss : mj.rootIssued with
    | true =>
      refine ⟨fun x hx => hI.bound hiss x (by rw [rootItems_ids]; exact List.mem_cons_of_mem _ hx), Or.inl (hI.bound hiss)⟩
    | false =>
      obtain ⟨e1, _⟩ := hI.fresh hiss
      refine ⟨fun x hx => (by rw [e1] at hx; cases hx), Or.inr ?_⟩
      rw [rootItems_ids, e1, h0 mj hmj hiss]
  refine ⟨?_, ?_, ?_⟩
  · intro j k' mj mk hne hj hk x hx hmem
    rcases getElem?_firstWorld w k name h kids st j mj hj with ⟨hjk, rfl⟩ | ⟨hjk, hj'⟩ <;>
      rcases getElem?_firstWorld w k name h kids st k' mk hk with ⟨hkk, rfl⟩ | ⟨hkk, hk'⟩
    · exact hne (hjk.trans hkk.symm)
    · have h1 := (hold mk (List.mem_of_getElem? hk')).1 x hx
      have h2 := hall x hmem
      omega
    · have h1 := hkids x hx
      rcases (hold mj (List.mem_of_getElem? hj')).2 with h2 | h2
      · have := h2 x hmem; omega
      · rw [h2] at hmem
        simp only [List.mem_singleton] at hmem
        omega
    · exact hsep j k' mj mk hne hj' hk' x hx hmem
  · intro m hmem hiss
    rcases List.mem_or_eq_of_mem_set hmem with hm | hm
    · exact h0 m hm hiss
    · rw [hm] at hiss; cases hiss
  · intro m hmem x hx
    rcases List.mem_or_eq_of_mem_set hmem with hm | hm
    · exact hpos m hm x hx
    · rw [hm] at hx
      have := hkids x hx
      omega

end

/-! ### the statements for `opLoad` itself -/

section
variable (nmAutosar : Nat) (w : World) (k : Nat) (m : Model) (name : Bytes) (strict : Bool) (buf : Bytes)
  (h : Hdr) (kids : Items) (st : PState)
  (hm : w.models[k]? = some m) (hemp : m.files = [])
  (hr : runParser S V strict buf w.nextId nmAutosar = (.ok (h, kids), st))
include hm hemp hr

/-- **`opLoad_first_minv`**: a strict (or warning-free lenient) first `load_buffer` into model `k` whose result meets the
guard (`LoadGuard`: version among `vOk`, SHORT-NAME discipline, pairwise different paths, no split reference text) keeps the
index invariant of the world: in particular the index of model `k` is exact for the loaded tree -/
theorem opLoad_first_minv (hroot : nmAutosar ≠ S.nmShortName) (hc : Clean strict st) (hg : LoadGuard S vOk h kids st.ver)
    (hw : WInv S vOk w) : WInv S vOk (opLoad S V nmAutosar w k name strict buf).1 := by
  rw [opLoad_first_eq S V nmAutosar w k m name strict buf h kids st hm hemp hr]
  exact firstWorld_winv S V vOk nmAutosar w k name strict buf h kids st hr hroot hc hg hw

/-- … and the model `k` of the new world is the loaded one, with `MInv` -/
theorem opLoad_first_model (hroot : nmAutosar ≠ S.nmShortName) (hc : Clean strict st) (hg : LoadGuard S vOk h kids st.ver) :
    (opLoad S V nmAutosar w k name strict buf).1.models[k]? = some (firstModel k w.nextFile name h kids st) ∧
      MInv S vOk (opLoad S V nmAutosar w k name strict buf).1.nextId (firstModel k w.nextFile name h kids st) := by
  rw [opLoad_first_eq S V nmAutosar w k m name strict buf h kids st hm hemp hr]
  refine ⟨?_, firstModel_minv S V vOk nmAutosar k w.nextFile name strict buf w.nextId h kids st hr hroot hc hg⟩
  have hk : k < w.models.length := by
    rcases Nat.lt_or_ge k w.models.length with h1 | h1
    · exact h1
    · rw [List.getElem?_eq_none h1] at hm; cases hm
  simp only [firstWorld]
  exact List.getElem?_set_self hk

/-- **the full invariant `GInv` after a guarded first load** -/
theorem opLoad_first_ginv (hroot : nmAutosar ≠ S.nmShortName) (hR : RefWF S) (hNoSub : ∀ t, S.isRef t = true → S.subCount t = 0)
    (hv32 : vOk &&& 0xFFFFFFFF = vOk) (hc : Clean strict st) (hg : LoadGuard S vOk h kids st.ver)
    (hG : GInv S vOk w) : GInv S vOk (opLoad S V nmAutosar w k name strict buf).1 := by
  rw [opLoad_first_eq S V nmAutosar w k m name strict buf h kids st hm hemp hr]
  exact firstWorld_ginv S V vOk nmAutosar w k name strict buf h kids st hr hroot hR hNoSub hv32 hc hg hG

/-- **`SepInv` after a first load** (no guard needed: the ids are fresh) -/
theorem opLoad_first_sep (hw : WInv S vOk w) (hs : SepInv w) : SepInv (opLoad S V nmAutosar w k name strict buf).1 := by
  rw [opLoad_first_eq S V nmAutosar w k m name strict buf h kids st hm hemp hr]
  exact firstWorld_sep S V vOk nmAutosar w k name strict buf h kids st hr hw hs

end

end

/-! ### the guard is decidable: Boolean checks on the result tree -/

section
variable (S : Spec) (vOk : Nat)

def noSnTopB : Items → Bool
  | .nil => true
  | .text _ r => noSnTopB r
  | .elem h _ r => h.name != S.nmShortName && noSnTopB r

theorem noSnTopB_iff (its : Items) : noSnTopB S its = true ↔ noSnTop S its := by
  induction its with
  | nil => simp [noSnTopB, noSnTop]
  | text c r ih => simpa [noSnTopB, noSnTop] using ih
  | elem h k r _ ihr => simp [noSnTopB, noSnTop, ihr]

def properSnB (sh : Hdr) (sk : Items) : Bool :=
  decide (S.mode sh.ety.typ = .characters) && !S.isNamed sh.ety.typ &&
  (match S.chardataSpec sh.ety.typ with
    | some sp => sp.stringLike
    | none => false) &&
  (match sk with
    | .text (.str n) .nil => !n.contains 47
    | _ => false)

theorem properSnB_iff (sh : Hdr) (sk : Items) : properSnB S sh sk = true ↔ properSn S sh sk := by
  unfold properSnB properSn
  have h3 : (match S.chardataSpec sh.ety.typ with | some sp => sp.stringLike | none => false) = true ↔
      ∃ sp, S.chardataSpec sh.ety.typ = some sp ∧ sp.stringLike = true := by
    cases S.chardataSpec sh.ety.typ with
    | none => simp
    | some sp => simp
  have h4 : (match sk with | .text (.str n) .nil => !n.contains 47 | _ => false) = true ↔
      ∃ n, sk = .text (.str n) .nil ∧ 47 ∉ n := by
    split
    · rename_i n
      constructor
      · intro h; exact ⟨n, rfl, by simpa using h⟩
      · rintro ⟨n', e, hn⟩
        injection e with e1 _
        injection e1 with e1
        subst e1
        simpa using hn
    · rename_i hne
      constructor
      · intro h; cases h
      · rintro ⟨n, e, _⟩
        exact absurd e (hne n)
  simp only [Bool.and_eq_true, decide_eq_true_eq, Bool.not_eq_true', h3, h4, and_assoc]

def kidsOkB (h : Hdr) : Items → Bool
  | .nil => true
  | .text _ rest => noSnTopB S rest
  | .elem sh sk rest =>
    (sh.name != S.nmShortName ||
      (S.isNamed h.ety.typ && decide (S.mode h.ety.typ = .sequence) && decide (S.subAt h.ety.typ 0 = .elem sh.ety.defId) &&
        decide (sh.ety.typ = S.defType sh.ety.defId) && properSnB S sh sk)) && noSnTopB S rest

theorem kidsOkB_iff (h : Hdr) (its : Items) : kidsOkB S h its = true ↔ kidsOk S h its := by
  cases its with
  | nil => simp [kidsOkB, kidsOk]
  | text c r => simp [kidsOkB, kidsOk, noSnTopB_iff]
  | elem sh sk rest =>
    simp only [kidsOkB, kidsOk, Bool.and_eq_true, Bool.or_eq_true, bne_iff_ne, ne_eq, decide_eq_true_eq, noSnTopB_iff,
      properSnB_iff, and_assoc]
    constructor
    · rintro ⟨h1, h2⟩
      refine ⟨fun hn => ?_, h2⟩
      rcases h1 with h1 | h1
      · exact absurd hn h1
      · exact h1
    · rintro ⟨h1, h2⟩
      refine ⟨?_, h2⟩
      by_cases hn : sh.name = S.nmShortName
      · exact Or.inr (h1 hn)
      · exact Or.inl hn

def snOkB : Items → Bool
  | .nil => true
  | .text _ r => snOkB r
  | .elem h k r => kidsOkB S h k && snOkB k && snOkB r

theorem snOkB_iff (its : Items) : snOkB S its = true ↔ SnOk S its := by
  induction its with
  | nil => simp [snOkB, SnOk]
  | text c r ih => simpa [snOkB, SnOk] using ih
  | elem h k r ihk ihr => simp [snOkB, SnOk, ihk, ihr, kidsOkB_iff, and_assoc]

def refOneB : Items → Bool
  | .nil => true
  | .text _ r => refOneB r
  | .elem h k r => (!S.isRef h.ety.typ || decide (k.length ≤ 1)) && refOneB k && refOneB r

theorem refOneB_iff (its : Items) : refOneB S its = true ↔ RefOne S its := by
  induction its with
  | nil => simp [refOneB, refOne_nil]
  | text c r ih => rw [refOne_text]; simpa [refOneB] using ih
  | elem h k r ihk ihr =>
    rw [refOne_elem]
    simp only [refOneB, Bool.and_eq_true, Bool.or_eq_true, Bool.not_eq_true', decide_eq_true_eq, ihk, ihr, and_assoc]
    constructor
    · rintro ⟨h1, h2⟩
      refine ⟨fun hx => ?_, h2⟩
      rcases h1 with h1 | h1
      · rw [hx] at h1; cases h1
      · exact h1
    · rintro ⟨h1, h2⟩
      refine ⟨?_, h2⟩
      cases hx : S.isRef h.ety.typ with
      | false => exact Or.inl rfl
      | true => exact Or.inr (h1 hx)

instance (its : Items) : Decidable (SnOk S its) := decidable_of_iff _ (snOkB_iff S its)
instance (its : Items) : Decidable (RefOne S its) := decidable_of_iff _ (refOneB_iff S its)
instance (l : List (Bytes × Nat)) : Decidable (keysNodupI l) := by unfold keysNodupI; infer_instance

theorem loadGuard_iff (h : Hdr) (kids : Items) (ver : Nat) :
    LoadGuard S vOk h kids ver ↔
      (ver &&& vOk = ver ∧ SnOk S (.elem h kids .nil) ∧ keysNodupI (entries S (.elem h kids .nil) []) ∧ RefOne S (.elem h kids .nil)) :=
  ⟨fun g => ⟨g.ver, g.sn, g.keys, g.one⟩, fun ⟨a, b, c, d⟩ => ⟨a, b, c, d⟩⟩

instance (h : Hdr) (kids : Items) (ver : Nat) : Decidable (LoadGuard S vOk h kids ver) :=
  decidable_of_iff _ (loadGuard_iff S vOk h kids ver).symm

instance (strict : Bool) (st : PState) : Decidable (Clean strict st) := by unfold Clean; infer_instance

end

/-! ## Part 4: negation witnesses on a toy specification (kernel evaluation) -/

namespace Witness

/-- root `<R>` (type 0, sequence) holds any number of `<B>` (type 2, a NAMED sequence) whose SHORT-NAME is `<A>` (type 1,
a string) -/
def ldDupSpec : Spec := { toySpec with
  subStart := fun t => if t = 0 then 0 else if t = 2 then 1 else 2
  subEnd := fun t => if t = 0 then 1 else 2
  subEntry := fun i => if i = 0 then .elem 2 else .elem 1
  verInfo := fun _ => 3
  cdataOf := fun t => if t = 1 then some 1 else none
  mode := fun t => if t = 1 then .characters else .sequence
  nmShortName := 101 }

/-- root `<R>` holds any number of `<B>` (type 2, a REFERENCE type: character data, no sub-elements) -/
def ldRefSpec : Spec := { toySpec with
  subStart := fun t => if t = 0 then 0 else 1
  subEnd := fun _ => 1
  subEntry := fun _ => .elem 2
  verInfo := fun _ => 3
  cdataOf := fun t => if t = 2 then some 99 else none
  mode := fun t => if t = 2 then .characters else .sequence }

/-- `<?xml …?><R xmlns=… xsi:schemaLocation="… V1.xsd"><B><A>x</A></B><B><A>x</A></B></R>`: two elements with the path `/x` -/
def dupDoc : Bytes := [60, 63, 120, 109, 108, 32, 118, 101, 114, 115, 105, 111, 110, 61, 34, 49, 46, 48, 34, 32, 101, 110, 99, 111, 100, 105, 110, 103, 61, 34, 117, 116, 102, 45, 56, 34, 63, 62, 10, 60, 82, 32, 120, 109, 108, 110, 115, 61, 34, 104, 116, 116, 112, 58, 47, 47, 97, 117, 116, 111, 115, 97, 114, 46, 111, 114, 103, 47, 115, 99, 104, 101, 109, 97, 47, 114, 52, 46, 48, 34, 32, 120, 109, 108, 110, 115, 58, 120, 115, 105, 61, 34, 104, 116, 116, 112, 58, 47, 47, 119, 119, 119, 46, 119, 51, 46, 111, 114, 103, 47, 50, 48, 48, 49, 47, 88, 77, 76, 83, 99, 104, 101, 109, 97, 45, 105, 110, 115, 116, 97, 110, 99, 101, 34, 32, 120, 115, 105, 58, 115, 99, 104, 101, 109, 97, 76, 111, 99, 97, 116, 105, 111, 110, 61, 34, 104, 116, 116, 112, 58, 47, 47, 97, 117, 116, 111, 115, 97, 114, 46, 111, 114, 103, 47, 115, 99, 104, 101, 109, 97, 47, 114, 52, 46, 48, 32, 86, 49, 46, 120, 115, 100, 34, 62, 60, 66, 62, 60, 65, 62, 120, 60, 47, 65, 62, 60, 47, 66, 62, 60, 66, 62, 60, 65, 62, 120, 60, 47, 65, 62, 60, 47, 66, 62, 60, 47, 82, 62]

/-- `…<R …><B>/a<!--c-->/b</B></R>`: a reference text interrupted by a comment -/
def refDoc : Bytes := [60, 63, 120, 109, 108, 32, 118, 101, 114, 115, 105, 111, 110, 61, 34, 49, 46, 48, 34, 32, 101, 110, 99, 111, 100, 105, 110, 103, 61, 34, 117, 116, 102, 45, 56, 34, 63, 62, 10, 60, 82, 32, 120, 109, 108, 110, 115, 61, 34, 104, 116, 116, 112, 58, 47, 47, 97, 117, 116, 111, 115, 97, 114, 46, 111, 114, 103, 47, 115, 99, 104, 101, 109, 97, 47, 114, 52, 46, 48, 34, 32, 120, 109, 108, 110, 115, 58, 120, 115, 105, 61, 34, 104, 116, 116, 112, 58, 47, 47, 119, 119, 119, 46, 119, 51, 46, 111, 114, 103, 47, 50, 48, 48, 49, 47, 88, 77, 76, 83, 99, 104, 101, 109, 97, 45, 105, 110, 115, 116, 97, 110, 99, 101, 34, 32, 120, 115, 105, 58, 115, 99, 104, 101, 109, 97, 76, 111, 99, 97, 116, 105, 111, 110, 61, 34, 104, 116, 116, 112, 58, 47, 47, 97, 117, 116, 111, 115, 97, 114, 46, 111, 114, 103, 47, 115, 99, 104, 101, 109, 97, 47, 114, 52, 46, 48, 32, 86, 49, 46, 120, 115, 100, 34, 62, 60, 66, 62, 47, 97, 60, 33, 45, 45, 99, 45, 45, 62, 47, 98, 60, 47, 66, 62, 60, 47, 82, 62]

/-- a world with one model that has no file yet -/
def w0 (S : Spec) : World := { models := [newModel S []], nextId := 1, nextFile := 0, dead := [] }

/-- the duplicate-path document is ACCEPTED, strictly and leniently, without a warning … -/
theorem dup_accepted :
    (match (opLoad ldDupSpec toyEnv 100 (w0 ldDupSpec) 0 [102] true dupDoc).2 with | .ok _ => true | .no _ => false) = true ∧
    (match (opLoad ldDupSpec toyEnv 100 (w0 ldDupSpec) 0 [102] false dupDoc).2 with | .ok _ => true | .no _ => false) = true ∧
    (runParser ldDupSpec toyEnv false dupDoc 1 100).2.warnings = [] := by decide +kernel

/-- … the tree then has two elements (ids 2 and 4) with the path `/x`, the index holds the first -/
theorem dup_state :
    (opLoad ldDupSpec toyEnv 100 (w0 ldDupSpec) 0 [102] true dupDoc).1.models.map (fun m => (m.index, entries ldDupSpec m.rootItems [])) =
      [([([47, 120], 2)], [([47, 120], 2), ([47, 120], 4)])] := by decide +kernel

/-- **negation witness** (c04:document-with-duplicate-paths-accepted): after the accepted load the index is NOT exact — the
element 4 has the path `/x`, the index answers 2 -/
theorem dup_index_not_exact :
    ∃ m ∈ (opLoad ldDupSpec toyEnv 100 (w0 ldDupSpec) 0 [102] true dupDoc).1.models, ∃ q i,
      (q, i) ∈ entries ldDupSpec m.rootItems [] ∧ idxGet m.index q ≠ some i := by
  have h := dup_state
  generalize (opLoad ldDupSpec toyEnv 100 (w0 ldDupSpec) 0 [102] true dupDoc).1.models = ms at h ⊢
  cases ms with
  | nil => simp at h
  | cons m r =>
    cases r with
    | cons _ _ => simp at h
    | nil =>
      simp only [List.map_cons, List.map_nil, List.cons.injEq, Prod.mk.injEq, and_true] at h
      refine ⟨m, List.mem_singleton.mpr rfl, [47, 120], 4, ?_, ?_⟩
      · rw [h.2]; decide
      · rw [h.1]; decide

/-- … so no `MInv` holds for the loaded model, whatever the bound on the ids: the guard `LoadGuard.keys` is necessary -/
theorem dup_no_minv (vOk nid : Nat) :
    ¬ ∀ m ∈ (opLoad ldDupSpec toyEnv 100 (w0 ldDupSpec) 0 [102] true dupDoc).1.models, MInv ldDupSpec vOk nid m := by
  intro hall
  obtain ⟨m, hm, q, i, h1, h2⟩ := dup_index_not_exact
  exact h2 (((hall m hm).exact q i).mpr h1)

/-- **negation witness** (the C05 face of c01:comment-splits-character-data): a reference text interrupted by a comment is
accepted without a warning; the reverse reference map then lists the element 2 under `/a` and under `/b`, while the element
has no character data (`character_data()` is `None`: two text items), so it is a referrer of nothing: the guard
`LoadGuard.one` is necessary for `RefsExact` -/
theorem ref_split_state :
    (match (opLoad ldRefSpec toyEnv 100 (w0 ldRefSpec) 0 [102] true refDoc).2 with | .ok _ => true | .no _ => false) = true ∧
    (runParser ldRefSpec toyEnv false refDoc 1 100).2.warnings = [] ∧
    (opLoad ldRefSpec toyEnv 100 (w0 ldRefSpec) 0 [102] true refDoc).1.models.map (fun m => (m.refs, refEntries ldRefSpec m.rootItems)) =
      [([([47, 97], [2]), ([47, 98], [2])], [])] := by decide +kernel

theorem ref_split_not_exact :
    ¬ ∀ m ∈ (opLoad ldRefSpec toyEnv 100 (w0 ldRefSpec) 0 [102] true refDoc).1.models, RefsExact ldRefSpec m.refs m.rootItems := by
  intro hall
  have h := ref_split_state.2.2
  generalize (opLoad ldRefSpec toyEnv 100 (w0 ldRefSpec) 0 [102] true refDoc).1.models = ms at h hall
  cases ms with
  | nil => simp at h
  | cons m r =>
    cases r with
    | cons _ _ => simp at h
    | nil =>
      simp only [List.map_cons, List.map_nil, List.cons.injEq, Prod.mk.injEq, and_true] at h
      have := (hall m (List.mem_singleton.mpr rfl)).2.2 [47, 97] 2
      rw [h.1, h.2] at this
      revert this
      decide

/-- as `ldDupSpec`, but a `<B>` may also hold `<B>`s after its SHORT-NAME `<A>` (type 2 = SEQUENCE of `<A>`, `<B>`*) -/
def ldSeqSpec : Spec := { toySpec with
  subStart := fun t => if t = 0 then 0 else if t = 2 then 1 else 3
  subEnd := fun t => if t = 0 then 1 else 3
  subEntry := fun i => if i = 1 then .elem 1 else .elem 2
  verInfo := fun _ => 3
  cdataOf := fun t => if t = 1 then some 1 else none
  mode := fun t => if t = 1 then .characters else .sequence
  nmShortName := 101 }

/-- `…<R …><B><B><A>y</A></B><A>x</A></B></R>`: the SHORT-NAME of the outer `<B>` comes AFTER its sub-element -/
def seqDoc : Bytes := [60, 63, 120, 109, 108, 32, 118, 101, 114, 115, 105, 111, 110, 61, 34, 49, 46, 48, 34, 32, 101, 110, 99, 111, 100, 105, 110, 103, 61, 34, 117, 116, 102, 45, 56, 34, 63, 62, 10, 60, 82, 32, 120, 109, 108, 110, 115, 61, 34, 104, 116, 116, 112, 58, 47, 47, 97, 117, 116, 111, 115, 97, 114, 46, 111, 114, 103, 47, 115, 99, 104, 101, 109, 97, 47, 114, 52, 46, 48, 34, 32, 120, 109, 108, 110, 115, 58, 120, 115, 105, 61, 34, 104, 116, 116, 112, 58, 47, 47, 119, 119, 119, 46, 119, 51, 46, 111, 114, 103, 47, 50, 48, 48, 49, 47, 88, 77, 76, 83, 99, 104, 101, 109, 97, 45, 105, 110, 115, 116, 97, 110, 99, 101, 34, 32, 120, 115, 105, 58, 115, 99, 104, 101, 109, 97, 76, 111, 99, 97, 116, 105, 111, 110, 61, 34, 104, 116, 116, 112, 58, 47, 47, 97, 117, 116, 111, 115, 97, 114, 46, 111, 114, 103, 47, 115, 99, 104, 101, 109, 97, 47, 114, 52, 46, 48, 32, 86, 49, 46, 120, 115, 100, 34, 62, 60, 66, 62, 60, 66, 62, 60, 65, 62, 121, 60, 47, 65, 62, 60, 47, 66, 62, 60, 65, 62, 120, 60, 47, 65, 62, 60, 47, 66, 62, 60, 47, 82, 62]

/-- **negation witness** (the C04 face of "the order of a sequence is not checked"): a document whose SHORT-NAME is not the
first sub-element is accepted strictly, without a warning; the parser registers the outer element (id 2) under `/x` and the
inner one (id 3) under `/y` — it had no path prefix yet —, while the outer element has no item name (`item_name` looks at the
FIRST sub-element only): the index holds an entry for an element without a path, and the inner element is indexed as `/y`
although it lies below the element the index calls `/x`.  The guard `LoadGuard.sn` (`SnOk`) is necessary. -/
theorem sn_not_first_state :
    (match (opLoad ldSeqSpec toyEnv 100 (w0 ldSeqSpec) 0 [102] true seqDoc).2 with | .ok _ => true | .no _ => false) = true ∧
    (runParser ldSeqSpec toyEnv false seqDoc 1 100).2.warnings = [] ∧
    (opLoad ldSeqSpec toyEnv 100 (w0 ldSeqSpec) 0 [102] true seqDoc).1.models.map (fun m => (m.index, entries ldSeqSpec m.rootItems [])) =
      [([([47, 121], 3), ([47, 120], 2)], [([47, 121], 3)])] := by decide +kernel

theorem sn_not_first_no_minv (vOk nid : Nat) :
    ¬ ∀ m ∈ (opLoad ldSeqSpec toyEnv 100 (w0 ldSeqSpec) 0 [102] true seqDoc).1.models, MInv ldSeqSpec vOk nid m := by
  intro hall
  have h := sn_not_first_state.2.2
  generalize (opLoad ldSeqSpec toyEnv 100 (w0 ldSeqSpec) 0 [102] true seqDoc).1.models = ms at h hall
  cases ms with
  | nil => simp at h
  | cons m r =>
    cases r with
    | cons _ _ => simp at h
    | nil =>
      simp only [List.map_cons, List.map_nil, List.cons.injEq, Prod.mk.injEq, and_true] at h
      have := ((hall m (List.mem_singleton.mpr rfl)).exact [47, 120] 2).mp (by rw [h.1]; decide)
      rw [h.2] at this
      revert this
      decide

end Witness

end AV.LoadInv
