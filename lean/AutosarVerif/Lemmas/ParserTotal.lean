/-
C02 for the parser model: the step budget (`fuel`) of `pLoop` / `skipComments` / `nextTok` is never exhausted — for every
byte string, in both modes, `runParser` ends with a document or with a genuine lexer / parser error, never with the
budget error `kFuel`.  (Every token strictly decreases the tokenizer measure of `Lemmas/Lexer.lean`, everything between
two tokens leaves the tokenizer alone.)
-/
import AutosarVerif.Lemmas.Lexer
import AutosarVerif.Model.Parser

namespace AV.PM
open AV.W

/-- leaves the tokenizer alone and never reports the budget error -/
def Quiet {α : Type} (m : P α) : Prop := ∀ b s, (m b s).2.lx = s.lx ∧ ∀ e, (m b s).1 = .error e → e.kind ≠ kFuel

theorem Q_pure {α : Type} (a : α) : Quiet (pure' a) := fun _ _ => ⟨rfl, fun _ h => by cases h⟩
theorem Q_hard {α : Type} (k : Nat) (hk : k ≠ kFuel) : Quiet (hardErr k : P α) :=
  fun _ _ => ⟨rfl, fun e h => by simp only [hardErr] at h; cases h; exact hk⟩
theorem Q_opt (k : Nat) (hk : k ≠ kFuel) : Quiet (optErr k) := by
  intro b s
  cases b
  · exact ⟨rfl, fun _ h => by simp [optErr] at h⟩
  · exact ⟨rfl, fun e h => by simp only [optErr, if_true] at h; cases h; exact hk⟩
theorem Q_bind {α β : Type} {m : P α} {k : α → P β} (hm : Quiet m) (hk : ∀ a, Quiet (k a)) : Quiet (bind' m k) := by
  intro b s
  have h1 := hm b s
  simp only [bind']
  cases hr : m b s with
  | mk r s1 =>
    rw [hr] at h1
    cases r with
    | error e => exact ⟨h1.1, fun e' h => by cases h; exact h1.2 e rfl⟩
    | ok a =>
      have h2 := hk a b s1
      exact ⟨by rw [h2.1]; exact h1.1, h2.2⟩
theorem Q_ite {α : Type} {c : Prop} [Decidable c] {a b : P α} (ha : Quiet a) (hb : Quiet b) : Quiet (if c then a else b) := by
  split <;> assumption
theorem Q_getS : Quiet getS := fun _ _ => ⟨rfl, fun _ h => by cases h⟩
theorem Q_modS (f : PState → PState) (hf : ∀ s, (f s).lx = s.lx) : Quiet (modS f) := fun _ s => ⟨hf s, fun _ h => by cases h⟩
theorem Q_allocId : Quiet allocId := fun _ _ => ⟨rfl, fun _ h => by cases h⟩

theorem Q_checkVersion (mask kind : Nat) (hk : kind ≠ kFuel) : Quiet (checkVersion mask kind) := by
  unfold checkVersion
  exact Q_bind (Q_modS _ fun _ => rfl) fun _ => Q_bind Q_getS fun _ => Q_ite (Q_opt _ hk) (Q_pure _)

theorem Q_unescapeP (fuel : Nat) (s : Bytes) : Quiet (unescapeP fuel s) := by
  fun_induction unescapeP fuel s
  all_goals first
    | exact Q_pure _
    | (rename_i ih; exact Q_bind ih fun _ => Q_pure _)
    | (rename_i ih; exact Q_bind (Q_opt _ (by decide)) fun _ => Q_bind ih fun _ => Q_pure _)

theorem Q_maxLen (maxLen : Option Nat) (n : Nat) : Quiet (match maxLen with
    | some m => if n > m then optErr kStringValueTooLong else pure' ()
    | none => pure' ()) := by
  cases maxLen with
  | none => exact Q_pure _
  | some m => exact Q_ite (Q_opt _ (by decide)) (Q_pure _)

theorem Q_parseCD (V : Env) (input : Bytes) (spec : CSpec) : Quiet (parseCD V input spec) := by
  unfold parseCD
  dsimp only
  split
  · split
    · exact Q_hard _ (by decide)
    · split
      · exact Q_hard _ (by decide)
      · exact Q_bind (Q_checkVersion _ _ (by decide)) fun _ => Q_pure _
  · refine Q_bind (Q_ite (Q_unescapeP _ _) (Q_pure _)) fun checked => Q_bind (Q_maxLen _ _) fun _ =>
      Q_bind (Q_ite (Q_pure _) (Q_opt _ (by decide))) fun _ => Q_ite (Q_pure _) (Q_bind (Q_opt _ (by decide)) fun _ => Q_hard _ (by decide))
  · exact Q_bind (Q_maxLen _ _) fun _ => Q_ite (Q_bind (Q_unescapeP _ _) fun _ => Q_pure _) (Q_bind (Q_opt _ (by decide)) fun _ => Q_hard _ (by decide))
  · refine Q_ite (Q_hard _ (by decide)) ?_
    split
    · exact Q_pure _
    · exact Q_bind (Q_opt _ (by decide)) fun _ => Q_pure _
  · refine Q_ite (Q_hard _ (by decide)) ?_
    split
    · exact Q_pure _
    · exact Q_bind (Q_opt _ (by decide)) fun _ => Q_pure _

section
variable (S : Spec) (V : Env)

theorem Q_attrLoop (typ : Nat) (fuel : Nat) : ∀ (rem : Bytes) (acc : List (Nat × CDv)), Quiet (attrLoop S V typ fuel rem acc) := by
  induction fuel with
  | zero => intro rem acc; unfold attrLoop; exact Q_pure _
  | succ n ih =>
    intro rem acc
    unfold attrLoop
    split
    · exact Q_pure _
    · dsimp only
      refine Q_bind ?_ fun acc' => Q_ite (Q_pure _) (ih _ _)
      split
      · split
        · exact Q_bind (Q_checkVersion _ _ (by decide)) fun _ => Q_bind (Q_parseCD V _ _) fun _ => Q_pure _
        · exact Q_bind (Q_opt _ (by decide)) fun _ => Q_pure _
      · exact Q_bind (Q_opt _ (by decide)) fun _ => Q_pure _

theorem Q_required (attrs : List (Nat × CDv)) (l : List (Nat × Nat × Bool × Nat)) : ∀ m : P Unit, Quiet m →
    Quiet (l.foldl (fun (m : P Unit) (a : Nat × Nat × Bool × Nat) =>
      bind' m fun _ => if a.2.2.1 ∧ !attrs.any (·.1 == a.1) then optErr kRequiredAttributeMissing else pure' ()) m) := by
  induction l with
  | nil => intro m hm; exact hm
  | cons a r ih =>
    intro m hm
    simp only [List.foldl_cons]
    exact ih _ (Q_bind hm fun _ => Q_ite (Q_opt _ (by decide)) (Q_pure _))

theorem Q_parseAttrs (typ : Nat) (text : Bytes) : Quiet (parseAttrs S V typ text) := by
  unfold parseAttrs
  exact Q_bind (Q_attrLoop S V typ _ _ _) fun _ => Q_bind (Q_ite (Q_opt _ (by decide)) (Q_pure _)) fun _ =>
    Q_bind (Q_required _ _ _ (Q_pure _)) fun _ => Q_pure _

theorem Q_findChecked (typ name : Nat) : Quiet (findChecked S typ name) := by
  unfold findChecked
  refine Q_bind Q_getS fun s => ?_
  split
  · exact Q_pure _
  · split
    · exact Q_hard _ (by decide)
    · split
      · exact Q_hard _ (by decide)
      · exact Q_bind (Q_checkVersion _ _ (by decide)) fun _ => Q_pure _

theorem Q_checkConflict (typ : Nat) (old new : List Nat) : Quiet (checkConflict S typ old new) := by
  unfold checkConflict
  refine Q_ite (Q_pure _) ?_
  split
  · exact Q_opt _ (by decide)
  · exact Q_hard _ (by decide)
  · exact Q_pure _

theorem Q_checkMult (typ name : Nat) (idx : List Nat) (acc : List Item) : Quiet (checkMult S typ name idx acc) := by
  unfold checkMult
  split
  · exact Q_hard _ (by decide)
  · refine Q_ite ?_ (Q_pure _)
    split
    · exact Q_ite (Q_opt _ (by decide)) (Q_pure _)
    · exact Q_pure _

theorem Q_parseFileVersion (schema : Bytes) : Quiet (parseFileVersion V schema) := by
  unfold parseFileVersion
  dsimp only
  refine Q_ite (Q_hard _ (by decide)) ?_
  split
  · exact Q_pure _
  · have hfix : ∀ g : Bytes, Quiet (bind' (optErr kInvalidAutosarVersion) fun _ => pure' ((V.verOfFile g).getD 0)) :=
      fun g => Q_bind (Q_opt _ (by decide)) fun _ => Q_pure _
    exact Q_ite (hfix _) (Q_ite (hfix _) (Q_ite (hfix _) (Q_bind (Q_opt _ (by decide)) fun _ => Q_pure _)))

theorem Q_parseFileHeader (attrs : List (Nat × CDv)) : Quiet (parseFileHeader V attrs) := by
  unfold parseFileHeader
  dsimp only
  split
  · exact Q_ite (Q_hard _ (by decide)) (Q_bind (Q_parseFileVersion V _) fun _ => Q_modS _ fun _ => rfl)
  · exact Q_hard _ (by decide)

end

/-! ### token consumers -/

/-- started with a tokenizer measure below `c`, the computation never reports the budget error, and when it succeeds the
tokenizer has not moved backwards -/
def SafeLt {α : Type} (c : Nat) (m : P α) : Prop := ∀ b s, Lex.measure s.lx < c →
  (∀ e, (m b s).1 = .error e → e.kind ≠ kFuel) ∧ (∀ a, (m b s).1 = .ok a → Lex.measure (m b s).2.lx ≤ Lex.measure s.lx)

theorem Safe_of_quiet {α : Type} {m : P α} (h : Quiet m) (c : Nat) : SafeLt c m :=
  fun b s _ => ⟨(h b s).2, fun _ _ => by rw [(h b s).1]; exact Nat.le_refl _⟩

theorem Safe_bind {α β : Type} {c : Nat} {m : P α} {k : α → P β} (hm : SafeLt c m) (hk : ∀ a, SafeLt c (k a)) :
    SafeLt c (bind' m k) := by
  intro b s hs
  have h1 := hm b s hs
  simp only [bind']
  cases hr : m b s with
  | mk r s1 =>
    rw [hr] at h1
    cases r with
    | error e => exact ⟨fun e' h => by cases h; exact h1.1 e rfl, fun a h => by cases h⟩
    | ok a =>
      have hle : Lex.measure s1.lx ≤ Lex.measure s.lx := h1.2 a rfl
      have h2 := hk a b s1 (by omega)
      exact ⟨h2.1, fun a' h => Nat.le_trans (h2.2 a' h) hle⟩

theorem Safe_ite {α : Type} {c : Nat} {p : Prop} [Decidable p] {a b : P α} (ha : SafeLt c a) (hb : SafeLt c b) :
    SafeLt c (if p then a else b) := by
  split <;> assumption

theorem Safe_mono {α : Type} {c d : Nat} {m : P α} (h : SafeLt d m) (hcd : c ≤ d) : SafeLt c m :=
  fun b s hs => h b s (by omega)

/-- what one token does: an error that is not the budget error, the end of the input, or strict progress; never backwards -/
theorem nextTok_spec (setLine b : Bool) (s : PState) :
    (∀ e, (nextTok setLine b s).1 = .error e → e.kind ≠ kFuel) ∧
    (∀ ev, (nextTok setLine b s).1 = .ok ev →
      (ev = .eof ∨ Lex.measure (nextTok setLine b s).2.lx < Lex.measure s.lx) ∧
      Lex.measure (nextTok setLine b s).2.lx ≤ Lex.measure s.lx) := by
  unfold nextTok
  have hsome := Lex.next_isSome (s.lx.rest.length + 1) s.lx (by omega)
  cases hn : Lex.next (s.lx.rest.length + 1) s.lx with
  | none => rw [hn] at hsome; cases hsome
  | some r =>
    obtain ⟨res, lx'⟩ := r
    cases res with
    | error e =>
      obtain ⟨l, err⟩ := e
      refine ⟨fun e' h => ?_, fun ev h => by cases h⟩
      cases h
      show kLexBase + lexCode err ≠ kFuel
      cases err <;> decide
    | ok le =>
      obtain ⟨l, ev⟩ := le
      refine ⟨fun e h => (by cases h), fun ev' h => ?_⟩
      cases h
      exact ⟨Lex.next_measure _ _ _ _ _ hn, Lex.next_measure_le _ _ _ _ _ hn⟩

theorem Safe_nextTok (setLine : Bool) (c : Nat) : SafeLt c (nextTok setLine) :=
  fun b s _ => ⟨(nextTok_spec setLine b s).1, fun ev h => ((nextTok_spec setLine b s).2 ev h).2⟩

section
variable (S : Spec) (V : Env)

/-- **C02** the element loop never runs out of its budget when the budget exceeds the tokenizer measure -/
theorem Safe_pLoop (fuel : Nat) : ∀ (h : Hdr) (st : LoopSt), SafeLt fuel (pLoop S V fuel h st) := by
  induction fuel with
  | zero => intro h st b s hs; omega
  | succ n ih =>
    intro h st b s hs
    unfold pLoop
    simp only [bind']
    have hspec := nextTok_spec true b s
    cases hr : nextTok true b s with
    | mk r s1 =>
      rw [hr] at hspec
      cases r with
      | error e => exact ⟨fun e' hh => (by cases hh; exact hspec.1 e rfl), fun a hh => (by cases hh)⟩
      | ok ev =>
        dsimp only
        have hle : Lex.measure s1.lx ≤ Lex.measure s.lx := (hspec.2 ev rfl).2
        rcases (hspec.2 ev rfl).1 with heof | hlt
        · -- end of input inside an element: `UnexpectedEndOfFile`
          subst heof
          exact ⟨fun e hh => (by simp only [hardErr] at hh; cases hh; show kUnexpectedEndOfFile ≠ kFuel; decide),
            fun a hh => (by simp [hardErr] at hh)⟩
        · have hlt' : Lex.measure s1.lx < Lex.measure s.lx := hlt
          have hs1 : Lex.measure s1.lx < n := by omega
          -- the continuation is safe below `n`; apply it in `s1`
          have hcont : SafeLt n (match ev with
              | .beginElement nm attrText =>
                match V.elemOf nm with
                | none => hardErr kInvalidBeginElement
                | some name =>
                  bind' (findChecked S h.ety.typ name) fun (sty, idx) =>
                  bind' (checkConflict S h.ety.typ st.elemIdx idx) fun _ =>
                  bind' (if st.acc.isEmpty then pure' () else checkMult S h.ety.typ name idx st.acc) fun _ =>
                  bind' (parseAttrs S V sty.typ attrText) fun attrs =>
                  bind' allocId fun id =>
                  let sh : Hdr := { id := id, name := name, ety := sty, parent := .elem h.id, attrs := attrs, files := [], comment := st.comment }
                  bind' (pLoop S V n sh { path := st.path }) fun skids =>
                  let newPath : Option Bytes :=
                    if name = S.nmShortName then
                      match skids with
                      | .text (.str n) _ => some (st.path ++ [47] ++ n)
                      | _ => none
                    else none
                  bind' (match newPath with
                    | some p => modS fun s => { s with idents := s.idents ++ [(p, h.id)] }
                    | none => pure' ()) fun _ =>
                  pLoop S V n h { st with
                    acc := st.acc ++ [.el sh skids], elemIdx := idx, comment := none,
                    snFound := st.snFound || name == S.nmShortName,
                    path := newPath.getD st.path }
              | .endElement nm =>
                match V.elemOf nm with
                | none => hardErr kInvalidEndElement
                | some name =>
                  if name = h.name then
                    bind' (if !st.snFound then
                        bind' getS fun s => if S.isNamedIn h.ety.typ s.ver then optErr kRequiredSubelementMissing else pure' ()
                      else pure' ()) fun _ =>
                    pure' (itemsOf st.acc)
                  else hardErr kIncorrectEndElement
              | .characters text =>
                match S.chardataSpec h.ety.typ with
                | some spec =>
                  bind' (parseCD V text spec) fun v =>
                  bind' (match v with
                    | .str r => if S.isRef h.ety.typ then modS fun s => { s with refs := s.refs ++ [(r, h.id)] } else pure' ()
                    | _ => pure' ()) fun _ =>
                  pLoop S V n h { st with acc := st.acc ++ [.tx v] }
                | none => bind' (optErr kCharacterContentForbidden) fun _ => pLoop S V n h st
              | .header _ => bind' (optErr kUnexpectedXmlFileHeader) fun _ => pLoop S V n h st
              | .eof => hardErr kUnexpectedEndOfFile
              | .comment c => if validUtf8 c then pLoop S V n h { st with comment := some c } else hardErr kUnsupported) := by
            split
            · split
              · exact Safe_of_quiet (Q_hard _ (by decide)) _
              · refine Safe_bind (Safe_of_quiet (Q_findChecked S _ _) _) fun r => Safe_bind (Safe_of_quiet (Q_checkConflict S _ _ _) _) fun _ =>
                  Safe_bind (Safe_of_quiet (Q_ite (Q_pure _) (Q_checkMult S _ _ _ _)) _) fun _ =>
                  Safe_bind (Safe_of_quiet (Q_parseAttrs S V _ _) _) fun attrs => Safe_bind (Safe_of_quiet Q_allocId _) fun id =>
                  Safe_bind (ih _ _) fun skids => Safe_bind (Safe_of_quiet ?_ _) fun _ => ih _ _
                split
                · exact Q_modS _ fun _ => rfl
                · exact Q_pure _
            · split
              · exact Safe_of_quiet (Q_hard _ (by decide)) _
              · refine Safe_ite (Safe_bind (Safe_of_quiet ?_ _) fun _ => Safe_of_quiet (Q_pure _) _) (Safe_of_quiet (Q_hard _ (by decide)) _)
                exact Q_ite (Q_bind Q_getS fun _ => Q_ite (Q_opt _ (by decide)) (Q_pure _)) (Q_pure _)
            · split
              · refine Safe_bind (Safe_of_quiet (Q_parseCD V _ _) _) fun v => Safe_bind (Safe_of_quiet ?_ _) fun _ => ih _ _
                split
                · exact Q_ite (Q_modS _ fun _ => rfl) (Q_pure _)
                · exact Q_pure _
              · exact Safe_bind (Safe_of_quiet (Q_opt _ (by decide)) _) fun _ => ih _ _
            · exact Safe_bind (Safe_of_quiet (Q_opt _ (by decide)) _) fun _ => ih _ _
            · exact Safe_of_quiet (Q_hard _ (by decide)) _
            · exact Safe_ite (ih _ _) (Safe_of_quiet (Q_hard _ (by decide)) _)
          have hres := hcont b s1 hs1
          exact ⟨hres.1, fun a hh => Nat.le_trans (hres.2 a hh) hle⟩

theorem Safe_skipComments (fuel : Nat) : ∀ (c : Option Bytes) (ev : Lex.Event), SafeLt fuel (skipComments fuel c ev) := by
  induction fuel with
  | zero => intro c ev b s hs; omega
  | succ n ih =>
    intro c ev b s hs
    cases ev with
    | comment bts =>
      unfold skipComments
      by_cases hv : validUtf8 bts = true
      · rw [if_pos hv]
        simp only [bind']
        have hspec := nextTok_spec true b s
        cases hr : nextTok true b s with
        | mk r s1 =>
          rw [hr] at hspec
          cases r with
          | error e => exact ⟨fun e' hh => (by cases hh; exact hspec.1 e rfl), fun a hh => (by cases hh)⟩
          | ok ev' =>
            dsimp only
            have hle : Lex.measure s1.lx ≤ Lex.measure s.lx := (hspec.2 ev' rfl).2
            rcases (hspec.2 ev' rfl).1 with heof | hlt
            · subst heof
              have : skipComments n (some bts) Lex.Event.eof = pure' (some bts, Lex.Event.eof) := by
                cases n <;> rfl
              rw [this]
              exact ⟨fun e hh => (by cases hh), fun a _ => hle⟩
            · have hlt' : Lex.measure s1.lx < Lex.measure s.lx := hlt
              have hres := ih (some bts) ev' b s1 (by omega)
              exact ⟨hres.1, fun a hh => Nat.le_trans (hres.2 a hh) hle⟩
      · rw [if_neg hv]
        exact ⟨fun e hh => (by simp only [hardErr] at hh; cases hh; show kUnsupported ≠ kFuel; decide), fun a hh => (by simp [hardErr] at hh)⟩
    | header _ => unfold skipComments; exact (Safe_of_quiet (Q_pure _) _) b s hs
    | beginElement _ _ => unfold skipComments; exact (Safe_of_quiet (Q_pure _) _) b s hs
    | endElement _ => unfold skipComments; exact (Safe_of_quiet (Q_pure _) _) b s hs
    | characters _ => unfold skipComments; exact (Safe_of_quiet (Q_pure _) _) b s hs
    | eof => unfold skipComments; exact (Safe_of_quiet (Q_pure _) _) b s hs

/-- **C02** the parser never runs out of its step budget: for every buffer and both modes the run ends with a document or
with a genuine tokenizer / parser error -/
theorem runParser_total (strict : Bool) (buf : Bytes) (firstId nmAutosar : Nat) :
    ∀ e, (runParser S V strict buf firstId nmAutosar).1 = .error e → e.kind ≠ kFuel := by
  unfold runParser parseArxml
  have hm : Lex.measure (Lex.init buf) < 2 * buf.length + 8 := by
    have := Lex.measure_le (Lex.init buf)
    have hlen : (Lex.init buf).rest.length ≤ buf.length := by
      unfold Lex.init
      split <;> simp <;> omega
    omega
  have hsafe : SafeLt (2 * buf.length + 8) (parseArxml S V (2 * buf.length + 8) nmAutosar) := by
    unfold parseArxml
    refine Safe_bind (Safe_nextTok _ _) fun ev0 => ?_
    split
    · refine Safe_bind (Safe_of_quiet (Q_modS _ fun _ => rfl) _) fun _ => Safe_bind (Safe_nextTok _ _) fun ev1 =>
        Safe_bind (Safe_skipComments _ _ _) fun r => ?_
      obtain ⟨comment, ev⟩ := r
      dsimp only
      split
      · refine Safe_ite ?_ (Safe_of_quiet (Q_hard _ (by decide)) _)
        refine Safe_bind (Safe_of_quiet (Q_parseAttrs S V _ _) _) fun attrs => Safe_bind (Safe_of_quiet (Q_parseFileHeader V _) _) fun _ =>
          Safe_bind (Safe_of_quiet Q_allocId _) fun id => Safe_bind (Safe_pLoop S V _ _ _) fun kids =>
          Safe_bind (Safe_nextTok _ _) fun evEnd => Safe_bind (Safe_of_quiet ?_ _) fun _ => Safe_of_quiet (Q_pure _) _
        split
        · exact Q_pure _
        · exact Q_opt _ (by decide)
      · exact Safe_of_quiet (Q_hard _ (by decide)) _
    · exact Safe_of_quiet (Q_hard _ (by decide)) _
  exact (hsafe strict _ hm).1

end
end AV.PM
