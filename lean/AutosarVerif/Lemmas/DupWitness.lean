/-
C13, witnesses for `Lemmas/Dup.lean`: the known finding c13:duplicate-of-model-with-files-of-different-versions on a toy
specification — `opDup` of a model with two files of different versions answers `ok`, the copy has fewer elements than the
original, and an element of the copy carries the image of ANOTHER element's file set.
-/
import AutosarVerif.Lemmas.Dup
import AutosarVerif.Lemmas.IndexWitness

namespace AV.W
open AV Items

/-! ### evaluation: `opDup` with `opCopyS` (`deepCopy` does not reduce in the kernel) -/

section
variable (S : Spec) (V : Env) (rootAttrs : List (Nat × CDv))

def dupCopiesS (root' : Nat) : List Nat → World → Except Ans World
  | [], w => .ok w
  | c :: cs, w =>
    match opCopyS S V w root' c none with
    | (w1, .ok _) => dupCopiesS root' cs w1
    | (_, a) => .error a

theorem dupCopies_eq_S (root' : Nat) (cs : List Nat) (w : World) : dupCopies S V root' cs w = dupCopiesS S V root' cs w := by
  induction cs generalizing w with
  | nil => rfl
  | cons c cs ih =>
    simp only [dupCopies, dupCopiesS, opCopy_eq_S, ih]
    rfl

def opDupS (w : World) (k : Nat) : World × Ans :=
  match w.models[k]? with
  | none => (w, .err)
  | some m =>
    let k' := w.models.length
    let w0 : World := { w with models := w.models ++ [newModel S rootAttrs] }
    if m.files.isEmpty then
      if m.rootKids.childElems.isEmpty then (w0, .ok s!"m{k'}") else (w, .err)
    else
      match dupFiles S k' m.files w0 with
      | none => (w, .err)
      | some w1 =>
        match w1.models[k']? with
        | none => (w, .err)
        | some m1 =>
          match dupCopiesS S V m1.rootHdr.id (m.rootKids.childElems.map (·.1.id)) w1 with
          | .error a => (w, a)
          | .ok w2 =>
            match w2.models[k']? with
            | none => (w, .err)
            | some m2 =>
              let newFiles := m2.files.map (·.id)
              let mapF : Nat → Option Nat := fun fid =>
                match m.files.findIdx? (·.id == fid) with
                | some i => newFiles[i]?
                | none => none
              let origSets := (m.rootHdr :: m.rootKids.hdrs).map fun h => h.files.filterMap mapF
              let root' := (assignFiles m2.rootItems origSets).1
              let m3 := m2.setRoot root'
              let ids := m3.rootItems.ids
              if ids ≠ List.range' w.nextId ids.length then (w, .unsupported)
              else
                let fs := " ".intercalate (newFiles.map fun i => s!"f{i}")
                let es := " ".intercalate (ids.map fun i => s!"e{i}")
                (setModel w2 k' m3, .ok s!"m{k'} {fs} {es}")

theorem opDup_eq_S (w : World) (k : Nat) : opDup S V rootAttrs w k = opDupS S V rootAttrs w k := by
  have h : dupCopies S V = dupCopiesS S V := by funext r cs w; exact dupCopies_eq_S S V r cs w
  unfold opDup opDupS
  rw [h]
  rfl

end

/-! ### the toy specification -/

/-- R (type 0, sequence, splittable): P*;  P (type 1, sequence): X?, Y?;  X (type 2) exists ONLY in version 2, everything else in the
versions 1 and 2 -/
def dupSpec : Spec where
  nTypes := 4
  nDefs := 4
  nSubs := 3
  nAttrs := 0
  nVer := 3
  nCData := 0
  nRefItems := 0
  subStart := fun t => if t = 0 then 0 else if t = 1 then 1 else 3
  subEnd := fun t => if t = 0 then 1 else 3
  subVer := fun t => if t = 0 then 0 else 1
  attrStart := fun _ => 0
  attrEnd := fun _ => 0
  attrVer := fun _ => 0
  cdataOf := fun _ => none
  mode := fun _ => .sequence
  refStart := fun _ => 0
  refEnd := fun _ => 0
  subEntry := fun i => if i = 0 then .elem 1 else if i = 1 then .elem 2 else .elem 3
  verInfo := fun i => if i = 1 then 2 else 3
  attrName := fun _ => 0
  attrCData := fun _ => 0
  attrRequired := fun _ => false
  refItem := fun _ => 0
  defName := fun d => 100 + d
  defType := fun d => d
  defMult := fun d => if d = 1 then .any else .zeroOrOne
  defOrdered := fun _ => false
  defSplit := fun d => if d = 0 then 1 else 0
  cspec := fun _ => .uint
  refTypeIdx := 99
  rootDef := 0
  depth := 1
  nmShortName := 999
  atDest := 998

/-- the file f0 "a" of version 1 and the file f1 "b" of version 2; P e1 in {f1} with the X e2 inside; P e3 in {f0}; P e4 in {f1} -/
def dupOps : List Op :=
  [.newModel, .mkFile 0 [97] 1 true, .mkFile 0 [98] 2 true,
   .create 0 101 none, .rmfromfile 1 0, .create 1 102 none,
   .create 0 101 none, .rmfromfile 3 1,
   .create 0 101 none, .rmfromfile 4 0]

def dupW : World := run dupSpec nameEnv [] dupOps

/-- the original, in document order: (id, name, local file set) -/
example : (dupW.models.map fun m => m.rootItems.hdrs.map fun h => (h.id, h.name, h.files)) =
    [[(0, 100, [0, 1]), (1, 101, [1]), (2, 102, []), (3, 101, [0]), (4, 101, [1])]] := by decide

def Ans.isOk : Ans → Bool
  | .ok _ => true
  | _ => false

/-- `dup m0` is answered with success; the copy, in document order: (id, name, local file set) -/
theorem dupW_copy : (opDup dupSpec nameEnv [] dupW 0).2.isOk = true ∧
    ((opDup dupSpec nameEnv [] dupW 0).1.models.map fun m => m.rootItems.hdrs.map fun h => (h.id, h.name, h.files)) =
      [[(0, 100, [0, 1]), (1, 101, [1]), (2, 102, []), (3, 101, [0]), (4, 101, [1])],
       [(5, 100, [2, 3]), (6, 101, [3]), (7, 101, []), (8, 101, [2])]] := by
  rw [opDup_eq_S]; decide

/-- the files of the copy: f2 "a" of version 1, f3 "b" of version 2 -/
example : ((opDup dupSpec nameEnv [] dupW 0).1.models.map fun m => m.files.map fun f => (f.id, f.name, f.version)) =
    [[(0, [97], 1), (1, [98], 2)], [(2, [97], 1), (3, [98], 2)]] := by
  rw [opDup_eq_S]; decide

/-- **the finding c13:duplicate-of-model-with-files-of-different-versions**: the model has the files f0 (version 1) and f1
(version 2); `duplicate` answers `ok`; the copy is made in version 1, the lowest, and
(a) has 4 elements where the original has 5 (the X e2, which exists only in version 2, is dropped), and
(b) its element at position 3 (e8, the copy of e4) carries {f2}, the image of the file set {f0} of the element at position 3 of the
ORIGINAL (e3) — not {f3}, the image of the set {f1} of its own source e4 (position 4 of the original).
The original is unchanged. -/
theorem dup_versions_finding :
    (opDup dupSpec nameEnv [] dupW 0).2.isOk = true ∧
    ((opDup dupSpec nameEnv [] dupW 0).1.models.map fun m => m.rootItems.hdrs.length) = [5, 4] ∧
    (dupW.models.map fun m => m.rootItems.hdrs.length) = [5] ∧
    -- position 3 of the copy, position 3 and 4 of the original: (id, name, files)
    ((opDup dupSpec nameEnv [] dupW 0).1.models[1]?.bind fun m => m.rootItems.hdrs[3]?.map fun h => (h.id, h.name, h.files)) = some (8, 101, [2]) ∧
    (dupW.models[0]?.bind fun m => m.rootItems.hdrs[3]?.map fun h => (h.id, h.name, h.files)) = some (3, 101, [0]) ∧
    (dupW.models[0]?.bind fun m => m.rootItems.hdrs[4]?.map fun h => (h.id, h.name, h.files)) = some (4, 101, [1]) ∧
    -- e8 is the third child of the new root, e4 the third child of the original root
    ((opDup dupSpec nameEnv [] dupW 0).1.models[1]?.map fun m => m.rootKids.childElems.map (·.1.id)) = some [6, 7, 8] ∧
    (dupW.models[0]?.map fun m => m.rootKids.childElems.map (·.1.id)) = some [1, 3, 4] := by
  rw [opDup_eq_S]; decide

/-- the world is a reachable one, with the full invariant -/
theorem dupW_inv : Inv dupW := run_inv dupSpec nameEnv [] dupOps

/-! ### the hypothesis `hfresh` of `opDup_frame` cannot be dropped -/

/-- a world outside the invariant: the model m0 with the file f0, the root e0 and a P e1 — and the next element id 0 again -/
def badW : World := { run dupSpec nameEnv [] [.newModel, .mkFile 0 [97] 1 true, .create 0 101 none] with nextId := 0 }

/-- `dup m0` answers `ok`, but the new root gets the id 0 of the old one: `create_copied_sub_element` on "the root of the copy"
finds the OLD root, and the copy of e1 lands in the original model -/
theorem opDup_frame_needs_fresh : (opDup dupSpec nameEnv [] badW 0).2.isOk = true ∧
    (badW.models.map fun m => m.rootItems.ids) = [[0, 1]] ∧
    ((opDup dupSpec nameEnv [] badW 0).1.models.map fun m => m.rootItems.ids) = [[0, 1, 1], [0]] := by
  rw [opDup_eq_S]; decide

end AV.W
