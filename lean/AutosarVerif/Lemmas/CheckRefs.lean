/-
C05, second sentence: "The invalid-reference report contains precisely the references whose target path does not resolve or
whose DEST does not fit the target's type, and a reference is absent from the report exactly when resolving it returns its
target."

`qCheckRefs` (`AutosarModel::check_references`) walks over the reverse reference map; `refTarget`
(`Element::get_reference_target`) starts from the element.  With the reverse map exact (`RefsExact`, part of `CInv`) the two
agree: the report of model `k` is the list of the reference elements of model `k` (that hold a text) whose `refTarget` is
`none`, each once.
-/
import AutosarVerif.Model.WorldQuery
import AutosarVerif.Lemmas.RefsBridge
import AutosarVerif.Lemmas.IndexBridge

namespace AV.W
open Items

section
variable (S : Spec) (V : Env)

/-! ### the id list inside `qCheckRefs` -/

/-- the contribution of one entry of the reverse reference map of `m` to the report -/
def checkRefsEntry (w : World) (m : Model) (e : Bytes × List Nat) : List Nat :=
  match m.lookup e.1 with
  | some t =>
    match locate w t with
    | some (_, tc) =>
      e.2.filter fun r =>
        match locate w r with
        | some (_, rc) =>
          match attrVal (lastOf rc).1 V.nmDest with
          | some (.enum d) => !S.verifyDest (lastOf tc).1.ety.typ d
          | _ => true
        | none =>
          match (w.dead.find? (·.id == r)) with
          | some dh => match attrVal dh V.nmDest with
            | some (.enum d) => !S.verifyDest (lastOf tc).1.ety.typ d
            | _ => true
          | none => true
    | none => e.2
  | none => e.2

/-- the id list inside `qCheckRefs` (before `showIds` sorts it and hides the ghost referrer) -/
def checkRefsIds (w : World) (k : Nat) : List Nat :=
  match w.models[k]? with
  | none => []
  | some m => m.refs.flatMap (checkRefsEntry S V w m)

theorem qCheckRefs_eq (w : World) (k : Nat) :
    qCheckRefs S V w k = match w.models[k]? with
      | none => "bad-op"
      | some _ => showIds (checkRefsIds S V w k) := by
  unfold qCheckRefs checkRefsIds
  cases w.models[k]? with
  | none => rfl
  | some m => rfl

theorem checkRefsIds_some (w : World) (k : Nat) (m : Model) (hm : w.models[k]? = some m) :
    checkRefsIds S V w k = m.refs.flatMap (checkRefsEntry S V w m) := by
  unfold checkRefsIds; rw [hm]

/-! ### `locate` on an element of a given model -/

theorem findSome_range {α : Type} (f : Nat → Option α) (n k : Nat) (b : α) (hk : k < n) (hf : f k = some b)
    (hb : ∀ j, j < k → f j = none) : (List.range n).findSome? f = some b := by
  induction n with
  | zero => omega
  | succ n ih =>
    rw [List.range_succ, List.findSome?_append]
    by_cases h : k < n
    · rw [ih h]; rfl
    · have hkn : k = n := by omega
      subst hkn
      have hnone : (List.range k).findSome? f = none := by
        rw [List.findSome?_eq_none_iff]
        intro j hj
        exact hb j (List.mem_range.mp hj)
      rw [hnone]
      simp [hf]

/-- no model in front of model `k` has an element with the id `x` -/
def NotBefore (w : World) (k x : Nat) : Prop :=
  ∀ j mj, j < k → w.models[j]? = some mj → x ∉ mj.rootItems.ids

/-- `locate` finds an element of model `k` in model `k` if no model in front of it has an element with that id -/
theorem locate_of_chain (w : World) (k : Nat) (m : Model) (x : Nat) (c : List (Hdr × Items))
    (hm : w.models[k]? = some m) (hc : m.rootItems.chain x = some c) (hb : NotBefore w k x) :
    locate w x = some (k, c) := by
  unfold locate
  have hk : k < w.models.length := by
    rcases Nat.lt_or_ge k w.models.length with h | h
    · exact h
    · rw [List.getElem?_eq_none h] at hm; cases hm
  refine findSome_range _ _ k _ hk ?_ ?_
  · simp only [hm, hc, Option.map_some]
  · intro j hj
    cases hmj : w.models[j]? with
    | none => rfl
    | some mj =>
      have hx := hb j mj hj hmj
      simp only [chain_none_of_not_mem x mj.rootItems hx, Option.map_none]

theorem getElem!_of_getElem? (w : World) (k : Nat) (m : Model) (hm : w.models[k]? = some m) : w.models[k]! = m := by
  simp [getElem!_def, hm]

/-! ### the reverse map and the reference elements of the tree -/

/-- `x` is a reference element of the forest that holds the text `p` -/
def IsRefTo (its : Items) (x : Nat) (p : Bytes) : Prop :=
  ∃ h k0, Occ h k0 its ∧ h.id = x ∧ S.isRef h.ety.typ = true ∧ charData S h k0 = some (.str p)

/-- with unique ids a reference element holds one text -/
theorem isRefTo_text_unique (its : Items) (hn : its.ids.Nodup) (x : Nat) (p q : Bytes)
    (h1 : IsRefTo S its x p) (h2 : IsRefTo S its x q) : p = q := by
  obtain ⟨h, k0, ho, hid, _, hc⟩ := h1
  obtain ⟨h', k0', ho', hid', _, hc'⟩ := h2
  obtain ⟨rfl, rfl⟩ := occ_unique its hn h h' k0 k0' ho ho' (hid.trans hid'.symm)
  rw [hc] at hc'
  injection hc' with e; injection e

/-- an entry of an exact reverse map lists reference elements of the tree with that text only -/
theorem refsExact_mem (rs : List (Bytes × List Nat)) (its : Items) (he : RefsExact S rs its)
    (e : Bytes × List Nat) (hmem : e ∈ rs) (r : Nat) (hr : r ∈ e.2) : IsRefTo S its r e.1 := by
  have hg : refsGet rs e.1 = e.2 := refsGet_of_mem rs e.1 e.2 he.1 hmem
  have hc : 0 < (refsGet rs e.1).count r := by rw [hg]; exact List.count_pos_iff.mpr hr
  rw [he.2.2 e.1 r] at hc
  have hm : (e.1, r) ∈ refEntries S its := List.count_pos_iff.mp hc
  obtain ⟨h, k0, ho, hm2⟩ := (refEntries_mem_iff S its e.1 r).mp hm
  exact ⟨h, k0, ho, (mem_refOf_iff S h k0 e.1 r).mp hm2⟩

/-- a reference element of the tree with the text `p` is listed under the key `p` of an exact reverse map -/
theorem refsExact_listed (rs : List (Bytes × List Nat)) (its : Items) (he : RefsExact S rs its)
    (r : Nat) (p : Bytes) (h : IsRefTo S its r p) : ∃ l, (p, l) ∈ rs ∧ r ∈ l := by
  obtain ⟨h0, k0, ho, hm⟩ := h
  have hm : (p, r) ∈ refEntries S its :=
    (refEntries_mem_iff S its p r).mpr ⟨h0, k0, ho, (mem_refOf_iff S h0 k0 p r).mpr hm⟩
  have hc : 0 < (refsGet rs p).count r := by rw [he.2.2 p r]; exact List.count_pos_iff.mpr hm
  have hr : r ∈ refsGet rs p := List.count_pos_iff.mp hc
  unfold refsGet at hr
  split at hr
  · rename_i e hf
    have hk : e.1 = p := by simpa using List.find?_some hf
    refine ⟨e.2, ?_, hr⟩
    rw [← hk]
    exact List.mem_of_find?_eq_some hf
  · simp at hr

/-- with unique ids the count of a referrer in its list is one -/
theorem refsExact_mem_count (rs : List (Bytes × List Nat)) (its : Items) (hn : its.ids.Nodup) (he : RefsExact S rs its)
    (e : Bytes × List Nat) (hmem : e ∈ rs) (r : Nat) : e.2.count r ≤ 1 := by
  have hg : refsGet rs e.1 = e.2 := refsGet_of_mem rs e.1 e.2 he.1 hmem
  rw [← hg, he.2.2 e.1 r, (refEntries_nodup S its hn).count]
  split <;> omega

/-! ### `refTarget` at a located reference element -/

/-- what `refTarget` answers for a reference element with the text `p`, given the target `t` of `p` in the index -/
def resolveAt (w : World) (h : Hdr) (t : Nat) : Option Nat :=
  match attrVal h V.nmDest, locate w t with
  | some (.enum d), some (_, tc) => if S.verifyDest (lastOf tc).1.ety.typ d then some t else none
  | _, _ => none

theorem refTarget_located (w : World) (x k : Nat) (c : List (Hdr × Items)) (m : Model) (h : Hdr) (kids : Items) (p : Bytes)
    (hloc : locate w x = some (k, c)) (hm : w.models[k]! = m) (hl : lastOf c = (h, kids))
    (hr : S.isRef h.ety.typ = true) (hc : charData S h kids = some (.str p)) :
    refTarget S V w x = match m.lookup p with
      | some t => resolveAt S V w h t
      | none => none := by
  unfold refTarget resolveAt
  simp only [hloc, hm, hl, hr, hc, if_true]
  rfl

/-! ### one entry of the map -/

/-- a referrer of the entry `e` that `locate` finds is reported iff resolving it (from its header) fails -/
theorem mem_checkRefsEntry (w : World) (m : Model) (e : Bytes × List Nat) (r kr : Nat) (rc : List (Hdr × Items))
    (hr : r ∈ e.2) (hloc : locate w r = some (kr, rc)) :
    r ∈ checkRefsEntry S V w m e ↔
      (match m.lookup e.1 with
        | some t => resolveAt S V w (lastOf rc).1 t
        | none => none) = none := by
  unfold checkRefsEntry resolveAt
  cases m.lookup e.1 with
  | none => simp only [hr]
  | some t =>
    dsimp only
    cases hlt : locate w t with
    | none =>
      simp only [hr, true_iff]
      split <;> first | rfl | (rename_i h1 h2; simp at h2)
    | some ktc =>
      obtain ⟨kt, tc⟩ := ktc
      simp only [List.mem_filter, hr, true_and, hloc]
      cases attrVal (lastOf rc).1 V.nmDest with
      | none => simp
      | some v =>
        cases v with
        | enum d =>
          dsimp only
          cases S.verifyDest (lastOf tc).1.ety.typ d <;> simp
        | str _ => simp
        | uint _ => simp
        | float _ => simp

theorem checkRefsEntry_sublist (w : World) (m : Model) (e : Bytes × List Nat) :
    (checkRefsEntry S V w m e).Sublist e.2 := by
  unfold checkRefsEntry
  split
  · split
    · exact List.filter_sublist
    · exact List.Sublist.refl _
  · exact List.Sublist.refl _

/-! ### the report of a model -/

/-- a reference element (with a text) of model `k` that no model in front of `k` shares: `locate` finds it where it is, and
`refTarget` is the index lookup of its text followed by the DEST check -/
theorem refTarget_of_occ (w : World) (k : Nat) (m : Model) (hm : w.models[k]? = some m) (hids : m.rootItems.ids.Nodup)
    (h : Hdr) (k0 : Items) (p : Bytes) (ho : Occ h k0 m.rootItems) (hr : S.isRef h.ety.typ = true)
    (hc : charData S h k0 = some (.str p)) (hb : NotBefore w k h.id) :
    (∃ c, locate w h.id = some (k, c) ∧ m.rootItems.chain h.id = some c ∧ lastOf c = (h, k0)) ∧
    refTarget S V w h.id = match m.lookup p with
      | some t => resolveAt S V w h t
      | none => none := by
  obtain ⟨c, hch⟩ := chain_some_of_mem h.id m.rootItems ho.id_mem
  obtain ⟨ho2, hid2⟩ := chain_occ h.id m.rootItems c hch
  obtain ⟨e1, e2⟩ := occ_unique m.rootItems hids _ h _ k0 ho2 ho hid2
  have hl : lastOf c = (h, k0) := Prod.ext e1 e2
  have hloc := locate_of_chain w k m h.id c hm hch hb
  exact ⟨⟨c, hloc, hch, hl⟩,
    refTarget_located S V w h.id k c m h k0 p hloc (getElem!_of_getElem? w k m hm) hl hr hc⟩

/-- **the report, core form**: if `locate` finds the reference elements of model `k` in model `k` (`hL`: no model in front of
`k` has an element with the id of a reference element of `k`), the report of model `k` consists of the reference elements of
model `k` that hold a text and whose `refTarget` is `none` -/
theorem mem_checkRefsIds_core (w : World) (k : Nat) (m : Model) (hm : w.models[k]? = some m)
    (hids : m.rootItems.ids.Nodup) (he : RefsExact S m.refs m.rootItems)
    (hL : ∀ h k0, Occ h k0 m.rootItems → S.isRef h.ety.typ = true → NotBefore w k h.id) (r : Nat) :
    r ∈ checkRefsIds S V w k ↔
      (∃ h k0 p, Occ h k0 m.rootItems ∧ h.id = r ∧ S.isRef h.ety.typ = true ∧ charData S h k0 = some (.str p)) ∧
        refTarget S V w r = none := by
  rw [checkRefsIds_some S V w k m hm, List.mem_flatMap]
  constructor
  · rintro ⟨e, hmem, hre⟩
    have hr2 : r ∈ e.2 := (checkRefsEntry_sublist S V w m e).subset hre
    obtain ⟨h, k0, ho, hid, hr, hc⟩ := refsExact_mem S m.refs m.rootItems he e hmem r hr2
    subst hid
    obtain ⟨⟨c, hloc, _, hl⟩, hrt⟩ := refTarget_of_occ S V w k m hm hids h k0 e.1 ho hr hc (hL h k0 ho hr)
    refine ⟨⟨h, k0, e.1, ho, rfl, hr, hc⟩, ?_⟩
    rw [hrt]
    have := (mem_checkRefsEntry S V w m e h.id k c hr2 hloc).mp hre
    rw [hl] at this
    exact this
  · rintro ⟨⟨h, k0, p, ho, hid, hr, hc⟩, hnone⟩
    subst hid
    obtain ⟨⟨c, hloc, _, hl⟩, hrt⟩ := refTarget_of_occ S V w k m hm hids h k0 p ho hr hc (hL h k0 ho hr)
    obtain ⟨l, hmem, hrl⟩ := refsExact_listed S m.refs m.rootItems he h.id p ⟨h, k0, ho, rfl, hr, hc⟩
    refine ⟨(p, l), hmem, (mem_checkRefsEntry S V w m (p, l) h.id k c hrl hloc).mpr ?_⟩
    rw [hl, ← hrt]
    exact hnone

/-! ### each reported id is reported once -/

theorem count_flatMap_le_one {α : Type} (rs : List α) (F : α → List Nat) (r : Nat) (h1 : ∀ e ∈ rs, (F e).count r ≤ 1)
    (h2 : rs.Pairwise (fun a b => ¬ (r ∈ F a ∧ r ∈ F b))) : (rs.flatMap F).count r ≤ 1 := by
  induction rs with
  | nil => simp
  | cons a rest ih =>
    rw [List.flatMap_cons, List.count_append]
    rw [List.pairwise_cons] at h2
    have ih := ih (fun e he => h1 e (List.mem_cons_of_mem _ he)) h2.2
    by_cases ha : r ∈ F a
    · have : (rest.flatMap F).count r = 0 := by
        rw [List.count_eq_zero, List.mem_flatMap]
        rintro ⟨b, hb, hrb⟩
        exact h2.1 b hb ⟨ha, hrb⟩
      have := h1 a List.mem_cons_self
      omega
    · have : (F a).count r = 0 := List.count_eq_zero.mpr ha
      omega

/-- each id is reported at most once (no hypothesis on `locate`: the lists of an exact reverse map are disjoint and free of
repetitions) -/
theorem checkRefsIds_count_core (w : World) (k : Nat) (m : Model) (hm : w.models[k]? = some m)
    (hids : m.rootItems.ids.Nodup) (he : RefsExact S m.refs m.rootItems) (r : Nat) :
    (checkRefsIds S V w k).count r ≤ 1 := by
  rw [checkRefsIds_some S V w k m hm]
  apply count_flatMap_le_one
  · intro e hmem
    exact Nat.le_trans ((checkRefsEntry_sublist S V w m e).count_le r) (refsExact_mem_count S m.refs m.rootItems hids he e hmem r)
  · have hk : m.refs.Pairwise (fun a b => a.1 ≠ b.1) := by
      have := he.1
      unfold keysNodup at this
      rw [List.Nodup, List.pairwise_map] at this
      exact this
    refine List.Pairwise.imp_of_mem ?_ hk
    intro a b ha hb hne ⟨hra, hrb⟩
    apply hne
    exact isRefTo_text_unique S m.rootItems hids r a.1 b.1
      (refsExact_mem S m.refs m.rootItems he a ha r ((checkRefsEntry_sublist S V w m a).subset hra))
      (refsExact_mem S m.refs m.rootItems he b hb r ((checkRefsEntry_sublist S V w m b).subset hrb))

/-! ### the `w.dead` branch of `qCheckRefs` is unreachable -/

/-- every referrer listed in an exact reverse map is an element of the tree, so `locate` finds it (in model `k`, given `hL`):
the branch of `qCheckRefs` for referrers that are not in the tree any more (`w.dead`) is never taken -/
theorem referrer_located (w : World) (k : Nat) (m : Model) (hm : w.models[k]? = some m)
    (he : RefsExact S m.refs m.rootItems)
    (hL : ∀ h k0, Occ h k0 m.rootItems → S.isRef h.ety.typ = true → NotBefore w k h.id)
    (e : Bytes × List Nat) (hmem : e ∈ m.refs) (r : Nat) (hr : r ∈ e.2) :
    ∃ c, locate w r = some (k, c) ∧ m.rootItems.chain r = some c := by
  obtain ⟨h, k0, ho, hid, hrf, _⟩ := refsExact_mem S m.refs m.rootItems he e hmem r hr
  subst hid
  obtain ⟨c, hch⟩ := chain_some_of_mem h.id m.rootItems ho.id_mem
  exact ⟨c, locate_of_chain w k m h.id c hm hch (hL h k0 ho hrf), hch⟩

/-- even without any hypothesis on the other models: a listed referrer is located somewhere (never `none`) -/
theorem referrer_locate_ne_none (w : World) (k : Nat) (m : Model) (hm : w.models[k]? = some m)
    (he : RefsExact S m.refs m.rootItems) (e : Bytes × List Nat) (hmem : e ∈ m.refs) (r : Nat) (hr : r ∈ e.2) :
    locate w r ≠ none := by
  obtain ⟨h, k0, ho, hid, _, _⟩ := refsExact_mem S m.refs m.rootItems he e hmem r hr
  subst hid
  obtain ⟨c, hch⟩ := chain_some_of_mem h.id m.rootItems ho.id_mem
  have hk : k < w.models.length := by
    rcases Nat.lt_or_ge k w.models.length with h | h
    · exact h
    · rw [List.getElem?_eq_none h] at hm; cases hm
  intro hnone
  unfold locate at hnone
  rw [List.findSome?_eq_none_iff] at hnone
  have := hnone k (List.mem_range.mpr hk)
  simp [hm, hch] at this

/-! ### ids of different models -/

/-- an element of a model other than its root element occurs in no other model.  (The root elements are left out on purpose:
the root of a model that has no file yet carries no protocol id — the model gives it the id 0 — so two such roots, or such a
root and the element with the protocol id 0, do share their id in reachable states.) -/
def IdsSep (w : World) : Prop :=
  ∀ (j k : Nat) (mj mk : Model), j ≠ k → w.models[j]? = some mj → w.models[k]? = some mk →
    ∀ x ∈ mk.rootKids.ids, x ∉ mj.rootItems.ids

theorem notBefore_of_sep (w : World) (hU : IdsSep w) (k : Nat) (m : Model) (hm : w.models[k]? = some m) (x : Nat)
    (hx : x ∈ m.rootKids.ids) : NotBefore w k x :=
  fun j mj hj hmj => hU j k mj m (Nat.ne_of_lt hj) hmj hm x hx

/-- a node of the tree of a model whose header is not the root header lies in the content of the root -/
theorem occ_rootKids (m : Model) (h : Hdr) (k0 : Items) (ho : Occ h k0 m.rootItems) (hne : h ≠ m.rootHdr) :
    h.id ∈ m.rootKids.ids := by
  rcases ho with ⟨e, _⟩ | ho | ho
  · exact absurd e.symm hne
  · exact ho.id_mem
  · exact ho.elim

end

section
variable (S : Spec) (V : Env) (vOk : Nat)

/-- under the combined invariant the reference elements are not root elements -/
theorem cinv_refs_located (hroot : S.isRef (S.defType S.rootDef) = false) (w : World) (hC : CInv S vOk w) (hU : IdsSep w)
    (k : Nat) (m : Model) (hm : w.models[k]? = some m) :
    ∀ h k0, Occ h k0 m.rootItems → S.isRef h.ety.typ = true → NotBefore w k h.id := by
  intro h k0 ho hr
  have hmem : m ∈ w.models := List.mem_of_getElem? hm
  refine notBefore_of_sep w hU k m hm h.id (occ_rootKids m h k0 ho ?_)
  intro e
  rw [e, hC.2.2.2 m hmem] at hr
  rw [show (S.ety S.rootDef).typ = S.defType S.rootDef from rfl, hroot] at hr
  cases hr

/-- **C05, the invalid-reference report** (every state with the combined invariant `CInv` — index exact, reverse reference
map exact — in which the models do not share element ids, `IdsSep`): the report of model `k` contains precisely the
reference elements of model `k` that hold a text and whose `refTarget` (`get_reference_target`) is `none`; equivalently, a
reference element with a text is absent from the report iff resolving it returns its target. -/
theorem mem_checkRefsIds (hroot : S.isRef (S.defType S.rootDef) = false) (w : World) (hC : CInv S vOk w) (hU : IdsSep w)
    (k : Nat) (m : Model) (hm : w.models[k]? = some m) (r : Nat) :
    r ∈ checkRefsIds S V w k ↔
      (∃ h k0 p, Occ h k0 m.rootItems ∧ h.id = r ∧ S.isRef h.ety.typ = true ∧ charData S h k0 = some (.str p)) ∧
        refTarget S V w r = none := by
  have hmem : m ∈ w.models := List.mem_of_getElem? hm
  exact mem_checkRefsIds_core S V w k m hm (hC.1 m hmem).ids (hC.2.1 m hmem)
    (cinv_refs_located S vOk hroot w hC hU k m hm) r

/-- the same, read from the element: a reference element of model `k` that holds a text is absent from the report iff
`refTarget` returns a target -/
theorem not_mem_checkRefsIds_iff (hroot : S.isRef (S.defType S.rootDef) = false) (w : World) (hC : CInv S vOk w)
    (hU : IdsSep w) (k : Nat) (m : Model) (hm : w.models[k]? = some m) (h : Hdr) (k0 : Items) (p : Bytes)
    (ho : Occ h k0 m.rootItems) (hr : S.isRef h.ety.typ = true) (hc : charData S h k0 = some (.str p)) :
    h.id ∉ checkRefsIds S V w k ↔ ∃ t, refTarget S V w h.id = some t := by
  rw [mem_checkRefsIds S V vOk hroot w hC hU k m hm h.id]
  constructor
  · intro hn
    cases hrt : refTarget S V w h.id with
    | none => exact absurd ⟨⟨h, k0, p, ho, rfl, hr, hc⟩, hrt⟩ hn
    | some t => exact ⟨t, rfl⟩
  · rintro ⟨t, ht⟩ ⟨_, hnone⟩
    rw [ht] at hnone
    cases hnone

/-- each reported id is reported once -/
theorem checkRefsIds_count (w : World) (hC : CInv S vOk w) (k : Nat) (r : Nat) : (checkRefsIds S V w k).count r ≤ 1 := by
  cases hm : w.models[k]? with
  | none => simp [checkRefsIds, hm]
  | some m =>
    have hmem : m ∈ w.models := List.mem_of_getElem? hm
    exact checkRefsIds_count_core S V w k m hm (hC.1 m hmem).ids (hC.2.1 m hmem) r

theorem checkRefsIds_nodup (w : World) (hC : CInv S vOk w) (k : Nat) : (checkRefsIds S V w k).Nodup := by
  rw [List.nodup_iff_count]
  exact checkRefsIds_count S V vOk w hC k

/-! ### `refTarget`: soundness and completeness -/

/-- `refTarget` unfolded (no invariant needed): what an answer `some t` means in terms of `locate` and the index -/
theorem refTarget_eq_some (w : World) (x t : Nat) (hrt : refTarget S V w x = some t) :
    ∃ k c m d kt tc p, locate w x = some (k, c) ∧ w.models[k]? = some m ∧ m.rootItems.chain x = some c ∧
      S.isRef (lastOf c).1.ety.typ = true ∧ charData S (lastOf c).1 (lastOf c).2 = some (.str p) ∧
      m.lookup p = some t ∧ attrVal (lastOf c).1 V.nmDest = some (.enum d) ∧ locate w t = some (kt, tc) ∧
      S.verifyDest (lastOf tc).1.ety.typ d = true := by
  unfold refTarget at hrt
  split at hrt
  · rename_i k c hloc
    obtain ⟨m, hm1, hm2, _, hch⟩ := locate_chain w x k c hloc
    dsimp only at hrt
    split at hrt
    · rename_i hr
      split at hrt
      · rename_i p hc
        split at hrt
        · rename_i t' hlk
          split at hrt
          · rename_i d kt tc hat hlt
            split at hrt
            · rename_i hv
              injection hrt with hrt
              subst hrt
              rw [hm2] at hlk
              exact ⟨k, c, m, d, kt, tc, p, hloc, hm1, hch, hr, hc, hlk, hat, hlt, hv⟩
            · cases hrt
          · cases hrt
        · cases hrt
      · cases hrt
    · cases hrt
  · cases hrt

/-- an element with an item name is not the root, hence `locate` finds it in its model -/
theorem named_located (hrootN : S.isNamed (S.defType S.rootDef) = false) (w : World) (hC : CInv S vOk w) (hU : IdsSep w)
    (k : Nat) (m : Model) (hm : w.models[k]? = some m) (t : Nat) (ct : List (Hdr × Items))
    (hct : m.rootItems.chain t = some ct) (hnm : (itemName S (lastOf ct).1 (lastOf ct).2).isSome = true) :
    locate w t = some (k, ct) := by
  have hmem : m ∈ w.models := List.mem_of_getElem? hm
  obtain ⟨hot, hidt⟩ := chain_occ t m.rootItems ct hct
  have hne : (lastOf ct).1 ≠ m.rootHdr := by
    intro e
    have hnamed : S.isNamed (lastOf ct).1.ety.typ = true := by
      unfold itemName at hnm
      split at hnm
      · assumption
      · cases hnm
    rw [e, hC.2.2.2 m hmem, show (S.ety S.rootDef).typ = S.defType S.rootDef from rfl, hrootN] at hnamed
    cases hnamed
  have hkid := occ_rootKids m _ _ hot hne
  rw [hidt] at hkid
  exact locate_of_chain w k m t ct hm hct (notBefore_of_sep w hU k m hm t hkid)

/-- **`refTarget` is sound**: if `get_reference_target` answers `t` for `x`, then `x` is a reference element of some model
`k` holding a text `p`; `t` is an element of the same model, has an item name, and its path (`pathOfChain` of its chain from
the root = `Element::path`) is `p`; and `x` has a DEST attribute with an enumeration value that fits the type of `t`. -/
theorem refTarget_sound (hrootN : S.isNamed (S.defType S.rootDef) = false) (w : World) (hC : CInv S vOk w) (hU : IdsSep w)
    (x t : Nat) (hrt : refTarget S V w x = some t) :
    ∃ (k : Nat) (m : Model) (hx : Hdr) (kx : Items) (p : Bytes) (ct : List (Hdr × Items)) (d : Nat),
      w.models[k]? = some m ∧
      Occ hx kx m.rootItems ∧ hx.id = x ∧ S.isRef hx.ety.typ = true ∧ charData S hx kx = some (.str p) ∧
      m.rootItems.chain t = some ct ∧ (itemName S (lastOf ct).1 (lastOf ct).2).isSome = true ∧ pathOfChain S ct = p ∧
      attrVal hx V.nmDest = some (.enum d) ∧ S.verifyDest (lastOf ct).1.ety.typ d = true := by
  obtain ⟨k, c, m, d, kt, tc, p, hloc, hm, hch, hr, hc, hlk, hat, hlt, hv⟩ := refTarget_eq_some S V w x t hrt
  have hmem : m ∈ w.models := List.mem_of_getElem? hm
  have hI := hC.1 m hmem
  obtain ⟨ho, hid⟩ := chain_occ x m.rootItems c hch
  -- the target is an entry of the index, hence an element of the tree of `m` with that path
  obtain ⟨ct, hct, hnm, hpath⟩ := (entries_mem_iff S m.rootItems hI.ids [] p t).mp ((hI.exact p t).mp hlk)
  rw [chainPre_nil] at hpath
  -- it is not the root (the root has no item name), so `locate` finds it in `m`
  have hloc2 := named_located S vOk hrootN w hC hU k m hm t ct hct hnm
  rw [hlt] at hloc2
  injection hloc2 with e2
  injection e2 with _ e3
  subst e3
  exact ⟨k, m, (lastOf c).1, (lastOf c).2, p, tc, d, hm, ho, hid, hr, hc, hct, hnm, hpath, hat, hv⟩

/-- **`refTarget` is complete**: a reference element of model `k` with the text `p` and a DEST value `d` resolves to the
element `t` of model `k` that has an item name and the path `p`, provided `d` fits the type of `t` -/
theorem refTarget_complete (hroot : S.isRef (S.defType S.rootDef) = false) (hrootN : S.isNamed (S.defType S.rootDef) = false)
    (w : World) (hC : CInv S vOk w) (hU : IdsSep w) (k : Nat) (m : Model) (hm : w.models[k]? = some m)
    (hx : Hdr) (kx : Items) (p : Bytes) (ho : Occ hx kx m.rootItems) (hr : S.isRef hx.ety.typ = true)
    (hc : charData S hx kx = some (.str p)) (t : Nat) (ct : List (Hdr × Items)) (hct : m.rootItems.chain t = some ct)
    (hnm : (itemName S (lastOf ct).1 (lastOf ct).2).isSome = true) (hpath : pathOfChain S ct = p) (d : Nat)
    (hat : attrVal hx V.nmDest = some (.enum d)) (hv : S.verifyDest (lastOf ct).1.ety.typ d = true) :
    refTarget S V w hx.id = some t := by
  have hmem : m ∈ w.models := List.mem_of_getElem? hm
  have hI := hC.1 m hmem
  obtain ⟨_, hrt⟩ := refTarget_of_occ S V w k m hm hI.ids hx kx p ho hr hc
    (cinv_refs_located S vOk hroot w hC hU k m hm hx kx ho hr)
  have hlk : m.lookup p = some t := by
    refine (hI.exact p t).mpr ((entries_mem_iff S m.rootItems hI.ids [] p t).mpr ⟨ct, hct, hnm, ?_⟩)
    rw [chainPre_nil]; exact hpath
  have hlt := named_located S vOk hrootN w hC hU k m hm t ct hct hnm
  rw [hrt, hlk]
  unfold resolveAt
  simp only [hat, hlt, hv, if_true]

/-- `refTarget` at a given reference element of model `k` with the text `p`, exactly: it answers `t` iff `t` is the element of
model `k` with an item name and the path `p`, and the DEST value of the reference fits the type of `t` -/
theorem refTarget_some_iff (hroot : S.isRef (S.defType S.rootDef) = false) (hrootN : S.isNamed (S.defType S.rootDef) = false)
    (w : World) (hC : CInv S vOk w) (hU : IdsSep w) (k : Nat) (m : Model) (hm : w.models[k]? = some m)
    (hx : Hdr) (kx : Items) (p : Bytes) (ho : Occ hx kx m.rootItems) (hr : S.isRef hx.ety.typ = true)
    (hc : charData S hx kx = some (.str p)) (t : Nat) :
    refTarget S V w hx.id = some t ↔
      ∃ ct d, m.rootItems.chain t = some ct ∧ (itemName S (lastOf ct).1 (lastOf ct).2).isSome = true ∧
        pathOfChain S ct = p ∧ attrVal hx V.nmDest = some (.enum d) ∧ S.verifyDest (lastOf ct).1.ety.typ d = true := by
  constructor
  · intro hrt
    have hmem : m ∈ w.models := List.mem_of_getElem? hm
    have hI := hC.1 m hmem
    obtain ⟨_, hf⟩ := refTarget_of_occ S V w k m hm hI.ids hx kx p ho hr hc
      (cinv_refs_located S vOk hroot w hC hU k m hm hx kx ho hr)
    rw [hf] at hrt
    split at hrt
    · rename_i t' hlk
      obtain ⟨ct, hct, hnm, hpath⟩ := (entries_mem_iff S m.rootItems hI.ids [] p t').mp ((hI.exact p t').mp hlk)
      rw [chainPre_nil] at hpath
      have hlt := named_located S vOk hrootN w hC hU k m hm t' ct hct hnm
      unfold resolveAt at hrt
      rw [hlt] at hrt
      split at hrt
      · rename_i d kt tc hat heq
        injection heq with heq
        injection heq with _ heq
        subst heq
        split at hrt
        · rename_i hv
          injection hrt with hrt
          subst hrt
          exact ⟨ct, d, hct, hnm, hpath, hat, hv⟩
        · cases hrt
      · cases hrt
    · cases hrt
  · rintro ⟨ct, d, hct, hnm, hpath, hat, hv⟩
    exact refTarget_complete S V vOk hroot hrootN w hC hU k m hm hx kx p ho hr hc t ct hct hnm hpath d hat hv

/-- **the report in the words of the property**: a reference element of model `k` with the text `p` is in the report iff
there is NO element of model `k` with the path `p` whose type the DEST value of the reference fits — i.e. iff `p` does not
resolve, or DEST is missing / does not fit the type of the element `p` resolves to -/
theorem mem_checkRefsIds_words (hroot : S.isRef (S.defType S.rootDef) = false)
    (hrootN : S.isNamed (S.defType S.rootDef) = false) (w : World) (hC : CInv S vOk w) (hU : IdsSep w) (k : Nat)
    (m : Model) (hm : w.models[k]? = some m) (hx : Hdr) (kx : Items) (p : Bytes) (ho : Occ hx kx m.rootItems)
    (hr : S.isRef hx.ety.typ = true) (hc : charData S hx kx = some (.str p)) :
    hx.id ∈ checkRefsIds S V w k ↔
      ¬ ∃ t ct d, m.rootItems.chain t = some ct ∧ (itemName S (lastOf ct).1 (lastOf ct).2).isSome = true ∧
        pathOfChain S ct = p ∧ attrVal hx V.nmDest = some (.enum d) ∧ S.verifyDest (lastOf ct).1.ety.typ d = true := by
  have h1 := not_mem_checkRefsIds_iff S V vOk hroot w hC hU k m hm hx kx p ho hr hc
  constructor
  · intro hin ⟨t, ct, d, hh⟩
    exact (h1.mpr ⟨t, (refTarget_some_iff S V vOk hroot hrootN w hC hU k m hm hx kx p ho hr hc t).mpr ⟨ct, d, hh⟩⟩) hin
  · intro hno
    apply Classical.byContradiction
    intro hnin
    obtain ⟨t, ht⟩ := h1.mp hnin
    obtain ⟨ct, d, hh⟩ := (refTarget_some_iff S V vOk hroot hrootN w hC hU k m hm hx kx p ho hr hc t).mp ht
    exact hno ⟨t, ct, d, hh⟩

end
end AV.W
