/-
C04, the history invariant, operation by operation, part 2: the operations that change the set of elements (create, named
create, remove) and the operations that change an item name (set_character_data on a SHORT-NAME, set_item_name).
-/
import AutosarVerif.Lemmas.IndexOps
import AutosarVerif.Lemmas.RenameEntries

namespace AV.W
open Items

/-- what the invariant needs from the specification and from the value layer -/
structure IdxHyp (S : Spec) (V : Env) (vOk : Nat) : Prop where
  wf : NameWFv S vOk
  only : SnOnlyFirst S
  /-- a value accepted for a SHORT-NAME contains no '/' (the real pattern is an identifier) -/
  noSlash : ∀ t d sp s ver, S.isNamed t = true → S.subAt t 0 = .elem d → S.chardataSpec (S.defType d) = some sp →
    checkValue V (.str s) sp ver = true → 47 ∉ s
  latest : V.latest &&& vOk = V.latest
  rootName : S.defName S.rootDef ≠ S.nmShortName

section
variable (S : Spec) (V : Env) (vOk : Nat)

theorem minVersion_ok {nid : Nat} {m : Model} (hm : MInv S vOk nid m) (hl : V.latest &&& vOk = V.latest)
    (c : List (Hdr × Items)) (ver : Nat) (h : minVersion V m c = some ver) : ver &&& vOk = ver := by
  unfold minVersion at h
  split at h
  · simp only [Option.some.injEq] at h
    subst h
    have : ∀ (l : List File) (v0 : Nat), v0 &&& vOk = v0 → (∀ f ∈ l, f.version &&& vOk = f.version) →
        (l.foldl (fun v f => if f.version < v then f.version else v) v0) &&& vOk =
          l.foldl (fun v f => if f.version < v then f.version else v) v0 := by
      intro l
      induction l with
      | nil => intro v0 h0 _; exact h0
      | cons f r ih =>
        intro v0 h0 hall
        simp only [List.foldl_cons]
        apply ih
        · split
          · exact hall f List.mem_cons_self
          · exact h0
        · exact fun g hg => hall g (List.mem_cons_of_mem _ hg)
    apply this _ _ hl
    intro f hf
    exact hm.vers f (List.mem_filter.mp hf).1
  · cases h

theorem issued_of_minVersion {nid : Nat} {m : Model} (hm : MInv S vOk nid m) (x : Nat) (c : List (Hdr × Items))
    (hc : m.rootItems.chain x = some c) (ver : Nat) (h : minVersion V m c = some ver) : m.rootIssued = true := by
  cases hi : m.rootIssued with
  | true => rfl
  | false =>
    exfalso
    obtain ⟨hk, hf⟩ := hm.fresh hi
    have hc' : c = [(m.rootHdr, m.rootKids)] := by
      simp only [Model.rootItems, Items.chain] at hc
      split at hc
      · simpa using hc.symm
      · split at hc
        · rename_i c' hk'
          have := chain_mem_ids x m.rootKids c' hk'
          rw [hk] at this; cases this
        · simp at hc
    subst hc'
    simp [minVersion, hf] at h

theorem setRoot_modify_rootHdr (m : Model) (x : Nat) (f : Hdr → Items → Hdr × Items) (hf : ∀ h k, (f h k).1 = h) :
    (m.setRoot (m.rootItems.modify x f)).rootHdr = m.rootHdr := by
  simp only [Model.rootItems, Items.modify]
  split
  · simp only [Model.setRoot, hf]
  · rfl

theorem itemName_new (h : Hdr) : ∀ pre, entries S (.elem h .nil .nil) pre = [] := by
  intro pre
  simp only [entries, itemName_none_of_not_sn S h .nil id, List.append_nil]

/-- `create_sub_element[_at]` of an element that is not called SHORT-NAME -/
theorem opCreate_inv (hH : IdxHyp S V vOk) (w : World) (p name : Nat) (pos? : Option Nat) (hname : name ≠ S.nmShortName)
    (hw : WInv S vOk w) : WInv S vOk (opCreate S V w p name pos?).1 := by
  unfold opCreate
  split
  · exact hw
  · rename_i k c hloc
    obtain ⟨m, _, hm2, hmem, hc⟩ := locate_chain w p k c hloc
    have hm := hw m hmem
    dsimp only
    rw [hm2]
    split
    · exact hw
    · rename_i ver hver
      split
      · exact hw
      · rename_i lo hi hrange
        split
        · exact hw
        · rename_i hpos
          split
          · exact hw
          · rename_i ety _ hfs
            split
            · exact hw
            · have hiss := issued_of_minVersion S V vOk hm p c hc ver hver
              have hpos' : lo ≤ pos?.getD hi ∧ pos?.getD hi ≤ hi := by
                by_cases hx : lo ≤ pos?.getD hi ∧ pos?.getD hi ≤ hi
                · exact hx
                · exact absurd hx hpos
              -- facts about the element that receives the new child
              have key : ∀ h k0, Occ h k0 m.rootItems → h.id = p → h.name ≠ S.nmShortName ∧ (firstIsSn S k0 → 1 ≤ pos?.getD hi) := by
                intro h k0 ho he
                obtain ⟨e1, e2⟩ := node_eq S vOk hm p c hc h k0 ho he
                have hr : insertRange S h k0 name ver = some (lo, hi) := by rw [e1, e2]; exact hrange
                constructor
                · intro hn
                  have := properSn_mode S (sn_proper_of_occ S _ hm.sn (hm.topOk S vOk) h k0 ho hn)
                  unfold insertRange at hr
                  rw [if_pos this] at hr; cases hr
                · intro hf
                  cases k0 with
                  | nil => exact hf.elim
                  | text _ _ => exact hf.elim
                  | elem sh sk rest =>
                    have hk := (kidsOk_of_occ S _ hm.sn h _ ho).1
                    obtain ⟨⟨hnamed, hseq, _, _⟩, _⟩ := hk.1 hf
                    have := insertRange_lo_pos S hH.wf hH.only h sh sk rest name ver lo hi hnamed hseq hf hr
                    omega
              let nh := newHdr w.nextId name ety p
              let f : Hdr → Items → Hdr × Items := fun h0 k0 => (h0, k0.insertAt (fun r => .elem nh .nil r) (pos?.getD hi))
              have hv : KeepsView S p f m.rootItems := fun h k0 ho he => ⟨rfl, rfl, rfl, fun hn => absurd hn (key h k0 ho he).1⟩
              have hent : ∀ pre, entries S (m.rootItems.modify p f) pre = entries S m.rootItems pre :=
                entries_modify_same S p f _ hv (fun h k0 ho he =>
                  ⟨itemName_insertAt S h nh .nil hname k0 _ (key h k0 ho he).2,
                   fun pre => entries_insertAt_none S nh .nil (itemName_new S nh) k0 _ pre⟩)
              have hids : (m.rootItems.modify p f).ids.Perm (m.rootItems.ids ++ [w.nextId]) :=
                ids_modify_add p f [w.nextId] _ (fun h k0 _ _ => ⟨rfl, by
                  have := ids_insertAt nh .nil k0 (pos?.getD hi)
                  simp only [Items.ids] at this
                  exact this.trans (List.perm_append_comm (l₁ := [w.nextId]))⟩) hm.ids (chain_mem_ids p _ c hc)
              have hfresh : w.nextId ∉ m.rootItems.ids := fun hx => Nat.lt_irrefl _ (hm.bound hiss _ hx)
              refine winv_update S vOk w _ k _ hw (Nat.le_succ _) ?_ rfl
              have hroot := rootItems_setRoot_modify m p f
              obtain ⟨fi, _, ff, fiss⟩ := setRoot_modify_fields m p f
              refine ⟨?_, ?_, ?_, ?_, ?_, ?_, ?_, ?_, ?_⟩
              · rw [ff]; exact hm.vers
              · rw [hroot]
                refine (List.Perm.nodup_iff hids).mpr ?_
                exact List.nodup_append.mpr ⟨hm.ids, (by simp), fun a ha b hb => by
                  simp only [List.mem_singleton] at hb; subst hb; exact fun e => hfresh (e ▸ ha)⟩
              · intro _ i hi
                rw [hroot] at hi
                have := (List.Perm.mem_iff hids).mp hi
                rcases List.mem_append.mp this with h1 | h1
                · exact Nat.lt_succ_of_lt (hm.bound hiss i h1)
                · simp only [List.mem_singleton] at h1; subst h1; exact Nat.lt_succ_self _
              · intro hi; rw [fiss, hiss] at hi; cases hi
              · rw [setRoot_modify_rootHdr m p f (fun _ _ => rfl)]; exact hm.rootName
              · rw [hroot]
                refine snOk_modify S p f _ (fun h k0 ho he => ⟨rfl, rfl, fun hn _ => absurd hn (key h k0 ho he).1, fun hk hs =>
                  ⟨kidsOk_insertAt S h nh .nil hname k0 _ (key h k0 ho he).2 hk, snOk_insertAt S nh .nil ⟨trivial, trivial⟩ k0 _ hs⟩⟩) hm.sn
              · rw [hroot, hent]; exact hm.keys
              · rw [fi]; exact hm.idxKeys
              · intro q i; rw [fi, hroot, hent]; exact hm.exact q i


theorem land_sub (m v vOk : Nat) (h1 : (m &&& v) ≠ 0) (h2 : v &&& vOk = v) : (vOk &&& m) ≠ 0 := by
  intro h0
  apply h1
  have : m &&& v = (vOk &&& m) &&& v := by
    conv => lhs; rw [← h2]
    rw [Nat.and_comm v vOk, ← Nat.and_assoc, Nat.and_comm m vOk]
  rw [this, h0, Nat.zero_and]

/-- the SHORT-NAME that `create_named_sub_element` makes in a type named in version `ver` -/
theorem named_facts (hH : IdxHyp S V vOk) (t ver : Nat) (hin : S.isNamedIn t ver = true) (hver : ver &&& vOk = ver) :
    ∃ d, S.findSub t S.nmShortName ver = some (S.ety d, [0]) ∧ S.subAt t 0 = .elem d ∧ S.isNamed t = true ∧
      S.mode t = .sequence ∧ S.mode (S.defType d) = .characters ∧ S.isNamed (S.defType d) = false ∧
      ∃ sp, S.chardataSpec (S.defType d) = some sp ∧ sp.stringLike = true := by
  obtain ⟨d, hd, _, hfs⟩ := findSub_shortName S t ver hin
  obtain ⟨hnamed, hmask⟩ := isNamedIn_mask S t ver hin
  obtain ⟨a, b, c⟩ := hH.wf.sn_type t d hnamed hd
  refine ⟨d, hfs, hd, hnamed, hH.wf.named_seq t hnamed ?_, a, b, c⟩
  exact land_sub _ ver vOk (by rw [Nat.and_comm]; exact hmask) hver


/-- `create_named_sub_element[_at]` of an element that is not itself called SHORT-NAME -/
theorem opNamed_inv (hH : IdxHyp S V vOk) (w : World) (p name : Nat) (item : Bytes) (pos? : Option Nat)
    (hname : name ≠ S.nmShortName) (hw : WInv S vOk w) : WInv S vOk (opNamed S V w p name item pos?).1 := by
  unfold opNamed
  split
  · exact hw
  · rename_i k c hloc
    obtain ⟨m, _, hm2, hmem, hc⟩ := locate_chain w p k c hloc
    have hm := hw m hmem
    dsimp only
    rw [hm2]
    split
    · exact hw
    · rename_i ver hver
      split
      · exact hw
      · rename_i lo hi hrange
        split
        · exact hw
        · rename_i hpos
          split
          · exact hw
          · split
            · exact hw
            · rename_i ety _ hfs
              split
              · exact hw
              · rename_i hnin
                have hin : S.isNamedIn ety.typ ver = true := by
                  cases hx : S.isNamedIn ety.typ ver with
                  | true => rfl
                  | false => exact absurd hx (by simpa using hnin)
                have hvok := minVersion_ok S V vOk hm hH.latest c ver hver
                obtain ⟨d, hsn, hd, hnamed, hseq, hchars, hunnamed, sp, hsp, hsl⟩ := named_facts S V vOk hH ety.typ ver hin hvok
                have hsnIn : S.isNamedIn (S.ety d).typ ver = false := by
                  have : S.isNamed (S.defType d) = false := hunnamed
                  unfold Spec.isNamed at this
                  unfold Spec.isNamedIn
                  show (match S.shortNameMask (S.defType d) with | some m => (m &&& ver) != 0 | none => false) = false
                  cases hmk : S.shortNameMask (S.defType d) with
                  | none => rfl
                  | some _ => rw [hmk] at this; simp at this
                simp only [hsn, hsnIn]
                have hspec : S.chardataSpec (S.ety d).typ = some sp := hsp
                simp only [hspec]
                split
                · exact hw
                · rename_i hok
                  have hcv : checkValue V (.str item) sp ver = true := by
                    cases hx : checkValue V (.str item) sp ver with
                    | true => rfl
                    | false => simp [hx] at hok
                  have hslash : 47 ∉ item := hH.noSlash ety.typ d sp item ver hnamed hd hsp hcv
                  split
                  · exact hw
                  · rename_i hlook
                    have hiss := issued_of_minVersion S V vOk hm p c hc ver hver
                    have hpos' : lo ≤ pos?.getD hi ∧ pos?.getD hi ≤ hi := by
                      by_cases hx : lo ≤ pos?.getD hi ∧ pos?.getD hi ≤ hi
                      · exact hx
                      · exact absurd hx hpos
                    have key : ∀ h k0, Occ h k0 m.rootItems → h.id = p → h.name ≠ S.nmShortName ∧ (firstIsSn S k0 → 1 ≤ pos?.getD hi) := by
                      intro h k0 ho he
                      obtain ⟨e1, e2⟩ := node_eq S vOk hm p c hc h k0 ho he
                      have hr : insertRange S h k0 name ver = some (lo, hi) := by rw [e1, e2]; exact hrange
                      constructor
                      · intro hn
                        have := properSn_mode S (sn_proper_of_occ S _ hm.sn (hm.topOk S vOk) h k0 ho hn)
                        unfold insertRange at hr
                        rw [if_pos this] at hr; cases hr
                      · intro hf
                        cases k0 with
                        | nil => exact hf.elim
                        | text _ _ => exact hf.elim
                        | elem sh sk rest =>
                          have hk := (kidsOk_of_occ S _ hm.sn h _ ho).1
                          obtain ⟨⟨hnamed', hseq', _, _⟩, _⟩ := hk.1 hf
                          have := insertRange_lo_pos S hH.wf hH.only h sh sk rest name ver lo hi hnamed' hseq' hf hr
                          omega
                    let eid := w.nextId
                    let sid := w.nextId + 1
                    let sh : Hdr := newHdr sid S.nmShortName (S.ety d) eid
                    let snKid : Items := .elem sh (.text (.str item) .nil) .nil
                    let nh := newHdr eid name ety p
                    let f : Hdr → Items → Hdr × Items := fun h0 k0 => (h0, k0.insertAt (fun r => .elem nh snKid r) (pos?.getD hi))
                    let path := pathOfChain S c ++ [47] ++ item
                    -- the new element: a proper SHORT-NAME, an item name, one entry
                    have hproper : properSn S sh (.text (.str item) .nil) := ⟨hchars, hunnamed, ⟨sp, hsp, hsl⟩, item, rfl, hslash⟩
                    have hkidsNew : kidsOk S nh snKid := ⟨fun _ => ⟨⟨hnamed, hseq, hd, rfl⟩, hproper⟩, trivial⟩
                    have hsnNew : SnOk S snKid := ⟨trivial, trivial, trivial⟩
                    have hitem : itemName S nh snKid = some item := by
                      have hcd : charData S sh (.text (.str item) .nil) = some (.str item) := by
                        show (if S.mode (S.defType d) = .characters ∨ S.mode (S.defType d) = .mixed then some (CDv.str item) else none) = _
                        rw [if_pos (Or.inl hchars)]
                      show (if S.isNamed ety.typ then _ else _) = _
                      rw [if_pos hnamed]
                      show (if S.nmShortName = S.nmShortName then _ else _) = _
                      rw [if_pos rfl, hcd]
                    have hentNew : ∀ pre, entries S (.elem nh snKid .nil) pre = [(pre ++ [47] ++ item, eid)] := by
                      intro pre
                      have h1 : ∀ q, entries S snKid q = [] := by
                        intro q
                        simp only [snKid, entries, itemName_none_of_not_sn S sh (.text (.str item) .nil) id, List.append_nil]
                      simp only [entries, hitem, h1, List.append_nil]
                      rfl
                    have hv : KeepsView S p f m.rootItems := fun h k0 ho he => ⟨rfl, rfl, rfl, fun hn => absurd hn (key h k0 ho he).1⟩
                    obtain ⟨pfx, hpfx, hperm⟩ := entries_modify_located S p f (fun _ => []) (fun pre => [(pre ++ [47] ++ item, eid)])
                      m.rootItems hv (fun h k0 ho he => ⟨itemName_insertAt S h nh snKid hname k0 _ (key h k0 ho he).2, fun pre => by
                        rw [List.append_nil]
                        refine (entries_insertAt S nh snKid k0 _ pre).trans ?_
                        rw [hentNew]
                        exact List.perm_append_comm⟩) hm.ids (chain_mem_ids p _ c hc) []
                    rw [kpre_chain S p _ c hc, chainPre_nil] at hpfx
                    cases hpfx
                    rw [List.append_nil] at hperm
                    have hids : (m.rootItems.modify p f).ids.Perm (m.rootItems.ids ++ [eid, sid]) :=
                      ids_modify_add p f [eid, sid] _ (fun h k0 _ _ => ⟨rfl, by
                        have := ids_insertAt nh snKid k0 (pos?.getD hi)
                        exact this.trans (List.perm_append_comm (l₁ := [eid, sid]))⟩) hm.ids (chain_mem_ids p _ c hc)
                    have hfresh : ∀ j, w.nextId ≤ j → j ∉ m.rootItems.ids := fun j hj hx => by
                      have := hm.bound hiss _ hx; omega
                    have hnokey : ∀ i, (path, i) ∉ entries S m.rootItems [] := by
                      intro i hi
                      have := (hm.exact path i).mpr hi
                      simp only [Model.lookup] at hlook
                      rw [this] at hlook; simp at hlook
                    refine winv_update S vOk w _ k _ hw (by show w.nextId ≤ w.nextId + 2; omega) ?_ rfl
                    have hroot := rootItems_setRoot_modify m p f
                    obtain ⟨fi, _, ff, fiss⟩ := setRoot_modify_fields m p f
                    refine ⟨?_, ?_, ?_, ?_, ?_, ?_, ?_, ?_, ?_⟩
                    · exact fun fl hfl => hm.vers fl (ff ▸ hfl)
                    · show (m.setRoot (m.rootItems.modify p f)).rootItems.ids.Nodup
                      rw [hroot]
                      refine (List.Perm.nodup_iff hids).mpr ?_
                      refine List.nodup_append.mpr ⟨hm.ids, by simp [eid, sid], fun a ha b hb => ?_⟩
                      simp only [List.mem_cons, List.mem_nil_iff, or_false] at hb
                      rcases hb with rfl | rfl
                      · exact fun e => hfresh _ (Nat.le_refl _) (show eid ∈ _ from e ▸ ha)
                      · exact fun e => hfresh _ (Nat.le_succ _) (show sid ∈ _ from e ▸ ha)
                    · intro _ i hi
                      change i ∈ (m.setRoot (m.rootItems.modify p f)).rootItems.ids at hi
                      rw [hroot] at hi
                      have := (List.Perm.mem_iff hids).mp hi
                      rcases List.mem_append.mp this with h1 | h1
                      · have := hm.bound hiss i h1
                        show i < w.nextId + 2
                        omega
                      · simp only [List.mem_cons, List.mem_nil_iff, or_false] at h1
                        show i < w.nextId + 2
                        rcases h1 with rfl | rfl <;> simp only [eid, sid] <;> omega
                    · intro hi
                      change (m.setRoot (m.rootItems.modify p f)).rootIssued = false at hi
                      rw [fiss, hiss] at hi; cases hi
                    · show (m.setRoot (m.rootItems.modify p f)).rootHdr.name ≠ _
                      rw [setRoot_modify_rootHdr m p f (fun _ _ => rfl)]; exact hm.rootName
                    · show SnOk S (m.setRoot (m.rootItems.modify p f)).rootItems
                      rw [hroot]
                      exact snOk_modify S p f _ (fun h k0 ho he => ⟨rfl, rfl, fun hn _ => absurd hn (key h k0 ho he).1, fun hk hs =>
                        ⟨kidsOk_insertAt S h nh snKid hname k0 _ (key h k0 ho he).2 hk, snOk_insertAt S nh snKid ⟨hkidsNew, hsnNew⟩ k0 _ hs⟩⟩) hm.sn
                    · show keysNodupI (entries S (m.setRoot (m.rootItems.modify p f)).rootItems [])
                      rw [hroot]
                      unfold keysNodupI
                      refine (List.Perm.nodup_iff (hperm.map (·.1))).mpr ?_
                      rw [List.map_append]
                      refine List.nodup_append.mpr ⟨hm.keys, by simp, fun a ha b hb => ?_⟩
                      simp only [List.map_cons, List.map_nil, List.mem_singleton] at hb
                      subst hb
                      intro e
                      obtain ⟨⟨q, i⟩, hqi, rfl⟩ := List.mem_map.mp ha
                      simp only at e
                      subst e
                      exact hnokey i hqi
                    · exact idxInsert_keysNodup _ _ _ hm.idxKeys
                    · intro q i
                      show idxGet (idxInsert m.index path eid) q = some i ↔ (q, i) ∈ entries S (m.setRoot (m.rootItems.modify p f)).rootItems []
                      rw [hroot, List.Perm.mem_iff hperm, List.mem_append, List.mem_singleton]
                      by_cases hq : q = path
                      · subst hq
                        rw [idxGet_insert_same]
                        constructor
                        · intro h; cases h; exact Or.inr rfl
                        · rintro (h | h)
                          · exact absurd h (hnokey i)
                          · cases h; rfl
                      · rw [idxGet_insert_other _ _ _ _ hq, hm.exact]
                        constructor
                        · exact Or.inl
                        · rintro (h | h)
                          · exact h
                          · cases h; exact absurd rfl hq


theorem idxGet_filter_keys (idx : List (Bytes × Nat)) (hn : keysNodupI idx) (ks : List Bytes) (q : Bytes) (i : Nat) :
    idxGet (idx.filter fun e => !(ks.contains e.1)) q = some i ↔ idxGet idx q = some i ∧ q ∉ ks := by
  have hn' : keysNodupI (idx.filter fun e => !(ks.contains e.1)) := by
    unfold keysNodupI at *
    exact List.Nodup.sublist (List.Sublist.map _ List.filter_sublist) hn
  rw [idxGet_iff_mem _ hn', idxGet_iff_mem _ hn, List.mem_filter]
  simp

/-- `remove_sub_element` -/
theorem opRemove_inv (w : World) (p cid : Nat) (hw : WInv S vOk w) : WInv S vOk (opRemove S w p cid).1 := by
  unfold opRemove
  split
  · exact hw
  · rename_i k c hloc
    obtain ⟨m, _, hm2, hmem, hc⟩ := locate_chain w p k c hloc
    have hm := hw m hmem
    dsimp only
    rw [hm2]
    split
    · rename_i pos ch ck hpos hchild
      split
      · exact hw
      · rename_i hnsn
        obtain ⟨_, hitem, _⟩ := child_itemAt cid (lastOf c).2 0 pos ch ck hpos hchild
        rw [Nat.sub_zero] at hitem
        have key : ∀ h k0, Occ h k0 m.rootItems → h.id = p → h.name ≠ S.nmShortName ∧ (firstIsSn S k0 → 1 ≤ pos) ∧
            itemAt k0 pos = .elem ch ck .nil ∧ kidsOk S h k0 := by
          intro h k0 ho he
          obtain ⟨e1, e2⟩ := node_eq S vOk hm p c hc h k0 ho he
          have hk := (kidsOk_of_occ S _ hm.sn h k0 ho).1
          have hit : itemAt k0 pos = .elem ch ck .nil := e2 ▸ hitem
          refine ⟨?_, ?_, hit, hk⟩
          · intro hn
            obtain ⟨_, _, _, n, hsk, _⟩ := sn_proper_of_occ S _ hm.sn (hm.topOk S vOk) h k0 ho hn
            rw [hsk] at hit
            cases pos <;> simp [itemAt] at hit
          · intro hf
            cases pos with
            | succ q => omega
            | zero =>
              exfalso
              cases k0 with
              | nil => exact hf
              | text _ _ => exact hf
              | elem sh sk rest =>
                simp only [itemAt] at hit
                injection hit with a _ _
                apply hnsn
                refine ⟨?_, ?_⟩
                · rw [← e1]; exact (hk.1 hf).1.1
                · rw [← a]; exact hf
        let f : Hdr → Items → Hdr × Items := fun h0 k0 => (h0, k0.removeAt pos)
        have hv : KeepsView S p f m.rootItems := fun h k0 ho he => ⟨rfl, rfl, rfl, fun hn => absurd hn (key h k0 ho he).1⟩
        obtain ⟨pfx, hpfx, hperm⟩ := entries_modify_located S p f (fun pre => entries S (.elem ch ck .nil) pre) (fun _ => [])
          m.rootItems hv (fun h k0 ho he => by
            obtain ⟨_, k2, k3, k4⟩ := key h k0 ho he
            refine ⟨itemName_removeAt S h k0 pos k4 k2, fun pre => ?_⟩
            rw [List.append_nil]
            have := entries_removeAt S k0 pos pre
            rw [k3] at this
            exact (this.trans List.perm_append_comm).symm) hm.ids (chain_mem_ids p _ c hc) []
        rw [kpre_chain S p _ c hc, chainPre_nil] at hpfx
        cases hpfx
        rw [List.append_nil] at hperm
        have hids : ((m.rootItems.modify p f).ids ++ (Items.elem ch ck .nil).ids).Perm (m.rootItems.ids ++ []) :=
          ids_modify_rel p f _ [] _ (fun h k0 ho he => ⟨rfl, by
            rw [List.append_nil]
            have := ids_removeAt k0 pos
            rw [(key h k0 ho he).2.2.1] at this
            exact (this.trans List.perm_append_comm).symm⟩) hm.ids (chain_mem_ids p _ c hc)
        rw [List.append_nil] at hids
        have hidx := removeInternal_index S (ck.size + 2) ch ck (pathOfChain S c) m.index m.refs (by omega)
        -- keys of the old entries are pairwise different, so a surviving entry is not among the removed keys
        have hold : keysNodupI (entries S (m.rootItems.modify p f) [] ++ entries S (.elem ch ck .nil) (pathOfChain S c)) := by
          unfold keysNodupI
          exact (List.Perm.nodup_iff (hperm.map (fun e : Bytes × Nat => e.1))).mpr hm.keys
        refine winv_update S vOk w _ k _ hw (Nat.le_refl _) ?_ rfl
        have hroot := rootItems_setRoot_modify m p f
        obtain ⟨_, _, ff, fiss⟩ := setRoot_modify_fields m p f
        refine ⟨?_, ?_, ?_, ?_, ?_, ?_, ?_, ?_, ?_⟩
        · exact fun fl hfl => hm.vers fl (ff ▸ hfl)
        · show (m.setRoot (m.rootItems.modify p f)).rootItems.ids.Nodup
          rw [hroot]
          exact (List.nodup_append.mp ((List.Perm.nodup_iff hids).mpr hm.ids)).1
        · intro hi i hmemi
          change i ∈ (m.setRoot (m.rootItems.modify p f)).rootItems.ids at hmemi
          change (m.setRoot (m.rootItems.modify p f)).rootIssued = true at hi
          rw [hroot] at hmemi
          exact hm.bound (fiss ▸ hi) i ((List.Perm.mem_iff hids).mp (List.mem_append_left _ hmemi))
        · intro hi
          change (m.setRoot (m.rootItems.modify p f)).rootIssued = false at hi
          obtain ⟨a, b⟩ := hm.fresh (fiss ▸ hi)
          -- an un-issued root has no sub-elements: nothing can be removed
          exfalso
          have : ch.id ∈ m.rootKids.ids := by
            have h1 : ch.id ∈ m.rootItems.ids :=
              (List.Perm.mem_iff hids).mp (List.mem_append_right _ (by simp [Items.ids]))
            simp only [Model.rootItems, Items.ids, List.append_nil, List.mem_cons] at h1
            rcases h1 with h1 | h1
            · -- the removed child is not the root: the root is not among its own content
              have hn := hm.ids
              have h2 : ch.id ∈ (m.rootItems.modify p f).ids ++ (Items.elem ch ck .nil).ids := List.mem_append_right _ (by simp [Items.ids])
              have hroot_in : m.rootHdr.id ∈ (m.rootItems.modify p f).ids := by
                simp only [Model.rootItems, Items.modify]
                split <;> simp [Items.ids, f]
              have hnd := (List.Perm.nodup_iff hids).mpr hn
              have := (List.nodup_append.mp hnd).2.2 _ hroot_in _ (show ch.id ∈ (Items.elem ch ck .nil).ids by simp [Items.ids])
              exact absurd h1.symm this
            · exact h1
          rw [a] at this; cases this
        · show (m.setRoot (m.rootItems.modify p f)).rootHdr.name ≠ _
          rw [setRoot_modify_rootHdr m p f (fun _ _ => rfl)]; exact hm.rootName
        · show SnOk S (m.setRoot (m.rootItems.modify p f)).rootItems
          rw [hroot]
          exact snOk_modify S p f _ (fun h k0 ho he => ⟨rfl, rfl, fun hn _ => absurd hn (key h k0 ho he).1, fun hk hs =>
            ⟨kidsOk_removeAt S h k0 pos (key h k0 ho he).2.1 hk, snOk_removeAt S k0 pos hs⟩⟩) hm.sn
        · show keysNodupI (entries S (m.setRoot (m.rootItems.modify p f)).rootItems [])
          rw [hroot]
          unfold keysNodupI at hold ⊢
          rw [List.map_append] at hold
          exact (List.nodup_append.mp hold).1
        · show keysNodupI (removeInternal S (ck.size + 2) ch ck (pathOfChain S c) m.index m.refs).1
          rw [hidx]
          unfold keysNodupI
          exact List.Nodup.sublist (List.Sublist.map _ List.filter_sublist) hm.idxKeys
        · intro q i
          show idxGet (removeInternal S (ck.size + 2) ch ck (pathOfChain S c) m.index m.refs).1 q = some i ↔
            (q, i) ∈ entries S (m.setRoot (m.rootItems.modify p f)).rootItems []
          rw [hroot, hidx, idxGet_filter_keys _ hm.idxKeys, hm.exact, ← List.Perm.mem_iff hperm, List.mem_append]
          constructor
          · rintro ⟨h1 | h1, h2⟩
            · exact h1
            · exact absurd (List.mem_map.mpr ⟨(q, i), h1, rfl⟩) h2
          · intro h1
            refine ⟨Or.inl h1, fun h2 => ?_⟩
            unfold keysNodupI at hold
            rw [List.map_append] at hold
            exact (List.nodup_append.mp hold).2.2 q (List.mem_map.mpr ⟨(q, i), h1, rfl⟩) q h2 rfl
    · exact hw

end
end AV.W
