/-
C15, the discipline theorem: if every program takes its BLOCKING locks in increasing order of a fixed
total order on locks (timed try-acquisitions are exempt — they never wait for ever) and releases what it
takes, then no interleaving of ANY number of such programs can reach a deadlock.
-/
import AutosarVerif.Model.Locks

namespace AV.Locks

/-- running the rest of the program from `held` ends with nothing held (every guard is dropped) -/
def endsEmpty : Prog → List (Nat × Mode) → Bool
  | [], held => held.isEmpty
  | .rel l m :: rest, held => endsEmpty rest (releaseOne held l m)
  | .acq l m :: rest, held => endsEmpty rest ((l, m) :: held)
  | .tryAcq l m :: rest, held => endsEmpty rest ((l, m) :: held)

/-- per-thread invariant -/
def okTh (t : Th) : Prop := orderedFrom t.prog t.held = true ∧ endsEmpty t.prog t.held = true

def AllOk (s : Sys) : Prop := ∀ t, t ∈ s → okTh t

theorem mem_set {α : Type} (l : List α) (i : Nat) (a x : α) (h : x ∈ l.set i a) : x = a ∨ x ∈ l := by
  induction l generalizing i with
  | nil => simp at h
  | cons y ys ih =>
    cases i with
    | zero => simp at h; rcases h with h | h; exact Or.inl h; exact Or.inr (by simp [h])
    | succ j =>
      simp at h
      rcases h with h | h
      · exact Or.inr (by simp [h])
      · rcases ih j h with h' | h'
        · exact Or.inl h'
        · exact Or.inr (by simp [h'])

/-- the invariant is preserved by every step of every thread -/
theorem step_ok (s : Sys) (i : Nat) (s' : Sys) (hs : AllOk s) (h : stepTh s i = some s') : AllOk s' := by
  unfold stepTh at h
  split at h
  · simp at h
  · rename_i t ht
    have htmem : t ∈ s := List.mem_of_getElem? ht
    have hok := hs t htmem
    split at h
    · simp at h
    · -- release
      rename_i l m rest hp
      simp at h; subst h
      intro x hx
      rcases mem_set _ _ _ _ hx with rfl | hx
      · unfold okTh at hok ⊢
        rw [hp] at hok
        simpa [orderedFrom, endsEmpty] using hok
      · exact hs x hx
    · -- blocking acquire
      rename_i l m rest hp
      split at h
      · simp at h; subst h
        intro x hx
        rcases mem_set _ _ _ _ hx with rfl | hx
        · unfold okTh at hok ⊢
          rw [hp] at hok
          simp only [orderedFrom, endsEmpty, Bool.and_eq_true] at hok
          exact ⟨hok.1.2, hok.2⟩
        · exact hs x hx
      · simp at h
    · -- timed acquire
      rename_i l m rest hp
      split at h
      · simp at h; subst h
        intro x hx
        rcases mem_set _ _ _ _ hx with rfl | hx
        · unfold okTh at hok ⊢
          rw [hp] at hok
          simp only [orderedFrom, endsEmpty, Bool.and_eq_true] at hok
          exact ⟨hok.1.1, hok.2⟩
        · exact hs x hx
      · simp at h; subst h
        intro x hx
        rcases mem_set _ _ _ _ hx with rfl | hx
        · simp [okTh, orderedFrom, endsEmpty]
        · exact hs x hx

/-- the lock a thread is waiting for, if its next event is a blocking acquisition -/
def awaited (t : Th) : Option Nat :=
  match t.prog with
  | .acq l _ :: _ => some l
  | _ => none

theorem exists_max (L : List Nat) (hne : L ≠ []) : ∃ m, m ∈ L ∧ ∀ x, x ∈ L → x ≤ m := by
  induction L with
  | nil => exact absurd rfl hne
  | cons a as ih =>
    cases as with
    | nil => exact ⟨a, by simp, by simp⟩
    | cons b bs =>
      obtain ⟨m, hm, hmax⟩ := ih (by simp)
      by_cases h : a ≤ m
      · refine ⟨m, by simp [hm], ?_⟩
        intro x hx
        rcases List.mem_cons.mp hx with rfl | hx
        · exact h
        · exact hmax x hx
      · refine ⟨a, by simp, ?_⟩
        intro x hx
        rcases List.mem_cons.mp hx with rfl | hx
        · exact Nat.le_refl _
        · have := hmax x hx; omega

/-- a thread that satisfies the invariant and holds `l` is unfinished and waits for a larger lock,
provided its next event is a blocking acquisition -/
theorem holder_waits_higher (t : Th) (l : Nat) (hok : okTh t) (hh : holds t l = true)
    (l' : Nat) (hw : awaited t = some l') : l < l' := by
  unfold awaited at hw
  split at hw
  · rename_i l0 m0 rest hp
    simp at hw; subst hw
    unfold okTh at hok
    rw [hp] at hok
    simp only [orderedFrom, Bool.and_eq_true, List.all_eq_true, decide_eq_true_eq] at hok
    simp only [holds, List.any_eq_true, beq_iff_eq] at hh
    obtain ⟨x, hx, hxl⟩ := hh
    have := hok.1.1 x hx
    omega
  · simp at hw

theorem finished_holds_nothing (t : Th) (l : Nat) (hok : okTh t) (hp : t.prog = []) : holds t l = false := by
  unfold okTh at hok
  rw [hp] at hok
  simp only [endsEmpty, List.isEmpty_iff] at hok
  simp [holds, hok.2]

theorem others_mem (s : Sys) (i : Nat) (t : Th) (h : t ∈ others s i) : t ∈ s := by
  simp only [others, List.mem_map, List.mem_filter] at h
  obtain ⟨⟨t', j⟩, ⟨hm, _⟩, rfl⟩ := h
  exact (List.mem_zipIdx hm).2.2 ▸ List.getElem_mem _

theorem holdsW_holds (t : Th) (l : Nat) (h : holdsW t l = true) : holds t l = true := by
  simp only [holdsW, holds, List.any_eq_true, Bool.and_eq_true, beq_iff_eq] at h ⊢
  obtain ⟨x, hx, h1, _⟩ := h
  exact ⟨x, hx, h1⟩

theorem holdsW_false_of_holds_false (t : Th) (l : Nat) (h : holds t l = false) : holdsW t l = false := by
  cases hw : holdsW t l with
  | false => rfl
  | true => rw [holdsW_holds t l hw] at h; cases h

theorem exists_of_isSome {α : Type} (o : Option α) (h : o.isSome = true) : ∃ a, o = some a := by
  cases o with
  | none => simp at h
  | some a => exact ⟨a, rfl⟩

/-- **progress**: in a state that satisfies the invariant and is not finished, some thread can move -/
theorem progress (s : Sys) (hs : AllOk s) (hnf : finished s = false) : ∃ i s', stepTh s i = some s' := by
  -- either some unfinished thread's next event is a release or a timed acquisition (it always moves) …
  by_cases hall : ∀ t, t ∈ s → t.prog ≠ [] → (awaited t).isSome = true
  -- … or every unfinished thread waits in a blocking acquisition: the one waiting for the largest lock is granted it
  · have hex : ∃ t, t ∈ s ∧ t.prog ≠ [] := by
      simp only [finished, List.all_eq_false] at hnf
      obtain ⟨t, ht, hp⟩ := hnf
      exact ⟨t, ht, by intro h; simp [h] at hp⟩
    obtain ⟨t0, ht0, hne0⟩ := hex
    let L := s.filterMap awaited
    have hLne : L ≠ [] := by
      have := hall t0 ht0 hne0
      cases ha : awaited t0 with
      | none => simp [ha] at this
      | some l0 =>
        intro hL
        have : l0 ∈ L := List.mem_filterMap.mpr ⟨t0, ht0, ha⟩
        rw [hL] at this; simp at this
    obtain ⟨lm, hlm, hmax⟩ := exists_max L hLne
    obtain ⟨t, ht, hat⟩ := List.mem_filterMap.mp hlm
    obtain ⟨i, hi, hget⟩ := List.mem_iff_getElem.mp ht
    have hget? : s[i]? = some t := by rw [List.getElem?_eq_getElem hi, hget]
    -- nobody holds `lm`
    have hnobody : ∀ u, u ∈ s → holds u lm = false := by
      intro u hu
      cases hh : holds u lm with
      | false => rfl
      | true =>
        exfalso
        by_cases hup : u.prog = []
        · have := finished_holds_nothing u lm (hs u hu) hup
          rw [this] at hh; cases hh
        · have haw := hall u hu hup
          cases hau : awaited u with
          | none => simp [hau] at haw
          | some lu =>
            have h1 := holder_waits_higher u lm (hs u hu) hh lu hau
            have h2 : lu ≤ lm := hmax lu (List.mem_filterMap.mpr ⟨u, hu, hau⟩)
            omega
    have hany : (s.any fun u => holds u lm) = false := by
      simp only [List.any_eq_false]
      intro u hu; simp [hnobody u hu]
    unfold awaited at hat
    split at hat
    · rename_i l m rest hp
      simp at hat; subst hat
      have hg : grantable s i l m = true := by
        unfold grantable
        rw [hget?]
        cases m with
        | write => simp [hany]
        | read =>
          have h1 : ((others s i).any fun u => holdsW u l) = false := by
            simp only [List.any_eq_false]
            intro u hu
            simp [holdsW_false_of_holds_false u l (hnobody u (others_mem s i u hu))]
          have h2 : holdsW t l = false := holdsW_false_of_holds_false t l (hnobody t ht)
          have h3 : writerWaiting s i l = false := by
            simp only [writerWaiting, List.any_eq_false]
            intro u _
            split
            · simp [hany]
            · simp
          simp [h1, h2, h3]
      obtain ⟨s', hs'⟩ := exists_of_isSome (stepTh s i) (by simp [stepTh, hget?, hp, hg])
      exact ⟨i, s', hs'⟩
    · simp at hat
  -- … or some unfinished thread's next event is a release or a timed acquisition: it always moves
  · obtain ⟨t, h1⟩ := Classical.not_forall.mp hall
    obtain ⟨ht, h2⟩ := Classical.not_imp.mp h1
    obtain ⟨hne, haw⟩ := Classical.not_imp.mp h2
    obtain ⟨i, hi, hget⟩ := List.mem_iff_getElem.mp ht
    have hget? : s[i]? = some t := by rw [List.getElem?_eq_getElem hi, hget]
    cases hp : t.prog with
    | nil => exact absurd hp hne
    | cons e rest =>
      cases e with
      | acq l m => simp [awaited, hp] at haw
      | rel l m =>
        obtain ⟨s', hs'⟩ := exists_of_isSome (stepTh s i) (by simp [stepTh, hget?, hp])
        exact ⟨i, s', hs'⟩
      | tryAcq l m =>
        obtain ⟨s', hs'⟩ := exists_of_isSome (stepTh s i) (by
          by_cases hg : grantable s i l m = true <;> simp [stepTh, hget?, hp, hg])
        exact ⟨i, s', hs'⟩

/-- states reachable from the initial state of a set of programs -/
inductive Reach (ps : List Prog) : Sys → Prop
  | init : Reach ps (initSys ps)
  | step (s s' : Sys) (i : Nat) : Reach ps s → stepTh s i = some s' → Reach ps s'

/-- **no deadlock under the ordered-acquisition discipline**, for any number of threads and programs of
any length: every reachable state is either finished or has a thread that can move -/
theorem ordered_no_deadlock (ps : List Prog)
    (hord : ∀ p, p ∈ ps → ordered p = true ∧ endsEmpty p [] = true) (s : Sys) (hr : Reach ps s) :
    isDeadlock s = false := by
  have hinv : AllOk s := by
    induction hr with
    | init =>
      intro t ht
      simp only [initSys, List.mem_map] at ht
      obtain ⟨p, hp, rfl⟩ := ht
      exact ⟨(hord p hp).1, (hord p hp).2⟩
    | step s s' i _ hstep ih => exact step_ok s i s' ih hstep
  cases hf : finished s with
  | true => simp [isDeadlock, hf]
  | false =>
    obtain ⟨i, s', hstep⟩ := progress s hinv hf
    have hi : i < s.length := by
      unfold stepTh at hstep
      cases hg : s[i]? with
      | none => simp [hg] at hstep
      | some t => exact (List.getElem?_eq_some_iff.mp hg).1
    have : s' ∈ successors s := by
      simp only [successors, List.mem_filterMap, List.mem_range]
      exact ⟨i, hi, hstep⟩
    simp only [isDeadlock, hf, Bool.not_false, Bool.true_and]
    cases hsucc : successors s with
    | nil => rw [hsucc] at this; simp at this
    | cons _ _ => rfl

end AV.Locks
