/-
C09 / C11: loading a further file never loses an element of the model — every element id that is in the content of a
model element before `merge_element` is still in it afterwards, whether the merge succeeds or stops with an error half way.
-/
import AutosarVerif.Model.Merge

namespace AV.W

theorem ids_mapKidHdrs (f : Hdr → Hdr) (hf : ∀ h, (f h).id = h.id) (its : Items) : (its.mapKidHdrs f).ids = its.ids := by
  induction its with
  | nil => rfl
  | text _ r ih => simp only [Items.mapKidHdrs, Items.ids]; exact ih
  | elem h k r _ ihr => simp only [Items.mapKidHdrs, Items.ids, hf, ihr]

theorem ids_insertAt_sub (new : Items → Items) (hnew : ∀ r x, x ∈ r.ids → x ∈ (new r).ids) (its : Items) :
    ∀ (pos : Nat) (x : Nat), x ∈ its.ids → x ∈ (its.insertAt new pos).ids := by
  induction its with
  | nil => intro pos x hx; cases pos <;> exact hnew _ x hx
  | text c r ih =>
    intro pos x hx
    cases pos with
    | zero => exact hnew _ x hx
    | succ q => simp only [Items.insertAt, Items.ids] at hx ⊢; exact ih q x hx
  | elem h k r _ ihr =>
    intro pos x hx
    cases pos with
    | zero => exact hnew _ x hx
    | succ q =>
      simp only [Items.insertAt, Items.ids, List.mem_cons, List.mem_append] at hx ⊢
      rcases hx with h1 | h1 | h1
      · exact Or.inl h1
      · exact Or.inr (Or.inl h1)
      · exact Or.inr (Or.inr (ihr q x h1))

section
variable (S : Spec) (V : Env)

theorem importNew_ids (ha : Hdr) (newFile minVerB : Nat) (l : List ((Hdr × Items) × Nat)) :
    ∀ (idx : Nat) (ka : Items) (x : Nat), x ∈ ka.ids → x ∈ (importNew S ha newFile minVerB l idx ka).1.ids := by
  induction l with
  | nil => intro idx ka x hx; exact hx
  | cons e rest ih =>
    intro idx ka x hx
    obtain ⟨⟨bh, bk⟩, pos⟩ := e
    unfold importNew
    split
    · exact hx
    · apply ih
      apply ids_insertAt_sub _ _ ka _ x hx
      intro r y hy
      simp only [Items.ids, List.mem_cons, List.mem_append]
      exact Or.inr (Or.inr hy)

/-- replacing a direct child by an element with the same id whose content holds at least the old ids loses nothing -/
theorem setChild_ids (cid : Nat) (h' : Hdr) (k' : Items) (its : Items) (ah : Hdr) (ak : Items)
    (hc : its.child cid = some (ah, ak)) (hid : h'.id = ah.id) (hk : ∀ x ∈ ak.ids, x ∈ k'.ids) :
    ∀ x ∈ its.ids, x ∈ (setChild cid h' k' its).ids := by
  induction its with
  | nil => intro x hx; exact hx
  | text c r ih =>
    simp only [Items.child] at hc
    intro x hx
    simp only [setChild, Items.ids] at hx ⊢
    exact ih hc x hx
  | elem h k r _ ihr =>
    intro x hx
    simp only [Items.child] at hc
    unfold setChild
    by_cases hcid : h.id = cid
    · rw [if_pos hcid]
      rw [if_pos hcid] at hc
      cases hc
      simp only [Items.ids, List.mem_cons, List.mem_append] at hx ⊢
      rcases hx with h1 | h1 | h1
      · exact Or.inl (by rw [hid]; exact h1)
      · exact Or.inr (Or.inl (hk x h1))
      · exact Or.inr (Or.inr h1)
    · rw [if_neg hcid]
      rw [if_neg hcid] at hc
      simp only [Items.ids, List.mem_cons, List.mem_append] at hx ⊢
      rcases hx with h1 | h1 | h1
      · exact Or.inl h1
      · exact Or.inr (Or.inl h1)
      · exact Or.inr (Or.inr (ihr hc x h1))

/-- **nothing of the model is lost by a merge**, successful or not -/
theorem mergeElement_keeps (fver : Nat → Option Nat) (newFile minVerB : Nat) (fuel : Nat) :
    ∀ (ha : Hdr) (ka : Items) (files : List Nat) (kb : Items) (x : Nat),
      x ∈ ka.ids → x ∈ (mergeElement S V fver newFile minVerB fuel ha ka files kb).1.ids := by
  induction fuel with
  | zero => intro ha ka files kb x hx; exact hx
  | succ n ih =>
    intro ha ka files kb x hx
    unfold mergeElement
    dsimp only
    split
    · exact hx
    · rename_i w0 restA restB _
      -- after the restriction of the elements that are only in the model
      have h1 : ∀ (ids : List Nat) (y : Nat), y ∈ ka.ids →
          y ∈ (ka.mapKidHdrs fun h => if ids.contains h.id ∧ h.files.isEmpty then { h with files := files } else h).ids := by
        intro ids y hy
        rw [ids_mapKidHdrs]
        · exact hy
        · intro h; split <;> rfl
      split
      · rename_i ka2 e heq
        have key := congrArg (fun r => r.1) heq
        dsimp only at key
        rw [← key]
        apply importNew_ids
        apply h1
        exact hx
      · rename_i ka2 heq
        have h2 : x ∈ ka2.ids := by
          have key := congrArg (fun r => r.1) heq
          dsimp only at key
          rw [← key]
          apply importNew_ids
          apply h1
          exact hx
        -- the fold over the merged pairs keeps every id
        have hfold : ∀ (l : List (Nat × (Hdr × Items))) (acc : Items × Option MergeErr), x ∈ acc.1.ids →
            x ∈ (l.foldl (fun (acc : Items × Option MergeErr) (p : Nat × (Hdr × Items)) =>
              match acc.2 with
              | some _ => acc
              | none =>
                match acc.1.child p.1 with
                | none => acc
                | some (ah, ak) =>
                  let files' := if ah.files.isEmpty then files else ah.files
                  let r := mergeElement S V fver newFile minVerB n ah ak files' p.2.2
                  let ah' := if r.2.isNone ∧ !ah.files.isEmpty ∧ !ah.files.contains newFile then { ah with files := ah.files ++ [newFile] } else ah
                  (setChild p.1 ah' r.1 acc.1, r.2)) acc).1.ids := by
          intro l
          induction l with
          | nil => intro acc hacc; exact hacc
          | cons p rest ihl =>
            intro acc hacc
            simp only [List.foldl_cons]
            apply ihl
            split
            · exact hacc
            · split
              · exact hacc
              · rename_i ah ak hchild
                dsimp only
                apply setChild_ids p.1 _ _ acc.1 ah ak hchild
                · have hidl : ∀ (c : Prop) [Decidable c] (X : List Nat), (if c then { ah with files := X } else ah).id = ah.id := by
                    intro c _ X; split <;> rfl
                  exact hidl _ _
                · intro y hy; exact ih ah ak _ _ y hy
                · exact hacc
        exact hfold _ _ h2

end
end AV.W
