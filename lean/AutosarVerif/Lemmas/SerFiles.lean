/-
C10: "every element of the model is written to at least one file, and the text produced for a file contains exactly
the elements attributed to that file".

`projFile f pe its` is the view of file `f` from the ATTRIBUTION point of view: an element is kept iff `f` is in its
effective file set (`effOf`: the local set if non-empty, else the parent's effective set `pe`), recursively.
The serializer (`serForest S V (some f)`) decides with the LOCAL test "local set empty or contains `f`".  Under the
invariant `FilesOk` (every local set lies within the parent's effective set, proved for all reachable states) the two
agree for every element whose parent is in the view.

Results
* `serForest_projPad` / `opSerialize_eq_pad` (every tree, every world): the text for `f` is the text, written without any
  file filter, of the elements attributed to `f` (an empty character data item, written as nothing, in place of each of
  the others).
* `serForest_projFile` / `opSerialize_eq_view`: the text for `f` is literally the text of `projFile f …` under the shape
  condition `ShapeOk`.  The condition is needed (`SerFilesEx`): the serializer chooses between `<X/>` and `<X>…</X>` by
  the STORED content list, so an element of the view whose content belongs to other files only is written `<X>` newline
  `</X>`, not `<X/>`.  Sufficient: `ShapeOk_of_allHave`, `ShapeOk_of_headsInherit`.
* `mem_projFile_hdrs_iff` / `mem_projFile_ids_iff` / `Model.mem_view_iff` (with `FilesOk`): the elements of the view are
  exactly the elements whose effective file set — the set `file_membership` reports — contains `f`.
* `covered_ids`, `ids_union`, `reachable_covered`, `reachable_union`: every element is in the view of at least one file; the
  views together hold exactly the elements of the tree.
* `projFile_idem`, `FilesOk_projFile`, `projFile_all_in`: the view is a tree of its own, all of it attributed to `f`.
-/
import AutosarVerif.Model.Serialize
import AutosarVerif.Lemmas.FileOps
import AutosarVerif.Lemmas.IndexTree
import AutosarVerif.Lemmas.Files
import AutosarVerif.Lemmas.Reachable
import AutosarVerif.Model.ToyEnv

namespace AV.W
open Items

/-! ### the view of a file -/

/-- the view of file `f`: keep an element iff `f` is in its effective file set (and then its content, with the element's
effective set handed down); text items are kept -/
def projFile (f : Nat) : List Nat → Items → Items
  | _, .nil => .nil
  | pe, .text c r => .text c (projFile f pe r)
  | pe, .elem h k r =>
    if f ∈ effOf pe h then .elem h (projFile f (effOf pe h) k) (projFile f pe r) else projFile f pe r

theorem projFile_elem_pos (f : Nat) (pe : List Nat) (h : Hdr) (k r : Items) (hv : f ∈ effOf pe h) :
    projFile f pe (.elem h k r) = .elem h (projFile f (effOf pe h) k) (projFile f pe r) := by
  simp only [projFile, hv, if_true]

theorem projFile_elem_neg (f : Nat) (pe : List Nat) (h : Hdr) (k r : Items) (hv : ¬ f ∈ effOf pe h) :
    projFile f pe (.elem h k r) = projFile f pe r := by
  simp only [projFile, hv, if_false]

/-- **the key**: for an element whose local set lies within the effective set `pe` of its parent, and a file `f` of the
parent, the serializer's local test "local set empty or contains `f`" says exactly "`f` is in the effective set" -/
theorem visible_iff_eff (f : Nat) (pe : List Nat) (h : Hdr) (hf : f ∈ pe) :
    (h.files.isEmpty || h.files.contains f) = true ↔ f ∈ effOf pe h := by
  unfold effOf
  cases he : h.files.isEmpty
  · simp
  · simp [hf]

/-- effective sets shrink downwards -/
theorem effOf_mono (pe : List Nat) (h : Hdr) (hs : ∀ g ∈ h.files, g ∈ pe) : ∀ g ∈ effOf pe h, g ∈ pe :=
  effOf_sub pe h hs

/-- a non-empty effective set of the parent gives a non-empty effective set -/
theorem effOf_ne_nil (pe : List Nat) (h : Hdr) (hp : pe ≠ []) : effOf pe h ≠ [] := by
  unfold effOf
  split
  · exact hp
  · rename_i he
    intro h0; apply he; simp [h0]

/-! ### the serializer, one element at a time -/

section
variable (S : Spec) (V : Env)

def isNilB : Items → Bool
  | .nil => true
  | _ => false

theorem isNilB_iff (k : Items) : isNilB k = true ↔ k = .nil := by
  cases k <;> simp [isNilB]

theorem isNilB_congr (k k' : Items) (h1 : k = .nil → k' = .nil) (h2 : k' = .nil → k = .nil) : isNilB k = isNilB k' := by
  cases k <;> cases k' <;> simp_all [isNilB]

/-- the first content item if it is character data -/
def firstText : Items → Option CDv
  | .text c _ => some c
  | _ => none

/-- what is written for the content of an element with CHARACTERS content -/
def charBody : Items → Option Bytes
  | .text c _ => serVal V c
  | _ => some []

theorem charBody_of_firstText (k k' : Items) (h : firstText k = firstText k') : charBody V k = charBody V k' := by
  cases k <;> cases k' <;> simp_all [firstText, charBody]

/-- the text of one visible element, given: is its content list empty, the text of its content for the three content
modes (`cb` characters, `bm` mixed, `bn` everything else) and the text of the items after it -/
def elemOut (h : Hdr) (indent : Nat) (inMixed : Bool) (nilB : Bool) (cb bm bn rest : Option Bytes) : Option Bytes :=
  let name := V.elemText h.name
  let lead : Bytes := if inMixed then [] else nlIndent indent
  let comment : Bytes := match h.comment with
    | some c => lead ++ bs "<!--" ++ c ++ bs "-->"
    | none => []
  let node : Option Bytes :=
    match serAttrs V h.attrs with
    | none => none
    | some attrs =>
      if nilB then some ([60] ++ name ++ attrs ++ [47, 62])
      else
        let body : Option Bytes :=
          match S.mode h.ety.typ with
          | .characters => cb
          | .mixed => bm
          | _ => optApp bn (some (nlIndent indent))
        optApp (some ([60] ++ name ++ attrs ++ [62])) (optApp body (some ([60, 47] ++ name ++ [62])))
  optApp (some (comment ++ lead)) (optApp node rest)

/-- is the element with header `h` written into the text for `ff` (the serializer's LOCAL test) -/
def visibleIn (ff : Option Nat) (h : Hdr) : Bool :=
  match ff with
  | none => true
  | some f => h.files.isEmpty || h.files.contains f

theorem serForest_elem (ff : Option Nat) (indent : Nat) (inMixed : Bool) (h : Hdr) (k r : Items) :
    serForest S V ff indent inMixed (.elem h k r) =
      if visibleIn ff h then
        elemOut S V h indent inMixed (isNilB k) (charBody V k)
          (serForest S V ff (indent + 1) true k) (serForest S V ff (indent + 1) false k) (serForest S V ff indent inMixed r)
      else serForest S V ff indent inMixed r := by
  cases ff with
  | none => cases k <;> rfl
  | some f =>
    cases hv : (h.files.isEmpty || h.files.contains f) <;> cases k <;>
      (conv => lhs; unfold serForest) <;> simp only [visibleIn, hv] <;> rfl

theorem serForest_text (ff : Option Nat) (indent : Nat) (inMixed : Bool) (c : CDv) (r : Items) :
    serForest S V ff indent inMixed (.text c r) =
      if inMixed then optApp (serVal V c) (serForest S V ff indent inMixed r) else serForest S V ff indent inMixed r := by
  conv => lhs; unfold serForest

theorem serForest_nil (ff : Option Nat) (indent : Nat) (inMixed : Bool) :
    serForest S V ff indent inMixed .nil = some [] := by
  unfold serForest; rfl

theorem elemOut_congr (h : Hdr) (indent : Nat) (inMixed : Bool) (n n' : Bool) (cb cb' bm bn rest : Option Bytes)
    (hn : n = n') (hc : S.mode h.ety.typ = .characters → cb = cb') :
    elemOut S V h indent inMixed n cb bm bn rest = elemOut S V h indent inMixed n' cb' bm bn rest := by
  subst hn
  unfold elemOut
  cases hm : S.mode h.ety.typ <;> try rfl
  rw [hc hm]

/-! ### the text written for a file is the text of its view -/

/-- the SHAPE condition under which the text for `f` is literally the text of the view: the serializer looks at the
STORED content list of an element to choose between `<X/>` and `<X>…</X>` (and, for CHARACTERS content, at its first
item), so an element of the view that has content, none of which is in the view, is written as `<X>` newline `</X>`
and not as `<X/>`.  `ShapeOk` excludes exactly that: for every element of the view, the view of its content is empty
only if the content is empty, and (CHARACTERS content) starts with the same character data. -/
def ShapeOk (f : Nat) : List Nat → Items → Prop
  | _, .nil => True
  | pe, .text _ r => ShapeOk f pe r
  | pe, .elem h k r =>
    (f ∈ effOf pe h →
      (projFile f (effOf pe h) k = .nil → k = .nil) ∧
      (S.mode h.ety.typ = .characters → firstText (projFile f (effOf pe h) k) = firstText k) ∧
      ShapeOk f (effOf pe h) k) ∧
    ShapeOk f pe r

theorem projFile_nil_of_nil (f : Nat) (pe : List Nat) : projFile f pe .nil = .nil := rfl

/-- **C10** the text written for the file `f` is the text (written without any file filter) of the view of `f`, i.e. of
exactly the elements attributed to `f`.  (`f ∈ pe`: the parent is in the view.  `FilesOk` is not needed for this
equation — the local test and the effective set agree below any element of the view — it is what makes "in the view"
the same as "effective set contains `f`", see `mem_projFile_ids_iff`.) -/
theorem serForest_projFile (f : Nat) (its : Items) : ∀ (pe : List Nat) (indent : Nat) (inMixed : Bool),
    f ∈ pe → ShapeOk S f pe its →
    serForest S V (some f) indent inMixed its = serForest S V none indent inMixed (projFile f pe its) := by
  induction its with
  | nil => intro pe indent inMixed _ _; rfl
  | text c r ih =>
    intro pe indent inMixed hf hs
    show _ = serForest S V none indent inMixed (.text c (projFile f pe r))
    rw [serForest_text, serForest_text, ih pe indent inMixed hf hs]
  | elem h k r ihk ihr =>
    intro pe indent inMixed hf hs
    obtain ⟨hs1, hs2⟩ := hs
    rw [serForest_elem]
    by_cases hv : f ∈ effOf pe h
    · have hvis : (h.files.isEmpty || h.files.contains f) = true := (visible_iff_eff f pe h hf).mpr hv
      obtain ⟨hn, hc, hsk⟩ := hs1 hv
      rw [projFile_elem_pos f pe h k r hv, serForest_elem]
      simp only [visibleIn, hvis, if_true]
      rw [ihk (effOf pe h) (indent + 1) true hv hsk, ihk (effOf pe h) (indent + 1) false hv hsk,
        ihr pe indent inMixed hf hs2]
      apply elemOut_congr
      · exact isNilB_congr _ _ (fun h0 => by rw [h0]; rfl) hn
      · intro hm
        exact (charBody_of_firstText V _ _ (hc hm)).symm
    · have hvis : (h.files.isEmpty || h.files.contains f) = false := by
        cases hx : (h.files.isEmpty || h.files.contains f)
        · rfl
        · exact absurd ((visible_iff_eff f pe h hf).mp hx) hv
      rw [projFile_elem_neg f pe h k r hv]
      simp only [visibleIn, hvis, Bool.false_eq_true, if_false]
      exact ihr pe indent inMixed hf hs2

/-! ### without the shape condition: the view with place holders

`projPad` keeps, in place of every element that is not attributed to `f`, an empty character data item (which is written
as nothing, in every content mode).  With it the equation holds for every tree. -/

/-- the view of `f` with an empty text item in place of every dropped element -/
def projPad (f : Nat) : List Nat → Items → Items
  | _, .nil => .nil
  | pe, .text c r => .text c (projPad f pe r)
  | pe, .elem h k r =>
    if f ∈ effOf pe h then .elem h (projPad f (effOf pe h) k) (projPad f pe r) else .text (.str []) (projPad f pe r)

theorem optApp_some_nil (x : Option Bytes) : optApp (some []) x = x := by
  cases x <;> rfl

theorem serForest_pad (ff : Option Nat) (indent : Nat) (inMixed : Bool) (r : Items) :
    serForest S V ff indent inMixed (.text (.str []) r) = serForest S V ff indent inMixed r := by
  rw [serForest_text]
  cases inMixed
  · rfl
  · show optApp (some []) _ = _
    exact optApp_some_nil _

/-- **C10**, unconditional form: the text written for `f` is the text of the elements attributed to `f` (place holders
for the others, which are written as nothing) -/
theorem serForest_projPad (f : Nat) (its : Items) : ∀ (pe : List Nat) (indent : Nat) (inMixed : Bool),
    f ∈ pe →
    serForest S V (some f) indent inMixed its = serForest S V none indent inMixed (projPad f pe its) := by
  induction its with
  | nil => intro pe indent inMixed _; rfl
  | text c r ih =>
    intro pe indent inMixed hf
    show _ = serForest S V none indent inMixed (.text c (projPad f pe r))
    rw [serForest_text, serForest_text, ih pe indent inMixed hf]
  | elem h k r ihk ihr =>
    intro pe indent inMixed hf
    rw [serForest_elem]
    by_cases hv : f ∈ effOf pe h
    · have hvis : (h.files.isEmpty || h.files.contains f) = true := (visible_iff_eff f pe h hf).mpr hv
      have hp : projPad f pe (.elem h k r) = .elem h (projPad f (effOf pe h) k) (projPad f pe r) := by
        simp only [projPad, hv, if_true]
      rw [hp, serForest_elem]
      simp only [visibleIn, hvis, if_true]
      rw [ihk (effOf pe h) (indent + 1) true hv, ihk (effOf pe h) (indent + 1) false hv, ihr pe indent inMixed hf]
      apply elemOut_congr
      · cases k with
        | nil => rfl
        | elem h2 k2 r2 => simp only [projPad]; split <;> rfl
        | text _ _ => rfl
      · intro _
        cases k with
        | nil => rfl
        | elem h2 k2 r2 => simp only [projPad]; split <;> rfl
        | text _ _ => rfl
    · have hvis : (h.files.isEmpty || h.files.contains f) = false := by
        cases hx : (h.files.isEmpty || h.files.contains f)
        · rfl
        · exact absurd ((visible_iff_eff f pe h hf).mp hx) hv
      have hp : projPad f pe (.elem h k r) = .text (.str []) (projPad f pe r) := by
        simp only [projPad, hv, if_false]
      rw [hp, serForest_pad]
      simp only [visibleIn, hvis, Bool.false_eq_true, if_false]
      exact ihr pe indent inMixed hf

end

/-! ### which elements are in the view -/

theorem ids_eq_hdrs_map (its : Items) : its.ids = its.hdrs.map (·.id) := by
  induction its with
  | nil => rfl
  | text _ r ih => exact ih
  | elem h k r ihk ihr => simp only [Items.ids, Items.hdrs, List.map_cons, List.map_append, ihk, ihr]

/-- the view is a part of the tree: same order, nothing new -/
theorem projFile_hdrs_sublist (f : Nat) (its : Items) : ∀ pe : List Nat, ((projFile f pe its).hdrs).Sublist its.hdrs := by
  induction its with
  | nil => intro _; exact List.Sublist.refl _
  | text _ r ih => intro pe; exact ih pe
  | elem h k r ihk ihr =>
    intro pe
    by_cases hv : f ∈ effOf pe h
    · rw [projFile_elem_pos f pe h k r hv]
      exact List.Sublist.cons_cons _ (List.Sublist.append (ihk _) (ihr pe))
    · rw [projFile_elem_neg f pe h k r hv]
      exact List.Sublist.cons _ ((ihr pe).trans (List.sublist_append_right _ _))

theorem projFile_ids_sublist (f : Nat) (pe : List Nat) (its : Items) : ((projFile f pe its).ids).Sublist its.ids := by
  rw [ids_eq_hdrs_map, ids_eq_hdrs_map]
  exact (projFile_hdrs_sublist f its pe).map _

/-- the element with header `h0` occurs in the content list `its` (of a parent with effective set `pe`) and its effective
file set — computed down the chain from `pe` — is `E` -/
def EffIs (h0 : Hdr) (E : List Nat) : List Nat → Items → Prop
  | _, .nil => False
  | pe, .text _ r => EffIs h0 E pe r
  | pe, .elem h k r => (h = h0 ∧ effOf pe h = E) ∨ EffIs h0 E (effOf pe h) k ∨ EffIs h0 E pe r

/-- the element with header `h0` occurs in `its`, and `f` is in its effective set and in the effective set of every
ancestor within `its` -/
def InView (f : Nat) (h0 : Hdr) : List Nat → Items → Prop
  | _, .nil => False
  | pe, .text _ r => InView f h0 pe r
  | pe, .elem h k r => (f ∈ effOf pe h ∧ (h = h0 ∨ InView f h0 (effOf pe h) k)) ∨ InView f h0 pe r

/-- the elements of the view, for every tree: `f` is in the effective set of the element and of all its ancestors -/
theorem mem_projFile_hdrs_iff_inView (f : Nat) (h0 : Hdr) (its : Items) : ∀ pe : List Nat,
    h0 ∈ (projFile f pe its).hdrs ↔ InView f h0 pe its := by
  induction its with
  | nil => intro _; simp [projFile, Items.hdrs, InView]
  | text _ r ih => intro pe; exact ih pe
  | elem h k r ihk ihr =>
    intro pe
    by_cases hv : f ∈ effOf pe h
    · rw [projFile_elem_pos f pe h k r hv]
      simp only [Items.hdrs, List.mem_cons, List.mem_append, InView, ihk, ihr, hv, true_and]
      constructor
      · rintro (rfl | h1 | h1)
        · exact Or.inl (Or.inl rfl)
        · exact Or.inl (Or.inr h1)
        · exact Or.inr h1
      · rintro ((rfl | h1) | h1)
        · exact Or.inl rfl
        · exact Or.inr (Or.inl h1)
        · exact Or.inr (Or.inr h1)
    · rw [projFile_elem_neg f pe h k r hv]
      simp only [InView, ihr, hv, false_and, false_or]

/-- under the invariant the effective set of every element of `its` lies within `pe`: effective sets shrink downwards -/
theorem EffIs_sub (h0 : Hdr) (E : List Nat) (its : Items) : ∀ pe : List Nat, FilesOk pe its → EffIs h0 E pe its →
    ∀ g ∈ E, g ∈ pe := by
  induction its with
  | nil => intro _ _ h; exact h.elim
  | text _ r ih => intro pe hok h; exact ih pe hok h
  | elem h k r ihk ihr =>
    intro pe ⟨h1, h2, h3⟩ he g hg
    rcases he with ⟨_, rfl⟩ | he | he
    · exact effOf_sub pe h h1 g hg
    · exact effOf_sub pe h h1 g (ihk _ h2 he g hg)
    · exact ihr pe h3 he g hg

/-- under the invariant "in the view" is "the effective set contains `f`" (the ancestors' sets then contain it too) -/
theorem inView_iff_effIs (f : Nat) (h0 : Hdr) (its : Items) : ∀ pe : List Nat, FilesOk pe its →
    (InView f h0 pe its ↔ ∃ E, EffIs h0 E pe its ∧ f ∈ E) := by
  induction its with
  | nil => intro _ _; simp [InView, EffIs]
  | text _ r ih => intro pe hok; exact ih pe hok
  | elem h k r ihk ihr =>
    intro pe ⟨h1, h2, h3⟩
    simp only [InView, EffIs, ihk _ h2, ihr pe h3]
    constructor
    · rintro (⟨hv, rfl | ⟨E, he, hf⟩⟩ | ⟨E, he, hf⟩)
      · exact ⟨_, Or.inl ⟨rfl, rfl⟩, hv⟩
      · exact ⟨E, Or.inr (Or.inl he), hf⟩
      · exact ⟨E, Or.inr (Or.inr he), hf⟩
    · rintro ⟨E, (⟨rfl, rfl⟩ | he | he), hf⟩
      · exact Or.inl ⟨hf, Or.inl rfl⟩
      · exact Or.inl ⟨EffIs_sub h0 E k _ h2 he f hf, Or.inr ⟨E, he, hf⟩⟩
      · exact Or.inr ⟨E, he, hf⟩

/-- **C10** the elements of the view of `f` are exactly the elements whose effective file set contains `f` -/
theorem mem_projFile_hdrs_iff (f : Nat) (h0 : Hdr) (pe : List Nat) (its : Items) (hok : FilesOk pe its) :
    h0 ∈ (projFile f pe its).hdrs ↔ ∃ E, EffIs h0 E pe its ∧ f ∈ E := by
  rw [mem_projFile_hdrs_iff_inView, inView_iff_effIs f h0 its pe hok]

theorem mem_projFile_ids_iff (f i : Nat) (pe : List Nat) (its : Items) (hok : FilesOk pe its) :
    i ∈ (projFile f pe its).ids ↔ ∃ h0 E, h0.id = i ∧ EffIs h0 E pe its ∧ f ∈ E := by
  rw [ids_eq_hdrs_map, List.mem_map]
  constructor
  · rintro ⟨h0, hm, rfl⟩
    obtain ⟨E, he, hf⟩ := (mem_projFile_hdrs_iff f h0 pe its hok).mp hm
    exact ⟨h0, E, rfl, he, hf⟩
  · rintro ⟨h0, E, rfl, he, hf⟩
    exact ⟨h0, (mem_projFile_hdrs_iff f h0 pe its hok).mpr ⟨E, he, hf⟩, rfl⟩

/-- every element has an effective set -/
theorem EffIs_of_mem (h0 : Hdr) (its : Items) : ∀ pe : List Nat, h0 ∈ its.hdrs → ∃ E, EffIs h0 E pe its := by
  induction its with
  | nil => intro _ h; cases h
  | text _ r ih => intro pe h; exact ih pe h
  | elem h k r ihk ihr =>
    intro pe hm
    simp only [Items.hdrs, List.mem_cons, List.mem_append] at hm
    rcases hm with rfl | hm | hm
    · exact ⟨_, Or.inl ⟨rfl, rfl⟩⟩
    · obtain ⟨E, he⟩ := ihk (effOf pe h) hm
      exact ⟨E, Or.inr (Or.inl he)⟩
    · obtain ⟨E, he⟩ := ihr pe hm
      exact ⟨E, Or.inr (Or.inr he)⟩

/-! ### every element is written to at least one file -/

/-- below a parent that is in some file, every effective set is non-empty (a non-empty local set is used as is, an empty
one inherits) -/
theorem EffIs_ne_nil (h0 : Hdr) (E : List Nat) (its : Items) : ∀ pe : List Nat, pe ≠ [] → EffIs h0 E pe its → E ≠ [] := by
  induction its with
  | nil => intro _ _ h; exact h.elim
  | text _ r ih => intro pe hp h; exact ih pe hp h
  | elem h k r ihk ihr =>
    intro pe hp he
    rcases he with ⟨_, rfl⟩ | he | he
    · exact effOf_ne_nil pe h hp
    · exact ihk _ (effOf_ne_nil pe h hp) he
    · exact ihr pe hp he

/-- **C10** every element is in the view of at least one file of its parent -/
theorem covered_hdrs (pe : List Nat) (its : Items) (hok : FilesOk pe its) (hne : pe ≠ []) (h0 : Hdr) (hm : h0 ∈ its.hdrs) :
    ∃ f ∈ pe, h0 ∈ (projFile f pe its).hdrs := by
  obtain ⟨E, he⟩ := EffIs_of_mem h0 its pe hm
  have hE := EffIs_ne_nil h0 E its pe hne he
  cases E with
  | nil => exact absurd rfl hE
  | cons f E' =>
    have hf : f ∈ f :: E' := List.mem_cons_self
    exact ⟨f, EffIs_sub h0 _ its pe hok he f hf, (mem_projFile_hdrs_iff f h0 pe its hok).mpr ⟨_, he, hf⟩⟩

theorem covered_ids (pe : List Nat) (its : Items) (hok : FilesOk pe its) (hne : pe ≠ []) (i : Nat) (hm : i ∈ its.ids) :
    ∃ f ∈ pe, i ∈ (projFile f pe its).ids := by
  rw [ids_eq_hdrs_map, List.mem_map] at hm
  obtain ⟨h0, hm, rfl⟩ := hm
  obtain ⟨f, hf, hv⟩ := covered_hdrs pe its hok hne h0 hm
  exact ⟨f, hf, by rw [ids_eq_hdrs_map]; exact List.mem_map_of_mem hv⟩

/-- **C10** the elements of the tree are the elements of the views of the files of the parent, taken together -/
theorem hdrs_union (pe : List Nat) (its : Items) (hok : FilesOk pe its) (hne : pe ≠ []) (h0 : Hdr) :
    h0 ∈ its.hdrs ↔ ∃ f ∈ pe, h0 ∈ (projFile f pe its).hdrs :=
  ⟨covered_hdrs pe its hok hne h0, fun ⟨f, _, hv⟩ => (projFile_hdrs_sublist f its pe).subset hv⟩

theorem ids_union (pe : List Nat) (its : Items) (hok : FilesOk pe its) (hne : pe ≠ []) (i : Nat) :
    i ∈ its.ids ↔ ∃ f ∈ pe, i ∈ (projFile f pe its).ids :=
  ⟨covered_ids pe its hok hne i, fun ⟨f, _, hv⟩ => (projFile_ids_sublist f pe its).subset hv⟩

/-- an element is in the views of exactly the files of its effective set, and in no other view -/
theorem views_of_element (pe : List Nat) (its : Items) (hok : FilesOk pe its) (h0 : Hdr) (E : List Nat)
    (he : EffIs h0 E pe its) (f : Nat) (hf : f ∈ E) : h0 ∈ (projFile f pe its).hdrs :=
  (mem_projFile_hdrs_iff f h0 pe its hok).mpr ⟨E, he, hf⟩

/-- a file outside the parent's effective set has an empty view -/
theorem projFile_hdrs_of_not_mem (f : Nat) (pe : List Nat) (its : Items) (hok : FilesOk pe its) (hf : ¬ f ∈ pe) :
    (projFile f pe its).hdrs = [] := by
  cases hx : (projFile f pe its).hdrs with
  | nil => rfl
  | cons h0 t =>
    have hm : h0 ∈ (projFile f pe its).hdrs := by rw [hx]; exact List.mem_cons_self
    obtain ⟨E, he, hfE⟩ := (mem_projFile_hdrs_iff f h0 pe its hok).mp hm
    exact absurd (EffIs_sub h0 E its pe hok he f hfE) hf

/-! ### the view is a tree of its own -/

/-- taking the view twice changes nothing -/
theorem projFile_idem (f : Nat) (its : Items) : ∀ pe : List Nat, projFile f pe (projFile f pe its) = projFile f pe its := by
  induction its with
  | nil => intro _; rfl
  | text c r ih => intro pe; show Items.text c _ = Items.text c _; rw [ih pe]
  | elem h k r ihk ihr =>
    intro pe
    by_cases hv : f ∈ effOf pe h
    · rw [projFile_elem_pos f pe h k r hv, projFile_elem_pos f pe h _ _ hv, ihk, ihr]
    · rw [projFile_elem_neg f pe h k r hv, ihr]

/-- the view satisfies the invariant -/
theorem FilesOk_projFile (f : Nat) (its : Items) : ∀ pe : List Nat, FilesOk pe its → FilesOk pe (projFile f pe its) := by
  induction its with
  | nil => intro _ _; trivial
  | text _ r ih => intro pe h; exact ih pe h
  | elem h k r ihk ihr =>
    intro pe ⟨h1, h2, h3⟩
    by_cases hv : f ∈ effOf pe h
    · rw [projFile_elem_pos f pe h k r hv]
      exact ⟨h1, ihk _ h2, ihr pe h3⟩
    · rw [projFile_elem_neg f pe h k r hv]
      exact ihr pe h3

/-- in the view, every element is attributed to `f` -/
theorem projFile_all_in (f : Nat) (h0 : Hdr) (E : List Nat) (its : Items) : ∀ pe : List Nat,
    EffIs h0 E pe (projFile f pe its) → f ∈ E := by
  induction its with
  | nil => intro _ he; exact he.elim
  | text _ r ih => intro pe he; exact ih pe he
  | elem h k r ihk ihr =>
    intro pe he
    by_cases hv : f ∈ effOf pe h
    · rw [projFile_elem_pos f pe h k r hv] at he
      rcases he with ⟨_, rfl⟩ | he | he
      · exact hv
      · exact ihk _ he
      · exact ihr pe he
    · rw [projFile_elem_neg f pe h k r hv] at he
      exact ihr pe he

/-! ### when the shape condition holds -/

/-- every local file set of the forest is empty or contains `f` -/
def AllHave (f : Nat) (its : Items) : Prop := ∀ h ∈ its.hdrs, h.files = [] ∨ f ∈ h.files

theorem AllHave.kids {f : Nat} {h : Hdr} {k r : Items} (ha : AllHave f (.elem h k r)) : AllHave f k :=
  fun h0 hm => ha h0 (by simp only [Items.hdrs, List.mem_cons, List.mem_append]; exact Or.inr (Or.inl hm))
theorem AllHave.rest {f : Nat} {h : Hdr} {k r : Items} (ha : AllHave f (.elem h k r)) : AllHave f r :=
  fun h0 hm => ha h0 (by simp only [Items.hdrs, List.mem_cons, List.mem_append]; exact Or.inr (Or.inr hm))
theorem AllHave.here {f : Nat} {h : Hdr} {k r : Items} (ha : AllHave f (.elem h k r)) : h.files = [] ∨ f ∈ h.files :=
  ha h (by show h ∈ h :: _; exact List.mem_cons_self)

theorem mem_effOf_of_have (f : Nat) (pe : List Nat) (h : Hdr) (hf : f ∈ pe) (hh : h.files = [] ∨ f ∈ h.files) :
    f ∈ effOf pe h := by
  unfold effOf
  rcases hh with hh | hh
  · simp [hh, hf]
  · split
    · exact hf
    · exact hh

/-- if no element is restricted away from `f`, the view of `f` is the whole tree -/
theorem projFile_eq_self (f : Nat) (its : Items) : ∀ pe : List Nat, f ∈ pe → AllHave f its → projFile f pe its = its := by
  induction its with
  | nil => intro _ _ _; rfl
  | text c r ih => intro pe hf ha; show Items.text c _ = _; rw [ih pe hf ha]
  | elem h k r ihk ihr =>
    intro pe hf ha
    have hv := mem_effOf_of_have f pe h hf ha.here
    rw [projFile_elem_pos f pe h k r hv, ihk _ hv ha.kids, ihr pe hf ha.rest]

section
variable (S : Spec)

theorem ShapeOk_of_allHave (f : Nat) (its : Items) : ∀ pe : List Nat, f ∈ pe → AllHave f its → ShapeOk S f pe its := by
  induction its with
  | nil => intro _ _ _; trivial
  | text c r ih => intro pe hf ha; exact ih pe hf ha
  | elem h k r ihk ihr =>
    intro pe hf ha
    refine ⟨fun hv => ?_, ihr pe hf ha.rest⟩
    rw [projFile_eq_self f k _ hv ha.kids]
    exact ⟨fun h0 => h0, fun _ => rfl, ihk _ hv ha.kids⟩

/-- the first content item of a content list is character data or an element without a file set of its own -/
def headInherits : Items → Prop
  | .elem h _ _ => h.files = []
  | _ => True

/-- in every content list below (and at) this level the first item is character data or an element that inherits -/
def HeadsInherit : Items → Prop
  | .nil => True
  | .text _ r => HeadsInherit r
  | .elem _ k r => headInherits k ∧ HeadsInherit k ∧ HeadsInherit r

theorem projFile_head (f : Nat) (pe : List Nat) (k : Items) (hf : f ∈ pe) (hh : headInherits k) :
    (projFile f pe k = .nil → k = .nil) ∧ firstText (projFile f pe k) = firstText k := by
  cases k with
  | nil => exact ⟨fun _ => rfl, rfl⟩
  | text c r => exact ⟨fun h0 => (by cases h0), rfl⟩
  | elem h k2 r =>
    have hv : f ∈ effOf pe h := mem_effOf_of_have f pe h hf (Or.inl hh)
    rw [projFile_elem_pos f pe h k2 r hv]
    exact ⟨fun h0 => (by cases h0), rfl⟩

/-- a sufficient condition for the shape condition that does not mention `f`: the first content item of every element
inherits its file set (as the SHORT-NAME of an identifiable element does) -/
theorem ShapeOk_of_headsInherit (f : Nat) (its : Items) : ∀ pe : List Nat, HeadsInherit its → ShapeOk S f pe its := by
  induction its with
  | nil => intro _ _; trivial
  | text c r ih => intro pe ha; exact ih pe ha
  | elem h k r ihk ihr =>
    intro pe ⟨h1, h2, h3⟩
    refine ⟨fun hv => ?_, ihr pe h3⟩
    obtain ⟨a, b⟩ := projFile_head f (effOf pe h) k hv h1
    exact ⟨a, fun _ => b, ihk _ h2⟩

end

/-! ### a whole model; `ArxmlFile::serialize` -/

theorem effOf_self (h : Hdr) : effOf h.files h = h.files := by
  unfold effOf; split <;> rfl

/-- the view of the file `f` of a model: the root and everything attributed to `f` -/
def Model.view (m : Model) (f : Nat) : Items := projFile f m.rootHdr.files m.rootItems

theorem Model.rootItems_filesOk (m : Model) (hm : m.filesOk) : FilesOk m.rootHdr.files m.rootItems := by
  refine ⟨fun g hg => hg, ?_, trivial⟩
  rw [effOf_self]
  exact hm

section
variable (S : Spec) (V : Env)

/-- **C10** for a model: the text written for a file of the root is the text of the view of the file -/
theorem serForest_model_view (m : Model) (f : Nat) (indent : Nat) (inMixed : Bool) (hf : f ∈ m.rootHdr.files)
    (hs : ShapeOk S f m.rootHdr.files m.rootItems) :
    serForest S V (some f) indent inMixed m.rootItems = serForest S V none indent inMixed (m.view f) :=
  serForest_projFile S V f m.rootItems m.rootHdr.files indent inMixed hf hs

theorem serForest_model_pad (m : Model) (f : Nat) (indent : Nat) (inMixed : Bool) (hf : f ∈ m.rootHdr.files) :
    serForest S V (some f) indent inMixed m.rootItems =
      serForest S V none indent inMixed (projPad f m.rootHdr.files m.rootItems) :=
  serForest_projPad S V f m.rootItems m.rootHdr.files indent inMixed hf

/-- **C10** every element of a model whose root is in some file is in the view of at least one file of the model's root -/
theorem Model.covered (m : Model) (hm : m.filesOk) (hne : m.rootHdr.files ≠ []) (i : Nat) (hi : i ∈ m.rootItems.ids) :
    ∃ f ∈ m.rootHdr.files, i ∈ (m.view f).ids :=
  covered_ids m.rootHdr.files m.rootItems (m.rootItems_filesOk hm) hne i hi

/-- `ArxmlFile::serialize` (`opSerialize`) with, in place of the filtered text, the text — written without any file
filter — of the view `pr f (files of the root) (root forest)` -/
def opSerializeView (pr : Nat → List Nat → Items → Items) (w : World) (f : Nat) : World × String :=
  match (List.range w.models.length).find? (fun k => (w.models[k]!).files.any (·.id == f)) with
  | none => (w, "unsupported")
  | some k =>
    let m := w.models[k]!
    if !m.rootHdr.files.contains f then (w, "err")
    else match m.files.find? (·.id == f) with
      | none => (w, "unsupported")
      | some fl =>
        let value : CDv := .str (bs "http://autosar.org/schema/r4.0 " ++ V.fileOfVer fl.version)
        let root' := (setAttrHdr S V m.rootHdr V.atSchemaLocation value fl.version).getD m.rootHdr
        let m' := { m with rootHdr := root' }
        let head : Bytes := match fl.standalone with
          | some true => bs "<?xml version=\"1.0\" encoding=\"utf-8\" standalone=\"yes\"?>"
          | some false => bs "<?xml version=\"1.0\" encoding=\"utf-8\" standalone=\"no\"?>"
          | none => bs "<?xml version=\"1.0\" encoding=\"utf-8\"?>"
        match serForest S V none 0 false (pr f m'.rootHdr.files m'.rootItems) with
        | some t => (setModel w k m', "ok " ++ hexB (head ++ t))
        | none => (setModel w k m', "unsupported")

theorem setAttrHdr_ety_files (h : Hdr) (a : Nat) (v : CDv) (ver : Nat) :
    ((setAttrHdr S V h a v ver).getD h).ety = h.ety ∧ ((setAttrHdr S V h a v ver).getD h).files = h.files := by
  unfold setAttrHdr
  split
  · exact ⟨rfl, rfl⟩
  · split
    · exact ⟨rfl, rfl⟩
    · split
      · exact ⟨rfl, rfl⟩
      · split <;> exact ⟨rfl, rfl⟩

/-- **C10** `ArxmlFile::serialize`, every world: the text of the file is the text of the elements attributed to it
(place holders, written as nothing, for the others) -/
theorem opSerialize_eq_pad (w : World) (f : Nat) : opSerialize S V w f = opSerializeView S V projPad w f := by
  unfold opSerialize opSerializeView
  cases h1 : (List.range w.models.length).find? (fun k => (w.models[k]!).files.any (·.id == f)) with
  | none => rfl
  | some k =>
    dsimp only
    by_cases hc : (!(w.models[k]!).rootHdr.files.contains f) = true
    · rw [if_pos hc, if_pos hc]
    · rw [if_neg hc, if_neg hc]
      cases h3 : (w.models[k]!).files.find? (·.id == f) with
      | none => rfl
      | some fl =>
        dsimp only
        have hfiles := (setAttrHdr_ety_files S V (w.models[k]!).rootHdr V.atSchemaLocation
          (.str (bs "http://autosar.org/schema/r4.0 " ++ V.fileOfVer fl.version)) fl.version).2
        have hf : f ∈ (w.models[k]!).rootHdr.files := by simpa using hc
        rw [← hfiles] at hf
        rw [serForest_projPad S V f _ _ 0 false hf]
        rfl

/-- the shape condition looks at the file set and the type of a header only -/
theorem ShapeOk_hdr (f : Nat) (pe : List Nat) (h h' : Hdr) (k r : Items) (hf : h'.files = h.files) (he : h'.ety = h.ety)
    (hs : ShapeOk S f pe (.elem h k r)) : ShapeOk S f pe (.elem h' k r) := by
  unfold ShapeOk at hs ⊢
  rw [effOf_files pe h h' hf, he]
  exact hs

/-- **C10** `ArxmlFile::serialize`: in a world whose models satisfy the shape condition for `f`, the text of the file
is the text of its view — of exactly the elements attributed to it -/
theorem opSerialize_eq_view (w : World) (f : Nat)
    (hs : ∀ k : Nat, f ∈ (w.models[k]!).rootHdr.files → ShapeOk S f (w.models[k]!).rootHdr.files (w.models[k]!).rootItems) :
    opSerialize S V w f = opSerializeView S V projFile w f := by
  unfold opSerialize opSerializeView
  cases h1 : (List.range w.models.length).find? (fun k => (w.models[k]!).files.any (·.id == f)) with
  | none => rfl
  | some k =>
    dsimp only
    by_cases hc : (!(w.models[k]!).rootHdr.files.contains f) = true
    · rw [if_pos hc, if_pos hc]
    · rw [if_neg hc, if_neg hc]
      cases h3 : (w.models[k]!).files.find? (·.id == f) with
      | none => rfl
      | some fl =>
        dsimp only
        obtain ⟨hety, hfiles⟩ := setAttrHdr_ety_files S V (w.models[k]!).rootHdr V.atSchemaLocation
          (.str (bs "http://autosar.org/schema/r4.0 " ++ V.fileOfVer fl.version)) fl.version
        have hf : f ∈ (w.models[k]!).rootHdr.files := by simpa using hc
        have hs' := ShapeOk_hdr S f _ _ _ _ _ hfiles hety (hs k hf)
        rw [← hfiles] at hf hs'
        simp only [Model.rootItems]
        rw [serForest_projFile S V f _ _ 0 false hf hs']
        rfl

end

/-! ### the effective set of `EffIs` is the set `file_membership` reports (`effective` of the chain) -/

/-- effective set at the end of a chain that starts below a parent with effective set `pe` -/
def effDown (pe : List Nat) (c : List (Hdr × Items)) : List Nat := c.foldl (fun acc n => effOf acc n.1) pe

theorem effective_eq_effDown (c : List (Hdr × Items)) : effective c = effDown [] c := rfl

theorem EffIs.id_mem {h0 : Hdr} {E : List Nat} {its : Items} : ∀ {pe : List Nat}, EffIs h0 E pe its → h0.id ∈ its.ids := by
  induction its with
  | nil => intro _ h; exact h.elim
  | text _ r ih => intro pe h; exact ih h
  | elem hd k r ihk ihr =>
    intro pe h
    simp only [Items.ids, List.mem_cons, List.mem_append]
    rcases h with ⟨rfl, _⟩ | h | h
    · exact Or.inl rfl
    · exact Or.inr (Or.inl (ihk h))
    · exact Or.inr (Or.inr (ihr h))

/-- the node a chain ends in has the effective set computed down the chain -/
theorem chain_effIs (t : Nat) (its : Items) : ∀ (pe : List Nat) (c : List (Hdr × Items)), its.chain t = some c →
    ∃ h0 k0, c.getLast? = some (h0, k0) ∧ h0.id = t ∧ EffIs h0 (effDown pe c) pe its := by
  induction its with
  | nil => intro _ c hc; simp [Items.chain] at hc
  | text _ r ih => intro pe c hc; simp only [Items.chain] at hc; exact ih pe c hc
  | elem hd k r ihk ihr =>
    intro pe c hc
    simp only [Items.chain] at hc
    split at hc
    · rename_i heq
      simp at hc; subst hc
      exact ⟨hd, k, rfl, heq, Or.inl ⟨rfl, rfl⟩⟩
    · split at hc
      · rename_i c' hk
        simp at hc; subst hc
        obtain ⟨h0, k0, hl, hid, he⟩ := ihk (effOf pe hd) c' hk
        refine ⟨h0, k0, ?_, hid, Or.inr (Or.inl he)⟩
        cases c' with
        | nil => simp at hl
        | cons a as => simpa [List.getLast?_cons_cons] using hl
      · obtain ⟨h0, k0, hl, hid, he⟩ := ihr pe c hc
        exact ⟨h0, k0, hl, hid, Or.inr (Or.inr he)⟩

/-- with distinct ids, an id has one effective set -/
theorem EffIs_unique (h0 h1 : Hdr) (E E' : List Nat) (hid : h0.id = h1.id) (its : Items) : ∀ pe : List Nat,
    its.ids.Nodup → EffIs h0 E pe its → EffIs h1 E' pe its → E = E' := by
  induction its with
  | nil => intro _ _ h; exact h.elim
  | text _ r ih => intro pe hn a b; exact ih pe hn a b
  | elem hd k r ihk ihr =>
    intro pe hn a b
    simp only [Items.ids, List.nodup_cons, List.mem_append, not_or, List.nodup_append] at hn
    obtain ⟨⟨hnk, hnr⟩, hk, hr, hdis⟩ := hn
    rcases a with ⟨rfl, rfl⟩ | a | a <;> rcases b with ⟨rfl, rfl⟩ | b | b
    · rfl
    · exact absurd (hid ▸ b.id_mem) hnk
    · exact absurd (hid ▸ b.id_mem) hnr
    · exact absurd (hid ▸ a.id_mem) hnk
    · exact ihk _ hk a b
    · exact absurd (hid ▸ rfl) (hdis _ a.id_mem _ b.id_mem)
    · exact absurd (hid ▸ a.id_mem) hnr
    · exact absurd (hid ▸ rfl) (hdis _ b.id_mem _ a.id_mem)
    · exact ihr pe hr a b

/-- **C10** with distinct ids and the invariant: the element `t` (chain `c` from the top of `its`) is in the view of
`f` — is written into the text for `f` — iff `f` is in its effective file set -/
theorem mem_view_iff_effDown (f t : Nat) (pe : List Nat) (its : Items) (c : List (Hdr × Items))
    (hok : FilesOk pe its) (hn : its.ids.Nodup) (hc : its.chain t = some c) :
    t ∈ (projFile f pe its).ids ↔ f ∈ effDown pe c := by
  obtain ⟨h0, k0, _, hid, he⟩ := chain_effIs t its pe c hc
  rw [mem_projFile_ids_iff f t pe its hok]
  constructor
  · rintro ⟨h1, E, hid1, he1, hf⟩
    rw [← EffIs_unique h1 h0 E _ (hid1.trans hid.symm) its pe hn he1 he]
    exact hf
  · intro hf
    exact ⟨h0, _, hid, he, hf⟩

theorem effDown_root (h : Hdr) (k : Items) (c : List (Hdr × Items)) :
    effDown h.files ((h, k) :: c) = effective ((h, k) :: c) := by
  show effDown (effOf h.files h) c = effDown (effOf [] h) c
  rw [effOf_self, effOf_nil]

theorem chain_root_head (m : Model) (t : Nat) (c : List (Hdr × Items)) (hc : m.rootItems.chain t = some c) :
    ∃ c', c = (m.rootHdr, m.rootKids) :: c' := by
  simp only [Model.rootItems, Items.chain] at hc
  split at hc
  · simp at hc; exact ⟨[], hc.symm⟩
  · split at hc
    · simp at hc; exact ⟨_, hc.symm⟩
    · cases hc

/-- **C10** for a model (distinct ids, invariant): the element `t` is written into the text for `f` iff `f` is in the
file set `file_membership` reports for it (`effective` of its chain) -/
theorem Model.mem_view_iff (m : Model) (f t : Nat) (c : List (Hdr × Items)) (hm : m.filesOk) (hn : m.rootItems.ids.Nodup)
    (hc : m.rootItems.chain t = some c) : t ∈ (m.view f).ids ↔ f ∈ effective c := by
  obtain ⟨c', rfl⟩ := chain_root_head m t c hc
  rw [← effDown_root]
  exact mem_view_iff_effDown f t _ _ _ (m.rootItems_filesOk hm) hn hc

/-! ### the view with place holders has the same elements -/

theorem projPad_hdrs (f : Nat) (its : Items) : ∀ pe : List Nat, (projPad f pe its).hdrs = (projFile f pe its).hdrs := by
  induction its with
  | nil => intro _; rfl
  | text _ r ih => intro pe; exact ih pe
  | elem h k r ihk ihr =>
    intro pe
    by_cases hv : f ∈ effOf pe h
    · rw [projFile_elem_pos f pe h k r hv]
      simp only [projPad, hv, if_true, Items.hdrs, ihk, ihr]
    · rw [projFile_elem_neg f pe h k r hv]
      simp only [projPad, hv, if_false, Items.hdrs, ihr]

theorem projPad_ids (f : Nat) (pe : List Nat) (its : Items) : (projPad f pe its).ids = (projFile f pe its).ids := by
  rw [ids_eq_hdrs_map, ids_eq_hdrs_map, projPad_hdrs]

/-- a node of the view is a node of the tree, with the view of its content as content -/
theorem Occ_projFile (f : Nat) (h0 : Hdr) (k0 : Items) (its : Items) : ∀ pe : List Nat, Occ h0 k0 (projFile f pe its) →
    ∃ k pe', Occ h0 k its ∧ f ∈ effOf pe' h0 ∧ k0 = projFile f (effOf pe' h0) k := by
  induction its with
  | nil => intro _ h; exact h.elim
  | text _ r ih => intro pe h; exact ih pe h
  | elem h k r ihk ihr =>
    intro pe ho
    by_cases hv : f ∈ effOf pe h
    · rw [projFile_elem_pos f pe h k r hv] at ho
      rcases ho with ⟨rfl, rfl⟩ | ho | ho
      · exact ⟨k, pe, Or.inl ⟨rfl, rfl⟩, hv, rfl⟩
      · obtain ⟨k1, pe1, a, b, c⟩ := ihk _ ho
        exact ⟨k1, pe1, Or.inr (Or.inl a), b, c⟩
      · obtain ⟨k1, pe1, a, b, c⟩ := ihr pe ho
        exact ⟨k1, pe1, Or.inr (Or.inr a), b, c⟩
    · rw [projFile_elem_neg f pe h k r hv] at ho
      obtain ⟨k1, pe1, a, b, c⟩ := ihr pe ho
      exact ⟨k1, pe1, Or.inr (Or.inr a), b, c⟩

/-! ### every reachable state -/

section
variable (S : Spec) (V : Env) (rootAttrs : List (Nat × CDv))

/-- **C10** whatever the history of core operations: every element of a model whose root is in some file is in the view
of — is attributed to, and written into the text of — at least one file of the model -/
theorem reachable_covered (ops : List Op) (m : Model) (hm : m ∈ (run S V rootAttrs ops).models)
    (hne : m.rootHdr.files ≠ []) (i : Nat) (hi : i ∈ m.rootItems.ids) :
    ∃ f ∈ m.rootHdr.files, i ∈ (m.view f).ids :=
  m.covered ((run_inv S V rootAttrs ops).2 m hm) hne i hi

/-- **C10** whatever the history: the views of the files of a model hold, between them, exactly the elements of the model -/
theorem reachable_union (ops : List Op) (m : Model) (hm : m ∈ (run S V rootAttrs ops).models)
    (hne : m.rootHdr.files ≠ []) (i : Nat) :
    i ∈ m.rootItems.ids ↔ ∃ f ∈ m.rootHdr.files, i ∈ (m.view f).ids :=
  ids_union m.rootHdr.files m.rootItems (m.rootItems_filesOk ((run_inv S V rootAttrs ops).2 m hm)) hne i

end

/-! ### the shape condition is needed: an element of the view all of whose content belongs to other files

The parent (effective set {5, 7}) has the child 1 (inherits), whose only content is the element 2 with the local set {7}.
The invariant holds.  The text for file 5 is `<R>` newline `</R>`: the serializer sees that the STORED content list of 1 is
not empty; the view of file 5 holds 1 without content, which is written `<R/>`.  So the text for a file is the text of
its view only up to this choice of form; the ELEMENTS written are those of the view in every case
(`serForest_projPad`). -/

namespace SerFilesEx

def hdr (id name : Nat) (files : List Nat) : Hdr :=
  { id := id, name := name, ety := ⟨0, 0⟩, parent := .none, attrs := [], files := files, comment := none }

def hollow : Items := .elem (hdr 1 100 []) (.elem (hdr 2 101 [7]) .nil .nil) .nil

example : FilesOk [5, 7] hollow := by simp [FilesOk, hollow, hdr, effOf]
theorem hollow_view : projFile 5 [5, 7] hollow = .elem (hdr 1 100 []) .nil .nil := by
  simp [projFile, hollow, hdr, effOf]
example : ¬ ShapeOk toySpec 5 [5, 7] hollow := by
  intro h
  have := (h.1 (by simp [hdr, effOf])).1 (by simp [projFile, hdr, effOf])
  cases this
/-- the text for file 5 (`<R>` newline `</R>`) is not the text of the view of file 5 (`<R/>`) -/
example : serForest toySpec toyEnv (some 5) 0 true hollow ≠ serForest toySpec toyEnv none 0 true (projFile 5 [5, 7] hollow) := by
  rw [hollow_view]; decide
example : serForest toySpec toyEnv (some 5) 0 true hollow = some [60, 82, 62, 10, 60, 47, 82, 62] := by decide
example : serForest toySpec toyEnv none 0 true (.elem (hdr 1 100 []) .nil .nil) = some [60, 82, 47, 62] := by decide

end SerFilesEx

end AV.W
